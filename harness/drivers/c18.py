"""C18 — point-cloud filters and camera helpers match their brute-force definitions (Mode E).

Specs: PointCloud.tla (design: definitions, implementation-shaped operators, every ordering of every
small cloud, every call), PointCloudGen.tla (spec -> code table), PointCloudTrace.tla (code -> spec),
Camera.tla (pinhole model over rationals), CameraTrace.tla.

The driver only prepares integer inputs, runs the real pypose functions and logs what came back as
integers / reduced fractions (floats are snapped to the nearest lattice value within 64 eps, otherwise a
sentinel that can never be equal to an expected value).  All expected values are computed by TLC.
"""
import itertools
import json
import math
from fractions import Fraction

from vlib.core import pypose, MachineryError

BAD_INT = -999999          # logged for a float that is not an integer within 64 eps
BAD_FRAC = [0, 0]          # logged for a float that is not on the fraction lattice within 64 eps
ORDV = {1: 1, 2: 2, 0: float("inf")}


# ------------------------------------------------------------------------------------------ snapping
def _eps(dtype):
    return 2.0 ** -52 if dtype == "float64" else 2.0 ** -23


def snap_int(x, dtype):
    x = float(x)
    if not math.isfinite(x):
        return BAD_INT
    r = round(x)
    return int(r) if abs(x - r) <= 64 * _eps(dtype) * max(1.0, abs(x)) else BAD_INT


def snap_sq(v, dtype, scale=1.0):
    """squared value of a returned Euclidean distance, as the nearest integer (within 64 eps).
    `scale`: magnitude of the operands the value was computed from (results of a cancellation carry the
    rounding error of the operands, not of the result)"""
    v = float(v)
    if not math.isfinite(v):
        return -1
    s = v * v
    r = round(s)
    return int(r) if abs(s - r) <= 64 * _eps(dtype) * max(1.0, s, scale * scale) else -1


def snap_frac(x, maxden, dtype, scale=1.0):
    """nearest fraction with denominator <= maxden, accepted within 64 eps * max(1, |x|, scale)"""
    x = float(x)
    if not math.isfinite(x):
        return BAD_FRAC
    fx = Fraction(x)
    f = fx.limit_denominator(maxden)
    if abs(fx - f) <= Fraction(64 * _eps(dtype)) * max(1, abs(f), Fraction(scale)) and abs(f.numerator) < 2 ** 30:
        return [f.numerator, f.denominator]
    return BAD_FRAC


def frac_rows(t, maxden, dtype, scale=1.0):
    return [[snap_frac(v, maxden, dtype, scale) for v in row] for row in t.tolist()]


def int_rows(t, dtype):
    return [[snap_int(v, dtype) for v in row] for row in t.tolist()]


def tdtype(torch, name):
    return torch.float64 if name == "float64" else torch.float32


def permuted(rows, perm):
    """new[i] = old[perm[i]] (perm 1-based)"""
    return [rows[p - 1] for p in perm]


def raise_event(fn, ex):
    return {"act": "raise", "fn": fn, "msg": repr(ex)[:200]}


# ------------------------------------------------------------------------------------------ recipes -> traces
def _flat_batches(torch, t, keep):
    """list of the trailing-`keep`-dims slices of t in row-major batch order"""
    if t.dim() <= keep:
        return [t]
    nb = 1
    for b in t.shape[:-keep]:
        nb *= int(b)
    return list(t.reshape((nb,) + tuple(t.shape[-keep:])))


def run_knn(rc):
    import torch
    pp = pypose()
    dt = tdtype(torch, rc["dtype"])
    R0, Q0 = torch.tensor(rc["R"], dtype=dt), torch.tensor(rc["Q"], dtype=dt)
    calls = [(R0, Q0, [], [])]
    if rc.get("perm_r"):
        pr, pq = rc["perm_r"], rc["perm_q"]
        calls.append((R0[[p - 1 for p in pr]], Q0[[p - 1 for p in pq]], pr, pq))
    ev = []
    for R, Q, pr, pq in calls:
        try:
            out = pp.knn(R, Q, k=rc["k"], ord=ORDV[rc["ord"]], largest=rc["largest"], sorted=rc["sorted"])
            vals, idx = out.values, out.indices
        except Exception as ex:
            ev.append(raise_event("knn", ex))
            continue
        bshape = vals.shape[:-2]
        Rb = R.expand(tuple(bshape) + tuple(R.shape[-2:]))
        Qb = Q.expand(tuple(bshape) + tuple(Q.shape[-2:]))
        for r, q, v, ix in zip(_flat_batches(torch, Rb, 2), _flat_batches(torch, Qb, 2),
                               _flat_batches(torch, vals, 2), _flat_batches(torch, idx, 2)):
            if rc["ord"] == 2:
                lv = [[snap_sq(x, rc["dtype"]) for x in row] for row in v.tolist()]
            else:
                lv = [[snap_int(x, rc["dtype"]) for x in row] for row in v.tolist()]
            ev.append({"act": "knn", "R": r.long().tolist(), "Q": q.long().tolist(), "pd": int(R.shape[-1]),
                       "k": rc["k"], "ord": rc["ord"], "largest": rc["largest"], "sorted": rc["sorted"],
                       "vals": lv, "idx": [[int(j) + 1 for j in row] for row in ix.tolist()],
                       "perm_r": list(pr), "perm_q": list(pq)})
    return ev


def run_nbr(rc):
    import torch
    pp = pypose()
    dt = tdtype(torch, rc["dtype"])
    D = len(rc["P"][0])
    calls = [(rc["P"], [])] + ([(permuted(rc["P"], rc["perm"]), rc["perm"])] if rc.get("perm") else [])
    ev = []
    for rows, perm in calls:
        P = torch.tensor(rows, dtype=dt)
        kw = {} if (rc["pd"] == D and rc.get("pdim_default", True)) else {"pdim": rc["pd"]}
        try:
            if rc["return_mask"]:
                kept, mask = pp.nbr_filter(P, rc["n"], rc["rh"] / 2.0, ord=ORDV[rc["ord"]], return_mask=True, **kw)
                mask = [bool(b) for b in mask.tolist()]
            else:
                kept, mask = pp.nbr_filter(P, rc["n"], rc["rh"] / 2.0, ord=ORDV[rc["ord"]], **kw), []
        except Exception as ex:
            ev.append(raise_event("nbr_filter", ex))
            continue
        ev.append({"act": "nbr", "P": rows, "pd": rc["pd"], "n": rc["n"], "rh": rc["rh"], "ord": rc["ord"],
                   "has_mask": rc["return_mask"], "mask": mask, "kept": int_rows(kept.reshape(-1, D), rc["dtype"]),
                   "perm": list(perm)})
    return ev


def run_knnf(rc):
    import torch
    pp = pypose()
    dt = tdtype(torch, rc["dtype"])
    P0 = torch.tensor(rc["P"], dtype=dt)
    D, N = P0.shape[-1], P0.shape[-2]
    calls = [(P0, [])]
    if rc.get("perm"):
        calls.append((P0[[p - 1 for p in rc["perm"]]], rc["perm"]))
    ev = []
    for P, perm in calls:
        kw = {} if (rc["pd"] == D and rc.get("pdim_default", True)) else {"pdim": rc["pd"]}
        if rc["rh"] is not None:
            kw["radius"] = rc["rh"] / 2.0
        try:
            out = pp.knn_filter(P, rc["k"], ord=ORDV[rc["ord"]], **kw)
        except Exception as ex:
            ev.append(raise_event("knn_filter", ex))
            continue
        if rc["rh"] is None and tuple(out.shape[:-2]) != tuple(P.shape[:-2]):
            ev.append(raise_event("knn_filter", ValueError("batch shape %s for input %s" % (out.shape, P.shape))))
            continue
        outs = _flat_batches(torch, out, 2) if rc["rh"] is None else [out.reshape(-1, D)]
        for p, o in zip(_flat_batches(torch, P, 2), outs):
            ev.append({"act": "knnf", "P": p.long().tolist(), "pd": rc["pd"], "k": rc["k"],
                       "rh": -1 if rc["rh"] is None else rc["rh"], "ord": rc["ord"],
                       "rows": frac_rows(o, max(N, 1), rc["dtype"]), "perm": list(perm)})
    return ev


def run_vox(rc, notes=None):
    import torch
    pp = pypose()
    dt = tdtype(torch, rc["dtype"])
    D, N = len(rc["P"][0]), len(rc["P"])
    calls = [(rc["P"], [])] + ([(permuted(rc["P"], rc["perm"]), rc["perm"])] if rc.get("perm") else [])
    ev = []
    for c, (rows, perm) in enumerate(calls):
        P = torch.tensor(rows, dtype=dt)
        torch.manual_seed(rc.get("seed", 0) + c)
        try:
            out = pp.voxel_filter(P, [v / 2.0 for v in rc["vs"]], random=rc["random"])
        except Exception as ex:
            ev.append(raise_event("voxel_filter", ex))
            continue
        if out.dim() == 1 and out.numel() == D:
            # a single voxel returned as a bare (D,) point: still "one point per occupied voxel"; the
            # documented (M, D) shape is not part of the statement -> recorded, not judged
            if notes is not None:
                notes.add("voxel_filter(random=%s) returned shape (D,) instead of (1, D) for a single occupied voxel "
                          "(not judged)" % rc["random"])
            out = out.reshape(1, D)
        ev.append({"act": "vox", "P": rows, "vs": rc["vs"], "random": rc["random"],
                   "rows": frac_rows(out.reshape(-1, D), max(N, 1), rc["dtype"]), "perm": list(perm)})
    return ev


def run_rand(rc):
    import torch
    pp = pypose()
    dt = tdtype(torch, rc["dtype"])
    P = torch.tensor(rc["P"], dtype=dt)
    torch.manual_seed(rc.get("seed", 0))
    try:
        out = pp.random_filter(P, rc["num"])
    except Exception as ex:
        return [raise_event("random_filter", ex)]
    if tuple(out.shape[:-2]) != tuple(P.shape[:-2]):
        return [raise_event("random_filter", ValueError("batch shape %s for input %s" % (out.shape, P.shape)))]
    return [{"act": "rand", "P": p.long().tolist(), "num": rc["num"], "rows": int_rows(o, rc["dtype"])}
            for p, o in zip(_flat_batches(torch, P, 2), _flat_batches(torch, out, 2))]


# ---- camera
def hurwitz2():
    qs = []
    for k in range(4):
        for s in (2, -2):
            q = [0, 0, 0, 0]
            q[k] = s
            qs.append(q)
    qs += [list(q) for q in itertools.product((1, -1), repeat=4)]
    return qs


def _K(torch, k4, dt):
    fx, fy, cx, cy = [Fraction(a, b) for a, b in k4]
    return torch.tensor([[float(fx), 0.0, float(cx)], [0.0, float(fy), float(cy)], [0.0, 0.0, 1.0]], dtype=dt)


def run_project(rc):
    """point2pixel -> pixel2point(depth of the camera frame) -> reprojerr on produced and displaced pixels.
    rc.cams = list of B cameras [K4, q2 or None, t]; rc.P = N x 3 (shared) or B x N x 3; B = 1 -> unbatched call."""
    import torch
    pp = pypose()
    dt = tdtype(torch, rc["dtype"])
    cams, md, name = rc["cams"], rc["maxden"], rc["dtype"]
    B = len(cams)
    P = torch.tensor(rc["P"], dtype=dt)
    d = torch.tensor(rc["d"], dtype=dt)                       # N x 2 integer displacements
    if B == 1 and not rc.get("force_batch"):
        K = _K(torch, cams[0][0], dt)
        T = None if cams[0][1] is None else pp.SE3(torch.tensor(
            [float(v) for v in cams[0][2]] + [v / 2.0 for v in cams[0][1]], dtype=dt))
    else:
        K = torch.stack([_K(torch, c[0], dt) for c in cams])
        if any(c[1] is None for c in cams):
            T = None
        else:
            T = pp.SE3(torch.tensor([[float(v) for v in c[2]] + [v / 2.0 for v in c[1]] for c in cams], dtype=dt))
    ev = []
    try:
        pix = pp.point2pixel(P, K, T)
        cam = P if T is None else (T.unsqueeze(-2) @ P if T.dim() > 1 else T @ P)
        cam = cam.expand(pix.shape[:-1] + (3,))
        err0 = pp.reprojerr(P, pix, K, T, reduction="none")
        pd_ = pix + d
        e_none = pp.reprojerr(P, pd_, K, T, reduction="none")
        e_sum = pp.reprojerr(P, pd_, K, T, reduction="sum")
        e_norm = pp.reprojerr(P, pd_, K, T, reduction="norm")
    except Exception as ex:
        return [raise_event("point2pixel/reprojerr", ex)]
    back = None
    try:
        back = pp.pixel2point(pix, cam[..., 2], K)
        if tuple(back.shape) != tuple(cam.shape):
            raise ValueError("shape %s, expected %s" % (tuple(back.shape), tuple(cam.shape)))
    except Exception as ex:
        ev.append(raise_event("pixel2point", ex))
        back = None
    Pb = P.expand(pix.shape[:-1] + (3,))
    # operand magnitudes: reprojerr subtracts pixels; pixel2point computes (u - cx) * z / f
    sc_pix = float(pix.abs().max()) + float(d.abs().max()) + 1.0
    fmin = min(abs(Fraction(a, b)) for c in cams for a, b in c[0][:2])
    cmax = max(abs(Fraction(a, b)) for c in cams for a, b in c[0][2:])
    sc_back = (sc_pix + float(cmax)) * (float(cam[..., 2].abs().max()) + 1.0) / float(fmin)
    nb = max(B, 1) if pix.dim() > 2 else 1
    for b in range(nb):
        sl = (lambda t: t[b]) if pix.dim() > 2 else (lambda t: t)
        c = cams[b] if len(cams) > 1 else cams[0]
        ev.append({"act": "project", "P": sl(Pb).long().tolist(), "K": c[0],
                   "q2": [] if c[1] is None else c[1], "t": [] if c[1] is None else c[2],
                   "pix": frac_rows(sl(pix), md, name),
                   "has_back": back is not None,
                   "back": frac_rows(sl(back), md, name, sc_back) if back is not None else [],
                   "err0": frac_rows(sl(err0), md, name, sc_pix), "d": rc["d"],
                   "err_none": frac_rows(sl(e_none), md, name, sc_pix),
                   "err_sum": [snap_frac(v, md, name, 2 * sc_pix) for v in sl(e_sum).tolist()],
                   "err_norm2": [[snap_sq(v, name, sc_pix), 1] if snap_sq(v, name, sc_pix) >= 0 else BAD_FRAC
                                 for v in sl(e_norm).tolist()]})
    return ev


def run_pixelfirst(rc):
    import torch
    pp = pypose()
    dt = tdtype(torch, rc["dtype"])
    K = _K(torch, rc["K"], dt)
    px = torch.tensor(rc["pixq"], dtype=dt) / 4.0
    if rc.get("intpix"):          # integer pixel coordinates (image grid / detector output) as an integer tensor
        px = torch.tensor([[a // 4, b // 4] for a, b in rc["pixq"]], dtype=torch.int64)
    z = torch.tensor(rc["z2"], dtype=dt) / 2.0
    try:
        pts = pp.pixel2point(px, z, K)
        pb = pp.point2pixel(pts, K)
    except Exception as ex:
        return [raise_event("pixel2point", ex)]
    sc = float(px.abs().max()) + 2 * float(max(abs(Fraction(a, b)) for a, b in rc["K"][2:])) + 1.0
    return [{"act": "pixelfirst", "K": rc["K"], "pixq": rc["pixq"], "z2": rc["z2"],
             "pts": frac_rows(pts, rc["maxden"], rc["dtype"]),
             "pix_back": frac_rows(pb, rc["maxden"], rc["dtype"], sc)}]


def run_homo(rc):
    import torch
    pp = pypose()
    dt = tdtype(torch, rc["dtype"])
    P = torch.tensor(rc["P"], dtype=dt)
    try:
        h = pp.cart2homo(P)
        back = pp.homo2cart(h * (rc["scale4"] / 4.0))
    except Exception as ex:
        return [raise_event("cart2homo/homo2cart", ex)]
    D = P.shape[-1]
    return [{"act": "homo", "P": p.long().tolist(), "homo": frac_rows(hh, 1, rc["dtype"]),
             "back": frac_rows(bb, 1, rc["dtype"])}
            for p, hh, bb in zip(_flat_batches(torch, P, 2), _flat_batches(torch, h, 2), _flat_batches(torch, back, 2))]


RUNNERS = {"knn": run_knn, "nbr_filter": run_nbr, "knn_filter": run_knnf, "voxel_filter": run_vox,
           "random_filter": run_rand, "project": run_project, "pixelfirst": run_pixelfirst, "homo": run_homo}
CAMERA = ("project", "pixelfirst", "homo")


def make_trace(rc, notes=None):
    ev = run_vox(rc, notes) if rc["fn"] == "voxel_filter" else RUNNERS[rc["fn"]](rc)
    return {"cfg": {"fn": rc["fn"]}, "ev": ev}       # (recipes may hold None, which TLC's JSON reader rejects)


# ------------------------------------------------------------------------------------------ input generation
def rand_cloud(rng, N, D, lo, hi, distinct_tag=True):
    rows = [[rng.randint(lo, hi) for _ in range(D)] for _ in range(N)]
    return rows


def with_tags(rng, rows, lo, hi):
    """append a feature channel that makes all rows pairwise distinct"""
    tags = rng.sample(range(lo, hi + 1), len(rows)) if hi - lo + 1 >= len(rows) else list(range(len(rows)))
    return [r + [t] for r, t in zip(rows, tags)]


def rand_perm(rng, n):
    p = list(range(1, n + 1))
    rng.shuffle(p)
    return p


def outlier_recipes(ctx):
    """a tight cluster plus far outliers; the outliers are put at EVERY array position"""
    rng, out = ctx.rng, []
    for pd in (1, 2, 3):
        for m in ((3, 4) if ctx.quick else (3, 4, 5, 6)):
            for nout in (1, 2):
                for feat in (0, 1, 2):
                    if ctx.quick and (pd + m + nout + feat) % 2:
                        continue
                    cells = list(itertools.product(range(0, 4), repeat=pd))
                    if len(cells) < m:
                        continue
                    cluster = [list(c) for c in rng.sample(cells, m)]
                    outl = [[60 * (i + 1) * (1 if (i + c) % 2 else -1) + rng.randint(0, 5) for c in range(pd)]
                            for i in range(nout)]
                    base = [r + [rng.randint(-9, 9) for _ in range(feat)] for r in cluster + outl]
                    N = m + nout
                    for pos in itertools.combinations(range(N), nout):
                        # ordering with the outliers at positions `pos`
                        perm, ci, oi = [], iter(range(1, m + 1)), iter(range(m + 1, N + 1))
                        for i in range(N):
                            perm.append(next(oi) if i in pos else next(ci))
                        last = pos == tuple(range(m, N))
                        cls = "outlier_last" if last else "outlier_not_last"
                        o = rng.choice((1, 2, 0))
                        dtype = rng.choice(("float64", "float32"))
                        k = rng.randint(1, m - 1)
                        rh = 2 * rng.randint(6, 12)
                        common = {"P": base, "pd": pd, "ord": o, "dtype": dtype, "perm": perm, "cls": cls,
                                  "pdim_default": feat == 0}
                        out.append(dict(common, fn="knn_filter", k=k, rh=rh))
                        out.append(dict(common, fn="knn_filter", k=k, rh=None))
                        out.append(dict(common, fn="nbr_filter", n=k, rh=rh, return_mask=bool(rng.getrandbits(1))))
                        if pos[0] % 2 == 0:
                            out.append(dict(common, fn="voxel_filter", vs=[rng.choice((1, 2, 3, 4, 10)) for _ in range(pd)],
                                            random=False, seed=rng.randint(0, 10 ** 6)))
    return out


SIZES_Q = [1, 2, 3, 4, 5, 7, 10, 16, 25, 40, 64, 100, 150, 300]
SIZES_T = [1, 2, 3, 4, 5, 6, 7, 8, 10, 12, 16, 20, 25, 32, 40, 50, 64, 80, 100, 128, 150, 200, 250, 300]


def random_recipes(ctx):
    rng, out = ctx.rng, []
    reps = 1 if ctx.quick else 3
    for N in (SIZES_Q if ctx.quick else SIZES_T):
        for rep in range(reps * (3 if N <= 16 else 1)):
            D = rng.randint(1, 6)
            pd = rng.randint(1, D)
            dtype = "float32" if (N <= 16 and rng.random() < 0.4) else "float64"
            span = 50 if dtype == "float32" else (40 if N <= 40 else 400)
            if rng.random() < 0.2:
                span = 3                                        # dense: many ties and duplicates (soundness)
            P = rand_cloud(rng, N, D, -span, span)
            o = rng.choice((1, 2, 0))
            perm = rand_perm(rng, N)
            big = N > 64
            common = {"P": P, "pd": pd, "ord": o, "dtype": dtype, "perm": None if big and rep else perm,
                      "cls": "random", "pdim_default": bool(rng.getrandbits(1))}
            # typical neighbour distance -> radii that split the cloud
            rh = max(0, int(2 * span * (0.8 + rng.random()) * (1.5 / max(N, 2)) ** (1.0 / pd)) * (pd if o == 1 else 1))
            kmax = N - 1
            k = rng.randint(0, min(kmax, 6))
            out.append(dict(common, fn="knn_filter", k=k, rh=None))
            out.append(dict(common, fn="knn_filter", k=min(k, kmax), rh=rng.choice((rh, 2 * rh, 4 * rh + 1))))
            out.append(dict(common, fn="nbr_filter", n=rng.randint(0, 4), rh=rng.choice((rh, 2 * rh + 1, 0)),
                            return_mask=bool(rng.getrandbits(1))))
            if N > 256:         # large clouds (beyond any internal block size): several thresholds around the typical count
                pd2 = min(pd, 2)
                rh2 = max(1, int(2 * span * (1.5 / N) ** (1.0 / pd2))) * (pd2 if o == 1 else 1)
                for n_ in (1, 2, 3):
                    out.append(dict(common, pd=pd2, fn="nbr_filter", n=n_, rh=rh2 * rng.choice((1, 2)), return_mask=bool(n_ % 2)))
            vd = rng.randint(1, D)
            out.append({"fn": "voxel_filter", "P": P, "vs": [rng.choice((1, 2, 3, 5, 8, 20, 64, 2 * span + 1))
                                                              for _ in range(vd)],
                        "random": False, "dtype": dtype, "perm": perm, "seed": rng.randint(0, 10 ** 6)})
            out.append({"fn": "voxel_filter", "P": P, "vs": [rng.choice((2, 3, 8, 20, 64, 4 * span + 2)) for _ in range(vd)],
                        "random": True, "dtype": dtype, "perm": None, "seed": rng.randint(0, 10 ** 6)})
            Pt = with_tags(rng, P, -1000, 1000)
            out.append({"fn": "random_filter", "P": Pt, "num": rng.choice((0, 1, N, rng.randint(0, N))),
                        "dtype": dtype, "seed": rng.randint(0, 10 ** 6)})
            # knn: reference and neighbour sets of different sizes
            N1 = rng.choice((1, 2, 5, min(N, 20)))
            R = rand_cloud(rng, N1, D, -span, span)
            kk = rng.randint(1, min(N, 8))
            out.append({"fn": "knn", "R": R, "Q": P, "k": kk, "ord": o, "largest": rng.random() < 0.2,
                        "sorted": rng.random() < 0.85, "dtype": dtype,
                        "perm_r": rand_perm(rng, N1), "perm_q": perm})
            if N <= 40:
                out.append({"fn": "knn", "R": P, "Q": P, "k": N, "ord": o, "largest": False, "sorted": True,
                            "dtype": dtype, "perm_r": perm, "perm_q": perm})
    return out


def far_recipes(ctx):
    """Clouds far from the origin (coordinates ~ 3000 +- 20, exact in float32) with more than 25 points: distances must
    come from coordinate differences, not from a |a|^2 + |b|^2 - 2ab expansion (which loses everything in float32)."""
    rng, out = ctx.rng, []
    for dtype in ("float32", "float64"):
        for rep in range(2 if ctx.quick else 8):
            D = rng.randint(1, 4)
            N = rng.choice((26, 30, 48))
            off = [rng.choice((3000, -3000, 12000)) for _ in range(D)]
            P = [[off[c] + rng.randint(-20, 20) for c in range(D)] for _ in range(N)]
            R = [[off[c] + rng.randint(-20, 20) for c in range(D)] for _ in range(rng.choice((3, 27)))]
            perm = rand_perm(rng, N)
            for o in (2, 1, 0):
                out.append({"fn": "knn", "R": R, "Q": P, "k": rng.randint(1, 4), "ord": o, "largest": False,
                            "sorted": True, "dtype": dtype, "perm_r": rand_perm(rng, len(R)), "perm_q": perm})
            out.append({"fn": "knn_filter", "P": P, "pd": D, "ord": 2, "dtype": dtype, "perm": perm, "cls": "far",
                        "pdim_default": True, "k": 2, "rh": None})
            out.append({"fn": "nbr_filter", "P": P, "pd": D, "ord": 2, "dtype": dtype, "perm": perm, "cls": "far",
                        "pdim_default": True, "n": 2, "rh": 16, "return_mask": True})
    return out


def edge_recipes(ctx):
    rng, out = ctx.rng, []
    for dtype in ("float64", "float32"):
        for D in (1, 3, 6):
            one = [[rng.randint(-5, 5) for _ in range(D)]]
            for o in (1, 2, 0):
                out.append({"fn": "knn_filter", "P": one, "pd": D, "k": 0, "rh": None, "ord": o, "dtype": dtype, "cls": "N=1"})
                out.append({"fn": "knn_filter", "P": one, "pd": D, "k": 0, "rh": 2, "ord": o, "dtype": dtype, "cls": "N=1"})
                out.append({"fn": "nbr_filter", "P": one, "pd": D, "n": 0, "rh": 2, "ord": o, "return_mask": True,
                            "dtype": dtype, "cls": "N=1"})
                out.append({"fn": "nbr_filter", "P": one, "pd": D, "n": 1, "rh": 2, "ord": o, "return_mask": True,
                            "dtype": dtype, "cls": "N=1"})
                out.append({"fn": "knn", "R": one, "Q": one, "k": 1, "ord": o, "largest": False, "sorted": True,
                            "dtype": dtype})
            for rnd in (False, True):
                out.append({"fn": "voxel_filter", "P": one, "vs": [3] * D, "random": rnd, "dtype": dtype, "seed": 1})
            out.append({"fn": "random_filter", "P": one, "num": 1, "dtype": dtype, "seed": 1})
            out.append({"fn": "random_filter", "P": one, "num": 0, "dtype": dtype, "seed": 1})
            # all points in one voxel / every point its own voxel
            P = with_tags(rng, rand_cloud(rng, 6, D, 0, 7), -20, 20)
            for rnd in (False, True):
                out.append({"fn": "voxel_filter", "P": P, "vs": [40] * D, "random": rnd, "dtype": dtype, "seed": 2})
                out.append({"fn": "voxel_filter", "P": P, "vs": [1] * D, "random": rnd, "dtype": dtype, "seed": 3})
            # k = N-1 (every point averages the whole cloud), n beyond the cloud size
            out.append({"fn": "knn_filter", "P": P, "pd": D, "k": 5, "rh": None, "ord": 2, "dtype": dtype, "cls": "k=N-1",
                        "perm": rand_perm(rng, 6)})
            out.append({"fn": "knn_filter", "P": P, "pd": D, "k": 5, "rh": 400, "ord": 1, "dtype": dtype, "cls": "k=N-1",
                        "perm": rand_perm(rng, 6)})
            out.append({"fn": "nbr_filter", "P": P, "pd": D, "n": 6, "rh": 400, "ord": 2, "return_mask": True,
                        "dtype": dtype, "cls": "n>N-1"})
    return out


def batched_recipes(ctx):
    rng, out = ctx.rng, []

    def nest(shape, N, D, span):
        if not shape:
            return rand_cloud(rng, N, D, -span, span)
        return [nest(shape[1:], N, D, span) for _ in range(shape[0])]

    shapes = [((2,), (2,)), ((2, 3), (2, 3)), ((2, 1), (3,)), ((), (4,)), ((3,), ()), ((1, 2), (2, 1))]
    for rb, qb in shapes:
        for _ in range(1 if ctx.quick else 3):
            D, N1, N2 = rng.randint(1, 4), rng.randint(1, 5), rng.randint(2, 7)
            out.append({"fn": "knn", "R": nest(rb, N1, D, 30), "Q": nest(qb, N2, D, 30), "k": rng.randint(1, N2),
                        "ord": rng.choice((1, 2, 0)), "largest": False, "sorted": True,
                        "dtype": rng.choice(("float64", "float32")), "cls": "batched"})
    for bs in ((2,), (3, 2), (1,), (2, 1, 2)):
        for _ in range(1 if ctx.quick else 3):
            D = rng.randint(1, 5)
            pd, N = rng.randint(1, D), rng.randint(2, 9)
            out.append({"fn": "knn_filter", "P": nest(bs, N, D, 30), "pd": pd, "k": rng.randint(0, N - 1), "rh": None,
                        "ord": rng.choice((1, 2, 0)), "dtype": rng.choice(("float64", "float32")), "cls": "batched",
                        "pdim_default": False})
            Pb = nest(bs, N, D, 30)

            def tag(x):
                return with_tags(rng, x, -99, 99) if isinstance(x[0][0], int) else [tag(y) for y in x]
            out.append({"fn": "random_filter", "P": tag(Pb), "num": rng.randint(0, N), "dtype": "float64",
                        "seed": rng.randint(0, 999), "cls": "batched"})
    return out


def camera_recipes(ctx):
    rng, out = ctx.rng, []
    H = hurwitz2()

    def k4(pow2):
        f = (4, 8, 2, 16) if pow2 else (2, 3, 4, 5, 6, 10)
        sgn = lambda: rng.choice((1, 1, -1))
        return [[sgn() * rng.choice(f), 4], [sgn() * rng.choice(f), 4], [rng.choice((0, 1, 9, 18, -5)), 4],
                [rng.choice((0, 2, 7, 13, -9)), 4]]

    def red(k):
        return [[Fraction(a, b).numerator, Fraction(a, b).denominator] for a, b in k]

    def cam_depth(c, p):
        # exact integer depth of p in the camera frame (for choosing inputs with non-zero depth only)
        if c[1] is None:
            return p[2]
        import numpy as np
        x, y, z, w = [v / 2.0 for v in c[1]]
        R = np.array([[1 - 2 * (y * y + z * z), 2 * (x * y - z * w), 2 * (x * z + y * w)],
                      [2 * (x * y + z * w), 1 - 2 * (x * x + z * z), 2 * (y * z - x * w)],
                      [2 * (x * z - y * w), 2 * (y * z + x * w), 1 - 2 * (x * x + y * y)]])
        return int(round(float(R[2] @ np.array(p, dtype=float)) + c[2][2]))

    def points(cs, n, pow2):
        # all admissible points of the 13^3 box (a set of cameras may admit none: then None, and the caller redraws the cameras)
        box = [[a, b, c] for a in range(-6, 7) for b in range(-6, 7) for c in range(-6, 7)]
        ok = [p for p in box
              if all(z != 0 and (not pow2 or abs(z) in (1, 2, 4, 8)) for z in (cam_depth(c, p) for c in cs))]
        if not ok:
            return None
        return [list(rng.choice(ok)) for _ in range(n)]

    def cam(pow2, ext):
        K = red(k4(pow2))
        if not ext:
            return [K, None, None]
        return [K, rng.choice(H), [rng.randint(-4, 4) for _ in range(3)]]

    n_single = 40 if ctx.quick else 200
    for i in range(n_single):
        dtype = "float32" if i % 3 == 0 else "float64"
        pow2 = dtype == "float32"
        n = rng.randint(1, 6)
        while True:
            c = cam(pow2, ext=i % 4 != 0)
            P1 = points([c], n, pow2)
            if P1 is not None:
                break
        out.append({"fn": "project", "cams": [c], "P": P1,
                    "d": [[rng.choice((0, 0, 1, -1, 2, -3)), rng.choice((0, 0, 1, -1, -2, 3))] for _ in range(n)],
                    "dtype": dtype, "maxden": 16 if pow2 else 256, "cls": "single"})
    for i in range(12 if ctx.quick else 60):
        dtype = "float32" if i % 3 == 0 else "float64"
        pow2 = dtype == "float32"
        B, n = rng.choice((2, 3)), rng.randint(1, 4)
        if i % 4 == 3:
            n = B                                   # batch size equal to the number of points
        ext = i % 2 == 0
        while True:
            cs = [cam(pow2, ext) for _ in range(B)]
            if i % 3 == 1:
                P = [points([c], n, pow2) for c in cs]  # B x N x 3
                if all(x is not None for x in P):
                    break
            else:
                P = points(cs, n, pow2)                 # shared N x 3, broadcast over cameras
                if P is not None:
                    break
        out.append({"fn": "project", "cams": cs, "P": P, "force_batch": True,
                    "d": [[rng.choice((0, 1, -2)), rng.choice((0, -1, 3))] for _ in range(n)],
                    "dtype": dtype, "maxden": 16 if pow2 else 256, "cls": "batched_intrinsics"})
    for i in range(12 if ctx.quick else 60):
        dtype = "float32" if i % 3 == 0 else "float64"
        pow2 = dtype == "float32"
        n = rng.randint(1, 5)
        out.append({"fn": "pixelfirst", "K": red(k4(pow2)), "pixq": [[rng.randint(-40, 40), rng.randint(-40, 40)] for _ in range(n)],
                    "z2": [rng.choice((1, 2, 4, 8, -2, -4) if pow2 else (1, 2, 3, 5, 6, 7, -3, -4, 12)) for _ in range(n)],
                    "dtype": dtype, "maxden": 64 if pow2 else 1024, "cls": "single"})
        if i % 2 == 0:            # the same with integer-typed pixels (non-integer intrinsics must survive)
            rc2 = dict(out[-1], pixq=[[4 * rng.randint(-10, 10), 4 * rng.randint(-10, 10)] for _ in range(n)], intpix=True,
                       cls="intpix")
            out.append(rc2)
    for D in range(1, 7):
        for dtype in ("float64", "float32"):
            for bs in ((), (2,), (2, 2)):
                def nest(shape):
                    if not shape:
                        return rand_cloud(rng, rng.randint(1, 4) if not bs else 3, D, -50, 50)
                    return [nest(shape[1:]) for _ in range(shape[0])]
                out.append({"fn": "homo", "P": nest(bs), "scale4": rng.choice((4, 8, -4, 3, -10, 1)), "dtype": dtype,
                            "cls": "single" if not bs else "batched"})
                # homogeneous coordinates far below eps (but far above the smallest normal number): a global power-of-two
                # factor cancels exactly, whatever its size
                tiny = 2.0 ** (-30 if dtype == "float32" else -70)
                out.append({"fn": "homo", "P": nest(bs), "scale4": rng.choice((4 * tiny, -4 * tiny, 12 * tiny)), "dtype": dtype,
                            "cls": "tiny_w"})
    return out


# ------------------------------------------------------------------------------------------ judging
FN_OF_CLAUSE = {"pixel": "point2pixel", "pixel2point_inverse": "pixel2point", "pixel2point": "pixel2point",
                "point2pixel_inverse": "point2pixel", "reprojerr_nonzero": "reprojerr", "reprojerr_none": "reprojerr",
                "reprojerr_sum": "reprojerr", "reprojerr_norm": "reprojerr", "cart2homo": "cart2homo",
                "homo2cart": "homo2cart"}


def variant_of(rc):
    fn = rc["fn"]
    if fn == "knn_filter":
        v = "radius" if rc["rh"] is not None else "noradius"
        if rc.get("cls") == "batched":
            v += "/batched"
        return v
    if fn == "voxel_filter":
        return ("random" if rc["random"] else "centroid") + ("/N=1" if len(rc["P"]) == 1 else "")
    if fn == "knn":
        return "ord%s" % {1: "1", 2: "2", 0: "inf"}[rc["ord"]] + ("/largest" if rc["largest"] else "") + \
               ("/batched" if rc.get("cls") == "batched" else "")
    if fn == "nbr_filter":
        return "ord%s" % {1: "1", 2: "2", 0: "inf"}[rc["ord"]]
    if fn in CAMERA:
        return rc.get("cls", "single")
    return rc.get("cls", "any")


def judge(ctx, recipes, traces, verdicts):
    for rc, tr, v in zip(recipes, traces, verdicts):
        if v == "ok":
            continue
        clause, at = v.split("@")
        if clause in ("perm_claim", "unknown_event", "missing_base_call") or clause.endswith("_unjudged_input"):
            raise MachineryError("harness produced an input the spec does not judge: %s for %s" % (v, rc))
        e = tr["ev"][int(at) - 1]
        fn = rc["fn"]
        if fn in CAMERA:
            fn = e.get("fn", fn) if clause == "raised" else FN_OF_CLAUSE.get(clause, fn)
        key = "%s/%s/%s" % (fn, clause, variant_of(rc))
        brief = {k: (val if len(json.dumps(val)) < 300 else "...") for k, val in e.items()}
        ctx.violation(key, "%s: clause %s at event %s of the recorded run; event: %s" % (fn, clause, at, brief),
                      {"recipe": rc, "verdict": v})


def cover(ctx, rc):
    fn = rc["fn"]
    if fn in CAMERA:
        ctx.cover("%s:%s:%s:%s" % (fn, rc["dtype"], rc.get("cls"), json.dumps(rc.get("cams", rc.get("K", rc.get("scale4"))))[:60]))
        return
    P = rc.get("P", rc.get("Q"))
    while isinstance(P[0][0], list):
        P = P[0]
    ctx.cover("%s:%s:N=%d:D=%d:pd=%s:ord=%s:%s:%s:%s" % (
        fn, variant_of(rc), len(P), len(P[0]), rc.get("pd"), rc.get("ord"), rc["dtype"],
        rc.get("k", rc.get("n", rc.get("num", rc.get("vs")))), rc.get("cls")))


# ------------------------------------------------------------------------------------------ spec -> code
def table_replay(ctx, out):
    """every (cloud, ordering, call) tabulated by PointCloudGen through the real functions, compared exactly"""
    import torch
    pp = pypose()
    tab = json.loads(out.read_text())
    pd = tab["pd"]
    checked = 0
    eps64 = 2.0 ** -52

    def fr(rows):
        num = torch.tensor([[c[0] for c in r] for r in rows], dtype=torch.float64)
        den = torch.tensor([[c[1] for c in r] for r in rows], dtype=torch.float64)
        return num / den

    def close(a, b):
        return a.shape == b.shape and bool(((a - b).abs() <= 64 * eps64 * torch.maximum(b.abs(), torch.ones_like(b))).all())

    def bad(fn, clause, var, what, rc):
        ctx.violation("%s/%s/%s" % (fn, clause, var), "spec->code: " + what, {"recipe": rc, "verdict": "table"})

    for ent in tab["table"]:
        rows = ent["P"]
        N, D = len(rows), len(rows[0])
        P = torch.tensor(rows, dtype=torch.float64)
        ctx.cover("table:%s" % json.dumps(rows))
        rows_pd = [x[:pd] for x in rows]
        for r in ent["knn"]:
            rc = {"fn": "knn", "R": rows_pd, "Q": rows_pd, "k": r["k"], "ord": r["ord"], "largest": r["largest"],
                  "sorted": True, "dtype": "float64"}
            checked += 1
            try:
                o = pp.knn(P[:, :pd], P[:, :pd], k=r["k"], ord=ORDV[r["ord"]], largest=r["largest"])
            except Exception as ex:
                bad("knn", "raised", variant_of(rc), repr(ex)[:200], rc)
                continue
            v = o.values * o.values if r["ord"] == 2 else o.values
            if not close(v, torch.tensor(r["vals"], dtype=torch.float64)):
                bad("knn", "knn_value_not_attained", variant_of(rc), "knn values %s, PointCloud!KnnImpl gives %s for %s"
                    % (v.tolist(), r["vals"], rc), rc)
                continue
            det = torch.tensor(r["det"])
            if not bool(((o.indices + 1 == torch.tensor(r["idx"])) | ~det).all()):
                bad("knn", "knn_not_nearest", variant_of(rc), "knn indices %s, spec %s (determined %s) for %s"
                    % ((o.indices + 1).tolist(), r["idx"], r["det"], rc), rc)
        for r in ent["nbr"]:
            rc = {"fn": "nbr_filter", "P": rows, "pd": pd, "n": r["n"], "rh": r["rh"], "ord": r["ord"],
                  "return_mask": True, "dtype": "float64"}
            checked += 1
            try:
                kept, mask = pp.nbr_filter(P, r["n"], r["rh"] / 2.0, pdim=pd, ord=ORDV[r["ord"]], return_mask=True)
            except Exception as ex:
                bad("nbr_filter", "raised", variant_of(rc), repr(ex)[:200], rc)
                continue
            if mask.tolist() != r["mask"]:
                bad("nbr_filter", "nbr_mask", variant_of(rc), "mask %s, spec %s for %s" % (mask.tolist(), r["mask"], rc), rc)
            elif kept.tolist() != [[float(c) for c in row] for row in r["kept"]]:
                bad("nbr_filter", "nbr_kept", variant_of(rc), "kept %s, spec %s for %s" % (kept.tolist(), r["kept"], rc), rc)
        for r in ent["knnf"]:
            rh = None if r["rh"] < 0 else r["rh"]
            rc = {"fn": "knn_filter", "P": rows, "pd": pd, "k": r["k"], "rh": rh, "ord": r["ord"], "dtype": "float64",
                  "cls": "table"}
            checked += 1
            kw = {} if rh is None else {"radius": rh / 2.0}
            try:
                o = pp.knn_filter(P, r["k"], pdim=pd, ord=ORDV[r["ord"]], **kw)
            except Exception as ex:
                bad("knn_filter", "raised", variant_of(rc), "%s for %s" % (repr(ex)[:160], rc), rc)
                continue
            if o.shape[0] != len(r["rows"]):
                bad("knn_filter", "knnf_count", variant_of(rc), "%d rows, spec %d for %s" % (o.shape[0], len(r["rows"]), rc), rc)
                continue
            jd = [i for i, x in enumerate(r["rows"]) if x["judged"]]
            if jd and not close(o[jd], fr([r["rows"][i]["row"] for i in jd])):
                bad("knn_filter", "knnf_row", variant_of(rc), "rows %s, spec %s for %s" % (o.tolist(), r["rows"], rc), rc)
        for r in ent["vox"]:
            rc = {"fn": "voxel_filter", "P": rows, "vs": r["vs"], "random": False, "dtype": "float64", "seed": 0}
            checked += 1
            try:
                o = pp.voxel_filter(P, [v / 2.0 for v in r["vs"]])
            except Exception as ex:
                bad("voxel_filter", "raised", variant_of(rc), repr(ex)[:200], rc)
                continue
            exp = fr(r["centroids"]) if r["centroids"] else torch.zeros(0, D, dtype=torch.float64)
            ok = o.shape[0] == r["count"] == exp.shape[0]
            if ok:   # same set of rows: sort both lexicographically
                so = sorted(o.tolist())
                se = sorted(exp.tolist())
                ok = close(torch.tensor(so, dtype=torch.float64), torch.tensor(se, dtype=torch.float64))
            if not ok:
                bad("voxel_filter", "vox_centroid", variant_of(rc), "rows %s, spec centroids %s for %s"
                    % (o.tolist(), r["centroids"], rc), rc)
    ctx.evaluations += checked
    ctx.extra["table_calls_replayed"] = checked
    ctx.extra["table_orderings"] = len(tab["table"])
    ctx.sample({"kind": "spec->code table entry", "P": tab["table"][-1]["P"], "knnf": tab["table"][-1]["knnf"][-1]})


# ------------------------------------------------------------------------------------------ entry points
def validate_all(ctx, recipes):
    notes = set()
    pc, cam = [], []
    for rc in recipes:
        tr = make_trace(rc, notes)
        if not tr["ev"]:
            raise MachineryError("no event recorded for %s" % rc)
        (cam if rc["fn"] in CAMERA else pc).append((rc, tr))
        cover(ctx, rc)
    # big clouds are expensive for TLC: hand them out first so that the parallel workers stay busy
    pc.sort(key=lambda t: -sum(len(json.dumps(e)) for e in t[1]["ev"]))
    for name, mod, part in (("pc", "PointCloudTrace", pc), ("cam", "CameraTrace", cam)):
        if part:
            trs = [t for _, t in part]
            judge(ctx, [r for r, _ in part], trs, ctx.validate(mod, mod + ".cfg", trs, name, chunk=5000, workers=4))
    for n in sorted(notes):
        ctx.notes.append(n)
    return [t for _, t in pc], [t for _, t in cam]


def run(ctx):
    q = ctx.quick
    ctx.rule = [
        "TLC design (PointCloud): every cloud of <=3 (quick) / <=4 (thorough) points on the 3x3 grid (+1-D grid, <=5 points, "
        "thorough) with a feature channel, every ordering reached by adjacent swaps, every call knn/nbr_filter/knn_filter/"
        "voxel_filter/random_filter with every k, n, radius, voxel size, norm 1/2/inf: implementation-shaped operators = "
        "set-theoretic definitions, certificate soundness, knn_filter(radius) = nbr_filter selection of knn_filter(), "
        "permutation equivariance w.r.t. the base ordering; PointCloud_defect.cfg (gather from the filtered array) must be rejected",
        "TLC design (Camera): pinhole model over rationals on integer points x quarter intrinsics x 24 Hurwitz extrinsics: "
        "pixel2point(point2pixel(p), z) = p, point2pixel(pixel2point(px, z)) = px, reprojerr = 0 iff pixels are the produced ones, "
        "homo2cart(cart2homo(p)) = p",
        "spec->code: every (cloud, ordering, call) tabulated by PointCloudGen run through the real functions, compared exactly",
        "code->spec: outlier-at-every-position families, random integer clouds of 1..300 points x 1..6 dims x feature channels x "
        "norms x float32/64, batched calls, edge sizes; camera calls single/batched; each recorded result validated by TLC "
        "(PointCloudTrace / CameraTrace); distinct = (function, variant, N, D, pdim, ord, dtype, parameter, class)"]
    ctx.assumptions = [
        "integer coordinates (|x| <= 400 float64, <= 50 float32): differences, squares, sums are exact in IEEE arithmetic; "
        "sqrt / mean / projection results are snapped to the integer / bounded-denominator fraction lattice within 64 eps",
        "rows whose k-nearest set is tied at the boundary are not judged (ties excluded); distances, masks, counts are always judged",
        "'within the radius' is the closed ball (d <= r), as the code and the documented examples have it",
        "knn_filter(radius): neighbours are the k nearest points of the whole cloud (statement: 'its k nearest neighbours')",
        "intrinsics are pinhole matrices [[fx,0,cx],[0,fy,cy],[0,0,1]] (zero skew), extrinsics from the Hurwitz/integer lattice; "
        "depth non-zero",
        "voxel_filter output order and the (D,) shape for a single voxel with random=True are not judged"]
    if ctx.replay:
        case = json.load(open(ctx.replay))["case"]
        validate_all(ctx, [case["recipe"]])
        return
    # ---- design + generator runs: independent TLC processes, started together; the recorded runs of the real
    # functions are produced meanwhile
    import time
    from concurrent.futures import ThreadPoolExecutor
    out = ctx.work / "table.json"
    jobs = [dict(module="PointCloud", cfg="PointCloud_q.cfg" if q else "PointCloud_t.cfg", workers=8, coverage=q, heap="6g",
                 need_actions=["Swap", "CallKnn", "CallNbr", "CallKnnFilter", "CallVoxel", "CallRandom"] if q else (),
                 timeout=3000),
            dict(module="PointCloudGen", cfg="PointCloudGen_q.cfg" if q else "PointCloudGen_t.cfg", env={"OUT_FILE": out},
                 workers=1, timeout=3000, heap="6g"),
            dict(module="Camera", cfg="Camera_q.cfg" if q else "Camera_t.cfg", workers=4, heap="6g", timeout=3000),
            # the design must tell the documented gather from the defective one (sensitivity of the invariants)
            dict(module="PointCloud", cfg="PointCloud_defect.cfg", workers=1, expect_ok=False, heap="2g")]
    if not q:
        jobs.insert(2, dict(module="PointCloud", cfg="PointCloud_t1d.cfg", workers=4, heap="6g", timeout=3000))
    pool = ThreadPoolExecutor(max_workers=len(jobs))
    futs = []
    for j in jobs:
        j = dict(j)
        futs.append((j["cfg"], pool.submit(ctx.tlc, j.pop("module"), j.pop("cfg"), **j)))
        time.sleep(0.3)          # ctx.tlc numbers its scratch directories when it starts
    # ---- code -> spec
    recipes = outlier_recipes(ctx) + edge_recipes(ctx) + far_recipes(ctx) + random_recipes(ctx) + batched_recipes(ctx) + camera_recipes(ctx)
    pc, cam = validate_all(ctx, recipes)
    for tr in (pc[len(pc) // 2], cam[0]):
        e = dict(tr["ev"][-1])
        ctx.sample({k: (v if len(json.dumps(v)) < 200 else "<%d chars>" % len(json.dumps(v))) for k, v in e.items()})
    # ---- spec -> code
    res = {}
    for name, f in futs:
        res[name] = f.result()            # MachineryError of a TLC run propagates here
        if name.startswith("PointCloudGen"):
            table_replay(ctx, out)
    pool.shutdown()
    for r in ctx.tlc_runs:
        if r["cfg"] == "PointCloud_defect.cfg":
            r["expected_violation"] = True
            continue
        if r["violated"]:
            ctx.violation("design/%s/%s" % (r["module"], r["violated"][0]), "design model %s/%s violates %s"
                          % (r["module"], r["cfg"], r["violated"]))
    d = res["PointCloud_defect.cfg"]
    ctx.extra["defect_model_rejected_by"] = d.violated
    if "KnnfMatchesDef" not in d.violated:
        raise MachineryError("PointCloud_defect.cfg (gather from the filtered array) was not rejected by KnnfMatchesDef")


def selftest(ctx):
    rc = {"fn": "knn_filter", "P": [[0, 0, 5], [1, 0, 7], [0, 2, 9], [3, 3, 1], [90, 80, 2]], "pd": 2, "k": 2, "rh": None,
          "ord": 2, "dtype": "float64", "perm": [5, 1, 2, 3, 4], "cls": "selftest"}
    good = make_trace(rc)
    bad1 = json.loads(json.dumps(good))
    bad1["ev"][0]["rows"][1][2] = [8, 1]                 # one corrupted mean
    bad2 = json.loads(json.dumps(good))
    del bad2["ev"][0]                                     # the base call removed
    bad3 = json.loads(json.dumps(good))
    bad3["ev"][1]["rows"] = bad3["ev"][1]["rows"][:-1]    # one output row dropped
    v = ctx.validate("PointCloudTrace", "PointCloudTrace.cfg", [good, bad1, bad2, bad3], "selftest")
    print("selftest PointCloudTrace verdicts:", v)
    assert v[0] == "ok" and v[1].startswith("knnf_row@1") and v[2].startswith("missing_base_call@1") \
        and v[3].startswith("knnf_count@2"), v
    krc = {"fn": "knn", "R": [[0, 0], [5, 1]], "Q": [[1, 0], [1, 6], [5, 2], [9, 0]], "k": 2, "ord": 2, "largest": False,
           "sorted": True, "dtype": "float64", "perm_r": [2, 1], "perm_q": [3, 1, 4, 2]}
    g = make_trace(krc)
    b1 = json.loads(json.dumps(g))
    b1["ev"][0]["idx"][0][1] = 2
    b2 = json.loads(json.dumps(g))
    del b2["ev"][0]                                       # base call removed
    v = ctx.validate("PointCloudTrace", "PointCloudTrace.cfg", [g, b1, b2], "selftest")
    print("selftest knn verdicts:", v)
    assert v[0] == "ok" and v[1].startswith("knn_value_not_attained@1") and v[2].startswith("missing_base_call"), v
    crc = {"fn": "project", "cams": [[[[3, 2], [-1, 2], [9, 4], [0, 1]], [1, 1, -1, 1], [1, -2, 3]]],
           "P": [[1, 2, 3], [-4, 5, 6], [2, -3, 2]], "d": [[0, 0], [1, -1], [2, 0]], "dtype": "float64", "maxden": 256}
    g = make_trace(crc)
    b1 = json.loads(json.dumps(g))
    b1["ev"][0]["pix"][0][0][0] += 1
    b2 = json.loads(json.dumps(g))
    b2["ev"][0]["err0"][2][1] = [1, 4]
    v = ctx.validate("CameraTrace", "CameraTrace.cfg", [g, b1, b2], "selftest")
    print("selftest CameraTrace verdicts:", v)
    assert v[0] == "ok" and v[1].startswith("pixel@") and v[2].startswith("reprojerr_nonzero@"), v
    return 0
