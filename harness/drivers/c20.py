"""C20 — stopping controllers (Mode S).  Spec: Controllers.tla; trace spec: ControllersTrace.tla;
spec->code table: ControllersGen.tla."""
import itertools
import json

from vlib.core import MachineryError, pypose, run_apalache

DECS = ["big", "small", "equal", "incr"]
EVENTS = [{"dec": d, "kill": k} for d in DECS for k in (False, True)]


def noimp(e):
    return e["dec"] != "big"


# --------------------------------------------------------------------------- real objects
class Real:
    """A real controller plus what is needed to feed it one concrete step."""

    def __init__(self, kind, mx, pat, dec=4, deck=1, tol=1 << 10, batch=1, verbose=False):
        import torch
        pp = pypose()
        self.kind, self.mx, self.pat, self.dec, self.deck, self.tol, self.batch = kind, mx, pat, dec, deck, tol, batch
        self.torch = torch
        self.verbose = verbose          # documented as cosmetic (messages on stdout); must not change any decision
        if kind == "SoP":
            class Net(torch.nn.Module):
                def __init__(self):
                    super().__init__()
                    self.p = torch.nn.Parameter(torch.zeros(1))

                def forward(self, x):
                    return self.p * x

            self.opt = pp.optim.LM(Net())
            self.ctl = pp.optim.scheduler.StopOnPlateau(self.opt, steps=mx, patience=pat, decreasing=float(dec), verbose=verbose)
            self.initial = dict(self.ctl.state_dict())
        else:
            self.ctl = pp.utils.ReduceToBason(steps=mx, patience=pat, decreasing=2.0 ** -deck, tol=float(tol), verbose=verbose)
        self.cfg = {"kind": kind, "max": mx, "pat": pat, "dec": dec, "deck": deck, "tol": tol, "verbose": verbose}

    def state(self):
        c = self.ctl
        return {"steps": int(c.steps), "pc": int(c.patience_count), "cont": bool(c.continual())}

    def step(self, loss, last=None, rej=0, dtype=None):
        """loss: list of ints. SoP: optimizer.last/loss/reject_count are set, then scheduler.step."""
        import contextlib
        import io
        with contextlib.redirect_stdout(io.StringIO()):
            return self._step(loss, last, rej, dtype)

    def _step(self, loss, last=None, rej=0, dtype=None):
        t = self.torch
        if self.kind == "SoP":
            self.opt.last = t.tensor(float(last), dtype=t.float64)
            self.opt.loss = t.tensor(float(loss[0]), dtype=t.float64)
            self.opt.reject_count = rej
            self.ctl.step(self.opt.loss)
            ev = {"act": "step", "last": last, "loss": loss, "rej": rej}
        else:
            if len(loss) == 1 and dtype is None:
                self.ctl.step(float(loss[0]))          # documented: float or Tensor
            else:
                self.ctl.step(t.tensor([float(v) for v in loss], dtype=dtype or t.float64))
            ev = {"act": "step", "loss": loss}
        ev.update(self.state())
        return ev

    def save(self):
        """scheduler.state_dict() (StopOnPlateau only)."""
        self.snapshot = self.ctl.state_dict()
        ev = {"act": "save"}
        ev.update(self.state())
        return ev

    def restore(self):
        """checkpoint restore: a NEW scheduler (with a new optimizer) loads the saved state_dict."""
        t = self.torch
        pp = pypose()
        old = self.ctl

        class Net(t.nn.Module):
            def __init__(self):
                super().__init__()
                self.p = t.nn.Parameter(t.zeros(1))

            def forward(self, x):
                return self.p * x
        self.opt = pp.optim.LM(Net())
        self.ctl = pp.optim.scheduler.StopOnPlateau(self.opt, steps=self.mx, patience=self.pat, decreasing=float(self.dec),
                                                    verbose=self.verbose)
        self.ctl.load_state_dict(self.snapshot)
        # (the saved controller object lives on; it must not influence the restored one)
        ev = {"act": "restore"}
        ev.update(self.state())
        return ev

    def reset(self, act="reset"):
        if self.kind == "SoP":
            self.ctl.load_state_dict(dict(self.initial))
        else:
            self.ctl.reset()
        ev = {"act": act}
        ev.update(self.state())
        return ev


# --------------------------------------------------------------------------- realisation
def realise(kind, hist, dec=4, deck=1, tol=1 << 10):
    """Concrete integer losses realising an abstract history, or None if unrealisable.
    SoP: (last, loss, rej) per event, independent.  RtB: loss sequence (first event has last=inf,
    i.e. it is always an improving step)."""
    if kind == "SoP":
        out = []
        for e in hist:
            d = {"big": dec, "small": dec - 1, "equal": 0, "incr": -1}[e["dec"]]
            if e["dec"] == "small" and dec < 2:
                return None
            out.append({"last": 100, "loss": [100 - d], "rej": 1 if e["kill"] else 0})
        return out
    # RtB: depth-first search over a menu of candidate losses
    P = 1 << deck

    def ok(last, loss, e):
        ni = False if last is None else (last - loss) * P < loss
        dd = "big" if not ni else ("equal" if loss == last else ("small" if loss < last else "incr"))
        return dd == e["dec"] and (loss < tol) == e["kill"]

    def menu(last):
        base = [tol - 1, tol, tol // 2, tol * 3, 1, tol * 3 // 2 - 1, tol * 64, tol + tol // 4]
        if last is not None:
            base = [last, last // 2, last // 4, last * 2, last + 1, last - 1, last * 3 // 4,
                    last * P // (P + 1), last * P // (P + 1) + 1, last * 4] + base
        return [v for v in dict.fromkeys(base) if 1 <= v < (1 << 40)]

    memo = set()

    def dfs(i, last):
        if i == len(hist):
            return []
        if (i, last) in memo:
            return None
        for v in menu(last):
            if ok(last, v, hist[i]):
                r = dfs(i + 1, v)
                if r is not None:
                    return [v] + r
        memo.add((i, last))
        return None

    r = dfs(0, None)
    return None if r is None else [{"loss": [v]} for v in r]


def run_history(kind, mx, pat, conc, **kw):
    real = Real(kind, mx, pat, **kw)
    ev = []
    for s in conc:
        ev.append(real.step(s["loss"], s.get("last"), s.get("rej", 0)))
    return {"cfg": real.cfg, "ev": ev}


# --------------------------------------------------------------------------- spec -> code
def table_replay(ctx, glen):
    out = ctx.work / "table.json"
    res = ctx.tlc("ControllersGen", "ControllersGen.cfg", env={"OUT_FILE": out}, workers=1)
    tab = json.loads(out.read_text())
    rows = {}
    for r in tab["rows"]:
        rows[(r["cfg"]["max"], r["cfg"]["pat"], r["s"]["steps"], r["s"]["pc"], r["s"]["cont"],
              r["e"]["dec"], r["e"]["kill"])] = r["t"]
    checked = unreal = 0
    for kind in ("SoP", "RtB"):
        for mx in range(1, 7):
            for pat in range(1, 5):
                # BFS over the table from the initial state: shortest abstract path to each state
                init = (0, 0, True)
                paths = {init: []}
                frontier = [init]
                while frontier:
                    nxt = []
                    for s in frontier:
                        if s[0] >= glen:
                            continue
                        for e in EVENTS:
                            t = rows[(mx, pat) + s + (e["dec"], e["kill"])]
                            ts = (t["steps"], t["pc"], t["cont"])
                            if ts not in paths:
                                paths[ts] = paths[s] + [e]
                                nxt.append(ts)
                    frontier = nxt
                for s, path in paths.items():
                    if s[0] >= glen:
                        continue
                    for e in EVENTS:
                        conc = realise(kind, path + [e])
                        if conc is None:
                            unreal += 1
                            continue
                        tr = run_history(kind, mx, pat, conc)
                        # every step of the run is compared with the table
                        cur = init
                        for ab, got in zip(path + [e], tr["ev"]):
                            t = rows[(mx, pat) + cur + (ab["dec"], ab["kill"])]
                            if (got["steps"], got["pc"], got["cont"]) != (t["steps"], t["pc"], t["cont"]):
                                fld = [f for f in ("steps", "pc", "cont") if got[f] != t[f]][0]
                                ctx.violation("%s/step/%s" % (kind, {"pc": "patience_count", "cont": "continual"}.get(fld, fld)),
                                              "spec->code: %s(max=%d,patience=%d) in state %s on event %s went to %s, "
                                              "Controllers!StepCtl gives %s" % (kind, mx, pat, cur, ab, got, t),
                                              {"mode": "table", "trace": tr})
                                break
                            cur = (t["steps"], t["pc"], t["cont"])
                        checked += 1
                        ctx.cover("edge:%s:%d:%d:%s:%s:%s" % (kind, mx, pat, s, e["dec"], e["kill"]))
    ctx.evaluations += checked
    ctx.extra["table_transitions_replayed"] = checked
    ctx.extra["table_transitions_unrealisable"] = unreal
    ctx.sample({"kind": "spec->code transition", "example": tab["rows"][100]})


# --------------------------------------------------------------------------- code -> spec
class ScriptedOpt:
    pass


def make_scripted_opt(script):
    """A real _Optimizer subclass whose step() plays a script of (last, loss, rej)."""
    import torch
    pp = pypose()
    from pypose.optim.optimizer import _Optimizer

    class Scripted(_Optimizer):
        def __init__(self):
            super().__init__([torch.nn.Parameter(torch.zeros(1))], defaults={})
            self.i = 0
            self.calls = 0
            self.loss = None
            self.reject = 16        # public attribute of LevenbergMarquardt (maximum rejections per step)

        def step(self, input, target=None, weight=None):
            last, loss, rej = script[min(self.i, len(script) - 1)]
            self.i += 1
            self.calls += 1
            self.last = torch.tensor(float(last), dtype=torch.float64)
            self.loss = torch.tensor(float(loss), dtype=torch.float64)
            self.reject_count = rej
            return self.loss

    return Scripted()


def loop_traces(ctx, n):
    """Driver loops: scheduler.optimize (scripted optimizer), MPC.forward, ICP.forward (real)."""
    import torch
    pp = pypose()
    rng = ctx.rng
    traces = []
    for _ in range(n):
        mx, pat, dec = rng.randint(1, 8), rng.randint(1, 4), 4
        script = []
        cur = 1000
        for _ in range(12):
            d = rng.choice([dec, dec + 3, dec - 1, 0, -1, 1])
            script.append((cur, cur - d, 1 if rng.random() < 0.08 else 0))
            cur -= d
        opt = make_scripted_opt(script)
        sch = pp.optim.scheduler.StopOnPlateau(opt, steps=mx, patience=pat, decreasing=float(dec))
        ev = [{"act": "loopstart", "steps": 0, "pc": 0, "cont": True}]
        orig = sch.step

        def logged(loss, _o=orig, _s=sch, _opt=opt, _ev=ev):
            _o(loss)
            _ev.append({"act": "step", "last": int(_opt.last.item()), "loss": [int(_opt.loss.item())],
                        "rej": _opt.reject_count, "steps": int(_s.steps), "pc": int(_s.patience_count),
                        "cont": bool(_s.continual())})
        sch.step = logged
        sch.optimize(input=torch.zeros(1))
        ev.append({"act": "loopexit", "bodies": opt.calls, "steps": int(sch.steps),
                   "pc": int(sch.patience_count), "cont": bool(sch.continual())})
        traces.append({"cfg": {"kind": "SoP", "max": mx, "pat": pat, "dec": dec, "deck": 0, "tol": 0},
                       "ev": ev, "what": "scheduler.optimize"})
    return traces


def opaque_loop_traces(ctx, n):
    """MPC.forward / ICP.forward with a real ReduceToBason; float losses are not classified
    (act 'ostep': TLC infers the abstract event), budget and loop clauses are judged."""
    import torch
    pp = pypose()
    rng = ctx.rng
    traces = []

    def instrument(stepper, ev):
        orig_step, orig_reset = stepper.step, stepper.reset

        def step(loss):
            orig_step(loss)
            ev.append({"act": "ostep", "steps": int(stepper.steps), "pc": int(stepper.patience_count),
                       "cont": bool(stepper.continual())})

        def reset():
            orig_reset()
            ev.append({"act": "loopstart_reset", "steps": int(stepper.steps),
                       "pc": int(stepper.patience_count), "cont": bool(stepper.continual())})
        stepper.step, stepper.reset = step, reset

    for i in range(n):
        torch.manual_seed(ctx.seed * 1000 + i)
        mx, pat = rng.randint(1, 6), rng.randint(1, 3)
        # ICP: two forward calls on one module (the stepper is reset by each call)
        stepper = pp.utils.ReduceToBason(steps=mx, patience=pat, decreasing=1e-3, tol=1e-9)
        ev = []
        instrument(stepper, ev)
        icp = pp.module.ICP(stepper=stepper)
        src = torch.randn(1, 20, 3, dtype=torch.float64)
        T = pp.randn_SE3(1, sigma=0.05, dtype=torch.float64)
        tgt = T.unsqueeze(-2).Act(src)
        for call in range(2):
            k0 = len(ev)
            icp(src, tgt)
            bodies = sum(1 for e in ev[k0:] if e["act"] == "ostep")
            ev.append({"act": "loopexit", "bodies": bodies, "steps": int(stepper.steps),
                       "pc": int(stepper.patience_count), "cont": bool(stepper.continual())})
        traces.append({"cfg": {"kind": "RtB", "max": mx, "pat": pat, "dec": 0, "deck": 0, "tol": 0},
                       "ev": ev, "what": "ICP.forward x2"})
        # MPC: lowers the budget by one at construction; two forward calls
        stepper = pp.utils.ReduceToBason(steps=mx, patience=pat, decreasing=1e-3, tol=1e-9)
        ev = []
        instrument(stepper, ev)
        A = torch.tensor([[1.0, 0.1], [0.0, 1.0]], dtype=torch.float64)
        B = torch.tensor([[0.0], [0.1]], dtype=torch.float64)
        sys_ = pp.module.LTI(A, B, torch.eye(2, dtype=torch.float64), torch.zeros(2, 1, dtype=torch.float64))
        Tn = 4
        Q = torch.eye(3, dtype=torch.float64).repeat(1, Tn, 1, 1)
        p = torch.zeros(1, Tn, 3, dtype=torch.float64)
        mpc = pp.module.MPC(sys_, Q, p, Tn, stepper=stepper)
        for call in range(2):
            k0 = len(ev)
            mpc(1, torch.randn(1, 2, dtype=torch.float64))
            bodies = sum(1 for e in ev[k0:] if e["act"] == "ostep")
            ev.append({"act": "loopexit", "bodies": bodies, "steps": int(stepper.steps),
                       "pc": int(stepper.patience_count), "cont": bool(stepper.continual())})
        traces.append({"cfg": {"kind": "RtB", "max": mx - 1, "pat": pat, "dec": 0, "deck": 0, "tol": 0},
                       "ev": ev, "what": "MPC.forward x2 (budget lowered by one at construction)"})
    return traces


def random_traces(ctx, n, length):
    import torch
    rng = ctx.rng
    traces = []
    for i in range(n):
        kind = "SoP" if i % 2 == 0 else "RtB"
        mx, pat = rng.randint(1, 40), rng.randint(1, 6)
        dec, deck, tol = rng.randint(1, 6), rng.randint(0, 4), rng.choice([1, 7, 1 << 10, 1 << 16])
        batch = 1 if kind == "SoP" else rng.choice([1, 1, 2, 3])
        real = Real(kind, mx, pat, dec=dec, deck=deck, tol=tol, batch=batch, verbose=(i % 3 == 2))
        ev = []
        last = [rng.randint(1 << 12, 1 << 20) for _ in range(batch)]
        dtype = rng.choice([None, torch.float64, torch.float32]) if kind == "RtB" else None
        saved = False
        for _ in range(length):
            r = rng.random()
            if r < 0.06:
                ev.append(real.reset())
                continue
            if kind == "SoP" and r < 0.10:
                ev.append(real.save())
                saved = True
                continue
            if kind == "SoP" and saved and r < 0.14:
                ev.append(real.restore())
                continue
            loss = []
            for b in range(batch):
                m = rng.choice(["half", "same", "slight", "up", "tiny", "edge", "rand"])
                v = {"half": last[b] // 2, "same": last[b], "slight": last[b] - max(1, last[b] >> rng.randint(2, 8)),
                     "up": last[b] + rng.randint(1, 50), "tiny": rng.randint(1, max(1, tol)),
                     "edge": (last[b] << deck) // ((1 << deck) + 1) + rng.choice([0, 1]),
                     "rand": rng.randint(1, 1 << 20)}[m]
                loss.append(min(max(1, v), (1 << 22)))
            if kind == "SoP":
                d = rng.choice([dec, dec - 1, 0, -2, dec + 5])
                ev.append(real.step([last[0] - d], last=last[0], rej=1 if rng.random() < 0.05 else 0))
                last = [max(1, last[0] - d)]
            else:
                ev.append(real.step(loss, dtype=dtype))
                last = loss
        traces.append({"cfg": real.cfg, "ev": ev, "what": "random long %s batch=%d" % (kind, batch)})
    return traces


def exhaustive_traces(ctx, L):
    traces = []
    unreal = 0
    for kind in ("SoP", "RtB"):
        for mx in range(1, 7):
            for pat in range(1, 5):
                for h in itertools.product(EVENTS, repeat=L):
                    conc = realise(kind, list(h))
                    if conc is None:
                        unreal += 1
                        continue
                    tr = run_history(kind, mx, pat, conc)
                    # end every history with a reset followed by one more step (reset restores initial)
                    real = Real(kind, mx, pat, verbose=(len(traces) % 3 == 1))
                    ev = [real.step(s["loss"], s.get("last"), s.get("rej", 0)) for s in conc]
                    ev.append(real.reset())
                    ev.append(real.step(conc[0]["loss"], conc[0].get("last"), conc[0].get("rej", 0)))
                    if len(conc) > 1:
                        ev.append(real.step(conc[1]["loss"], conc[1].get("last"), conc[1].get("rej", 0)))
                    traces.append({"cfg": real.cfg, "ev": ev, "what": "exhaustive len %d" % L,
                                   "abs": [e["dec"][0] + ("K" if e["kill"] else "") for e in h]})
    ctx.extra["exhaustive_histories_unrealisable"] = unreal
    return traces


def judge(ctx, traces, verdicts):
    for tr, v in zip(traces, verdicts):
        kind = tr["cfg"]["kind"]
        ctx.cover("trace:%s:%s:%s:%s" % (kind, tr["cfg"]["max"], tr["cfg"]["pat"],
                                        "".join(tr.get("abs", [])) or len(ctx.nontrivial)))
        if v != "ok":
            clause, at = v.split("@")
            act = tr["ev"][int(at) - 1]["act"]
            if any(e["act"] == "restore" for e in tr["ev"][:int(at)]) and act != "restore":
                act = act + "_after_restore"
            ctx.violation("%s/%s/%s" % (kind, act, clause),
                          "%s: real %s trace rejected by ControllersTrace at event %s (%s): clause %s; event=%s prev=%s"
                          % (tr.get("what"), kind, at, act, clause, tr["ev"][int(at) - 1],
                             tr["ev"][int(at) - 2] if int(at) > 1 else "init"),
                          {"mode": "trace", "trace": tr, "verdict": v})


def run(ctx):
    q = ctx.quick
    ctx.rule = ["TLC: every history of abstract events (4 decrease classes x kill) for steps 1..6 x patience 1..4",
                "conformance: every transition of the tabulated spec replayed on real objects; every abstract "
                "history of length L realised with integer losses and validated by TLC; random long/batched traces; "
                "driver loops (scheduler.optimize, MPC, ICP); a case is distinct by (kind, cfg, abstract history / edge)"]
    ctx.assumptions = ["losses are positive integers (exact in float32/64) so TLC classifies them itself",
                       "loss <= 0 in ReduceToBason's relative test is unspecified and not generated"]
    # ---- design model
    ctx.tlc("Controllers", "Controllers_hist.cfg" if q else "Controllers_hist8.cfg", workers=16,
            coverage=False)
    ctx.tlc("Controllers", "Controllers_len12.cfg", workers=8, coverage=True,
            need_actions=["UserStep", "Reset", "LoopStart", "LoopBody", "LoopExit", "Save", "Restore"])
    r = ctx.tlc("Controllers", "Controllers_live.cfg", workers=4)
    # unbounded budget / patience / history length: inductive invariant discharged by Apalache
    obligations = [("IndInit", "IndInv", 1), ("Init", "IndInv", 0), ("IndInit", "BudgetInv", 0)]
    apa = []
    for init, inv, length in obligations:
        outcome, text = run_apalache("ControllersInd", init, inv, length, ctx.work / "apalache")
        apa.append({"init": init, "inv": inv, "length": length, "outcome": outcome})
        if outcome == "Error":
            ctx.violation("design/apalache/%s" % inv, "Apalache refutes %s from %s in ControllersInd: %s" % (inv, init, text[-800:]))
        elif outcome == "ToolFailure":
            ctx.notes.append("apalache did not finish for %s/%s (not counted): %s" % (init, inv, text[-200:]))
    ctx.extra["apalache_inductive_invariant"] = apa
    for res in ctx.tlc_runs:
        if res["violated"]:
            ctx.violation("design/%s" % res["violated"][0], "Controllers design model violates %s" % res["violated"])
    if ctx.replay:
        case = json.loads(open(ctx.replay).read())["case"]
        traces = [case["trace"]]
        # re-run the recorded stimuli on the current tree
        real = Real(case["trace"]["cfg"]["kind"], case["trace"]["cfg"]["max"], case["trace"]["cfg"]["pat"],
                    dec=case["trace"]["cfg"].get("dec", 4) or 4, deck=case["trace"]["cfg"].get("deck", 1),
                    tol=case["trace"]["cfg"].get("tol", 1 << 10) or (1 << 10), verbose=bool(case["trace"]["cfg"].get("verbose")))
        ev = []
        for e in case["trace"]["ev"]:
            if e["act"] == "step":
                ev.append(real.step(e["loss"], e.get("last"), e.get("rej", 0)))
            elif e["act"] == "reset":
                ev.append(real.reset())
        if ev:
            traces.append({"cfg": real.cfg, "ev": ev, "what": "replayed on current tree"})
        judge(ctx, traces[1:] or traces, ctx.validate("ControllersTrace", "ControllersTrace.cfg", traces[1:] or traces, "replay"))
        return
    # ---- spec -> code
    table_replay(ctx, 8 if q else 12)
    # ---- code -> spec
    traces = exhaustive_traces(ctx, 3 if q else 4)
    traces += random_traces(ctx, 200 if q else 3000, 40 if q else 120)
    traces += loop_traces(ctx, 100 if q else 1000)
    traces += opaque_loop_traces(ctx, 6 if q else 40)
    for t in traces[:1] + traces[-1:]:
        ctx.sample({"kind": "code->spec trace", "what": t["what"], "cfg": t["cfg"], "ev": t["ev"][:4]})
    verdicts = ctx.validate("ControllersTrace", "ControllersTrace.cfg", traces, "ctl", chunk=4000)
    judge(ctx, traces, verdicts)


def selftest(ctx):
    """Binding demonstration: a corrupted field and a removed event must both be rejected."""
    good = run_history("SoP", 5, 2, realise("SoP", [EVENTS[0], EVENTS[2], EVENTS[2]]))
    bad1 = json.loads(json.dumps(good))
    bad1["ev"][1]["pc"] += 1
    bad2 = json.loads(json.dumps(good))
    del bad2["ev"][1]
    v = ctx.validate("ControllersTrace", "ControllersTrace.cfg", [good, bad1, bad2], "selftest")
    print("selftest verdicts:", v)
    assert v[0] == "ok" and v[1] != "ok" and v[2] != "ok", v
    return 0
