"""C05 — Adj, AdjT, Retr, +, Jinvp, Jr identities.  Mode E: LieGroupMC.tla (laws) + LieTrace.tla (exact
events on the lattice).  Mode R: LieNumTrace.tla judges errors measured against 60-digit references."""
import json
import math

from vlib.core import pypose
from vlib import lattice as L


def exact_events(ctx, ty, dtype, n):
    import torch
    pp = pypose()
    rng = ctx.rng
    xs = [L.rand_elem(rng, ty) for _ in range(n)]
    X = L.mk(ty, xs, dtype)
    ev = []
    av = [L.rand_alg(rng, ty) for _ in range(n)]
    A = L.mkalg(ty, av, dtype)
    adj, adjT = X.Adj(A), X.AdjT(A)
    assert adj.ltype == A.ltype and adjT.ltype == A.ltype
    for i in range(n):
        x, a = L.dyvec(X.tensor()[i]), L.dyvec(A.tensor()[i])
        ev.append({"op": "adj", "ty": ty, "x": x, "a": a, "out": L.dyvec(adj.tensor()[i])})
        ev.append({"op": "adjT", "ty": ty, "x": x, "a": a, "out": L.dyvec(adjT.tensor()[i])})
    # Retr / + / add_ with rotation-free increments (Exp exact), extra trailing components must be ignored
    for pad in (0, 1, 3):
        tv = [L.rand_alg(rng, ty, pure_trans=True, pad=pad) for _ in range(n)]
        T = torch.tensor(tv, dtype=dtype)
        Talg = L.mkalg(ty, [t[:L.ADIM[ty]] for t in tv], dtype)
        outs = {"retr": X.Retr(Talg) if pad == 0 else None, "plus": X + T, "add": pp.add(X, T) if hasattr(pp, "add") else None}
        Y = X.clone()
        r = Y.add_(T)
        outs["add_"] = Y
        for name, o in outs.items():
            if o is None:
                continue
            assert isinstance(o, pp.LieTensor) and o.ltype == X.ltype
            for i in range(n):
                ev.append({"op": "retr", "ty": ty, "x": L.dyvec(X.tensor()[i]), "a": L.dyvec(T[i]),
                           "out": L.dyvec(o.tensor()[i]), "via": name, "pad": pad})
        # algebra + vector is plain addition (first manifold-dimension slots)
        a2 = A + T[..., :L.ADIM[ty]]
        for i in range(0, n, 3):
            ev.append({"op": "algadd", "ty": ty, "x": L.dyvec(A.tensor()[i]), "a": L.dyvec(T[i][:L.ADIM[ty]]),
                       "out": L.dyvec(a2.tensor()[i] if isinstance(a2, pp.LieTensor) else a2[i])})
    # broadcastable batch shapes: every way of writing the retraction must give Exp(a_j) @ X_i for the broadcast pair (i, j),
    # whichever operand has the larger batch
    for lsx, lsa in (((), (3,)), ((1,), (4,)), ((3, 1), (1, 2)), ((2,), (2,)), ((2, 3), ()), ((2, 1), (3,)), ((), (2, 2))):
        nx, na = max(1, int(torch.tensor(lsx).prod()) if lsx else 1), max(1, int(torch.tensor(lsa).prod()) if lsa else 1)
        Xb = L.mk(ty, [L.rand_elem(rng, ty) for _ in range(nx)], dtype).lview(*lsx) if lsx else L.mk(ty, L.rand_elem(rng, ty), dtype)
        tvb = [L.rand_alg(rng, ty, pure_trans=True) for _ in range(na)]
        Tb = torch.tensor(tvb, dtype=dtype).reshape(tuple(lsa) + (L.ADIM[ty],))
        Tal = pp.LieTensor(Tb, ltype=getattr(pp, L.ALG[ty] + "_type"))
        out_shape = tuple(torch.broadcast_shapes(tuple(lsx), tuple(lsa)))
        Xe = Xb.tensor().expand(out_shape + (L.GDIM[ty],)).reshape(-1, L.GDIM[ty])
        Te = Tb.expand(out_shape + (L.ADIM[ty],)).reshape(-1, L.ADIM[ty])
        forms = {"retr": lambda: Xb.Retr(Tal), "pp.Retr": lambda: pp.Retr(Xb, Tal), "plus": lambda: Xb + Tb,
                 "add": lambda: pp.add(Xb, Tb), "method_add": lambda: Xb.add(Tb)}
        for name, f in forms.items():
            try:
                o = f()
                ok = isinstance(o, pp.LieTensor) and o.ltype == Xb.ltype and tuple(o.shape[:-1]) == out_shape
                rows = o.tensor().reshape(-1, L.GDIM[ty]) if ok else None
            except Exception as ex:
                ev.append({"op": "raise", "ty": ty, "what": ("%s with lshapes %s, %s: %r" % (name, lsx, lsa, ex))[:200]})
                continue
            if not ok:
                ev.append({"op": "raise", "ty": ty, "what": "%s with lshapes %s, %s: result %s %s" % (
                    name, lsx, lsa, type(o).__name__, tuple(getattr(o, "shape", ())))})
                continue
            for i in range(rows.shape[0]):
                ev.append({"op": "retr", "ty": ty, "x": L.dyvec(Xe[i]), "a": L.dyvec(Te[i]), "out": L.dyvec(rows[i]),
                           "via": name + "/bcast", "pad": 0})
    return ev


# ------------------------------------------------------------------ Mode R
ROT = [0.0, 1e-10, 1e-4, 2e-3, 0.3, 1.0, 2.5, 3.0]
TRA = [0.0, 1e-3, 1.0, 30.0]
SIG = [0.0, 1e-3, -0.5, 1.5]


def rand_dir(rng, n):
    v = [rng.gauss(0, 1) for _ in range(n)]
    s = math.sqrt(sum(x * x for x in v)) or 1.0
    return [x / s for x in v]


def alg_cell(rng, ty, r, t, s):
    phi = [r * d for d in rand_dir(rng, 3)]
    tau = [t * d for d in rand_dir(rng, 3)]
    return {"SO3": phi, "SE3": tau + phi, "RxSO3": phi + [s], "Sim3": tau + phi + [s]}[ty]


def num_events(ctx, ty, dtype, per_cell):
    import torch
    import mpmath as mp
    from vlib import refsem as R
    pp = pypose()
    rng = ctx.rng
    eps = mp.mpf(float(torch.finfo(dtype).eps))
    dt = "f64" if dtype == torch.float64 else "f32"
    cells = []
    for r in ROT:
        for t in (TRA if ty in ("SE3", "Sim3") else [0.0]):
            for s in (SIG if ty in ("RxSO3", "Sim3") else [0.0]):
                cells.append((r, t, s))
    rows_x, rows_a, meta = [], [], []
    for c in cells:
        for _ in range(per_cell):
            c2 = rng.choice(cells)
            rows_x.append(alg_cell(rng, ty, *c))
            rows_a.append(alg_cell(rng, ty, *c2))
            meta.append({"x": c, "a": c2})
    xa = L.mkalg(ty, rows_x, dtype)
    X = xa.Exp()
    A = L.mkalg(ty, rows_a, dtype)
    left1, right1 = X @ A.Exp(), X.Adj(A).Exp() @ X
    left2, right2 = A.Exp() @ X, X @ X.AdjT(A).Exp()
    retr, expx = X.Retr(A), A.Exp() @ X
    pad = torch.cat([A.tensor(), torch.ones(A.shape[0], 2, dtype=dtype)], -1)
    plus = X + pad
    Y = X.clone()
    Y.add_(pad)
    adj, adjT = X.Adj(A), X.AdjT(A)
    jinvp = X.Jinvp(A)
    ev = []
    fin = lambda *ts: bool(all(torch.isfinite(t.tensor() if isinstance(t, pp.LieTensor) else t).all() for t in ts))
    for i in range(len(rows_x)):
        cell = {"ty": ty, "x": list(meta[i]["x"]), "a": list(meta[i]["a"])}
        xi, ai = X.tensor()[i].tolist(), A.tensor()[i].tolist()
        m = lambda G: R.mat_of(ty, G.tensor()[i].tolist())
        def add(chk, err, finite=True, allow=0):
            ev.append({"chk": chk, "ty": ty, "dt": dt, "err": int(err), "finite": bool(finite), "allow": int(allow),
                       "cell": cell, "x": xi, "a": ai})
        add("adj_exp", R.mat_eq_err(m(left1), m(right1), eps), fin(left1[i], right1[i]))
        add("adjT_exp", R.mat_eq_err(m(left2), m(right2), eps), fin(left2[i], right2[i]))
        add("retr_exp", R.mat_eq_err(m(retr), m(expx), eps), fin(retr[i]))
        add("add_retr", R.mat_eq_err(m(plus), m(retr), eps), fin(plus[i]))
        add("add_inplace", R.mat_eq_err(m(Y), m(retr), eps), fin(Y[i]))
        # Adj / AdjT against conjugation of generator matrices (independent oracle)
        M = R.mat_of(ty, xi)
        Mi = M ** -1
        H = R.hat4(ty, ai)
        ref = R.vee4(ty, M * H * Mi)
        refT = R.vee4(ty, Mi * H * M)
        add("adj_lin", R.vec_err(adj.tensor()[i].tolist(), ref, eps, floor=mp.mpf(1e-300)), fin(adj[i]))
        add("adjT_lin", R.vec_err(adjT.tensor()[i].tolist(), refT, eps, floor=mp.mpf(1e-300)), fin(adjT[i]))
        # Jinvp against the finite-difference definition (rotation angle of X below 3: away from the cut)
        small_rot = 0 < meta[i]["x"][0] <= 2e-3 and ty in ("SE3", "Sim3") and meta[i]["x"][1] >= 1.0
        if (small_rot or i % max(1, len(rows_x) // (30 if ctx.quick else 200)) == 0) and meta[i]["x"][0] <= 2.5:
            ref = R.jlinv_fd(ty, xi, ai)
            allow = 0
            if ty == "Sim3":
                xi_log = R.log_ref(ty, M)
                allow = int(min(mp.ceil(4 * R.ad_norm6(ty, xi_log) / 30240 * max(abs(v) for v in ref + [mp.mpf(1)])
                                        / max(max(abs(v) for v in ref), mp.mpf(1e-300)) / eps), R.CAP))
            add("jinvp", R.vec_err(jinvp.tensor()[i].tolist(), ref, eps, floor=mp.mpf(1e-300)), fin(jinvp[i]), allow)
    # Jinvp of poses with a tiny but non-zero rotation and a sizeable translation, along directions with every component
    # (the coefficient that couples translation and rotation is a small-angle series / closed form switch in the code):
    # a fixed sweep, so that the detection does not hang on which random cells a seed happens to draw
    if ty in ("SE3", "Sim3"):
        sweep = [1e-14, 1e-12, 1e-10, 1e-8, 1e-6, 1e-5, 1e-4, 1e-3] if dt == "f64" else [1e-6, 1e-5, 1e-4, 1e-3, 1e-2, 5e-2]
        rows_s = []
        for r in sweep:
            for _ in range(2 if ctx.quick else 6):
                rows_s.append((r, alg_cell(rng, ty, r, 5.0, 0.0)))
        Xs = L.mkalg(ty, [row for _, row in rows_s], dtype).Exp()
        Ps = L.mkalg(ty, [rand_dir(rng, L.ADIM[ty]) for _ in rows_s], dtype)
        Js = Xs.Jinvp(Ps)
        for i, (r, _) in enumerate(rows_s):
            xi, pi = Xs.tensor()[i].tolist(), Ps.tensor()[i].tolist()
            ref = R.jlinv_fd(ty, xi, pi)
            allow = 0
            if ty == "Sim3":
                xi_log = R.log_ref(ty, R.mat_of(ty, xi))
                allow = int(min(mp.ceil(4 * R.ad_norm6(ty, xi_log) / 30240 * max(abs(v) for v in ref + [mp.mpf(1)])
                                        / max(max(abs(v) for v in ref), mp.mpf(1e-300)) / eps), R.CAP))
            ev.append({"chk": "jinvp", "ty": ty, "dt": dt, "err": int(R.vec_err(Js.tensor()[i].tolist(), ref, eps, floor=mp.mpf(1e-300))),
                       "finite": fin(Js[i]), "allow": allow, "cell": {"ty": ty, "x": [r, 5.0, 0.0], "a": ["sweep"]}, "x": xi, "a": pi})
    # Jinvp at moderate |Log X| with all blocks of comparable size: the documented Sim3 truncation allowance
    # (|ad xi|^6 / 30240) is small there, so a wrong series coefficient is visible
    mids = [0.05, 0.1, 0.3, 0.6, 1.0]
    rows_m = []
    for r in mids:
        for _ in range(2 if ctx.quick else 8):
            d = rand_dir(rng, L.ADIM[ty])
            rows_m.append([r * v for v in d])
    Xm = L.mkalg(ty, rows_m, dtype).Exp()
    Pm = L.mkalg(ty, [rand_dir(rng, L.ADIM[ty]) for _ in rows_m], dtype)
    Jm = Xm.Jinvp(Pm)
    unit = mp.mpf(10) ** -12 if dt == "f64" else eps      # see LieNumTrace!Tol("jinvp_mid")
    for i in range(len(rows_m)):
        xi, pi = Xm.tensor()[i].tolist(), Pm.tensor()[i].tolist()
        ref = R.jlinv_fd(ty, xi, pi)
        allow = 0
        if ty == "Sim3":
            xi_log = R.log_ref(ty, R.mat_of(ty, xi))
            allow = int(min(mp.ceil(4 * R.ad_norm6(ty, xi_log) / 30240 / max(max(abs(v) for v in ref), mp.mpf(1e-300)) / unit), R.CAP))
        ev.append({"chk": "jinvp_mid", "ty": ty, "dt": dt, "err": R.vec_err(Jm.tensor()[i].tolist(), ref, unit, floor=mp.mpf(1e-300)),
                   "finite": fin(Jm[i]), "allow": allow, "cell": {"ty": ty, "x": [mids[i // (2 if ctx.quick else 8)]]},
                   "x": xi, "a": pi})
    # Jr on so3
    if ty == "SO3":
        xs = [[r * d for d in rand_dir(rng, 3)] for r in [0.0, 1e-12, 1e-6, 0.1, 1.0, 2.0, 3.0, 3.5, 5.0, 2 * math.pi + 0.5, 10.0]
              for _ in range(per_cell)]
        x = L.mkalg("SO3", xs, dtype)
        J = x.Jr()
        for i, xv in enumerate(xs):
            if all(v == 0 for v in xv):
                err = 0 if torch.equal(J[i], torch.eye(3, dtype=dtype)) else R.CAP
                ev.append({"chk": "jr_zero", "ty": ty, "dt": dt, "err": err, "finite": bool(torch.isfinite(J[i]).all()), "allow": 0,
                           "cell": {"ty": ty, "x": [0.0]}, "x": xv, "a": []})
                continue
            ref = R.jr_fd(x.tensor()[i].tolist())
            Ji = mp.matrix(J[i].double().tolist())
            ev.append({"chk": "jr", "ty": ty, "dt": dt, "err": R.block_err(Ji, ref, range(3), range(3), eps),
                       "finite": bool(torch.isfinite(J[i]).all()), "allow": 0,
                       "cell": {"ty": ty, "x": [float("%.1e" % math.sqrt(sum(v * v for v in xv)))]}, "x": xv, "a": []})
        # the SO3-group entry point
        Jg = x.Exp().Jr()
        for i in range(0, len(xs), 2):
            if all(v == 0 for v in xs[i]) or math.sqrt(sum(v * v for v in xs[i])) >= 3.1:
                continue      # SO3.Jr is the right Jacobian at the principal logarithm: same as so3.Jr only below pi
            ref = R.jr_fd(x.tensor()[i].tolist())
            ev.append({"chk": "jr", "ty": ty, "dt": dt, "err": R.block_err(mp.matrix(Jg[i].double().tolist()), ref, range(3), range(3), eps),
                       "finite": True, "allow": 0, "cell": {"ty": ty, "x": ["group"]}, "x": xs[i], "a": []})
    return ev


def judge(ctx, traces, verdicts, spec):
    for tr, v in zip(traces, verdicts):
        if v != "ok":
            clause, at = v.split("@")
            e = tr["ev"][int(at) - 1]
            key = "%s/%s/%s" % (tr["cfg"]["kind"], e.get("ty"), clause)
            if "cell" in e:
                key += "/x=%s/a=%s" % (e["cell"].get("x"), e["cell"].get("a"))
            ctx.violation(key, "%s %s: %s rejected event %s: clause %s; event=%s"
                          % (tr["cfg"].get("dtype"), e.get("ty"), spec, at, clause, json.dumps(e)[:700]),
                          {"spec": spec, "trace": {"cfg": tr["cfg"], "ev": [e]}})


def run(ctx):
    import torch
    pypose()
    q = ctx.quick
    ctx.rule = ["TLC (LieGroupMC): AdjIsGenerator, AdjInverse, AdjT = Adj of inverse, AdjComposes, Adj/AdjT-Exp identities for "
                "pure translations, in every lattice element of every type",
                "Mode E: real Adj/AdjT/Retr/+/add/add_ (padded increments) on the lattice validated exactly by LieTrace",
                "Mode R: identities on generic floats over magnitude cells (rotation 0..3, translation 0..30, log-scale -0.5..1.5), "
                "Adj/AdjT vs conjugation of generators, Jinvp and Jr vs 60-digit finite differences; judged by LieNumTrace",
                "distinct = (check, type, dtype, cell pair)"]
    ctx.assumptions = ["mpmath expm/logm at 60 digits is the reference; Sim3 Jinvp allowance 4|ad xi|^6/30240 (documented truncation)",
                       "log-scales with 0 < |sigma| < 1e-3 are left to C01 (known sim3 small-sigma band)"]
    if ctx.replay:
        case = json.load(open(ctx.replay))["case"]
        tr = case["trace"]
        spec = case["spec"]
        judge(ctx, [tr], ctx.validate(spec, spec + ".cfg", [tr], "replay"), spec)
        return
    for ty in L.TYPES:
        ctx.tlc("LieGroupMC", "LieGroupMC_%s%s.cfg" % (ty, "" if q else "_t"), workers=16, timeout=7200)
    for r in ctx.tlc_runs:
        if r["violated"]:
            ctx.violation("design/%s/%s" % (r["cfg"], r["violated"][0]), "LieGroupMC violates %s" % r["violated"])
    etr, ntr = [], []
    for ty in L.TYPES:
        for dtype in (torch.float64, torch.float32):
            ev = exact_events(ctx, ty, dtype, 12 if q else 120)
            for e in ev:
                ctx.cover("E:%s:%s:%s:%s" % (e["op"], ty, e.get("x"), e.get("a")))
            for i in range(0, len(ev), 40):
                etr.append({"cfg": {"ty": ty, "dtype": str(dtype), "kind": "exact"}, "ev": ev[i:i + 40]})
            nev = num_events(ctx, ty, dtype, 1 if q else 6)
            for e in nev:
                ctx.cover("R:%s:%s:%s:%s" % (e["chk"], ty, dtype, e["cell"]))
            for i in range(0, len(nev), 40):
                ntr.append({"cfg": {"ty": ty, "dtype": str(dtype), "kind": "num"}, "ev": nev[i:i + 40]})
    ctx.sample(etr[0]["ev"][0])
    ctx.sample(ntr[0]["ev"][0])
    ctx.extra["exact_events"] = sum(len(t["ev"]) for t in etr)
    ctx.extra["numeric_events"] = sum(len(t["ev"]) for t in ntr)
    ctx.extra["max_err_by_check"] = {}
    for t in ntr:
        for e in t["ev"]:
            k = "%s/%s" % (e["chk"], t["cfg"]["dtype"])
            ctx.extra["max_err_by_check"][k] = max(ctx.extra["max_err_by_check"].get(k, 0), e["err"] - e["allow"])
    judge(ctx, etr, ctx.validate("LieTrace", "LieTrace.cfg", etr, "c05e", chunk=400), "LieTrace")
    judge(ctx, ntr, ctx.validate("LieNumTrace", "LieNumTrace.cfg", ntr, "c05n", chunk=2000), "LieNumTrace")


def selftest(ctx):
    import torch
    pypose()
    ev = exact_events(ctx, "SE3", torch.float64, 2)
    good = {"cfg": {"ty": "SE3", "kind": "exact"}, "ev": ev}
    bad = json.loads(json.dumps(good))
    bad["ev"][0]["out"][2] = [bad["ev"][0]["out"][2][0] + 1, bad["ev"][0]["out"][2][1]]
    v = ctx.validate("LieTrace", "LieTrace.cfg", [good, bad], "selftest")
    nev = num_events(ctx, "SO3", torch.float64, 1)[:5]
    g2 = {"cfg": {"kind": "num"}, "ev": nev}
    b2 = json.loads(json.dumps(g2))
    b2["ev"][0]["err"] = 10 ** 6
    v2 = ctx.validate("LieNumTrace", "LieNumTrace.cfg", [g2, b2], "selftest2")
    print("selftest verdicts:", v, v2)
    assert v[0] == "ok" and v[1] != "ok" and v2[0] == "ok" and v2[1] != "ok"
    return 0
