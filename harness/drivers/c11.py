"""C11 — matrix and Euler conversions are exact inverses of matrix() / each other.
Spec: Convert.tla (design: branch selection of mat2SO3, scale by cube root, check=True classes, Euler on quarter
turns; exact dyadics) and ConvertTrace.tla (what the real functions returned: Mode E on the lattice, Mode R from
integer error measures against 60-digit references).

Everything the driver does is organised in ITEMS (JSON: function, type, layout, dtype, raw input as float hex);
`events_of(items)` runs the real code (batched, random batch shapes) and produces one event per item, so a replay
re-runs the stored item on the current tree."""
import itertools
import json
import math
from fractions import Fraction as F

from vlib.core import MachineryError, pypose
from vlib import lattice as L

CAP = 10 ** 9
TYPES = L.TYPES
HAS_T = {"SO3": False, "SE3": True, "RxSO3": False, "Sim3": True}
HAS_S = {"SO3": False, "SE3": False, "RxSO3": True, "Sim3": True}
LAYS = ["33", "34", "44"]
GIMBAL_EPS = 2e-4            # default of LieTensor.euler(eps=...)
SHAPES = [(), (1,), (3,), (2, 2), (2, 3), (1, 4), (5,), (3, 2), (2, 1, 3), (7,), (4, 1), (2, 3, 2)]


# ============================================================================ lattice (inputs only; the spec re-derives)
def quat48():
    q1 = [tuple(s if i == k else 0 for i in range(4)) for k in range(4) for s in (1, -1)]
    q4 = list(itertools.product((1, -1), repeat=4))
    q2 = []
    for i, j in itertools.combinations(range(4), 2):
        for a in (1, -1):
            for b in (1, -1):
                v = [0] * 4
                v[i], v[j] = a, b
                q2.append(tuple(v))
    return q1, q4, q2


Q1, Q4, Q2 = quat48()
QTETRA = Q1 + Q4


def rot_int(n):
    """integer rotation matrix of the quaternion n/|n| (x, y, z, w), |n|^2 in {1, 2, 4}"""
    x, y, z, w = n
    N = x * x + y * y + z * z + w * w
    R = [[w * w + x * x - y * y - z * z, 2 * (x * y - z * w), 2 * (x * z + y * w)],
         [2 * (x * y + z * w), w * w - x * x + y * y - z * z, 2 * (y * z - x * w)],
         [2 * (x * z - y * w), 2 * (y * z + x * w), w * w - x * x - y * y + z * z]]
    assert all(v % N == 0 for r in R for v in r)
    return [[v // N for v in r] for r in R]


def embed(A, t, lay):
    if lay == "33":
        return [list(r) for r in A]
    top = [list(A[i]) + [t[i]] for i in range(3)]
    return top if lay == "34" else top + [[0.0, 0.0, 0.0, 1.0]]


def hexmat(U):
    return [[float(v).hex() for v in r] for r in U]


def unhex(U):
    return [[float.fromhex(v) for v in r] for r in U]


def dtname(dtype):
    return str(dtype).replace("torch.", "")


def tdtype(name):
    import torch
    return torch.float64 if name == "float64" else torch.float32


def eps_of(name):
    return 2.0 ** -52 if name == "float64" else 2.0 ** -23


# ============================================================================ running the real functions
def invoke(fn, ty, U, E):
    pp = pypose()
    if isinstance(E, (tuple, list)):      # (atol exponent, rtol exponent)
        kw = {"rtol": 10.0 ** -E[1], "atol": 10.0 ** -E[0]}
    else:
        kw = {} if E is None else {"rtol": 10.0 ** -E, "atol": 10.0 ** -E}
    if fn == "from_matrix":
        return pp.from_matrix(U, getattr(pp, ty + "_type"), **kw)
    return getattr(pp, "mat2" + ty)(U, **kw)


def call_one(fn, ty, U, E):
    """-> (raised, exception name, output tensor or None)"""
    pp = pypose()
    try:
        Y = invoke(fn, ty, U, E)
    except Exception as ex:      # noqa: BLE001 - the exception type is data for the spec
        return True, type(ex).__name__, None
    if not isinstance(Y, pp.LieTensor) or Y.ltype != getattr(pp, ty + "_type") or Y.shape[-1] != L.GDIM[ty]:
        return False, "badtype", None
    return False, "", Y.tensor()


def run_group(rng, key, mats, individually, fixed_shape=None):
    """mats: list of nested float lists of one layout; returns list of (raised, exc, row tensor | None, batch note).
    Valid-class inputs go through the functions in batches of assorted shapes.  A batch that raises is re-run item by
    item: an item that raises on its own keeps its own result; an item that is fine on its own but was part of a
    raising batch is reported as raised with the batch shape in the note (valid inputs must not raise in any batch shape)."""
    import torch
    fn, ty, lay, dt, E = key
    dtype = tdtype(dt)
    res = [None] * len(mats)
    if individually:
        for i, m in enumerate(mats):
            res[i] = one(fn, ty, m, dtype, E) + ("",)
        return res
    i = 0
    while i < len(mats):
        shape = tuple(fixed_shape) if fixed_shape is not None else rng.choice(SHAPES)
        n = 1
        for d in shape:
            n *= d
        idx = [min(i + j, len(mats) - 1) for j in range(n)]
        U = torch.tensor([mats[j] for j in idx], dtype=dtype)
        U = U.reshape(tuple(shape) + tuple(U.shape[-2:]))
        raised, exc, Y = call_one(fn, ty, U, E)
        if not raised and Y is not None and tuple(Y.shape[:-1]) != tuple(shape):
            raised, exc, Y = True, "badshape%s" % (tuple(Y.shape),), None
        if raised or Y is None:
            note = "batch=%s" % (tuple(shape),)
            singles = {j: one(fn, ty, mats[j], dtype, E) for j in set(idx)}
            alone_bad = any(r[0] or r[2] is None for r in singles.values())
            for j, r in singles.items():
                if r[0] or r[2] is None:
                    res[j] = r + ("",)
                elif alone_bad:
                    res[j] = r + ("",)           # the batch failed because of another item, reported there
                else:
                    res[j] = (True, exc or "badtype", None, note)
        else:
            Yf = Y.reshape(n, -1)
            for pos, j in enumerate(idx):
                res[j] = (False, "", Yf[pos], "")
        i += n
    return res


def one(fn, ty, m, dtype, E):
    import torch
    raised, exc, Y = call_one(fn, ty, torch.tensor(m, dtype=dtype), E)
    return raised, exc, (Y.reshape(-1) if Y is not None else None)


# ============================================================================ 60-digit helpers
def mpctx():
    import mpmath as mp
    mp.mp.dps = 60
    return mp


def mp_rot(axis, th):
    mp = mpctx()
    a = [mp.mpf(v) for v in axis]
    nrm = mp.sqrt(sum(v * v for v in a))
    a = [v / nrm for v in a]
    c, s = mp.cos(th), mp.sin(th)
    K = [[0, -a[2], a[1]], [a[2], 0, -a[0]], [-a[1], a[0], 0]]
    return [[(c if i == j else 0) + (1 - c) * a[i] * a[j] + s * K[i][j] for j in range(3)] for i in range(3)]


def mp_euler_mat(r, p, y):
    mp = mpctx()
    cr, sr, cp, sp, cy, sy = mp.cos(r), mp.sin(r), mp.cos(p), mp.sin(p), mp.cos(y), mp.sin(y)
    Rx = mp.matrix([[1, 0, 0], [0, cr, -sr], [0, sr, cr]])
    Ry = mp.matrix([[cp, 0, sp], [0, 1, 0], [-sp, 0, cp]])
    Rz = mp.matrix([[cy, -sy, 0], [sy, cy, 0], [0, 0, 1]])
    return Rz * Ry * Rx


def mp_euler_quat(r, p, y):
    """quaternion (x, y, z, w) of Rz(y) Ry(p) Rx(r), from the product of the three axis quaternions"""
    mp = mpctx()

    def qmul(a, b):
        ax, ay, az, aw = a
        bx, by, bz, bw = b
        return [aw * bx + ax * bw + ay * bz - az * by, aw * by - ax * bz + ay * bw + az * bx,
                aw * bz + ax * by - ay * bx + az * bw, aw * bw - ax * bx - ay * by - az * bz]
    qx = [mp.sin(r / 2), 0, 0, mp.cos(r / 2)]
    qy = [0, mp.sin(p / 2), 0, mp.cos(p / 2)]
    qz = [0, 0, mp.sin(y / 2), mp.cos(y / 2)]
    return qmul(qz, qmul(qy, qx))


def mp_quat_of_rot(R):
    """a quaternion of a 60-digit rotation matrix (largest-component method, independent of pypose)"""
    mp = mpctx()
    tr = R[0][0] + R[1][1] + R[2][2]
    c = [1 + tr, 1 + R[0][0] - R[1][1] - R[2][2], 1 - R[0][0] + R[1][1] - R[2][2], 1 - R[0][0] - R[1][1] + R[2][2]]
    k = max(range(4), key=lambda i: c[i])
    if k == 0:
        q = [R[2][1] - R[1][2], R[0][2] - R[2][0], R[1][0] - R[0][1], c[0]]
    elif k == 1:
        q = [c[1], R[0][1] + R[1][0], R[0][2] + R[2][0], R[2][1] - R[1][2]]
    elif k == 2:
        q = [R[0][1] + R[1][0], c[2], R[1][2] + R[2][1], R[0][2] - R[2][0]]
    else:
        q = [R[0][2] + R[2][0], R[1][2] + R[2][1], c[3], R[1][0] - R[0][1]]
    n = mp.sqrt(sum(v * v for v in q))
    return [v / n for v in q]


def round_to(vals, dt):
    """nested list of mp numbers -> nested list of python floats representable in the dtype"""
    import torch
    t = torch.tensor([[float(v) for v in r] for r in vals], dtype=torch.float64).to(tdtype(dt))
    return t.double().tolist()


def capint(mp, v):
    return int(min(mp.ceil(v), CAP)) if mp.isfinite(v) else CAP


def rand_axis(rng):
    while True:
        v = [rng.gauss(0, 1) for _ in range(3)]
        n = math.sqrt(sum(x * x for x in v))
        if n > 1e-3:
            return [x / n for x in v]


# ============================================================================ Mode E items
def exact_items(ctx):
    """valid and invalid lattice inputs for every function x type x layout x dtype"""
    rng, q = ctx.rng, ctx.quick
    items = []
    scales = [2.0 ** k for k in (range(-3, 4) if q else range(-6, 7))]
    for dt in ("float64", "float32"):
        for ty in TYPES:
            for lay in LAYS:
                for n in QTETRA + Q2:
                    reps = 1 if q else 4
                    for rep in range(reps):
                        s = rng.choice(scales) if HAS_S[ty] else 1.0
                        if not q and rep == 0 and HAS_S[ty]:
                            s = 8.0 if n in Q4 else 2.0 ** -9     # pow(512, 1/3) is one ulp below 8 in float64
                        t = [float(rng.randint(-5, 5)) for _ in range(3)]
                        A = [[s * v for v in r] for r in rot_int(n)]
                        fn = rng.choice(["from_matrix", "mat2" + ty]) if q else ("from_matrix", "mat2" + ty)[rep % 2]
                        items.append({"kind": "from" if n in QTETRA else "fromsq2", "fn": fn, "ty": ty, "lay": lay, "dt": dt,
                                      "U": hexmat(embed(A, t, lay)), "E": None, "n": list(n), "valid": True})
                # invalid on the lattice: scaled rotation into an unscaled type, reflections into every type
                for n in (rng.sample(QTETRA + Q2, 6) if q else QTETRA + Q2):
                    s = rng.choice([v for v in scales if v != 1.0])
                    R = rot_int(n)
                    bad = [[[-(s if HAS_S[ty] else 1.0) * v for v in r] for r in R]]
                    if not HAS_S[ty]:
                        bad.append([[s * v for v in r] for r in R])
                    for A in bad:
                        items.append({"kind": "from", "fn": rng.choice(["from_matrix", "mat2" + ty]), "ty": ty, "lay": lay,
                                      "dt": dt, "U": hexmat(embed(A, [0.0] * 3, lay)), "E": None, "n": list(n), "valid": False})
    return items


def chain_items(ctx):
    """X -> X.matrix() -> from_matrix(that tensor, sliced to each layout) for lattice elements"""
    rng, q = ctx.rng, ctx.quick
    items = []
    for dt in ("float64", "float32"):
        for ty in TYPES:
            for u in L.U24:
                for _ in range(1 if q else 3):
                    t = [float(rng.randint(-4, 4)) for _ in range(3)]
                    s = [2.0 ** rng.randint(-3, 3)]
                    row = {"SO3": list(u), "SE3": t + list(u), "RxSO3": list(u) + s, "Sim3": t + list(u) + s}[ty]
                    items.append({"kind": "chain", "ty": ty, "dt": dt, "x": row,
                                  "lays": ["33"] if ty == "SO3" else LAYS})
    return items


def euler_exact_items(ctx):
    rng, q = ctx.rng, ctx.quick
    items = []
    for dt in ("float64", "float32"):
        for n in QTETRA + Q2:
            for ty in (["SO3"] if q else TYPES):
                items.append({"kind": "euler", "ty": ty, "dt": dt, "n": list(n)})
        ks = list(itertools.product(range(-4, 5), repeat=3))
        for k in (rng.sample(ks, 60) if q else ks):
            items.append({"kind": "euler2", "dt": dt, "k": list(k)})
    return items


# ---------------------------------------------------------------------------- events of Mode E items
def dyU(U, eps):
    return [L.dy(v, eps) for r in U for v in r]


def ev_from(it, res):
    raised, exc, Y, note = res
    mp = mpctx()
    eps = eps_of(it["dt"])
    U = unhex(it["U"])
    ev = {"op": it["kind"], "fn": it["fn"], "ty": it["ty"], "lay": it["lay"], "dt": it["dt"], "U": dyU(U, eps),
          "raised": bool(raised), "exc": exc, "bs": note}
    ty = it["ty"]
    if it["kind"] == "from":
        ev["out"] = [] if Y is None else L.dyvec(Y)
        return ev
    # cube rotation with sqrt(2)/2 entries: integer numerators + distance, exact translation and scale
    ev.update({"qn": [0, 0, 0, 0], "qerr": CAP, "t": [[0, 0]] * 3, "s": [[1, 0]]})
    if Y is not None:
        v = Y.tolist()
        off = 3 if HAS_T[ty] else 0
        qv = v[off:off + 4]
        r2 = mp.sqrt(2)
        if all(math.isfinite(x) for x in qv):
            qn = [int(round(x * math.sqrt(2))) for x in qv]
            ev["qn"] = qn
            ev["qerr"] = capint(mp, max(abs(mp.mpf(x) - mp.mpf(k) / r2) for x, k in zip(qv, qn)) / mp.mpf(eps))
        if HAS_T[ty]:
            ev["t"] = [L.dy(x, eps) for x in v[0:3]]
        if HAS_S[ty]:
            ev["s"] = [L.dy(v[-1], eps)]
    return ev


def ev_chain(it):
    """one trace: matrix event, then one from_last per layout, through the real tensors"""
    import torch
    pp = pypose()
    ty, dt = it["ty"], it["dt"]
    dtype = tdtype(dt)
    eps = eps_of(dt)
    X = L.mk(ty, [it["x"]], dtype)[0]
    M = X.matrix()
    want = (3, 3) if ty == "SO3" else (4, 4)
    evs = [{"op": "matrix", "ty": ty, "dt": dt, "x": [L.dy(v, eps) for v in it["x"]],
            "out": L.dyvec(M) if tuple(M.shape) == want else []}]
    if tuple(M.shape) != want:
        return evs
    for lay in it["lays"]:
        U = M[:3, :3] if lay == "33" else (M[:3, :] if lay == "34" else M)
        raised, exc, Y = call_one("from_matrix", ty, U, None)
        evs.append({"op": "from_last", "lay": lay, "dt": dt, "raised": bool(raised), "exc": exc,
                    "out": [] if Y is None else L.dyvec(Y)})
    return evs


def ev_euler(it):
    mp = mpctx()
    ty, dt, n = it["ty"], it["dt"], it["n"]
    eps = eps_of(dt)
    N = sum(v * v for v in n)
    qv = [v / math.sqrt(N) for v in n]
    t, s = [1.0, -2.0, 0.5], [2.0]
    row = {"SO3": qv, "SE3": t + qv, "RxSO3": qv + s, "Sim3": t + qv + s}[ty]
    X = L.mk(ty, [row], tdtype(dt))
    e = X.euler()[0].tolist()
    hp = mp.pi / 2
    idx, err = [9, 9, 9], CAP
    if all(math.isfinite(v) for v in e):
        idx = [int(mp.nint(mp.mpf(v) / hp)) for v in e]
        err = capint(mp, max(abs(mp.mpf(v) - k * hp) for v, k in zip(e, idx)) / mp.mpf(eps))
    return {"op": "euler", "ty": ty, "dt": dt, "qn": list(n), "idx": idx, "err": err}


def ev_euler2(it):
    import torch
    from vlib import refsem as R
    pp = pypose()
    mp = mpctx()
    dt, k = it["dt"], it["k"]
    eps = eps_of(dt)
    ang = torch.tensor([v * (math.pi / 2) for v in k], dtype=tdtype(dt))
    Y = pp.euler2SO3(ang)
    qv = Y.tensor().tolist()
    M, err = [[9] * 3] * 3, CAP
    if all(math.isfinite(v) for v in qv) and isinstance(Y, pp.LieTensor) and Y.ltype == pp.SO3_type:
        Rm = R.rot_of_quat([mp.mpf(v) for v in qv])
        M = [[int(mp.nint(Rm[i, j])) for j in range(3)] for i in range(3)]
        err = capint(mp, max(abs(Rm[i, j] - M[i][j]) for i in range(3) for j in range(3)) / mp.mpf(eps))
    return {"op": "euler2", "dt": dt, "k": list(k), "M": M, "err": err}


# ============================================================================ Mode R items
KS = list(range(3, 13))
AXES_FIXED = {"x": [1, 0, 0], "y": [0, 1, 0], "z": [0, 0, 1], "-x": [-1, 0, 0], "-y": [0, -1, 0], "-z": [0, 0, -1],
              "xy": [1, 1, 0], "xz": [1, 0, 1], "yz": [0, 1, 1], "xyz": [1, 1, 1], "xyZ": [1, 1, math.sqrt(2)],
              "x-y": [1, -1, 0], "-xz": [-1, 0, 1]}


def rotation_cells(ctx):
    """(cell name, axis, angle as mp) covering angle pi -+ 10^-k about random and coordinate axes in every branch
    region, generic rotations, small angles"""
    mp = mpctx()
    rng, q = ctx.rng, ctx.quick
    cells = []
    for k in KS:
        for sg in (-1, 1):
            th = mp.pi + sg * mp.mpf(10) ** -k
            name = "pi%s1e-%d" % ("+" if sg > 0 else "-", k)
            for an, a in AXES_FIXED.items():
                if q and an in ("-x", "-y", "-z", "x-y", "-xz") and k % 3:
                    continue
                cells.append((name + ":" + an, a, th))
            for _ in range(2 if q else 12):
                cells.append((name + ":rand", rand_axis(rng), th))
    for an, a in AXES_FIXED.items():
        cells.append(("pi:" + an, a, mp.pi))
    for _ in range(6 if q else 60):
        cells.append(("pi:rand", rand_axis(rng), mp.pi))
    for _ in range(60 if q else 1500):
        cells.append(("generic", rand_axis(rng), mp.mpf(rng.uniform(0, math.pi))))
    for k in (0, 1, 2, 4, 8, 12, 16):
        for an in ("x", "y", "z", "xyz"):
            cells.append(("small1e-%d:%s" % (k, an), AXES_FIXED[an], mp.mpf(10) ** -k))
        cells.append(("small1e-%d:rand" % k, rand_axis(rng), mp.mpf(10) ** -k))
    cells.append(("identity", [0, 0, 1], mp.mpf(0)))
    # quarter and third turns (t = 2 resp. 1: boundaries between the branch regions)
    for an in ("x", "y", "z"):
        for m in (1, 3):
            cells.append(("quarter:%s" % an, AXES_FIXED[an], m * mp.pi / 2))
    for an in ("xyz",):
        cells.append(("third:xyz", AXES_FIXED[an], 2 * mp.pi / 3))
    return cells


def num_from_items(ctx):
    mp = mpctx()
    rng = ctx.rng
    items = []
    cells = rotation_cells(ctx)
    for ci, (name, axis, th) in enumerate(cells):
        R = mp_rot(axis, th)
        for dt in ("float64", "float32"):
            # every cell visits every type; layout and function rotate
            for ti, ty in enumerate(TYPES):
                if ctx.quick and (ci + ti) % 2 and not name.startswith("pi"):
                    continue
                lay = LAYS[(ci + ti + (dt == "float32")) % 3]
                s = mp.mpf(10) ** mp.mpf(rng.uniform(-3, 3)) if HAS_S[ty] else mp.mpf(1)
                tm = 10.0 ** rng.uniform(-3, 3)
                t = [mp.mpf(rng.gauss(0, 1) * tm) for _ in range(3)]
                A = [[s * v for v in r] for r in R]
                U = round_to(embed(A, t, lay), dt)
                if lay == "44":
                    U[3] = [0.0, 0.0, 0.0, 1.0]
                items.append({"kind": "nfrom", "fn": ("from_matrix", "mat2" + ty)[(ci + ti) % 2], "ty": ty, "lay": lay,
                              "dt": dt, "U": hexmat(U), "E": None, "cell": name})
    return items


def ev_nfrom(it, res):
    from vlib import refsem as R
    mp = mpctx()
    raised, exc, Y, note = res
    ty, dt = it["ty"], it["dt"]
    eps = mp.mpf(eps_of(dt))
    U = unhex(it["U"])
    A = mp.matrix([[mp.mpf(v) for v in r[:3]] for r in U[:3]])
    det = mp.det(A)
    sref = mp.cbrt(det) if HAS_S[ty] and det > 0 else mp.mpf(1)
    Rn = A / sref
    atol = mp.mpf(10) ** -5
    ev = {"op": "nfrom", "fn": it["fn"], "ty": ty, "lay": it["lay"], "dt": dt, "cell": it["cell"],
          "m": [bool(Rn[2, 2] < atol), bool(Rn[0, 0] > Rn[1, 1]), bool(Rn[0, 0] < -Rn[1, 1])],
          "raised": bool(raised), "exc": exc, "bs": note, "finite": False, "rot": CAP, "un": CAP, "tr": CAP, "sc": CAP}
    if Y is None:
        return ev
    v = Y.tolist()
    ev["finite"] = all(math.isfinite(x) for x in v)
    if not ev["finite"]:
        return ev
    tq, qv, sv = R.split_grp(ty, v)
    MY = R.mat_of(ty, v)
    ev["rot"] = R.block_err(MY, A, range(3), range(3), eps)
    ev["un"] = R.unit_err(qv, eps)
    want_t = [U[i][3] for i in range(3)] if (HAS_T[ty] and it["lay"] != "33") else [0.0] * 3
    got_t = v[0:3] if HAS_T[ty] else [0.0] * 3
    ev["tr"] = 0 if got_t == want_t else CAP
    ev["sc"] = capint(mp, abs(sv - sref) / sref / eps) if HAS_S[ty] else 0
    return ev


def num_euler_items(ctx):
    mp = mpctx()
    rng, q = ctx.rng, ctx.quick
    items = []
    pi = math.pi
    trip = []
    for _ in range(40 if q else 1500):
        trip.append(("uniform", [rng.uniform(-pi, pi) for _ in range(3)]))
    for _ in range(10 if q else 300):
        trip.append(("wide", [rng.uniform(-10, 10) for _ in range(3)]))
    for k in (0, 1, 3, 6, 9, 12):
        for base in ([0, 0, 0], [pi, 0, pi], [pi / 2, pi / 2, pi / 2], [-pi, pi / 2, -pi / 2], [pi / 2, -pi / 2, pi]):
            trip.append(("near_quarter1e-%d" % k, [b + rng.choice((-1, 1)) * 10.0 ** -k for b in base]))
    trip.append(("zero", [0.0, 0.0, 0.0]))
    for dt in ("float64", "float32"):
        for name, a in trip:
            import torch
            af = torch.tensor(a, dtype=torch.float64).to(tdtype(dt)).double().tolist()
            items.append({"kind": "ne2", "dt": dt, "a": [v.hex() for v in af], "cell": name})
    # round trip X -> euler -> euler2SO3: X from (roll, pitch, yaw) at 60 digits; pitch up to the documented band
    rt = []
    for _ in range(40 if q else 1500):
        rt.append(("uniform", rng.uniform(-pi, pi), math.asin(rng.uniform(-0.99, 0.99)), rng.uniform(-pi, pi)))
    for d in (0.3, 0.1, 0.05, 0.03):           # 1 - cos(0.03) = 4.5e-4 > 2 * 2e-4
        for sg in (1, -1):
            for _ in range(2 if q else 40):
                rt.append(("pole%g" % d, rng.uniform(-pi, pi), sg * (pi / 2 - d * rng.uniform(1.0, 1.3)), rng.uniform(-pi, pi)))
    # right above the documented band: 1 - |sin pitch| in (1.3, 1.9) eps_gimbal (the statement's condition is
    # |sin pitch| < 1 - eps; 25% of margin for the rounding of sin pitch itself)
    for sg in (1, -1):
        for _ in range(4 if q else 60):
            gap = GIMBAL_EPS * rng.uniform(1.3, 1.9)
            rt.append(("band_edge", rng.uniform(-pi, pi), sg * math.asin(1 - gap), rng.uniform(-pi, pi)))
    for k in (2, 5, 9, 12):
        for sr, sy in ((1, 1), (1, -1), (-1, 1), (-1, -1)):
            rt.append(("edge1e-%d" % k, sr * (pi - 10.0 ** -k), rng.uniform(-1.2, 1.2), sy * (pi - 10.0 ** -k)))
            rt.append(("edge_roll1e-%d" % k, sr * (pi - 10.0 ** -k), rng.uniform(-1.2, 1.2), rng.uniform(-pi, pi)))
    for r0, p0, y0 in itertools.product((0.0, pi / 2, pi, -pi / 2), (0.0, 0.7, -0.7), (0.0, pi / 2, pi, -pi / 2)):
        rt.append(("quarter_rollyaw", r0, p0, y0))
    # a caller-chosen gimbal eps (1e-5) through the function and the method form: pitch inside the DEFAULT band
    # (1 - |sin pitch| in [2e-5, 4e-4)) must then still round-trip; float64 only (the band is below float32 resolution)
    for sg in (1, -1):
        for _ in range(6 if q else 60):
            gap = 10.0 ** rng.uniform(math.log10(2.5e-5), math.log10(3.5e-4))
            rt.append(("custom_eps", rng.uniform(-pi, pi), sg * math.asin(1 - gap), rng.uniform(-pi, pi)))
    for ci, (name, r0, p0, y0) in enumerate(rt):
        qm = mp_euler_quat(mp.mpf(r0), mp.mpf(p0), mp.mpf(y0))
        if rng.random() < 0.5:
            qm = [-v for v in qm]
        for dt in ("float64", "float32"):
            ty = TYPES[ci % 4]
            qv = round_to([qm], dt)[0]
            t, s = [rng.gauss(0, 3) for _ in range(3)], [10.0 ** rng.uniform(-3, 3)]
            t, s = round_to([t], dt)[0], round_to([s], dt)[0]
            row = {"SO3": qv, "SE3": t + qv, "RxSO3": qv + s, "Sim3": t + qv + s}[ty]
            it = {"kind": "nert", "ty": ty, "dt": dt, "x": [v.hex() for v in row], "cell": name}
            if name == "custom_eps":
                if dt != "float64":
                    continue
                it.update(eps=1e-5, form=["function_pos", "function_kw", "method"][ci % 3])
            items.append(it)
    return items


def ev_ne2(items):
    """euler2SO3 on batches (random shapes) of angle triples"""
    import torch
    from vlib import refsem as R
    pp = pypose()
    mp = mpctx()
    out = []
    by = {}
    for it in items:
        by.setdefault(it["dt"], []).append(it)
    for dt, its in by.items():
        eps = mp.mpf(eps_of(dt))
        A = torch.tensor([[float.fromhex(h) for h in it["a"]] for it in its], dtype=tdtype(dt))
        n = len(its)
        shape = (n,) if n % 2 else (2, n // 2)
        Y = pp.euler2SO3(A.reshape(shape + (3,)))
        ok = isinstance(Y, pp.LieTensor) and Y.ltype == pp.SO3_type and tuple(Y.shape) == shape + (4,)
        Yf = Y.tensor().reshape(n, 4) if ok else None
        for i, it in enumerate(its):
            a = [mp.mpf(float.fromhex(h)) for h in it["a"]]
            ev = {"op": "ne2", "dt": dt, "cell": it["cell"], "finite": False, "rot": CAP, "un": CAP, "allow": 0}
            if ok:
                qv = Yf[i].tolist()
                ev["finite"] = all(math.isfinite(v) for v in qv)
                if ev["finite"]:
                    ref = mp_euler_mat(*a)
                    ev["rot"] = R.block_err(R.rot_of_quat([mp.mpf(v) for v in qv]), ref, range(3), range(3), eps, floor=mp.mpf(1))
                    ev["un"] = R.unit_err(qv, eps)
            out.append((it, ev))
    return out


def ev_nert(items):
    import torch
    from vlib import refsem as R
    pp = pypose()
    mp = mpctx()
    out = []
    by = {}
    for it in items:
        by.setdefault((it["ty"], it["dt"], it.get("eps"), it.get("form")), []).append(it)
    for (ty, dt, geps, form), its in by.items():
        eps = mp.mpf(eps_of(dt))
        X = L.mk(ty, [[float.fromhex(h) for h in it["x"]] for it in its], tdtype(dt))
        n = len(its)
        if n % 2 == 0:
            X = X.lview(2, n // 2)
        if geps is None:
            E = X.euler()
        elif form == "function_pos":
            E = pp.euler(X, geps)
        elif form == "function_kw":
            E = pp.euler(X, eps=geps)
        else:
            E = X.euler(eps=geps)
        band = mp.mpf(GIMBAL_EPS if geps is None else geps)
        Y = pp.euler2SO3(E)
        ok = tuple(E.shape) == tuple(X.lshape) + (3,) and isinstance(Y, pp.LieTensor) and Y.ltype == pp.SO3_type
        Ef = E.reshape(n, 3) if ok else None
        Yf = Y.tensor().reshape(n, 4) if ok else None
        for i, it in enumerate(its):
            row = [float.fromhex(h) for h in it["x"]]
            _, qx, _ = R.split_grp(ty, row)
            x, y, z, w = qx
            t2 = 2 * (w * y - z * x) / (x * x + y * y + z * z + w * w)
            gap = 1 - abs(t2)
            g = 9 if gap < mp.mpf("1.25") * band else (0 if gap >= mp.mpf("0.1") else 1 if gap >= mp.mpf("0.01")
                                          else 2 if gap >= mp.mpf("0.001") else 3 if gap >= 2 * mp.mpf(GIMBAL_EPS) else 4)
            ev = {"op": "nert", "ty": ty, "dt": dt, "cell": it["cell"], "g": g, "finite": False, "rot": CAP, "rng": CAP}
            if ok:
                e, qv = Ef[i].tolist(), Yf[i].tolist()
                ev["finite"] = all(math.isfinite(v) for v in e + qv)
                if ev["finite"]:
                    ev["rot"] = R.block_err(R.rot_of_quat([mp.mpf(v) for v in qv]), R.rot_of_quat(qx), range(3), range(3), eps,
                                            floor=mp.mpf(1))
                    over = max((abs(mp.mpf(e[0])) - mp.pi) / mp.pi, (abs(mp.mpf(e[2])) - mp.pi) / mp.pi,
                               (abs(mp.mpf(e[1])) - mp.pi / 2) / (mp.pi / 2), mp.mpf(0))
                    ev["rng"] = capint(mp, over / eps)
            out.append((it, ev))
    return out


# ---------------------------------------------------------------------------- rejection clause
def check_items(ctx):
    """perturbed / invalid / valid inputs of every class of Convert!PertClass that is specified"""
    mp = mpctx()
    rng, q = ctx.rng, ctx.quick
    items = []

    def base_rot():
        c = rng.random()
        if c < 0.3:
            return [[mp.mpf(v) for v in r] for r in rot_int(rng.choice(QTETRA + Q2))], "lattice"
        if c < 0.5:
            return mp_rot(rand_axis(rng), mp.pi - mp.mpf(10) ** -rng.randint(3, 12)), "nearpi"
        return mp_rot(rand_axis(rng), mp.mpf(rng.uniform(0, math.pi))), "generic"

    def add(ty, dt, E, kind, k, A, tag, fn=None, lay=None):
        lay = lay or rng.choice(LAYS)
        t = [mp.mpf(rng.randint(-3, 3)) for _ in range(3)]
        U = round_to(embed(A, t, lay), dt)
        if lay == "44":
            U[3] = [0.0, 0.0, 0.0, 1.0]
        items.append({"kind": "check", "fn": fn or rng.choice(["from_matrix", "mat2" + ty]), "ty": ty, "lay": lay, "dt": dt,
                      "U": hexmat(U), "E": E, "pk": kind, "k": k, "cell": tag})

    reps = 1 if q else 6
    for dt in ("float64", "float32"):
        # explicit tolerances far from the default on either side, so that a dropped rtol / atol argument shows
        for E in ((None, 2, 8) if dt == "float64" else (None, 2)):
            Ev = 5 if E is None else E
            slo = max(-3.0, 1.5 - Ev)        # documented: legal scales satisfy |s| > atol; stay 30x above it
            for ty in TYPES:
                for _ in range(reps):
                    # valid inputs (incl. round-off of the dtype): never raise
                    for _v in range(3):
                        R, tag = base_rot()
                        s = mp.mpf(10) ** mp.mpf(rng.uniform(slo, 3)) if HAS_S[ty] else mp.mpf(1)
                        add(ty, dt, E, "valid", 0, [[s * v for v in r] for r in R], tag)
                    # reflections, scaled rotations
                    R, tag = base_rot()
                    s = mp.mpf(10) ** mp.mpf(rng.uniform(slo, 3)) if HAS_S[ty] else mp.mpf(1)
                    add(ty, dt, E, "reflect", 0, [[-s * v for v in r] for r in R], tag)
                    R, tag = base_rot()
                    s = mp.mpf(rng.choice([v for v in (1e-3, 0.1, 0.5, 0.8, 1.25, 2.0, 10.0, 1e3) if v >= 10.0 ** slo]))
                    add(ty, dt, E, "scaled", 0, [[s * v for v in r] for r in R], tag)
                    # perturbations 10^-k: k two decades away from the tolerance on either side
                    for k in range(1, 13):
                        if Ev - 2 < k < Ev + 2:
                            continue              # unspecified band: not generated
                        if dt == "float32" and k > 9:
                            continue
                        d = mp.mpf(10) ** -k
                        for kind in ("scale", "shear", "entry"):
                            if kind == "entry" and HAS_S[ty]:
                                continue          # not decided by the model for the renormalised types
                            R, tag = base_rot()
                            Rm = mp.matrix(R)
                            i, j = rng.sample(range(3), 2) if kind == "shear" else (rng.randrange(3), rng.randrange(3))
                            Eij = mp.zeros(3)
                            Eij[i, j] = 1
                            if kind == "scale":
                                M = (1 + d) * Rm
                            elif kind == "shear":
                                M = Rm * (mp.eye(3) + d * Eij)
                            else:
                                M = Rm + d * rng.choice((-1, 1)) * Eij
                            s = mp.mpf(10) ** mp.mpf(rng.uniform(max(slo, -2.0), 2)) if HAS_S[ty] else mp.mpf(1)
                            A = [[s * M[a, b] for b in range(3)] for a in range(3)]
                            if k in (Ev - 2, Ev + 2):        # the edges of the specified classes: through both entry points
                                for fn in ("from_matrix", "mat2" + ty):
                                    add(ty, dt, E, kind, k, A, tag, fn=fn)
                            else:
                                add(ty, dt, E, kind, k, A, tag)
        # rtol != atol: a shear only has off-diagonal defects in R R^T (compared with 0), so atol alone decides; a
        # swapped or dropped argument accepts / rejects on the wrong side.  (atol exponent, rtol exponent)
        if dt == "float64":
            for ty in TYPES:
                for Ea, Er in ((6, 2), (2, 6)):
                    for k in (Ea - 2, Ea + 2):
                        for fn in ("from_matrix", "mat2" + ty):
                            R, tag = base_rot()
                            i, j = rng.sample(range(3), 2)
                            Eij = mp.zeros(3)
                            Eij[i, j] = 1
                            M = mp.matrix(R) * (mp.eye(3) + mp.mpf(10) ** -k * Eij)
                            s = mp.mpf(10) ** mp.mpf(rng.uniform(-1, 1)) if HAS_S[ty] else mp.mpf(1)
                            add(ty, dt, (Ea, Er), "shear", k, [[s * M[a, b] for b in range(3)] for a in range(3)], tag + "/rtol!=atol", fn=fn)
    return items


def ev_check(it, res):
    raised, exc, Y, note = res
    return {"op": "check", "fn": it["fn"], "ty": it["ty"], "lay": it["lay"], "dt": it["dt"], "pk": it["pk"], "k": it["k"],
            "E": 5 if it["E"] is None else it["E"][0] if isinstance(it["E"], (tuple, list)) else it["E"],
            "Er": 5 if it["E"] is None else it["E"][1] if isinstance(it["E"], (tuple, list)) else it["E"],
            "cell": it["cell"], "raised": bool(raised), "exc": exc, "bs": note}


def mixed_items(ctx):
    """one invalid matrix inside a batch of valid ones must raise ValueError for the batch (allclose over the batch)"""
    mp = mpctx()
    rng = ctx.rng
    items = []
    for dt in ("float64", "float32"):
        for ty in TYPES:
            for kind in ("reflect", "shear"):
                mats = []
                for _ in range(5):
                    mats.append(round_to(mp_rot(rand_axis(rng), mp.mpf(rng.uniform(0, 3))), dt))
                Rm = mp.matrix(mp_rot(rand_axis(rng), mp.mpf(rng.uniform(0, 3))))
                bad = -Rm if kind == "reflect" else Rm * (mp.eye(3) + mp.mpf("0.01") * mp.matrix([[0, 1, 0], [0, 0, 0], [0, 0, 0]]))
                pos = rng.randrange(6)
                mats.insert(pos, round_to([[bad[a, b] for b in range(3)] for a in range(3)], dt))
                items.append({"kind": "mixed", "ty": ty, "dt": dt, "pk": kind, "pos": pos, "shape": rng.choice([[6], [2, 3], [3, 2]]),
                              "mats": [hexmat(m) for m in mats]})
    return items


def ev_mixed(it):
    import torch
    ty, dt = it["ty"], it["dt"]
    U = torch.tensor([unhex(m) for m in it["mats"]], dtype=tdtype(dt)).reshape(tuple(it["shape"]) + (3, 3))
    raised, exc, _ = call_one("mat2" + ty, ty, U, None)
    return {"op": "check", "fn": "mat2" + ty, "ty": ty, "lay": "33", "dt": dt, "pk": it["pk"], "k": 2, "E": 5, "Er": 5,
            "cell": "mixed_batch@%d" % it["pos"], "raised": bool(raised), "exc": exc,
            "bs": "" if (raised and exc == "ValueError") else "mixed=%s" % (tuple(it["shape"]),)}


# ============================================================================ items -> events
def events_of(ctx, items):
    """run the real code on every item; returns list of (item, event) in item order (chain items give a list)"""
    out = [None] * len(items)
    groups = {}
    for i, it in enumerate(items):
        if it["kind"] in ("from", "fromsq2", "nfrom", "check"):
            ind = it["kind"] == "check" or it.get("valid") is False
            bs = tuple(it["bshape"]) if it.get("bshape") is not None else None      # replay of a batch-shape failure
            Ek = tuple(it["E"]) if isinstance(it["E"], list) else it["E"]
            groups.setdefault((it["fn"], it["ty"], it["lay"], it["dt"], Ek, bool(ind), bs), []).append(i)
    for key, idx in groups.items():
        res = run_group(ctx.rng, key[:5], [unhex(items[i]["U"]) for i in idx], key[5], key[6])
        for i, r in zip(idx, res):
            it = items[i]
            out[i] = ev_from(it, r) if it["kind"] in ("from", "fromsq2") else ev_nfrom(it, r) if it["kind"] == "nfrom" \
                else ev_check(it, r)
    for i, it in enumerate(items):
        if it["kind"] == "chain":
            out[i] = ev_chain(it)
        elif it["kind"] == "euler":
            out[i] = ev_euler(it)
        elif it["kind"] == "euler2":
            out[i] = ev_euler2(it)
        elif it["kind"] == "mixed":
            out[i] = ev_mixed(it)
    for kind, f in (("ne2", ev_ne2), ("nert", ev_nert)):
        sel = [i for i, it in enumerate(items) if it["kind"] == kind]
        where = {id(items[i]): i for i in sel}
        for it, ev in f([items[i] for i in sel]):       # (returned grouped by type / dtype, not in item order)
            out[where[id(it)]] = ev
    if any(o is None for o in out):
        raise MachineryError("item without event")
    return out


def traces_of(items, events, per=25):
    """pack events into traces (cfg.kind exact/num; chain items are one trace each); adds seq / n"""
    traces, owners = [], []
    buckets = {}
    for it, ev in zip(items, events):
        if it["kind"] == "chain":
            traces.append({"cfg": {"kind": "exact", "n": len(ev)}, "ev": [dict(e, seq=j + 1) for j, e in enumerate(ev)]})
            owners.append([it] * len(ev))
            continue
        kind = "num" if it["kind"] in ("nfrom", "ne2", "nert", "check", "mixed") else "exact"
        b = buckets.setdefault(kind, ([], []))
        b[0].append(ev)
        b[1].append(it)
        if len(b[0]) == per:
            traces.append({"cfg": {"kind": kind, "n": per}, "ev": [dict(e, seq=j + 1) for j, e in enumerate(b[0])]})
            owners.append(b[1])
            buckets[kind] = ([], [])
    for kind, b in buckets.items():
        if b[0]:
            traces.append({"cfg": {"kind": kind, "n": len(b[0])}, "ev": [dict(e, seq=j + 1) for j, e in enumerate(b[0])]})
            owners.append(b[1])
    return traces, owners


def key_of(it, e, clause):
    """the failing input class: event kind / type / function / layout / dtype / clause / cell (not the random instance);
    failures that only occur inside a batch are keyed by type / exception / batch shape"""
    if e.get("bs"):
        return "/".join(["batch", str(it.get("ty")), clause.split("_b")[0], str(e.get("exc")), e["bs"].replace(" ", "")])
    k = [e["op"], str(it.get("ty", "-")), str(e.get("fn", "-")), str(e.get("lay", "-")), str(it.get("dt", "-")), clause]
    if "cell" in e:
        k.append(str(e["cell"]).split("@")[0])
    if e["op"] == "check":
        k.append("%s/k=%s/E=%s" % (e["pk"], e["k"], e["E"]))
    if it.get("valid") is False:
        k.append("invalid_input")
    if e.get("raised") and clause.startswith(("raised_on_valid", "wrong_exception")):
        k.append(str(e.get("exc")))
    return "/".join(k)


def judge(ctx, traces, owners, verdicts):
    for tr, own, v in zip(traces, owners, verdicts):
        if v == "ok":
            continue
        clause, at = v.rsplit("@", 1)
        e = tr["ev"][int(at) - 1]
        it = own[int(at) - 1]
        if clause.startswith("harness_"):
            raise MachineryError("inconsistent log: %s at event %s of %s" % (clause, at, json.dumps(tr)[:600]))
        ctx.violation(key_of(it, e, clause),
                      "ConvertTrace rejected event %s (%s): clause %s; event=%s" % (at, e["op"], clause, json.dumps(e)[:600]),
                      {"item": dict(it, bshape=json.loads(e["bs"].split("=")[1].replace("(", "[").replace(")", "]").replace(",]", "]")))
                       if e.get("bs", "").startswith("batch=") else it})


def cover(ctx, it, ev):
    evs = ev if isinstance(ev, list) else [ev]
    for e in evs:
        op = e["op"]
        if op in ("from", "fromsq2"):
            ctx.cover("E:%s:%s:%s:%s:%s:%s" % (op, it["ty"], it["lay"], it["dt"], it["n"], it["valid"]))
        elif op in ("matrix", "from_last"):
            ctx.cover("E:%s:%s:%s:%s:%s" % (op, it["ty"], it["dt"], e.get("lay"), it["x"][-5:]))
        elif op in ("euler", "euler2"):
            ctx.cover("E:%s:%s:%s" % (op, it["dt"], it.get("n", it.get("k"))))
        elif op == "nfrom":
            ctx.cover("R:nfrom:%s:%s:%s:%s:%s" % (it["ty"], it["lay"], it["dt"], it["cell"], e["m"]))
        elif op == "check":
            ctx.cover("R:check:%s:%s:%s:%s:%s:%s" % (e["ty"], e["dt"], e["pk"], e["k"], e["E"], e["cell"].split("@")[0]))
        else:
            ctx.cover("R:%s:%s:%s:%s" % (op, it["dt"], it["cell"], e.get("g")))


def all_items(ctx):
    return (exact_items(ctx) + chain_items(ctx) + euler_exact_items(ctx) + num_from_items(ctx) + num_euler_items(ctx)
            + check_items(ctx) + mixed_items(ctx))


def run(ctx):
    import torch
    pypose()
    torch.manual_seed(ctx.seed)
    q = ctx.quick
    ctx.rule = ["TLC (Convert): mask table total/exclusive, all four branches on the 12 tetrahedral rotations, mat2SO3 exact round "
                "trip on them and numerator round trip on all 24 cube rotations, from_matrix x 4 types x 3 layouts x translations x "
                "scales 2^k (det = s^3), rejection of scaled rotations / reflections, check=True classes from the polynomial model "
                "of R + 10^-k E against rtol = atol in {1e-2, 1e-5, 1e-8}, Euler composition / inverse / round trip on quarter turns",
                "Mode E: real mat2*/from_matrix on all lattice rotations x layouts x types x dtypes, X.matrix() -> from_matrix chains, "
                "euler / euler2SO3 on the binary octahedral group and quarter turns; validated exactly by ConvertTrace",
                "Mode R: rotations pi -+ 1e-k (k = 3..12) about coordinate, diagonal and random axes, generic, small angles; scales "
                "1e-3..1e3, translations, random batch shapes; euler2SO3 vs Rz Ry Rx, euler round trip up to twice the gimbal eps; "
                "rejection classes; judged by ConvertTrace from integer eps measures",
                "distinct = (event kind, type, layout, dtype, lattice element | cell + branch bits | perturbation class)"]
    ctx.assumptions = ["60-digit mpmath evaluation of Rodrigues / Rz Ry Rx / det^(1/3) is the reference for Mode R",
                       "perturbations within two decades of rtol = atol, and |sin pitch| >= 1 - 4e-4, are unspecified and not generated",
                       "float32 with rtol = atol = 1e-8 is not exercised (round-off of the dtype exceeds the tolerance)"]
    if ctx.replay:
        case = json.load(open(ctx.replay))["case"]
        items = [case["item"]]
        evs = events_of(ctx, items)
        traces, owners = traces_of(items, evs)
        judge(ctx, traces, owners, ctx.validate("ConvertTrace", "ConvertTrace.cfg", traces, "replay"))
        return
    ctx.tlc("Convert", "Convert_q.cfg" if q else "Convert_t.cfg", workers=4, timeout=7200, coverage=True,
            need_actions=("CallMat2SO3", "CallFromMatrix", "CallFromMatrixInvalid", "CallCheckPerturbed", "CallEuler2SO3",
                          "CallEuler", "Return"))
    for r in ctx.tlc_runs:
        if r["violated"]:
            ctx.violation("design/%s/%s" % (r["cfg"], r["violated"][0]), "Convert violates %s" % r["violated"])
    items = all_items(ctx)
    evs = events_of(ctx, items)
    stats = {}
    for it, ev in zip(items, evs):
        cover(ctx, it, ev)
        for e in (ev if isinstance(ev, list) else [ev]):
            stats[e["op"]] = stats.get(e["op"], 0) + 1
            for f in ("rot", "un", "sc", "qerr", "err", "rng"):
                if f in e and e.get("finite", True) and not e.get("raised"):
                    k = "%s.%s/%s%s" % (e["op"], f, it["dt"], "/g%s" % e["g"] if e["op"] == "nert" else "")
                    if not (e["op"] == "nert" and e["g"] == 9):
                        ctx.extra.setdefault("max_err", {})[k] = max(ctx.extra.get("max_err", {}).get(k, 0),
                                                                      e[f] - e.get("allow", 0) if f == "rot" else e[f])
    ctx.extra["events_by_op"] = stats
    for k in ("from", "nfrom", "check", "nert"):
        for it, ev in zip(items, evs):
            if not isinstance(ev, list) and ev["op"] == k:
                ctx.sample(ev)
                break
    traces, owners = traces_of(items, evs)
    judge(ctx, traces, owners, ctx.validate("ConvertTrace", "ConvertTrace.cfg", traces, "c11", chunk=400))


def selftest(ctx):
    pypose()
    its = [{"kind": "chain", "ty": "Sim3", "dt": "float64", "x": [1.0, -2.0, 3.0, 0.5, -0.5, 0.5, 0.5, 4.0], "lays": LAYS}]
    items = its + exact_items(ctx)[:6] + num_from_items(ctx)[:8] + check_items(ctx)[:6]
    items = [dict(it, bshape=[3]) if it["kind"] in ("from", "fromsq2", "nfrom") else it for it in items]   # one plain batch shape
    evs = events_of(ctx, items)
    good, _ = traces_of(items, evs)
    chain, exact = good[0], good[1]
    num = next(t for t in good if t["cfg"]["kind"] == "num")
    cp = lambda t: json.loads(json.dumps(t))
    bad = []
    b = cp(chain)                       # translation of a from_matrix result
    b["ev"][1]["out"][0][0] += 1
    bad.append(("translation@2", b))
    b = cp(chain)                       # an entry of the logged matrix()
    b["ev"][0]["out"][5][0] += 1
    bad.append(("matrix@1", b))
    b = cp(exact)                       # a quaternion component of an exact result
    b["ev"][0]["out"][0][0] += 1
    bad.append(("unit_quaternion@1", b))
    b = cp(num)                         # a numeric measure
    b["ev"][0]["rot"] = 10 ** 6
    bad.append(("same_matrix", b))
    b = cp(num)                         # the raise / accept bit of a check event
    k = next(i for i, e in enumerate(b["ev"]) if e["op"] == "check")
    b["ev"][k]["raised"] = not b["ev"][k]["raised"]
    b["ev"][k]["exc"] = "ValueError" if b["ev"][k]["raised"] else ""
    bad.append(("@%d" % (k + 1), b))
    b = cp(chain)                       # deleted events: the matrix() call of the chain, a middle event, the last event
    del b["ev"][0]
    bad.append(("harness_sequence@1", b))
    b = cp(exact)
    del b["ev"][2]
    bad.append(("harness_sequence@3", b))
    b = cp(num)
    del b["ev"][-1]
    bad.append(("harness_truncated", b))
    v0 = ctx.validate("ConvertTrace", "ConvertTrace.cfg", good, "self_good")
    v1 = ctx.validate("ConvertTrace", "ConvertTrace.cfg", [t for _, t in bad], "self_bad")
    print("selftest verdicts:", v0, v1)
    assert all(v == "ok" for v in v0)
    for (want, _), got in zip(bad, v1):
        assert got != "ok" and want in got, (want, got)
    return 0
