"""C17 — point-set alignment (svdtf / svdstf), ICP and EPnP (Mode E necessary conditions + Mode R).
Spec: Align.tla (design: exact SSR, 24 cube-rotation candidates, properness, configuration classes),
AlignTrace.tla (verdicts on what the real functions returned), AlignGen.tla (spec -> code table)."""
import itertools
import json
import math
from fractions import Fraction as F

from vlib.core import MachineryError, pypose
from vlib.lattice import U24

CAP = 10 ** 9
SSRCAP = 10 ** 8
FPBITS = 10
MONO_ONE = 1 << 20
CLASSES = ["generic", "planar", "collinear", "minimal", "duplicated"]
FNS = ["svdtf", "svdstf"]


# ============================================================================ small exact helpers
def eps_of(dtype_name):
    return 2.0 ** -52 if dtype_name == "float64" else 2.0 ** -23


def tdtype(torch, name):
    return {"float64": torch.float64, "float32": torch.float32}[name]


def dyf(q):
    """Fraction with power-of-two denominator -> normal-form dyadic [m, e]."""
    q = F(q)
    e = q.denominator.bit_length() - 1
    if (1 << e) != q.denominator:
        raise MachineryError("not dyadic: %s" % q)
    return [q.numerator, e]


def undy(d):
    return F(d[0], 1 << d[1])


def capint(x, cap=CAP):
    """ceil of a non-negative number as a capped int (NaN / inf -> cap)."""
    try:
        if isinstance(x, float) and not math.isfinite(x):
            return cap
        v = math.ceil(x)
    except (ValueError, OverflowError):
        return cap
    return max(0, min(cap, int(v)))


def rot_of_unit(q):
    """Exact rotation matrix (Fractions) of a unit quaternion (x, y, z, w) with dyadic components."""
    x, y, z, w = [F(v) for v in q]
    return [[1 - 2 * (y * y + z * z), 2 * (x * y - z * w), 2 * (x * z + y * w)],
            [2 * (x * y + z * w), 1 - 2 * (x * x + z * z), 2 * (y * z - x * w)],
            [2 * (x * z - y * w), 2 * (y * z + x * w), 1 - 2 * (x * x + y * y)]]


def cross(u, v):
    return [u[1] * v[2] - u[2] * v[1], u[2] * v[0] - u[0] * v[2], u[0] * v[1] - u[1] * v[0]]


def classify(x):
    """Mirror of Align!Class on integer clouds (used for trace labels; the spec re-derives it)."""
    d = [[a - b for a, b in zip(p, x[0])] for p in x[1:]]
    coll = all(cross(u, v) == [0, 0, 0] for u in d for v in d)
    if coll:
        return "collinear"
    if any(x[i] == x[j] for i in range(len(x)) for j in range(i + 1, len(x))):
        return "duplicated"
    if len(x) == 3:
        return "minimal"
    copl = all(sum(a * b for a, b in zip(cross(u, v), w)) == 0 for u in d for v in d for w in d)
    return "planar" if copl else "generic"


# ============================================================================ lattice instances (mode E)
BOX = 4
PLANES = [(0, 0, 1), (0, 1, 0), (1, 0, 0), (1, 1, 0), (1, -1, 0), (1, 0, 1), (0, 1, -1), (1, 1, 1), (1, 1, -1),
          (1, 2, 0), (2, 0, 1)]
DIRS = [(1, 0, 0), (0, 1, 0), (0, 0, 1), (1, 1, 0), (1, 0, -1), (0, 1, 1), (1, 1, 1), (1, -1, 1), (1, 2, 0),
        (2, 1, -1), (1, 2, 3)]
GRID = list(itertools.product(range(-BOX, BOX + 1), repeat=3))


def lattice_cloud(rng, cls, n=None):
    """An integer cloud of the requested class in the box [-4, 4]^3."""
    for _ in range(1000):
        if cls == "minimal":
            x = [list(rng.choice(GRID)) for _ in range(3)]
        elif cls == "generic":
            k = n or rng.randint(4, 6)
            x = [list(rng.choice(GRID)) for _ in range(k)]
            if rng.random() < 0.4:         # thin clouds: reflection-prone under noise
                ax = rng.randrange(3)
                for p in x:
                    p[ax] = rng.choice((0, 1))
        elif cls == "planar":
            k = n or rng.randint(4, 6)
            nn, c = rng.choice(PLANES), rng.randint(-2, 2)
            pts = [p for p in GRID if sum(a * b for a, b in zip(nn, p)) == c]
            x = [list(p) for p in rng.sample(pts, k)]
        elif cls == "collinear":
            k = n or rng.randint(3, 6)
            d, p0 = rng.choice(DIRS), rng.choice(GRID)
            ks = rng.sample(range(-4, 5), k)
            x = [[p0[i] + kk * d[i] for i in range(3)] for kk in ks]
            if rng.random() < 0.3:
                x[-1] = list(x[0])
        else:  # duplicated, not collinear
            k = n or rng.randint(4, 6)
            base = [list(rng.choice(GRID)) for _ in range(k - 1)]
            x = base + [list(rng.choice(base))]
            rng.shuffle(x)
        if max(abs(v) for p in x for v in p) <= BOX and classify(x) == cls:
            return x
    raise MachineryError("could not generate a %s cloud" % cls)


CUBE_ROTS = [(p, sg) for p in itertools.permutations(range(3)) for sg in itertools.product((1, -1), repeat=3)
             if sg[0] * sg[1] * sg[2] * (1 if p in ((0, 1, 2), (1, 2, 0), (2, 0, 1)) else -1) == 1]


def best_correlation(x, y):
    """max over the 24 cube rotations of N tr(R^T H) (exact); <= 0 means the similarity optimum degenerates to
    scale 0, which is not a similarity - such inputs are unspecified and not generated."""
    n = len(x)
    sx = [sum(p[i] for p in x) for i in range(3)]
    sy = [sum(p[i] for p in y) for i in range(3)]
    h = [[n * sum(q[a] * p[b] for p, q in zip(x, y)) - sy[a] * sx[b] for b in range(3)] for a in range(3)]
    return max(sum(sg[i] * h[i][p[i]] for i in range(3)) for p, sg in CUBE_ROTS)


def well_posed(x):
    """Mirror of Align!WellPosed (for reporting only; the verdict is TLC's)."""
    n = len(x)
    sx = [sum(p[i] for p in x) for i in range(3)]
    S = [[n * sum(p[a] * p[b] for p in x) - sx[a] * sx[b] for b in range(3)] for a in range(3)]
    e1 = S[0][0] + S[1][1] + S[2][2]
    e2 = (S[0][0] * S[1][1] - S[0][1] ** 2) + (S[0][0] * S[2][2] - S[0][2] ** 2) + (S[1][1] * S[2][2] - S[1][2] ** 2)
    return classify(x) != "collinear" and e1 * e1 <= 64 * e2


def lattice_instance(rng, fn, cls, noisy, n=None):
    while True:
        x = lattice_cloud(rng, cls, n)
        q = list(rng.choice(U24))
        t = [rng.randint(-3, 3) for _ in range(3)]
        s = F(1) if fn == "svdtf" else F(2) ** rng.randint(-1, 1)
        if noisy:
            while True:
                nz = [[rng.choice((-1, 0, 0, 1)) for _ in range(3)] for _ in x]
                if any(v for p in nz for v in p):
                    break
        else:
            nz = [[0, 0, 0] for _ in x]
        inst = {"src": x, "t": t, "q": q, "s": s, "noise": nz}
        if fn == "svdtf" or best_correlation(x, targets_of(inst)) > 0:
            return inst


def targets_of(inst):
    R = rot_of_unit(inst["q"])
    out = []
    for p, nz in zip(inst["src"], inst["noise"]):
        out.append([inst["s"] * sum(R[i][j] * p[j] for j in range(3)) + inst["t"][i] + nz[i] for i in range(3)])
    return out


def measure_result(res_row, ya_rows, src, tgt, dtype_name, with_scale):
    """Integer measures of one returned transform. res_row: list of 7/8 floats; ya_rows: result applied to
    the source by the real Act (floats); tgt: Fractions."""
    eps = eps_of(dtype_name)
    bad = any(not math.isfinite(v) for v in res_row) or any(not math.isfinite(v) for r in ya_rows for v in r)
    E = max(dyf(v)[1] for p in tgt for v in p)
    if bad:
        return {"res": {"t": [[0, 0]] * 3, "q": [[0, 0]] * 4, "s": [0, 0]}, "dev": CAP, "qn": CAP, "ssr": SSRCAP}, E
    scale = max(1, max(abs(v) for p in src for v in p), max(abs(float(v)) for p in tgt for v in p))
    dev = F(0)
    tq = []
    for k in range(3):
        v = F(res_row[k])
        sn = F(round(v * 4), 4)
        dev = max(dev, abs(v - sn) / (F(eps) * scale))
        tq.append(sn)
    qq = []
    for k in range(3, 7):
        v = F(res_row[k])
        sn = F(round(v * 2), 2)
        dev = max(dev, abs(v - sn) / F(eps))
        qq.append(sn)
    if with_scale:
        sv = res_row[7]
        if sv > 0 and -12 <= round(math.log2(sv)) <= 12:
            ss = F(2) ** round(math.log2(sv))
            dev = max(dev, abs(F(sv) - ss) / (F(eps) * ss))
        else:
            ss, dev = F(0), F(CAP)
    else:
        ss = F(1)
    qn = abs(sum(F(v) ** 2 for v in res_row[3:7]) - 1) / F(eps)
    ssr = sum((F(a) - b) ** 2 for ra, rb in zip(ya_rows, tgt) for a, b in zip(ra, rb))
    ssr_fp = ssr * (4 ** E) * (1 << FPBITS)
    m = {"res": {"t": [dyf(v) for v in tq], "q": [dyf(v) for v in qq], "s": dyf(ss)},
         "dev": capint(dev), "qn": capint(qn), "ssr": min(SSRCAP, int(ssr_fp))}       # floor: never over-reports
    return m, E


def call_align(fn, src_t, tgt_t):
    """The real call; returns (rows of the result tensor, rows of result applied to source) or an exception text."""
    pp = pypose()
    f = getattr(pp, fn)
    r = f(src_t, tgt_t)
    ya = r.unsqueeze(-2).Act(src_t)
    return r.tensor().detach(), ya.detach()


def lattice_trace(fn, dtype_name, cls, noisy, insts, bshape):
    """One real (possibly batched) call on lattice instances with the same point count; one event each."""
    import torch
    dt = tdtype(torch, dtype_name)
    tg = [targets_of(i) for i in insts]
    src_t = torch.tensor([i["src"] for i in insts], dtype=dt)
    tgt_t = torch.tensor([[[float(v) for v in p] for p in t] for t in tg], dtype=dt)
    n = len(insts[0]["src"])
    nan_row = [float("nan")] * (8 if fn == "svdstf" else 7)
    excs = [""] * len(insts)
    if bshape == "single":
        rows, yas = [], []
        for k in range(len(insts)):
            try:
                o = call_align(fn, src_t[k], tgt_t[k])
                rows.append(o[0].tolist())
                yas.append(o[1].tolist())
            except Exception as ex:      # a valid call that raises is judged by the trace spec (clause "raises")
                excs[k] = repr(ex)[:200]
                rows.append(nan_row)
                yas.append([[float("nan")] * 3] * n)
    else:
        shp = (len(insts),) if bshape == "batch" else (2, len(insts) // 2)
        try:
            r, ya = call_align(fn, src_t.reshape(shp + (n, 3)), tgt_t.reshape(shp + (n, 3)))
            rows = r.reshape(len(insts), -1).tolist()
            yas = ya.reshape(len(insts), n, 3).tolist()
        except Exception as ex:
            excs = [repr(ex)[:200]] * len(insts)
            rows = [nan_row] * len(insts)
            yas = [[[float("nan")] * 3] * n] * len(insts)
    ev = []
    for inst, t, row, ya, exc in zip(insts, tg, rows, yas, excs):
        m, E = measure_result(row, ya, inst["src"], t, dtype_name, fn == "svdstf")
        e = {"act": "align", "exc": bool(exc), "msg": exc, "src": inst["src"], "noise": inst["noise"],
             "X": {"t": [dyf(v) for v in inst["t"]], "q": [dyf(F(v)) for v in inst["q"]], "s": dyf(inst["s"])},
             "tgt": [[dyf(v) for v in p] for p in t]}
        e.update(m)
        ev.append(e)
    ev.append({"act": "done", "n": len(insts)})
    return {"cfg": {"kind": "lat", "fn": fn, "dtype": dtype_name, "cls": cls, "noisy": noisy, "bshape": bshape},
            "ev": ev}


def lattice_traces(ctx, per):
    traces = []
    for fn in FNS:
        for dtype_name in ("float64", "float32"):
            for cls in CLASSES:
                for noisy in (False, True):
                    left = per
                    while left > 0:
                        bshape = ctx.rng.choice(["single", "batch", "batch", "grid"])
                        k = 4 if bshape == "grid" else min(left, ctx.rng.randint(1, 6))
                        n = 3 if cls == "minimal" else ctx.rng.randint(3 if cls == "collinear" else 4, 6)
                        insts = [lattice_instance(ctx.rng, fn, cls, noisy, n) for _ in range(k)]
                        traces.append(lattice_trace(fn, dtype_name, cls, noisy, insts, bshape))
                        left -= k
    return traces


def rerun_lattice_trace(tr):
    c = tr["cfg"]
    insts = []
    for e in tr["ev"]:
        if e["act"] != "align":
            continue
        insts.append({"src": e["src"], "noise": e["noise"], "t": [int(undy(v)) for v in e["X"]["t"]],
                      "q": [float(undy(v)) for v in e["X"]["q"]], "s": undy(e["X"]["s"])})
    return lattice_trace(c["fn"], c["dtype"], c["cls"], c["noisy"], insts, c["bshape"])


# ============================================================================ spec -> code table
def gen_table(ctx):
    import torch
    out = ctx.work / "align_table.json"
    res = ctx.tlc("AlignGen", "AlignGen_q.cfg" if ctx.quick else "AlignGen_t.cfg", env={"OUT_FILE": out}, workers=1,
                  heap="3g")
    tab = json.loads(out.read_text())["rows"]
    n = 0
    nrefl = nskip = 0
    by_n = {}
    for row in tab:
        by_n.setdefault((row["n"],), []).append(row)
    for rows in by_n.values():
        for c0 in range(0, len(rows), 256):
            part = rows[c0:c0 + 256]
            src_t = torch.tensor([r["src"] for r in part], dtype=torch.float64)
            tg = [[[undy(v) for v in p] for p in r["tgt"]] for r in part]
            tgt_t = torch.tensor([[[float(v) for v in p] for p in t] for t in tg], dtype=torch.float64)
            for fn in FNS:
                try:
                    rr, ya = call_align(fn, src_t, tgt_t)
                    rr, ya = rr.tolist(), ya.tolist()
                except Exception:
                    rr, ya = [], []
                    for k in range(len(part)):      # find the rows on which the call raises
                        try:
                            a, b = call_align(fn, src_t[k], tgt_t[k])
                            rr.append(a.tolist())
                            ya.append(b.tolist())
                        except Exception as ex:
                            rr.append(repr(ex)[:200])
                            ya.append(None)
                for r, t, row, y in zip(part, tg, rr, ya):
                    if fn == "svdstf" and r["amax"] <= 0:
                        nskip += 1          # zero cross-correlation: the similarity optimum is scale 0 (unspecified)
                        continue
                    n += 1
                    nrefl += r["reflprone"]
                    key = None
                    if y is None:
                        ctx.violation("%s/table/%s/%s/raises" % (fn, r["cls"], "exact" if r["exact"] else "noisy"),
                                      "spec->code: %s raised %s on src=%s tgt=%s" % (
                                          fn, row, r["src"], [[float(v) for v in p] for p in t]),
                                      {"mode": "table", "row": r, "fn": fn})
                        continue
                    finite = all(math.isfinite(v) for v in row) and all(math.isfinite(v) for p in y for v in p)
                    ssr = sum((F(a) - b) ** 2 for pa, pb in zip(y, t) for a, b in zip(pa, pb)) * 4 ** r["e"] \
                        if finite else None
                    tol = F(2, 1 << FPBITS)
                    if ssr is None:
                        key = "optimal"
                    elif fn == "svdtf" and r["n"] * ssr > r["rigidN"] + r["n"] * tol:
                        key = "optimal"
                    elif fn == "svdstf" and r["n"] * ssr * r["nb"] > r["simNum"] + r["n"] * r["nb"] * tol:
                        key = "optimal"
                    elif abs(sum(v * v for v in row[3:7]) - 1) > 64 * 2.0 ** -52:
                        key = "proper"
                    elif r["exact"] and r["wellposed"] and (fn == "svdstf" or r["s"] == [1, 0]):
                        want = [float(undy(v)) for v in r["t"]] + [float(undy(v)) for v in r["q"]]
                        if fn == "svdstf":
                            want.append(float(undy(r["s"])))
                        neg = want[:3] + [-v for v in want[3:7]] + want[7:]
                        scale = max(1.0, max(abs(float(v)) for p in t for v in p))
                        d = min(max(abs(a - b) for a, b in zip(row, w)) for w in (want, neg))
                        if d > 256 * 2.0 ** -52 * scale:
                            key = "reproduce"
                    ctx.cover("table:%s:%s:%s:%s" % (fn, r["cls"], r["exact"], r["n"]))
                    if key:
                        ctx.violation("%s/table/%s/%s/%s" % (fn, r["cls"], ("noisy" if not r["exact"] else "scaled" if fn == "svdtf"
                                                                       and r["s"] != [1, 0] else "exact"), key),
                                      "spec->code: %s on src=%s tgt=%s returned %s (SSR %s); Align gives N*min candidate "
                                      "SSR rigid %s, similarity %s/%s; true transform t=%s q=%s s=%s" % (
                                          fn, r["src"], [[float(v) for v in p] for p in t], row,
                                          float(ssr) if ssr is not None else "nan", r["rigidN"], r["simNum"], r["nb"],
                                          r["t"], r["q"], r["s"]),
                                      {"mode": "table", "row": r, "fn": fn})
    ctx.evaluations += n
    ctx.extra["table_rows"] = len(tab)
    ctx.extra["table_calls_compared"] = n
    ctx.extra["table_reflection_prone_rows"] = nrefl // 2
    ctx.extra["table_rows_unspecified_for_svdstf"] = nskip
    ctx.sample({"kind": "spec->code row", "example": tab[len(tab) // 2]})


# ============================================================================ mode R: independent solver
def np_quat_rot(np, q):
    x, y, z, w = q
    return np.array([[1 - 2 * (y * y + z * z), 2 * (x * y - z * w), 2 * (x * z + y * w)],
                     [2 * (x * y + z * w), 1 - 2 * (x * x + z * z), 2 * (y * z - x * w)],
                     [2 * (x * z - y * w), 2 * (y * z + x * w), 1 - 2 * (x * x + y * y)]])


def kabsch(np, x, y, with_scale):
    """Independent Kabsch / Umeyama with the standard diag(1, 1, det) correction (numpy, float64)."""
    mx, my = x.mean(0), y.mean(0)
    xc, yc = x - mx, y - my
    H = yc.T @ xc
    U, S, Vt = np.linalg.svd(H)
    d = 1.0 if np.linalg.det(U @ Vt) >= 0 else -1.0
    R = U @ np.diag([1.0, 1.0, d]) @ Vt
    s = float((S * np.array([1.0, 1.0, d])).sum() / (xc ** 2).sum()) if with_scale else 1.0
    t = my - s * R @ mx
    return s, R, t


def rand_instance(np, seed, fn, cls, n, noise):
    g = np.random.default_rng(seed)
    spread = float(g.choice([0.3, 1.0, 5.0]))
    x = g.normal(size=(n, 3)) * spread
    if cls in ("planar", "minimal") and n > 3:
        x[:, 2] = 0
        x = x @ np.linalg.qr(g.normal(size=(3, 3)))[0].T
    elif cls == "collinear":
        x = np.outer(g.normal(size=n), g.normal(size=3)) * spread + g.normal(size=3)
    elif cls == "duplicated":
        h = n // 2
        x[n - h:] = x[:h]
    x = x + g.normal(size=3) * spread
    q = g.normal(size=4)
    q /= np.linalg.norm(q)
    R = np_quat_rot(np, q)
    t = g.normal(size=3) * 3
    s = float(np.exp(g.uniform(np.log(0.1), np.log(10.0)))) if fn == "svdstf" else 1.0
    y = s * (x @ R.T) + t + noise * g.normal(size=(n, 3))
    return x, y, (s, R, t)


def rand_measure(np, row, ya, mat, x64, y64, true, fn, dtype_name, noise):
    eps = eps_of(dtype_name)
    with_scale = fn == "svdstf"
    if not (np.isfinite(row).all() and np.isfinite(ya).all() and np.isfinite(mat).all()):
        return {"excess": CAP, "qn": CAP, "orth": CAP, "det": CAP, "perr": CAP, "cond": 0}
    s0, R0, t0 = kabsch(np, x64, y64, with_scale)
    ssr_opt = float(((y64 - (s0 * (x64 @ R0.T) + t0)) ** 2).sum())
    ssr_res = float(((y64 - ya) ** 2).sum())
    scale2 = float((y64 ** 2).sum() + s0 * s0 * (x64 ** 2).sum()) + 1e-300
    sres = float(row[7]) if with_scale else 1.0
    Rm = mat[:3, :3] / sres
    orth = np.abs(Rm.T @ Rm - np.eye(3)).max() / eps
    det = abs(np.linalg.det(Rm) - 1.0) / eps
    qn = abs(float((row[3:7] ** 2).sum()) - 1.0) / eps
    s, R, t = true
    scale = max(1.0, float(np.abs(x64).max()) * s, float(np.abs(y64).max()))
    perr = max(np.abs(Rm - R).max(), np.abs(row[:3] - t).max() / scale, abs(sres - s) / s) / eps
    xc = x64 - x64.mean(0)
    lam = np.linalg.eigvalsh(xc.T @ xc)
    e2 = lam[0] * lam[1] + lam[0] * lam[2] + lam[1] * lam[2]
    cond = CAP if e2 <= 1e-300 * lam.sum() ** 2 else lam.sum() ** 2 / e2
    return {"excess": capint(max(0.0, (ssr_res - ssr_opt) / (eps * scale2))), "qn": capint(qn), "orth": capint(orth),
            "det": capint(det), "perr": capint(perr) if noise == 0 else 0, "cond": capint(cond, 10 ** 6)}


def rand_trace(ctx_seed, fn, dtype_name, cls, n, noise, bshape, seeds):
    import numpy as np
    import torch
    dt = tdtype(torch, dtype_name)
    insts = [rand_instance(np, s, fn, cls, n, noise) for s in seeds]
    xs = torch.tensor(np.stack([i[0] for i in insts]), dtype=dt)
    ys = torch.tensor(np.stack([i[1] for i in insts]), dtype=dt)
    pp = pypose()

    def call(a, b):
        # "svdstf_rigid" = svdstf(with_scale=False): documented as scale = 1, i.e. the class of rigid transforms
        r = pp.svdstf(a, b, with_scale=False) if fn == "svdstf_rigid" else getattr(pp, fn)(a, b)
        return r.tensor().detach(), r.unsqueeze(-2).Act(a).detach(), r.matrix().detach()

    k = len(seeds)
    nan = float("nan")
    bad = (torch.full((8,), nan), torch.full((n, 3), nan), torch.full((4, 4), nan))
    excs = [""] * k
    if bshape == "single":
        outs = []
        for i in range(k):
            try:
                outs.append(call(xs[i], ys[i]))
            except Exception as ex:
                excs[i] = repr(ex)[:200]
                outs.append(bad)
        rows = [o[0] for o in outs]
        yas = [o[1] for o in outs]
        mats = [o[2] for o in outs]
    else:
        shp = (k,) if bshape == "batch" else (2, k // 2)
        try:
            r, ya, mat = call(xs.reshape(shp + (n, 3)), ys.reshape(shp + (n, 3)))
            rows, yas, mats = list(r.reshape(k, -1)), list(ya.reshape(k, n, 3)), list(mat.reshape(k, 4, 4))
        except Exception as ex:
            excs = [repr(ex)[:200]] * k
            rows, yas, mats = [bad[0]] * k, [bad[1]] * k, [bad[2]] * k
    ev = []
    for i in range(k):
        m = rand_measure(np, rows[i].double().numpy(), yas[i].double().numpy(), mats[i].double().numpy(),
                         xs[i].double().numpy(), ys[i].double().numpy(), insts[i][2], fn, dtype_name, noise)
        m.update({"act": "rand", "n": n, "seed": seeds[i], "exc": bool(excs[i]), "msg": excs[i]})
        ev.append(m)
    ev.append({"act": "done", "n": k})
    return {"cfg": {"kind": "rand", "fn": fn, "dtype": dtype_name, "cls": cls, "noisy": noise > 0,
                    "noise": repr(noise), "n": n, "bshape": bshape}, "ev": ev}


def rand_traces(ctx, per):
    traces = []
    sizes = [3, 4, 5, 8, 20, 50, 200]
    for fn in FNS + ["svdstf_rigid"]:
        for dtype_name in ("float64", "float32"):
            for cls in ("generic", "planar", "collinear", "duplicated", "minimal"):
                for noise in (0.0, 0.001, 0.05, 0.5):
                    for _ in range(per):
                        n = 3 if cls == "minimal" else ctx.rng.choice(sizes[1:] if cls == "duplicated" else sizes)
                        bshape = ctx.rng.choice(["single", "batch", "grid"])
                        k = {"single": 2, "batch": 3, "grid": 4}[bshape]
                        seeds = [ctx.rng.randrange(1 << 30) for _ in range(k)]
                        traces.append(rand_trace(ctx.seed, fn, dtype_name, cls, n, noise, bshape, seeds))
    return traces


def rerun_rand_trace(tr):
    c = tr["cfg"]
    return rand_trace(0, c["fn"], c["dtype"], c["cls"], c["n"], float(c["noise"]), c["bshape"],
                      [e["seed"] for e in tr["ev"] if e["act"] == "rand"])


# ============================================================================ ICP
def np_small_rigid(np, g, max_angle, max_t):
    ax = g.normal(size=3)
    ax /= np.linalg.norm(ax)
    a = g.uniform(0, max_angle)
    q = np.concatenate([ax * np.sin(a / 2), [np.cos(a / 2)]])
    return np_quat_rot(np, q), g.uniform(-max_t, max_t, size=3), q


def msd(np, a, tgt):
    d = ((a[:, None, :] - tgt[None, :, :]) ** 2).sum(-1).min(-1)
    return float(d.mean())


def icp_instance(np, seed, kind):
    """source, target, initial transform (or None), the transform to recover (or None)."""
    g = np.random.default_rng(seed)
    if kind == "basin_far":
        # the same small exact perturbation, seen in a map frame far from the origin (coordinates ~1e3, spacing ~1):
        # closest points are still well separated at float32 resolution; distances must be formed from differences
        x, y, _, (R, t) = icp_instance(np, seed, "basin")
        c = np.array([800.0, -600.0, 400.0]) * float(g.choice([1.0, 2.5]))
        return x + c, y + c, None, (R, t + c - R @ c)
    if kind in ("basin", "basin_init"):
        # jittered grid: pairwise distances >= 0.6; every point moves by < 0.15, so the first closest-point
        # assignment is the true correspondence and a correct ICP recovers the perturbation to round-off
        m = int(g.choice([2, 3, 4]))
        planar = g.random() < 0.3
        grid = np.array(list(itertools.product(range(m + 1), range(m + 1), [0]) if planar else
                             itertools.product(range(m), repeat=3)), dtype=float)
        grid = grid + g.uniform(-0.2, 0.2, size=grid.shape)
        if planar:
            grid[:, 2] = 0.0
        while True:
            n = int(g.integers(4, len(grid) + 1))
            x = grid[g.permutation(len(grid))[:n]]
            xc = x - x.mean(0)
            lam = np.linalg.eigvalsh(xc.T @ xc)
            e2 = lam[0] * lam[1] + lam[0] * lam[2] + lam[1] * lam[2]
            if e2 > 0 and lam.sum() ** 2 <= 32 * e2:
                break
        rad = max(float(np.linalg.norm(x, axis=1).max()), 1.0)
        R, t, q = np_small_rigid(np, g, 0.08 / rad, 0.04)
        y = x @ R.T + t
        y = y[g.permutation(n)]
        if g.random() < 0.4:     # extra target points far from everything
            y = np.concatenate([y, g.uniform(8, 9, size=(int(g.integers(1, 4)), 3))])
        if kind == "basin_init":
            # the same, seen from far away: target = B (small . source), initial transform B (any rotation,
            # translation ~ 3): the initialisation is inside the basin, the identity is not
            qb = g.normal(size=4)
            qb /= np.linalg.norm(qb)
            Rb, tb = np_quat_rot(np, qb), g.normal(size=3) * 3
            return x, y @ Rb.T + tb, (qb, tb), (Rb @ R, Rb @ t + tb)
        return x, y, None, (R, t)
    n = 3 if kind == "n3" else int(g.choice([4, 5, 20, 60]))
    m = int(g.choice([n, n + 5, 2 * n]))
    x = g.normal(size=(n, 3))
    if kind == "planar":
        x[:, 2] = 0.0
    R, t, q = np_small_rigid(np, g, 0.5, 0.3)
    y = np.concatenate([x, g.normal(size=(m - n, 3))]) @ R.T + t + 0.05 * g.normal(size=(m, 3))
    init = None
    if kind == "init":
        Ri, ti, qi = np_small_rigid(np, g, 0.5, 0.3)
        init = (qi, ti)
    return x, y, init, None


def icp_trace(kind, dtype_name, steps, seeds):
    import numpy as np
    import torch
    pp = pypose()
    dt = tdtype(torch, dtype_name)
    eps = eps_of(dtype_name)
    ev = []
    shared = None
    for seed in seeds:
        x, y, init, true = icp_instance(np, seed, kind)
        xs, ys = torch.tensor(x, dtype=dt), torch.tensor(y, dtype=dt)
        it = None
        if init is not None:
            it = pp.SE3(torch.tensor(list(init[1]) + list(init[0]), dtype=dt))
        stepper = pp.utils.ReduceToBason(steps=steps) if steps else None
        try:
            if it is None:
                # one module instance is reused for all registrations of the trace; its first use is a registration
                # started from a far per-call init: later calls without init must start from the identity again
                if shared is None:
                    shared = pp.module.ICP(stepper=stepper)
                    far = pp.SE3(torch.tensor([40.0, -30.0, 20.0, 0.0, 0.0, 0.6, 0.8], dtype=dt))
                    try:
                        shared(xs, ys, init=far)
                    except Exception:
                        pass
                r = shared(xs, ys)
            elif seed % 3 == 1:
                r = pp.module.ICP(stepper=stepper)(xs, ys, init=it)      # per-call init
            elif seed % 3 == 2:
                # a (far) constructor init that the documented per-call init suppresses
                far = pp.SE3(torch.tensor([-35.0, 25.0, 30.0, 0.6, 0.0, 0.8, 0.0], dtype=dt))
                r = pp.module.ICP(init=far, stepper=stepper)(xs, ys, init=it)
            else:
                r = pp.module.ICP(init=it, stepper=stepper)(xs, ys)      # constructor init
        except Exception as ex:
            ev.append({"act": "icp", "seed": seed, "rec": -1, "b": 0, "a": 1 << 30, "exc": True, "msg": repr(ex)[:200]})
            continue
        x64, y64 = xs.double().numpy(), ys.double().numpy()
        start = (it.unsqueeze(-2).Act(xs) if it is not None else xs).double().numpy()
        end = r.unsqueeze(-2).Act(xs).double().numpy()
        scale = max(1.0, float(np.abs(x64).max()), float(np.abs(y64).max()))
        e = {"act": "icp", "seed": seed, "rec": -1, "exc": False, "msg": ""}
        if not np.isfinite(end).all():
            e.update({"b": 0, "a": 1 << 30})
        else:
            before, after = msd(np, start, y64), msd(np, end, y64)
            unit = before + (1024 * eps * scale) ** 2
            e.update({"b": int(before / unit * MONO_ONE), "a": min(1 << 30, math.ceil(after / unit * MONO_ONE))})
            if true is not None:
                row = r.tensor().detach().double().numpy()
                Rm = r.matrix().detach().double().numpy()[:3, :3]
                e["rec"] = capint(max(np.abs(Rm - true[0]).max(), np.abs(row[:3] - true[1]).max() / scale) / eps)
        ev.append(e)
    ev.append({"act": "done", "n": len(seeds)})
    return {"cfg": {"kind": "icp", "icp": kind, "dtype": dtype_name, "steps": steps}, "ev": ev}


def icp_batch_trace(dtype_name, seeds):
    """ONE batched ICP call whose items need different numbers of iterations: the same source registered to itself
    (already aligned) and to two different small exact perturbations.  Every item must be recovered (the documented
    stepper stops only when ALL losses of the batch meet the condition)."""
    import numpy as np
    import torch
    pp = pypose()
    dt = tdtype(torch, dtype_name)
    eps = eps_of(dtype_name)
    ev = []
    for seed in seeds:
        x, y, _, true = icp_instance(np, seed, "basin")
        n = x.shape[0]
        y = y[:n]                                   # (the far extra points are dropped: equal sizes inside a batch)
        g = np.random.default_rng(seed + 1)
        # a larger perturbation (points move by more than half the grid spacing): the first closest-point assignment is
        # partly wrong and several iterations are needed; whether ICP reaches the truth from there is decided by
        # running the item ALONE - only items that are recovered alone are judged for recovery inside the batch
        R2, t2, _ = np_small_rigid(np, g, 0.3, 0.15)
        y2 = (x @ R2.T + t2)[g.permutation(n)]
        trues = [(np.eye(3), np.zeros(3)), true, (R2, t2)]
        src = torch.tensor(np.stack([x, x, x]), dtype=dt)
        tgt = torch.tensor(np.stack([x[g.permutation(n)], y, y2]), dtype=dt)
        alone_ok, alone_steps = [], []
        try:
            for k in range(3):
                st = pp.utils.ReduceToBason(steps=200)
                ra = pp.module.ICP(stepper=st)(src[k], tgt[k])
                Rm = ra.matrix().detach().double().numpy()[:3, :3]
                ta = ra.tensor().detach().double().numpy()[:3]
                alone_ok.append(bool(max(np.abs(Rm - trues[k][0]).max(), np.abs(ta - trues[k][1]).max()) < 1e4 * eps))
                alone_steps.append(int(st.steps))
            r = pp.module.ICP()(src, tgt)
        except Exception as ex:
            ev.append({"act": "icp", "seed": seed, "rec": -1, "b": 0, "a": 1 << 30, "exc": True, "msg": repr(ex)[:200]})
            continue
        icp_batch_trace.max_steps = max([getattr(icp_batch_trace, "max_steps", 0)] + [s_ for s_, ok in zip(alone_steps, alone_ok) if ok])
        for k in range(3):
            xs64, ys64 = src[k].double().numpy(), tgt[k].double().numpy()
            scale = max(1.0, float(np.abs(xs64).max()), float(np.abs(ys64).max()))
            e = {"act": "icp", "seed": seed, "rec": -1, "exc": False, "msg": "", "item": k}
            end = r[k].unsqueeze(-2).Act(src[k]).double().numpy() if r.shape[0] == 3 else np.full((n, 3), np.nan)
            if not np.isfinite(end).all():
                e.update({"b": 0, "a": 1 << 30})
            else:
                before, after = msd(np, xs64, ys64), msd(np, end, ys64)
                unit = before + (1024 * eps * scale) ** 2
                e.update({"b": int(before / unit * MONO_ONE), "a": min(1 << 30, math.ceil(after / unit * MONO_ONE))})
                row = r[k].tensor().detach().double().numpy()
                Rm = r[k].matrix().detach().double().numpy()[:3, :3]
                if alone_ok[k]:
                    e["rec"] = capint(max(np.abs(Rm - trues[k][0]).max(), np.abs(row[:3] - trues[k][1]).max() / scale) / eps)
            ev.append(e)
    ev.append({"act": "done", "n": len(ev)})
    return {"cfg": {"kind": "icp", "icp": "batch", "dtype": dtype_name, "steps": 0}, "ev": ev}


def icp_traces(ctx, per):
    traces = []
    for dtype_name in ("float64", "float32"):
        traces.append(icp_batch_trace(dtype_name, [ctx.rng.randrange(1 << 30) for _ in range(5 * per)]))
    if getattr(icp_batch_trace, "max_steps", 0) < 2:      # (the aligned item of each batch is done after one step)
        raise MachineryError("batched ICP family is vacuous: no judged item needed more than %d stepper step alone"
                             % getattr(icp_batch_trace, "max_steps", 0))
    ctx.extra["icp_batch_max_steps_alone"] = icp_batch_trace.max_steps
    for kind in ("basin", "basin_far", "basin_init", "mono", "init", "planar", "n3"):
        for dtype_name in ("float64", "float32"):
            for steps in (0, 1, 3):        # 0: the default stepper
                seeds = [ctx.rng.randrange(1 << 30) for _ in range(per)]
                traces.append(icp_trace(kind, dtype_name, steps, seeds))
    return traces


# ============================================================================ EPnP
def epnp_instance(np, seed, n):
    g = np.random.default_rng(seed)
    while True:
        pc = np.stack([g.uniform(-2, 2, size=n), g.uniform(-2, 2, size=n), g.uniform(2, 8, size=n)], 1)
        c = pc - pc.mean(0)
        sv = np.linalg.svd(c, compute_uv=False)
        if sv[2] >= 0.2 * sv[0]:
            break
    f = float(g.choice([2.0, 500.0]))
    K = np.array([[f, 0, 4.5 if f == 2.0 else 320.0], [0, f, 4.5 if f == 2.0 else 240.0], [0, 0, 1.0]])
    q = g.normal(size=4)
    q /= np.linalg.norm(q)
    t = g.normal(size=3) * 3
    R = np_quat_rot(np, q)
    # camera pose T (world -> camera): pc = R pw + t
    pw = (pc - t) @ R
    uvw = pc @ K.T
    pix = uvw[:, :2] / uvw[:, 2:3]
    return pw, pix, K, (R, t)


def epnp_trace(refine, n, bshape, seeds):
    import numpy as np
    import torch
    pp = pypose()
    insts = [epnp_instance(np, s, n) for s in seeds]
    pw = torch.tensor(np.stack([i[0] for i in insts]))
    px = torch.tensor(np.stack([i[1] for i in insts]))
    K = torch.tensor(np.stack([i[2] for i in insts]))
    excs = [""] * len(seeds)
    nanr, nanm = np.full(7, np.nan), np.full((4, 4), np.nan)
    if bshape in ("single", "override"):
        rows, mats = [], []
        for i in range(len(seeds)):
            try:
                if bshape == "override":   # the intrinsics given to the call take precedence over the module's default
                    Kd = K[i].clone()
                    Kd[0, 0], Kd[1, 1], Kd[0, 2] = Kd[0, 0] * 1.7, Kd[1, 1] * 0.6, Kd[0, 2] + 3.0
                    sol = pp.module.EPnP(intrinsics=Kd, refine=refine)(pw[i], px[i], K[i])
                else:
                    sol = pp.module.EPnP(intrinsics=K[i], refine=refine)(pw[i], px[i])
                rows.append(sol.tensor().detach().numpy())
                mats.append(sol.matrix().detach().numpy())
            except Exception as ex:
                excs[i] = repr(ex)[:200]
                rows.append(nanr)
                mats.append(nanm)
    else:
        try:
            sol = pp.module.EPnP(refine=refine)(pw, px, K)
            rows = list(sol.tensor().detach().numpy())
            mats = list(sol.matrix().detach().numpy())
        except Exception as ex:
            excs = [repr(ex)[:200]] * len(seeds)
            rows, mats = [nanr] * len(seeds), [nanm] * len(seeds)
    ev = []
    for i, s in enumerate(seeds):
        R, t = insts[i][3]
        if not (np.isfinite(rows[i]).all() and np.isfinite(mats[i]).all()):
            terr = rerr = CAP
        else:
            terr = np.abs(rows[i][:3] - t).max() / max(1.0, float(np.abs(t).max())) / 1e-12
            rerr = np.abs(mats[i][:3, :3] - R).max() / 1e-12
        ev.append({"act": "epnp", "n": n, "seed": s, "terr": capint(terr), "rerr": capint(rerr),
                   "exc": bool(excs[i]), "msg": excs[i]})
    ev.append({"act": "done", "n": len(seeds)})
    return {"cfg": {"kind": "epnp", "refine": refine, "n": n, "bshape": bshape}, "ev": ev}


def epnp_traces(ctx, per):
    traces = []
    for refine in (True, False):
        for n in (6, 7, 8, 10, 20, 50, 100):
            for bshape in ("single", "batch", "override"):
                if bshape == "override" and n not in (6, 10, 50):
                    continue
                seeds = [ctx.rng.randrange(1 << 30) for _ in range(per)]
                traces.append(epnp_trace(refine, n, bshape, seeds))
    return traces


# ============================================================================ judging
def judge(ctx, traces, verdicts, selftest=False):
    for tr, v in zip(traces, verdicts):
        c = tr["cfg"]
        kind = c["kind"]
        if kind == "lat":
            for e in tr["ev"][:-1]:
                ctx.cover("lat:%s:%s:%s:%s:%d:%s" % (c["fn"], c["dtype"], c["cls"], c["noisy"], len(e["src"]), c["bshape"]))
        elif kind == "rand":
            ctx.cover("rand:%s:%s:%s:%s:%d:%s" % (c["fn"], c["dtype"], c["cls"], c["noise"], c["n"], c["bshape"]))
        elif kind == "icp":
            ctx.cover("icp:%s:%s:%d" % (c["icp"], c["dtype"], c["steps"]))
        else:
            ctx.cover("epnp:%s:%d:%s" % (c["refine"], c["n"], c["bshape"]))
        if v == "ok":
            continue
        clause, at = v.split("@")
        e = tr["ev"][int(at) - 1]
        raised = (" [raised: %s]" % e["msg"]) if e.get("exc") else ""
        if (clause.startswith("harness_") or clause == "missing_event") and not selftest:
            raise MachineryError("trace inconsistent (%s) in %s" % (v, json.dumps(tr)[:800]))
        if kind == "lat":
            key = "%s/lat/%s/%s/%s" % (c["fn"], c["cls"], "noisy" if c["noisy"] else "exact", clause)
            what = "%s(%s, %s call) on the %s integer cloud %s, true transform t=%s q=%s s=%s, noise %s: clause %s; " \
                   "returned (nearest lattice element) %s, deviation %s eps, | |q|^2-1 | = %s eps, SSR of the result = " \
                   "%s / 2^%d (integerised units)" % (
                       c["fn"], c["dtype"], c["bshape"], c["cls"], e.get("src"),
                       [float(undy(v)) for v in e["X"]["t"]], [float(undy(v)) for v in e["X"]["q"]],
                       float(undy(e["X"]["s"])), e.get("noise"), clause,
                       {k: [float(undy(v)) for v in vv] if k != "s" else float(undy(vv)) for k, vv in e["res"].items()},
                       e.get("dev"), e.get("qn"), e.get("ssr"), FPBITS)
        elif kind == "rand":
            key = "%s/rand/%s/%s/%s/%s" % (c["fn"], c["cls"], "n3" if c["n"] == 3 else "n4+",
                                           "noisy" if c["noisy"] else "exact", clause)
            what = "%s(%s, %s) on a random %s cloud of %d points, noise %s (seed %s): clause %s; measures %s" % (
                c["fn"], c["dtype"], c["bshape"], c["cls"], c["n"], c["noise"], e.get("seed"), clause,
                {k: e[k] for k in ("excess", "qn", "orth", "det", "perr", "cond") if k in e})
        elif kind == "icp":
            key = "icp/%s/%s" % (c["icp"], clause)
            what = "ICP(%s, steps=%s) on a '%s' instance (seed %s): clause %s; mean squared closest-point distance " \
                   "before %s after %s (relative, 2^20 = initial), recovery error %s eps" % (
                       c["dtype"], c["steps"] or "default", c["icp"], e.get("seed"), clause, e.get("b"), e.get("a"),
                       e.get("rec"))
        else:
            key = "epnp/%s/%s" % ("refine" if c["refine"] else "plain", clause)
            what = "EPnP(refine=%s) on exact projections of %d points (seed %s, %s): pose error t %s, R %s (units 1e-12)" % (
                c["refine"], c["n"], e.get("seed"), c["bshape"], e.get("terr"), e.get("rerr"))
        ctx.violation(key, what + raised, {"trace": tr, "verdict": v})


def rerun(tr):
    c = tr["cfg"]
    if c["kind"] == "lat":
        return rerun_lattice_trace(tr)
    if c["kind"] == "rand":
        return rerun_rand_trace(tr)
    seeds = [e["seed"] for e in tr["ev"] if e["act"] != "done"]
    if c["kind"] == "icp" and c["icp"] == "batch":
        return icp_batch_trace(c["dtype"], sorted(set(seeds), key=seeds.index))
    if c["kind"] == "icp":
        return icp_trace(c["icp"], c["dtype"], c["steps"], seeds)
    return epnp_trace(c["refine"], c["n"], c["bshape"], seeds)


def replay(ctx):
    case = json.load(open(ctx.replay))["case"]
    if case.get("mode") == "table":
        gen_table(ctx)
        return
    new = rerun(case["trace"])
    judge(ctx, [new], ctx.validate("AlignTrace", "AlignTrace.cfg", [new], "replay"))


DESIGN_ACTIONS = ["Correspond", "ComputeMoments", "SolveGeneric", "SolvePlanar", "SolveCollinear", "SolveMinimal",
                  "SolveDuplicated"]


def run(ctx):
    q = ctx.quick
    ctx.level = "exploration"
    ctx.rule = ["TLC (Align): every enumerated integer cloud (3..6 points; generic / planar / collinear / minimal / "
                "duplicated) x lattice transform (12 Hurwitz rotations x integer translation x scale 2^k) x integer "
                "noise pattern: true transform has SSR 0 and its optimal t, s are the true ones; unique minimiser among "
                "the 24 cube-rotation candidates unless collinear; closed forms = definition residual by residual; "
                "best candidate <= noise energy; negating a best reflection is the WORST proper candidate; Proper(R)",
                "conformance: lattice calls judged by AlignTrace (target recomputed by LieExact's action, class, "
                "moments and candidate ranking computed by TLC; proper / optimal vs best candidate / reproduce modulo "
                "quaternion sign); AlignGen table replayed through svdtf/svdstf; random clouds 3..200 vs an independent "
                "numpy Kabsch/Umeyama; ICP monotone + recovery; EPnP pose error classes; distinct = (fn, dtype, class, "
                "noise, size, batch shape)"]
    ctx.assumptions = ["lattice clouds in [-4,4]^3, translations in [-3,3]^3, scales 1/2, 1, 2, noise in {-1,0,1}^3 (all "
                       "arithmetic of the spec below 2^31)",
                       "reproduction is judged when the source is not collinear and (sum lambda)^2 <= 64 sum lambda_i "
                       "lambda_j (lambda = scatter eigenvalues, computed exactly by TLC); otherwise only SSR and properness",
                       "optimality is a necessary condition: SSR(result) <= best of 24 candidates (exact) and <= independent "
                       "Kabsch/Umeyama optimum + 64 eps (sum|y|^2 + s^2 sum|x|^2); not a proof of global optimality",
                       "ICP recovery instances: jittered grids (pairwise distance >= 0.6), every point displaced < 0.15, so "
                       "the first closest-point assignment is the true correspondence; all-identical clouds are not generated",
                       "EPnP: float64, points uniform in x,y in [-2,2], depth in [2,8], third singular value >= 0.2 first"]
    if ctx.replay and not json.load(open(ctx.replay))["key"].startswith("design/"):
        replay(ctx)          # one recorded case against the current tree (the design runs do not depend on the tree)
        return
    ctx.tlc("Align", "Align_q.cfg" if q else "Align_t.cfg", workers=4 if q else 6, coverage=q,
            need_actions=DESIGN_ACTIONS if q else (), timeout=7200)
    ctx.tlc("Align", "Align_qn.cfg" if q else "Align_tn.cfg", workers=4 if q else 6, timeout=7200)
    for r in ctx.tlc_runs:
        if r["violated"]:
            ctx.violation("design/" + r["violated"][0], "Align design model violates %s" % r["violated"])
    # the defective design ("negate the whole matrix when det = -1") must be refuted by a counterexample
    res = ctx.tlc("Align", "Align_defect.cfg", workers=1, expect_ok=False, timeout=600)
    if res.violated != ["NegationRepairIsOptimal"]:
        raise MachineryError("Align_defect.cfg: expected a counterexample to NegationRepairIsOptimal, got %s\n%s"
                             % (res.violated, res.out[-1500:]))
    ctx.tlc_runs[-1]["violated"] = []
    ctx.tlc_runs[-1]["refuted_as_required"] = "NegationRepairIsOptimal"
    if ctx.replay:
        return
    import torch
    torch.manual_seed(ctx.seed)
    gen_table(ctx)
    traces = lattice_traces(ctx, 12 if q else 60)
    nlat = len(traces)
    traces += rand_traces(ctx, 2 if q else 12)
    nrand = len(traces) - nlat
    traces += icp_traces(ctx, 4 if q else 24)
    traces += epnp_traces(ctx, 3 if q else 16)
    ctx.extra["lattice_traces"] = nlat
    ctx.extra["random_traces"] = nrand
    ctx.sample({"kind": "lattice trace", "cfg": traces[0]["cfg"], "ev": traces[0]["ev"][:1]})
    ctx.sample({"kind": "random trace", "cfg": traces[nlat]["cfg"], "ev": traces[nlat]["ev"][:2]})
    ctx.sample({"kind": "icp trace", "cfg": traces[nlat + nrand]["cfg"], "ev": traces[nlat + nrand]["ev"][:2]})
    ctx.sample({"kind": "epnp trace", "cfg": traces[-1]["cfg"], "ev": traces[-1]["ev"][:2]})
    worst = {}
    for tr in traces:
        for e in tr["ev"]:
            for k in ("dev", "qn", "excess", "orth", "det", "perr", "rec", "terr", "rerr"):
                if k in e and e[k] < CAP:
                    kk = "%s:%s" % (tr["cfg"]["kind"], k)
                    if k == "perr" and e.get("cond", 0) > 64:
                        continue
                    if k == "dev" and (tr["cfg"]["noisy"] or not well_posed(e["src"])):
                        continue
                    worst[kk] = max(worst.get(kk, 0), e[k])
    ctx.extra["worst_measures_below_cap"] = worst
    verdicts = ctx.validate("AlignTrace", "AlignTrace.cfg", traces, "align", chunk=600)
    judge(ctx, traces, verdicts)


def selftest(ctx):
    """Binding demonstration: a corrupted field and a removed event must both be rejected."""
    import random
    rng = random.Random(7)
    good = None
    for _ in range(50):
        insts = [lattice_instance(rng, "svdstf", "generic", False, 5) for _ in range(3)]
        tr = lattice_trace("svdstf", "float64", "generic", False, insts, "batch")
        good = tr
        break
    bad1 = json.loads(json.dumps(good))
    bad1["ev"][1]["res"]["t"][0][0] += 1              # a different translation was returned
    bad2 = json.loads(json.dumps(good))
    del bad2["ev"][0]                                   # an event is missing
    bad3 = json.loads(json.dumps(good))
    bad3["ev"][2]["ssr"] = 4096                         # the result does not fit the points
    bad4 = json.loads(json.dumps(good))
    bad4["ev"][0]["tgt"][0][0][0] += 1                  # the logged target is not X . source
    ep = epnp_trace(True, 8, "single", [11, 12])
    bad5 = json.loads(json.dumps(ep))
    bad5["ev"][1]["rerr"] = 10 ** 7
    bad6 = json.loads(json.dumps(ep))
    del bad6["ev"][-1]
    v = ctx.validate("AlignTrace", "AlignTrace.cfg", [good, bad1, bad2, bad3, bad4, ep, bad5, bad6], "selftest")
    print("selftest verdicts:", v)
    assert v[0] == "ok" and v[1].startswith("reproduce@2") and v[2].startswith("missing_event"), v
    assert v[3].startswith("optimal@3") and v[4].startswith("harness_target@1"), v
    assert v[5] == "ok" and v[6].startswith("pose@2") and v[7].startswith("missing_event"), v
    return 0
