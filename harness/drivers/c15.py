"""C15 — dynamics follow their equations; NLS linearisation is exact at the reference point (Mode S + E + R).
Spec: SysTime.tla (design), SysTimeTrace.tla (recorded executions), SysTimeGen.tla (tabulated behaviours)."""
import json
import threading
import time

from vlib.core import MachineryError, pypose, run_tlc

SENT = 999999999          # logged for a value that is not a (small) integer: never equals a spec value
CAP = 10 ** 9


# ------------------------------------------------------------------------------------------ TLC design runs
class DesignRuns:
    """Runs design configurations concurrently (TLC uses ~4 cores effectively on these) while the
    driver exercises the real objects; bookkeeping mirrors Ctx.tlc."""

    def __init__(self, ctx, jobs, concurrent=2):
        self.ctx, self.jobs, self.res = ctx, jobs, {}
        self.sem = threading.Semaphore(concurrent)      # at most `concurrent` TLC processes (<= 4 workers each) at a time
        self.threads = []
        for i, j in enumerate(jobs):
            th = threading.Thread(target=self._run, args=(i, j), daemon=True)
            th.start()
            self.threads.append(th)

    def _run(self, i, j):
        with self.sem:
            self._run1(i, j)

    def _run1(self, i, j):
        try:
            extra = ["-coverage", "1"] if j.get("coverage") else []
            self.res[i] = run_tlc(j["module"], j["cfg"], self.ctx.work / ("design%d" % i), workers=min(4, j.get("workers", 4)),
                                  extra=extra, timeout=j.get("timeout", 3000))
        except Exception as ex:  # reported in join
            self.res[i] = ex

    def join(self):
        ctx = self.ctx
        for th in self.threads:
            th.join()
        for i, j in enumerate(self.jobs):
            r = self.res[i]
            if isinstance(r, Exception):
                raise MachineryError("TLC run %s/%s failed: %r" % (j["module"], j["cfg"], r))
            run = {"module": j["module"], "cfg": j["cfg"], "distinct_states": r.distinct, "states_generated": r.generated,
                   "depth": r.depth, "wall_s": round(r.wall, 2), "violated": r.violated}
            if j.get("expect_violation"):
                # demonstration of a named deviation: the counterexample must exist, and is not a verdict
                if j["expect_violation"] not in r.violated:
                    raise MachineryError("deviation demo %s did not violate %s:\n%s" % (j["cfg"], j["expect_violation"], r.out[-2000:]))
                run["violated"] = []
                run["expected_violation_found"] = j["expect_violation"]
                ctx.extra.setdefault("deviation_demos", []).append(
                    {"cfg": j["cfg"], "violates": j["expect_violation"], "counterexample_depth": r.depth})
            else:
                ctx.states += r.distinct
                ctx.transitions += r.generated
                if not r.ok and not r.violated:
                    (ctx.work / "tlc_fail.log").write_text(r.out)
                    raise MachineryError("TLC failed on %s/%s (rc=%s):\n%s" % (j["module"], j["cfg"], r.rc, r.out[-3000:]))
            if j.get("coverage"):
                cov = r.coverage()
                run["action_coverage"] = {k: v[1] for k, v in cov.items()}
                for a in j.get("need_actions", ()):
                    if cov.get(a, (0, 0))[1] == 0:
                        raise MachineryError("vacuity: action %s of %s never taken" % (a, j["module"]))
            ctx.tlc_runs.append(run)


# ------------------------------------------------------------------------------------------ encoding
def enc(v):
    v = float(v)
    if v != v or v in (float("inf"), float("-inf")) or v != int(v) or abs(v) >= (1 << 30):
        return SENT
    return int(v)


def enc_t(x):
    """tensor -> nested lists of ints"""
    if x.dim() == 0:
        return enc(x)
    return [enc_t(r) for r in x]


def opt(v):
    return [] if v is None else [v]


# ------------------------------------------------------------------------------------------ real objects
def build_lin(cls, S, rank, dtype, c_none=False):
    """LTI / LTV object from integer stacks S[name][batch][time]...; rank 0 = unbatched matrices."""
    import torch
    pp = pypose()

    def stack(name):
        a = torch.tensor(S[name], dtype=dtype)
        if cls == "LTI":
            a = a[:, 0]
        return a[0] if rank == 0 else a

    A, B, C, D = stack("A"), stack("B"), stack("C"), stack("D")
    # c_none: False (both given), True (both None), "c1" / "c2" (only that one is None: the two offsets are independent options)
    c1 = None if c_none in (True, "c1") else stack("c1")
    c2 = None if c_none in (True, "c2") else stack("c2")
    if cls == "LTI":
        return pp.module.LTI(A, B, C, D, c1, c2)

    class IndexedLTV(pp.module.LTV):       # the documented way of writing a time-varying system
        @property
        def A(self):
            return self._A[..., self._t, :, :]

        @property
        def B(self):
            return self._B[..., self._t, :, :]

        @property
        def C(self):
            return self._C[..., self._t, :, :]

        @property
        def D(self):
            return self._D[..., self._t, :, :]

        @property
        def c1(self):
            return None if self._c1 is None else self._c1[..., self._t, :]

        @property
        def c2(self):
            return None if self._c2 is None else self._c2[..., self._t, :]

    return IndexedLTV(A, B, C, D, c1, c2)


def poly_eval(F, x, u, t, style):
    """tuple of polynomials (monomial lists) evaluated with torch ops on 1-D x, u and a time tensor."""
    import torch
    tt = (t.reshape(-1)[0] if style.get("treshape", True) else t.squeeze()).to(x.dtype)
    vs = [x[i] for i in range(x.shape[-1])] + [u[j] for j in range(u.shape[-1])] + [tt]
    comps = []
    for poly in F:
        acc = None
        for mono in poly:
            term = None
            for k, e in enumerate(mono["e"]):
                if e == 0:
                    continue
                if style.get("pow", False):
                    f = vs[k] ** e
                else:
                    f = vs[k]
                    for _ in range(e - 1):
                        f = f * vs[k]
                term = f if term is None else term * f
            term = torch.tensor(float(mono["c"]), dtype=x.dtype) if term is None else mono["c"] * term
            acc = term if acc is None else acc + term
        comps.append(torch.zeros((), dtype=x.dtype) if acc is None else acc)
    return torch.stack(comps)


def build_nls(prog, style):
    pp = pypose()

    class PolyNLS(pp.module.NLS):
        def state_transition(self, state, input, t=None):
            return poly_eval(prog["f"], state, input, t, style)

        def observation(self, state, input, t=None):
            return poly_eval(prog["g"], state, input, t, style)

    obj = PolyNLS()
    if style.get("jac") == "plain":
        obj.jacargs = {}        # public attribute: non-vectorised reverse mode (8x cheaper; same documented result)
    return obj


def build(cfg, dtype, style):
    import torch
    if cfg["cls"] == "NLS":
        obj = build_nls(cfg["sys"], style)
    else:
        obj = build_lin(cfg["cls"], cfg["sys"], cfg["rank"], dtype, c_none=cfg.get("c_none", False))
    # the caller's own time grid (plain attribute of the harness, not a buffer of the module)
    object.__setattr__(obj, "_verif_time_grid", torch.arange(64, dtype=torch.int64))
    return obj


def read_lin(obj):
    return {"A": enc_t(obj.A), "B": enc_t(obj.B), "C": enc_t(obj.C), "D": enc_t(obj.D),
            "c1": enc_t(obj.c1), "c2": enc_t(obj.c2)}


def apply_call(obj, cfg, call, dtype, rng, refset, readlin=True):
    """Perform one spec call on the real object and return the logged event.
    call = {op, x, u, v, [xrank, urank]} with options as 0/1-element lists (x, u: batches of int vectors)."""
    import torch
    cls = cfg["cls"]
    op = call["op"]
    ev = {"act": "call", "op": op, "x": call["x"], "u": call["u"], "v": call["v"],
          "xrank": call.get("xrank", 0), "urank": call.get("urank", 0), "out": [], "lin": []}

    def vec(o, rank):
        a = torch.tensor(o[0], dtype=dtype)
        return a if rank == 1 else a[0]

    try:
        if op == "Forward":
            x, u = vec(call["x"], ev["xrank"]), vec(call["u"], ev["urank"])
            if cls == "NLS" and u.numel() == 1 and rng.random() < 0.2:
                u = u.reshape(())                      # a scalar input (forward applies atleast_1d)
            xn, y = obj(x, u)
            def enc2(t):          # always a list of rows, whatever shape came back (a wrong shape is then a wrong value
                if t.dim() == 0:  # for the trace spec, not a type error inside TLC)
                    return [[enc_t(t)]]
                if t.dim() == 1:
                    return [enc_t(t)]
                return enc_t(t.reshape([-1, t.shape[-1]]))

            if cls == "NLS":
                ev["out"] = [{"xn": enc2(xn) if xn.dim() != 1 else [enc_t(xn)], "y": enc2(y) if y.dim() != 1 else [enc_t(y)],
                              "orank": 0}]
            else:
                ev["out"] = [{"xn": enc2(xn), "y": enc2(y), "orank": max(xn.dim(), y.dim()) - 1}]
        elif op == "Reset":
            v = call["v"][0]
            k = rng.randrange(3)
            if v == 0 and k == 0:
                obj.reset()
            elif k == 1:
                obj.reset(t=v)
            else:
                obj.reset(v)
        elif op == "SetSystime":
            v = call["v"][0]
            r3 = rng.random()
            if r3 < 0.35:
                obj.systime = v
            elif r3 < 0.6:
                obj.systime = torch.tensor(v)
            else:
                # an element of the caller's own time grid (the idiom `sys.systime = time[k]`): the system must keep
                # a copy, otherwise later calls write into the caller's grid and re-assigning time[k] sets a wrong time
                grid = getattr(obj, "_verif_time_grid", None)
                if grid is None or v >= len(grid) or v < 0:
                    obj.systime = torch.tensor(v)
                else:
                    obj.systime = grid[v]
        elif op == "SetRefpoint":
            if cls == "LTI":
                if rng.random() < 0.5:
                    obj.set_refpoint()
                else:
                    obj.set_refpoint(state=torch.zeros(1, dtype=dtype), input=torch.zeros(1, dtype=dtype), t=torch.tensor(7))
            elif cls == "LTV":
                if not call["v"]:                      # "If None, the most recent timestamp is taken"
                    obj.set_refpoint()
                else:
                    v = call["v"][0]
                    obj.set_refpoint(t=torch.tensor(v) if rng.random() < 0.7 else v)
            else:
                kw = {}
                if call["x"]:
                    kw["state"] = torch.tensor(call["x"][0][0], dtype=dtype)
                if call["u"]:
                    kw["input"] = torch.tensor(call["u"][0][0], dtype=dtype)
                if call["v"]:
                    kw["t"] = torch.tensor(call["v"][0])
                obj.set_refpoint(**kw)
                refset[0] = "given" if call["v"] else "None"
        elif op == "ReadLin":
            pass
        else:
            raise MachineryError("unknown op %r" % op)
        ev["t"] = int(obj.systime)
        if cls == "NLS" and refset[0] and readlin:
            ev["lin"] = [read_lin(obj)]
    except MachineryError:
        raise
    except Exception as ex:     # a documented call that raises: judged by the trace spec as "raised"
        return {"act": "raise", "op": op, "msg": repr(ex)[:300]}
    return ev


def exec_calls(cfg, calls, dtype, rng, style=None, readlin=True):
    obj = build(cfg, dtype, style or {})
    refset = [None]
    ev = []
    for c in calls:
        e = apply_call(obj, cfg, c, dtype, rng, refset, readlin)
        e["ref_t"] = refset[0] or ""
        ev.append(e)
        if e["act"] == "raise":
            break
    return {"cfg": cfg, "ev": ev, "calls": calls}


# ------------------------------------------------------------------------------------------ random instances
def rand_mat(rng, r, c, lo=-4, hi=4):
    return [[rng.randint(lo, hi) for _ in range(c)] for _ in range(r)]


def rand_lin_cfg(rng, cls):
    n, m, q = rng.randint(1, 3), rng.randint(1, 2), rng.randint(1, 3)
    K = 1 if cls == "LTI" else 10
    rank = rng.choice([0, 0, 1])
    B = 1 if rank == 0 else rng.randint(1, 3)
    S = {"A": [[rand_mat(rng, n, n) for _ in range(K)] for _ in range(B)],
         "B": [[rand_mat(rng, n, m) for _ in range(K)] for _ in range(B)],
         "C": [[rand_mat(rng, q, n) for _ in range(K)] for _ in range(B)],
         "D": [[rand_mat(rng, q, m) for _ in range(K)] for _ in range(B)]}
    c_none = rng.choice([False, False, False, False, True, True, "c1", "c2"])
    S["c1"] = [[[0 if c_none in (True, "c1") else rng.randint(-5, 5) for _ in range(n)] for _ in range(K)] for _ in range(B)]
    S["c2"] = [[[0 if c_none in (True, "c2") else rng.randint(-5, 5) for _ in range(q)] for _ in range(K)] for _ in range(B)]
    return {"cls": cls, "sys": S, "rank": rank, "c_none": c_none, "n": n, "m": m, "B": B, "K": K}


def rand_poly(rng, nv, maxterms):
    poly = []
    for _ in range(rng.randint(1, maxterms)):
        e = [0] * (nv + 1)
        for _ in range(rng.randint(0, 3)):
            e[rng.randrange(nv)] += 1
        e[nv] = rng.choice([0, 0, 1, 1, 2])
        poly.append({"c": rng.choice([-3, -2, -1, 1, 2, 3]), "e": e})
    return poly


def rand_prog(rng):
    n, m, q = rng.randint(1, 3), rng.randint(1, 2), rng.randint(1, 3)
    return {"n": n, "m": m, "f": [rand_poly(rng, n + m, 4) for _ in range(n)],
            "g": [rand_poly(rng, n + m, 3) for _ in range(q)]}


def rand_calls(rng, cfg, length):
    cls = cfg["cls"]
    calls = []
    t = 0
    have_last = False
    K = cfg.get("K", 10 ** 6) if cls == "LTV" else 10 ** 6
    n = cfg["sys"]["n"] if cls == "NLS" else cfg["n"]
    m = cfg["sys"]["m"] if cls == "NLS" else cfg["m"]
    tmax = 6 if cls == "NLS" else (K - 1 if cls == "LTV" else 40)
    lo, hi = (-3, 3) if cls == "NLS" else (-5, 5)

    def vecs(d, rank, B):
        return [[rng.randint(lo, hi) for _ in range(d)] for _ in range(B if rank else 1)]

    for _ in range(length):
        r = rng.random()
        if r < 0.45 and t < K and (cls != "NLS" or t <= tmax):
            if cls == "NLS":
                xr = ur = 0
                B = 1
            else:
                xr, ur = rng.choice([0, 0, 1]), rng.choice([0, 0, 1])
                B = cfg["B"] if cfg["rank"] else rng.randint(1, 3)
            calls.append({"op": "Forward", "x": [vecs(n, xr, B)], "u": [vecs(m, ur, B)], "v": [], "xrank": xr, "urank": ur})
            t += 1
            have_last = True
        elif r < 0.6:
            v = rng.randint(0, tmax)
            calls.append({"op": "Reset", "x": [], "u": [], "v": [v]})
            t = v
        elif r < 0.72:
            v = rng.randint(0, tmax)
            calls.append({"op": "SetSystime", "x": [], "u": [], "v": [v]})
            t = v
        else:
            if cls == "LTI":
                calls.append({"op": "SetRefpoint", "x": [], "u": [], "v": []})
            elif cls == "LTV":
                if rng.random() < 0.3:
                    calls.append({"op": "SetRefpoint", "x": [], "u": [], "v": []})
                else:
                    v = rng.randint(0, tmax)
                    calls.append({"op": "SetRefpoint", "x": [], "u": [], "v": [v]})
                    t = v
            else:
                gx = (not have_last) or rng.random() < 0.5
                gu = (not have_last) or rng.random() < 0.5
                gv = rng.random() < 0.5
                calls.append({"op": "SetRefpoint", "x": [vecs(n, 0, 1)] if gx else [], "u": [vecs(m, 0, 1)] if gu else [],
                              "v": [rng.randint(0, tmax)] if gv else []})
    return calls


def random_traces(ctx, counts, length):
    import torch
    rng = ctx.rng
    traces = []
    for cls in ("LTI", "LTV", "NLS"):
        for i in range(counts[cls]):
            dtype = torch.float64 if i % 3 else torch.float32
            if cls == "NLS":
                cfg = {"cls": "NLS", "sys": rand_prog(rng), "rank": 0}
                style = {"pow": rng.random() < 0.5, "treshape": rng.random() < 0.5,
                         "jac": "default" if i % 4 == 0 else "plain"}
            else:
                cfg = rand_lin_cfg(rng, cls)
                style = {}
            calls = rand_calls(rng, cfg, rng.randint(4, length))
            if not calls:
                continue
            tr = exec_calls(cfg, calls, dtype, rng, style)
            tr["what"] = "random %s %s" % (cls, str(dtype).split(".")[-1])
            tr["style"] = style
            tr["dtype"] = str(dtype).split(".")[-1]
            traces.append(tr)
    return traces


# ------------------------------------------------------------------------------------------ spec -> code table
def skey(s):
    return json.dumps(s, sort_keys=True)


def table_replay(ctx, gen_cfg, full_jac_every):
    """Every row (state, call) of the tabulated specification is executed on a real object driven along a
    shortest path to the row's state; systime, Forward outputs and A..c2 are compared with TLC's values."""
    import torch
    out = ctx.work / "systime_table.json"
    ctx.tlc("SysTimeGen", gen_cfg, env={"OUT_FILE": out}, workers=1)
    tab = json.loads(out.read_text())
    rng = ctx.rng
    total = 0
    for T in tab["tables"]:
        cls = T["cls"]
        cfg = {"cls": cls, "sys": T["sys"], "rank": 0}
        rows = T["rows"]
        succ = {}
        for r in rows:
            succ.setdefault(skey(r["s"]), []).append(r)
        init = skey(tab["init"])
        paths = {init: []}
        frontier = [init]
        while frontier:
            nxt = []
            for k in frontier:
                for r in succ.get(k, []):
                    k2 = skey(r["s2"])
                    if k2 not in paths:
                        paths[k2] = paths[k] + [r["c"]]
                        nxt.append(k2)
            frontier = nxt
        for k, rs in succ.items():
            if k not in paths:
                raise MachineryError("table state unreachable through the table: %s" % k)
            for idx, r in enumerate(rs):
                total += 1
                dtype = torch.float64 if total % 5 else torch.float32
                style = {"pow": total % 2 == 0, "treshape": total % 3 == 0,
                         "jac": "default" if total % full_jac_every == 0 else "plain"}
                obj = build(cfg, dtype, style)
                refset = [None]
                bad = None
                for c in paths[k]:
                    e = apply_call(obj, cfg, dict(c, xrank=0, urank=0), dtype, rng, refset, readlin=False)
                    if e["act"] == "raise":
                        bad = ("raised", e)
                        break
                if bad is None:
                    e = apply_call(obj, cfg, dict(r["c"], xrank=0, urank=0), dtype, rng, refset, readlin=bool(r["lin"]))
                    if e["act"] == "raise":
                        bad = ("raised", e)
                    elif e["t"] != r["s2"]["t"]:
                        bad = ("systime", e)
                    elif r["out"] and (not e["out"] or e["out"][0]["xn"] != r["out"][0]["xn"]):
                        bad = ("state_out", e)
                    elif r["out"] and e["out"][0]["y"] != r["out"][0]["y"]:
                        bad = ("obs_out", e)
                    elif r["lin"]:
                        for f in ("A", "B", "C", "D", "c1", "c2"):
                            if e["lin"][0][f] != r["lin"][0][f]:
                                bad = (f, e)
                                break
                if bad:
                    key = vkey(cls, r["c"]["op"], bad[0], refset[0])
                    ctx.violation(key, "spec->code: %s (program %s) driven by %s then %s: observed %s, SysTime gives s2=%s out=%s lin=%s"
                                  % (cls, T["pid"], [c["op"] for c in paths[k]], r["c"], bad[1], r["s2"], r["out"], r["lin"]),
                                  {"mode": "calls", "cfg": cfg, "calls": paths[k] + [r["c"]], "dtype": str(dtype).split(".")[-1],
                                   "style": style})
                ctx.cover("row:%s:%s:%s:%d" % (cls, T["pid"], k, idx))
    ctx.evaluations += total
    ctx.extra["table_rows_replayed"] = total
    ctx.sample({"kind": "spec->code row", "example": tab["tables"][2]["rows"][len(tab["tables"][2]["rows"]) // 2]})


def vkey(cls, op, clause, ref_t):
    if clause in ("A", "B", "C", "D", "c1", "c2"):
        return "%s/%s after set_refpoint(t=%s)/%s" % (cls, op, ref_t, clause)
    return "%s/%s/%s" % (cls, op, clause)


# ------------------------------------------------------------------------------------------ bmv / bvv / bvmv
BSHAPES = [(), (1,), (2,), (3,), (2, 1), (1, 3), (2, 3), (1, 1)]


def pad2(sh):
    sh = list(sh)
    return [1] * (2 - len(sh)) + sh


def compat(a, b):
    return all(x == y or x == 1 or y == 1 for x, y in zip(pad2(a), pad2(b)))


def linalg_events(ctx, count):
    import torch
    pp = pypose()
    rng = ctx.rng
    evs = []

    def rt(bs, item, dtype):
        shape = tuple(bs) + tuple(item)
        return torch.tensor([rng.randint(-6, 6) for _ in range(int(torch.Size(shape).numel()))], dtype=dtype).reshape(shape)

    def flat(x, bs, nitem):
        return enc_t(x.reshape([pad2(bs)[0] * pad2(bs)[1]] + list(x.shape[len(x.shape) - nitem:])))

    for i in range(count):
        dtype = [torch.float64, torch.float32, torch.int64][i % 3]
        n, m = rng.randint(1, 3), rng.randint(1, 3)
        kind = ["bmv", "bvv", "bvmv"][(i // 3) % 3]
        while True:
            s1, s2, s3 = rng.choice(BSHAPES), rng.choice(BSHAPES), rng.choice(BSHAPES)
            if kind == "bvmv":
                if compat(s1, s2):
                    o1 = [max(a, b) for a, b in zip(pad2(s1), pad2(s2))]
                    if compat(o1, s3):
                        break
            elif compat(s1, s2):
                break
        try:
            if kind == "bmv":
                M, v = rt(s1, (n, m), dtype), rt(s2, (m,), dtype)
                o = pp.bmv(M, v)
                ob = o.shape[:-1]
                e = {"act": "bmv", "ms": pad2(s1), "vs": pad2(s2), "mrank": len(s1), "vrank": len(s2),
                     "mat": flat(M, s1, 2), "vec": flat(v, s2, 1), "os": pad2(ob), "orank": len(ob), "out": flat(o, ob, 1)}
            elif kind == "bvv":
                a, b = rt(s1, (n,), dtype), rt(s2, (m,), dtype)
                o = pp.bvv(a, b)
                ob = o.shape[:-2]
                e = {"act": "bvv", "ls": pad2(s1), "rs": pad2(s2), "lrank": len(s1), "rrank": len(s2),
                     "lvec": flat(a, s1, 1), "rvec": flat(b, s2, 1), "os": pad2(ob), "orank": len(ob), "out": flat(o, ob, 2)}
            else:
                a, M, b = rt(s1, (n,), dtype), rt(s2, (n, m), dtype), rt(s3, (m,), dtype)
                o = pp.bvmv(a, M, b)
                ob = o.shape
                e = {"act": "bvmv", "ls": pad2(s1), "ms": pad2(s2), "rs": pad2(s3), "lrank": len(s1), "mrank": len(s2),
                     "rrank": len(s3), "lvec": flat(a, s1, 1), "mat": flat(M, s2, 2), "rvec": flat(b, s3, 1),
                     "os": pad2(ob), "orank": len(ob), "out": flat(o, ob, 0)}
        except Exception as ex:
            e = {"act": "raise", "op": kind, "msg": repr(ex)[:300]}
        e["dtype"] = str(dtype).split(".")[-1]
        e["kind"] = kind
        e["shapes"] = [list(s1), list(s2), list(s3)]
        evs.append(e)
        ctx.cover("%s:%s:%s:%s" % (kind, s1, s2, s3 if kind == "bvmv" else ""))
    return evs


# ------------------------------------------------------------------------------------------ Mode R: trig trees
def rand_tree(rng, nv, depth):
    if depth == 0 or rng.random() < 0.2:
        if rng.random() < 0.75:
            return ("var", rng.randrange(nv + 1))
        return ("const", rng.choice([0.5, 1.0, 2.0, -1.5, 0.25, -1.0]))
    k = rng.choice(["add", "mul", "sin", "cos", "sin", "cos"])
    if k in ("sin", "cos"):
        return (k, rand_tree(rng, nv, depth - 1))
    return (k, rand_tree(rng, nv, depth - 1), rand_tree(rng, nv, depth - 1))


def tree_torch(tr, vs, torch):
    k = tr[0]
    if k == "var":
        return vs[tr[1]]
    if k == "const":
        return torch.tensor(tr[1], dtype=vs[0].dtype)
    if k == "add":
        return tree_torch(tr[1], vs, torch) + tree_torch(tr[2], vs, torch)
    if k == "mul":
        return tree_torch(tr[1], vs, torch) * tree_torch(tr[2], vs, torch)
    a = tree_torch(tr[1], vs, torch)
    return torch.sin(a) if k == "sin" else torch.cos(a)


def tree_mp(tr, vals, seed, mp):
    """forward-mode exact differentiation in mpmath: returns (value, derivative along seed, |.|-bounds of both)."""
    k = tr[0]
    if k == "var":
        return vals[tr[1]], seed[tr[1]], abs(vals[tr[1]]), abs(seed[tr[1]])
    if k == "const":
        return mp.mpf(tr[1]), mp.mpf(0), abs(mp.mpf(tr[1])), mp.mpf(0)
    if k in ("add", "mul"):
        a, da, ba, bda = tree_mp(tr[1], vals, seed, mp)
        b, db, bb, bdb = tree_mp(tr[2], vals, seed, mp)
        if k == "add":
            return a + b, da + db, ba + bb, bda + bdb
        return a * b, da * b + a * db, ba * bb, bda * bb + ba * bdb
    a, da, ba, bda = tree_mp(tr[1], vals, seed, mp)
    if k == "sin":
        return mp.sin(a), mp.cos(a) * da, mp.mpf(1), bda * (1 + ba)
    return mp.cos(a), -mp.sin(a) * da, mp.mpf(1), bda * (1 + ba)


def trig_events(ctx, count):
    import mpmath
    import torch
    pp = pypose()
    mp = mpmath.mp
    mp.prec = 200
    rng = ctx.rng
    eps = mpmath.mpf(2) ** -52
    unit = mpmath.mpf(2) ** -30
    evs = []
    for i in range(count):
        n, m, q = rng.randint(1, 3), rng.randint(1, 2), rng.randint(1, 2)
        nv = n + m
        F = [rand_tree(rng, nv, 3) for _ in range(n)]
        G = [rand_tree(rng, nv, 3) for _ in range(q)]
        case = {"n": n, "m": m, "F": F, "G": G,
                "x": [rng.randint(-16, 16) / 8 for _ in range(n)], "u": [rng.randint(-16, 16) / 8 for _ in range(m)],
                "t": rng.randint(0, 5), "d": None, "via": rng.choice(["args", "recent"])}
        if i % 3 == 2:          # a non-integer reference time (e.g. step index x sampling period), given explicitly
            case["t"], case["via"] = rng.randint(0, 40) / 8 + 0.125, "args"
            if i % 6 == 5:      # a history: the system was first linearised at its most recent point (integer clock), then
                case["via"] = "rearm"    # re-linearised at the explicit point; the second reference must be the one given
        while True:
            d = [rng.choice([-1, 0, 1]) for _ in range(nv)]
            if any(d):
                break
        case["d"] = d
        evs.append(trig_event(case, pp, torch, mpmath, eps, unit))
        ctx.cover("trig:%d" % i)
    return evs


def trig_event(case, pp, torch, mpmath, eps, unit):
    mp = mpmath.mp
    n, m, F, G = case["n"], case["m"], case["F"], case["G"]
    nv = n + m

    class TrigNLS(pp.module.NLS):
        def _vs(self, x, u, t):
            tt = t.reshape(-1)[0].to(x.dtype)
            return [x[i] for i in range(n)] + [u[j] for j in range(m)] + [tt]

        def state_transition(self, state, input, t=None):
            return torch.stack([tree_torch(tr, self._vs(state, input, t), torch) for tr in F])

        def observation(self, state, input, t=None):
            return torch.stack([tree_torch(tr, self._vs(state, input, t), torch) for tr in G])

    ev = {"act": "trig", "case": case}
    try:
        obj = TrigNLS()
        x = torch.tensor(case["x"], dtype=torch.float64)
        u = torch.tensor(case["u"], dtype=torch.float64)
        if case["via"] == "rearm":
            obj.reset(3)
            obj(x + 1, u - 1)
            obj.set_refpoint()
            _ = obj.A, obj.c1
            obj.set_refpoint(state=x, input=u, t=torch.tensor(case["t"]))
        elif case["via"] == "args" or case["t"] == 0:
            obj.set_refpoint(state=x, input=u, t=torch.tensor(case["t"]))
        else:                       # most recent state / input / time
            obj.reset(case["t"] - 1)
            obj(x, u)
            obj.set_refpoint()
        A, B, C, D, c1, c2 = obj.A, obj.B, obj.C, obj.D, obj.c1, obj.c2
    except Exception as ex:
        return {"act": "raise", "op": "trig", "msg": repr(ex)[:300], "case": case}
    vals = [mp.mpf(v) for v in case["x"] + case["u"]] + [mp.mpf(case["t"])]

    def M(tns):
        return [[mp.mpf(float(v)) for v in row] for row in tns] if tns.dim() == 2 else [mp.mpf(float(v)) for v in tns]

    jac_ulps = mp.mpf(0)
    repro = mp.mpf(0)
    lin1 = mp.mpf(0)
    e2r = mp.mpf(0)
    r = mp.mpf(2) ** -12
    for trees, Jx, Ju, cc in ((F, M(A), M(B), M(c1)), (G, M(C), M(D), M(c2))):
        for i, tr in enumerate(trees):
            val = None
            scale_r = mp.mpf(0)
            for j in range(nv):
                seed = [mp.mpf(1 if k == j else 0) for k in range(nv + 1)]
                val, der, bval, bder = tree_mp(tr, vals, seed, mp)
                got = Jx[i][j] if j < n else Ju[i][j - n]
                jac_ulps = max(jac_ulps, abs(got - der) / (eps * max(mp.mpf(1), bder)))
                scale_r += abs(got * vals[j])
            aff = sum(Jx[i][j] * vals[j] for j in range(n)) + sum(Ju[i][j] * vals[n + j] for j in range(m)) + cc[i]
            repro = max(repro, abs(aff - val) / (eps * max(mp.mpf(1), scale_r + abs(val))))

            def err(sc):        # signed error of the affine model at the point displaced by sc * d
                pv = [vals[k] + sc * case["d"][k] for k in range(nv)] + [vals[nv]]
                fv = tree_mp(tr, pv, [mp.mpf(0)] * (nv + 1), mp)[0]
                return fv - (sum(Jx[i][j] * pv[j] for j in range(n)) + sum(Ju[i][j] * pv[n + j] for j in range(m)) + cc[i])
            # err(s) = c0 + c1 s + c2 s^2 + ...;  err(2r) - 6 err(r) + 2 err(-r) = -3 c0 - 6 c1 r + 12 c4 r^4 + ...
            # (the identity of SysTime!SecondOrder): the first-order coefficient of the error, up to 2 |c4| r^3 <= 1e-5
            lin1 = max(lin1, abs(err(2 * r) - 6 * err(r) + 2 * err(-r)) / (6 * r))
            e2r = max(e2r, abs(err(2 * r)))
    ev.update({"jac": min(CAP, int(mpmath.ceil(jac_ulps))), "repro": min(CAP, int(mpmath.ceil(repro))),
               "lin1": min(CAP, int(mpmath.floor(lin1 / unit))), "e2r": min(CAP, int(mpmath.floor(e2r / unit)))})
    return ev


# ------------------------------------------------------------------------------------------ judging
def strip(tr):
    """what TLC needs of a trace"""
    keep = ("act", "op", "x", "u", "v", "t", "out", "lin", "xrank", "urank", "ms", "vs", "ls", "rs", "os", "mrank", "vrank",
            "lrank", "rrank", "orank", "mat", "vec", "lvec", "rvec", "jac", "repro", "lin1", "e2r")
    cfg = tr["cfg"]
    return {"cfg": {"cls": cfg["cls"], "sys": cfg["sys"], "rank": cfg.get("rank", 0)},
            "ev": [{k: v for k, v in e.items() if k in keep} for e in tr["ev"]]}


def judge(ctx, traces, verdicts):
    for tr, v in zip(traces, verdicts):
        if v == "ok":
            continue
        clause, at = v.split("@")
        e = tr["ev"][int(at) - 1]
        if clause in ("unjudged_call", "unjudged_shapes", "program_outside_grammar", "unknown_event"):
            raise MachineryError("harness generated a case outside the specification (%s): %s" % (v, json.dumps(e)[:500]))
        cls = tr["cfg"]["cls"]
        if e["act"] in ("bmv", "bvv", "bvmv") or e.get("op") in ("bmv", "bvv", "bvmv"):
            kind = e.get("kind") or e.get("op")
            key = "%s/%s" % (kind, clause)
            case = {"mode": "linalg", "event": e}
        elif e["act"] == "trig" or e.get("op") == "trig":
            key = "NLS/trig/%s" % clause
            case = {"mode": "trig", "case": e["case"]}
        else:
            key = vkey(cls, e.get("op"), clause, e.get("ref_t"))
            case = {"mode": "calls", "cfg": tr["cfg"], "calls": tr["calls"][:int(at)], "dtype": tr.get("dtype", "float64"),
                    "style": tr.get("style", {})}
        ctx.violation(key, "%s: rejected by SysTimeTrace at event %s: clause %s; event=%s prev=%s"
                      % (tr.get("what", cls), at, clause, json.dumps(e)[:600],
                         json.dumps(tr["ev"][int(at) - 2])[:400] if int(at) > 1 else "init"), case)


def stateless_trace(evs, what):
    return {"cfg": {"cls": "none", "sys": [], "rank": 0}, "ev": evs, "what": what}


DESIGN_QUICK = [
    {"module": "SysTime", "cfg": "SysTime_hist.cfg", "workers": 4},
    {"module": "SysTime", "cfg": "SysTime_rich.cfg", "workers": 4, "coverage": True,
     "need_actions": ["Forward", "Reset", "SetSystime", "SetRefpoint"]},
    {"module": "SysTime", "cfg": "SysTime_poly.cfg", "workers": 4},
    {"module": "SysTime", "cfg": "SysTime_lin.cfg", "workers": 2},
    {"module": "SysTime", "cfg": "SysTime_alias.cfg", "workers": 1, "expect_violation": "LinAtRef"},
]
DESIGN_THOROUGH = [
    {"module": "SysTime", "cfg": "SysTime_hist3.cfg", "workers": 4},
    {"module": "SysTime", "cfg": "SysTime_rich.cfg", "workers": 3, "coverage": True,
     "need_actions": ["Forward", "Reset", "SetSystime", "SetRefpoint"]},
    {"module": "SysTime", "cfg": "SysTime_polyfull.cfg", "workers": 4},
    {"module": "SysTime", "cfg": "SysTime_lin.cfg", "workers": 2},
    {"module": "SysTime", "cfg": "SysTime_alias.cfg", "workers": 1, "expect_violation": "LinAtRef"},
]


def run(ctx):
    import torch
    q = ctx.quick
    pypose()
    ctx.rule = ["TLC: every call sequence of length <= 6 over {Forward, Reset(v), SetSystime(v), SetRefpoint(args)} for LTI/LTV/NLS "
                "(history kept: time = fold of the history; rich alphabet: every optional-argument pattern); linearisation "
                "identities and second-order remainder over the polynomial grammar by symbolic differentiation",
                "conformance: every row (state reachable within 2/3 calls x call) of the tabulated spec replayed on real objects; "
                "random call sequences on random integer LTI/LTV (batched/unbatched) and random polynomial NLS validated by TLC "
                "event by event; bmv/bvv/bvmv on integer data with broadcast batch shapes; trigonometric NLS against mpmath "
                "(integer ulp measures judged by TLC); a case is distinct by table row / random instance / shape triple"]
    ctx.assumptions = ["integer data (exact in float32/float64), so equality is exact",
                       "LTV.set_refpoint() without t keeps the time (documented: the most recent timestamp is taken); it raised until the repair recorded in known_findings.json",
                       "NLS.set_refpoint() with a missing state/input before any forward call is unspecified (not generated)",
                       "systems are called through __call__ (forward() alone does not run the time hook)"]
    if ctx.replay:
        return replay(ctx)
    t0 = time.time()
    design = DesignRuns(ctx, DESIGN_QUICK if q else DESIGN_THOROUGH)
    # ---- spec -> code
    table_replay(ctx, "SysTimeGen.cfg" if q else "SysTimeGen3.cfg", 8 if q else 1)
    ctx.extra["table_wall_s"] = round(time.time() - t0, 1)
    # ---- code -> spec
    traces = random_traces(ctx, {"LTI": 150, "LTV": 250, "NLS": 250} if q else {"LTI": 1500, "LTV": 3000, "NLS": 3000},
                           14 if q else 24)
    lin = linalg_events(ctx, 600 if q else 6000)
    trig = trig_events(ctx, 60 if q else 600)
    traces += [stateless_trace(lin[i:i + 50], "bmv/bvv/bvmv on integer data") for i in range(0, len(lin), 50)]
    traces += [stateless_trace([e], "trigonometric NLS vs mpmath") for e in trig]
    for t in traces[:1] + traces[len(traces) // 2:len(traces) // 2 + 1]:
        ctx.sample({"kind": "code->spec trace", "what": t["what"], "cls": t["cfg"]["cls"], "ev": t["ev"][:3]})
    ctx.sample({"kind": "Mode-R measurement", "ev": {k: v for k, v in trig[0].items() if k != "case"}})
    for tr in traces:
        if tr["cfg"]["cls"] in ("LTI", "LTV", "NLS"):
            ctx.cover("trace:%s:%d" % (tr["cfg"]["cls"], len(ctx.nontrivial)))
    verdicts = ctx.validate("SysTimeTrace", "SysTimeTrace.cfg", [strip(t) for t in traces], "systime", chunk=1500)
    judge(ctx, traces, verdicts)
    ctx.extra["trig_max_measures"] = {k: max((e.get(k, 0) for e in trig), default=0) for k in ("jac", "repro", "lin1")}
    # ---- design model results
    design.join()
    for res in ctx.tlc_runs:
        if res["violated"]:
            ctx.violation("design/%s" % res["violated"][0], "SysTime design model (%s) violates %s" % (res["cfg"], res["violated"]))


def replay(ctx):
    import mpmath
    import torch
    pp = pypose()
    case = json.loads(open(ctx.replay).read())["case"]
    if case["mode"] == "calls":
        dtype = getattr(torch, case.get("dtype", "float64"))
        tr = exec_calls(case["cfg"], [dict(c, xrank=c.get("xrank", 0), urank=c.get("urank", 0)) for c in case["calls"]],
                        dtype, ctx.rng, case.get("style", {}))
        tr["what"] = "replayed on current tree"
        tr["dtype"], tr["style"] = case.get("dtype", "float64"), case.get("style", {})
    elif case["mode"] == "trig":
        mpmath.mp.prec = 200
        tr = stateless_trace([trig_event(case["case"], pp, torch, mpmath, mpmath.mpf(2) ** -52, mpmath.mpf(2) ** -30)],
                             "replayed trig case")
    else:
        e = case["event"]
        dtype = getattr(torch, e.get("dtype", "float64"))
        k = e["kind"]

        def T(name, sh, nitem):
            a = torch.tensor(e[name], dtype=dtype)
            return a.reshape(list(sh) + list(a.shape[1:]))
        s1, s2, s3 = e["shapes"]
        if k == "bmv":
            o = pp.bmv(T("mat", s1, 2), T("vec", s2, 1))
            ob = o.shape[:-1]
            e2 = dict(e, os=pad2(ob), orank=len(ob), out=enc_t(o.reshape([-1] + list(o.shape[-1:]))))
        elif k == "bvv":
            o = pp.bvv(T("lvec", s1, 1), T("rvec", s2, 1))
            ob = o.shape[:-2]
            e2 = dict(e, os=pad2(ob), orank=len(ob), out=enc_t(o.reshape([-1] + list(o.shape[-2:]))))
        else:
            o = pp.bvmv(T("lvec", s1, 1), T("mat", s2, 2), T("rvec", s3, 1))
            e2 = dict(e, os=pad2(o.shape), orank=o.dim(), out=enc_t(o.reshape(-1)))
        tr = stateless_trace([e2], "replayed %s" % k)
    v = ctx.validate("SysTimeTrace", "SysTimeTrace.cfg", [strip(tr)], "replay")
    judge(ctx, [tr], v)


def selftest(ctx):
    """Binding demonstration: a corrupted field and a removed event must both be rejected."""
    import torch
    pypose()
    cfg = {"cls": "LTV", "sys": {"A": [[[[1, k], [0, 2]] for k in range(6)]], "B": [[[[k], [1]] for k in range(6)]],
                                 "C": [[[[1, 1]] for k in range(6)]], "D": [[[[k + 1]] for k in range(6)]],
                                 "c1": [[[k, 1] for k in range(6)]], "c2": [[[2 * k] for k in range(6)]]}, "rank": 0,
           "n": 2, "m": 1, "B": 1, "K": 6}
    fw = {"op": "Forward", "x": [[[1, 2]]], "u": [[[3]]], "v": [], "xrank": 0, "urank": 0}
    calls = [fw, fw, {"op": "Reset", "x": [], "u": [], "v": [3]}, fw, fw, {"op": "SetRefpoint", "x": [], "u": [], "v": [1]}, fw]
    good = strip(exec_calls(cfg, calls, torch.float64, ctx.rng))
    bad1 = json.loads(json.dumps(good))
    bad1["ev"][3]["out"][0]["xn"][0][0] += 1
    bad2 = json.loads(json.dumps(good))
    del bad2["ev"][3]
    prog = {"n": 1, "m": 1, "f": [[{"c": 2, "e": [2, 1, 1]}]], "g": [[{"c": 1, "e": [1, 0, 2]}]]}
    ncalls = [{"op": "Forward", "x": [[[2]]], "u": [[[3]]], "v": []}, {"op": "SetRefpoint", "x": [], "u": [], "v": [2]},
              {"op": "Forward", "x": [[[1]]], "u": [[[1]]], "v": []}]
    good2 = strip(exec_calls({"cls": "NLS", "sys": prog, "rank": 0}, ncalls, torch.float64, ctx.rng))
    bad3 = json.loads(json.dumps(good2))
    bad3["ev"][1]["lin"][0]["c1"][0] += 1
    v = ctx.validate("SysTimeTrace", "SysTimeTrace.cfg", [good, bad1, bad2, good2, bad3], "selftest")
    print("selftest verdicts:", v)
    assert v[0] == "ok" and v[1].startswith("state_out@4") and v[2].startswith("systime@4") and v[3] == "ok" and v[4].startswith("c1@2"), v
    return 0
