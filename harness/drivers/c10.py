"""C10 — linear solvers return correct solutions or fail loudly; sparse products exact (Mode E + S).

Design specs : Solvers.tla (Cholesky PD/raise laws, least-squares / min-norm laws, exact CG loop),
               BsrMerge.tla (two-pointer merge-join of bsr_bsc_matmul)
spec -> code : SolversGen.tla, BsrMergeGen.tla (TLC tabulates expected outcomes / visited block pairs)
code -> spec : SolversTrace.tla, BsrMergeTrace.tla (TLC judges every recorded call)
"""
import json
import math
import os
import random
from fractions import Fraction as Fr

from vlib.core import MachineryError, pypose

CAP = 10 ** 9
EPS = {"float64": Fr(1, 2 ** 52), "float32": Fr(1, 2 ** 23)}
CG_PROBE_TOL = 2.0 ** -14          # looser than the 2^-15 at which the spec counted exact iterations
CG_DEFAULT_TOL = 1e-5

# layout pairs the helpers handle (they must return the dense product); any other pair may fail loudly
SUPPORTED_PAIRS = {("bsr", "bsc"), ("bsr", "dense"),
                   ("csr", "csr"), ("csr", "csc"), ("csc", "csr"), ("csc", "csc"), ("csr", "dense"), ("csc", "dense")}


# ------------------------------------------------------------------------------------------ exact helpers
def dt(name):
    import torch
    return {"float64": torch.float64, "float32": torch.float32}[name]


def ceil_fr(f):
    return -((-f.numerator) // f.denominator)


def fr_of(v):
    """Exact rational value of a float; None for nan/inf."""
    if v != v or v in (float("inf"), float("-inf")):
        return None
    return Fr(v)


def ulps(xs, frs, eps):
    """Per component |x_i - f_i| / (eps * max(1, |f|_inf)), rounded up, capped."""
    scale = max([abs(f) for f in frs] + [Fr(1)])
    out = []
    for x, f in zip(xs, frs):
        xf = fr_of(x)
        out.append(CAP if xf is None else min(CAP, ceil_fr(abs(xf - f) / (eps * scale))))
    return out


def nres_lattice(A, b, xs, eps):
    """|A'(A x - b)|_inf / (eps * max(1, |x|_inf)) for small integer A, b."""
    m, n = len(A), len(A[0])
    xf = [fr_of(v) for v in xs]
    if any(v is None for v in xf):
        return CAP
    res = [sum(A[i][j] * xf[j] for j in range(n)) - b[i] for i in range(m)]
    g = [sum(A[i][j] * res[i] for i in range(m)) for j in range(n)]
    scale = max([abs(v) for v in xf] + [Fr(1)])
    return min(CAP, max(ceil_fr(abs(v) / (eps * scale)) for v in g))


def rel_residual_e9(A, b, xs):
    """ceil(1e9 * |b - A x|_2 / |b|_2) in exact arithmetic up to the final square root."""
    n = len(b)
    xf = [fr_of(v) for v in xs]
    if any(v is None for v in xf):
        return CAP
    r = [b[i] - sum(A[i][j] * xf[j] for j in range(n)) for i in range(n)]
    bb = sum(Fr(v) * v for v in b)
    q = sum(v * v for v in r) / bb
    # sqrt of a rational: integer square root of a scaled value, rounded up
    num = q.numerator * 10 ** 18
    val = math.isqrt(num // q.denominator) + 1
    return min(CAP, val)


def solve_int(A, b):
    """Exact solution of the integer system A x = b (fraction-free Bareiss elimination);
    returns a list of Fractions or None when A is singular."""
    n = len(A)
    M = [list(map(int, A[i])) + [int(b[i])] for i in range(n)]
    prev = 1
    for k in range(n):
        piv = next((r for r in range(k, n) if M[r][k] != 0), None)
        if piv is None:
            return None
        if piv != k:
            M[k], M[piv] = M[piv], M[k]
        for i in range(k + 1, n):
            for j in range(k + 1, n + 1):
                M[i][j] = (M[i][j] * M[k][k] - M[i][k] * M[k][j]) // prev
            M[i][k] = 0
        prev = M[k][k]
    x = [Fr(0)] * n
    for i in range(n - 1, -1, -1):
        x[i] = (Fr(M[i][n]) - sum(M[i][j] * x[j] for j in range(i + 1, n))) / M[i][i]
    return x


def matmul_int(A, B):
    return [[sum(A[i][k] * B[k][j] for k in range(len(B))) for j in range(len(B[0]))] for i in range(len(A))]


def transpose(A):
    return [list(r) for r in zip(*A)]


def matvec(A, v):
    return [sum(a * x for a, x in zip(row, v)) for row in A]


def chol_kind(A):
    """Python-side description of a symmetric integer matrix (for violation keys only)."""
    n = len(A)

    def det(M):
        if len(M) == 1:
            return M[0][0]
        if len(M) == 2:
            return M[0][0] * M[1][1] - M[0][1] * M[1][0]
        return (M[0][0] * (M[1][1] * M[2][2] - M[1][2] * M[2][1]) - M[0][1] * (M[1][0] * M[2][2] - M[1][2] * M[2][0])
                + M[0][2] * (M[1][0] * M[2][1] - M[1][1] * M[2][0]))
    for k in range(1, n + 1):
        d = det([r[:k] for r in A[:k]])
        if d < 0:
            return "negative_pivot"
        if d == 0:
            return "zero_pivot"
    return "pd"


# ------------------------------------------------------------------------------------------ Cholesky
def ev_chol(spec):
    """One real Cholesky(upper)(As, bs) call on a batch of small integer systems."""
    import torch
    pp = pypose()
    d = dt(spec["dtype"])
    As, bs = spec["As"], spec["bs"]
    sa, sb = 2.0 ** spec.get("aexp", 0), 2.0 ** spec.get("bexp", 0)   # exact power-of-two scalings
    A = torch.tensor(As, dtype=d) * sa
    b = torch.tensor(bs, dtype=d).unsqueeze(-1) * sb
    if spec.get("unbatched"):
        A, b = A[0], b[0]
    ev = {"act": "chol", "upper": spec["upper"], "As": As, "bs": bs, "xs": spec.get("xs", []), "ulps": []}
    try:
        x = pp.optim.solver.Cholesky(upper=spec["upper"])(A, b)
    except Exception as ex:
        ev["out"] = "raise"
        ev["msg"] = repr(ex)[:120]
        return ev
    ev["out"] = "value"
    x = (x * (sa / sb)).reshape(len(As), -1).tolist()
    if spec.get("xs"):
        ev["ulps"] = [ulps(x[k], [Fr(*f) for f in spec["xs"][k]], EPS[spec["dtype"]]) for k in range(len(As))]
    else:
        ev["got"] = [[v if v == v and abs(v) != float("inf") else str(v) for v in row] for row in x][:2]
    return ev


def cholesky_part(ctx, sym, traces):
    q = ctx.quick
    rng = ctx.rng
    pd = [r for r in sym if r["cls"] == "PD"]
    notpd = [r for r in sym if r["cls"] == "NotPD"]
    tie = [r for r in sym if r["cls"] == "Tie"]
    ctx.extra["cholesky_classes"] = {"PD": len(pd), "NotPD": len(notpd), "Tie(unjudged)": len(tie)}
    variants = [(d, u) for d in ("float64", "float32") for u in (False, True)]
    for dtype, upper in variants:
        # ---- PD: one batched call per (order, rhs index); every element compared with the table
        for n in (1, 2, 3):
            rows = [r for r in pd if len(r["A"]) == n]
            for k in range(len(rows[0]["sols"])):
                spec = {"fam": "chol", "dtype": dtype, "upper": upper, "As": [r["A"] for r in rows],
                        "bs": [sorted(r["sols"], key=lambda s: s["b"])[k]["b"] for r in rows],
                        "xs": [sorted(r["sols"], key=lambda s: s["b"])[k]["x"] for r in rows]}
                ev = ev_chol(spec)
                traces.append({"cfg": spec, "ev": [ev], "class": "pd"})
                ctx.evaluations += len(rows)
                if k == 0:      # the same systems scaled by powers of two (solution scales exactly)
                    sc = dict(spec, aexp=rng.choice([-20, -6, 9, 24]), bexp=rng.choice([-25, -3, 11, 30]))
                    traces.append({"cfg": sc, "ev": [ev_chol(sc)], "class": "pd"})
        # unbatched 2-D inputs
        for r in rng.sample(pd, 12):
            s = r["sols"][0]
            spec = {"fam": "chol", "dtype": dtype, "upper": upper, "As": [r["A"]], "bs": [s["b"]], "xs": [s["x"]],
                    "unbatched": True}
            traces.append({"cfg": spec, "ev": [ev_chol(spec)], "class": "pd"})
        # ---- not PD: each alone (batch of one); spec -> code: the table says Raise
        full = (not q) and dtype == "float64" and not upper
        pick = set(range(len(notpd))) if full else set(rng.sample(range(len(notpd)), 700 if q else 3000))
        for i, r in enumerate(notpd):
            n = len(r["A"])
            spec = {"fam": "chol", "dtype": dtype, "upper": upper, "As": [r["A"]], "bs": [[1] * n]}
            ev = ev_chol(spec)
            ctx.evaluations += 1
            kind = chol_kind(r["A"])
            if ev["out"] != "raise":     # spec -> code comparison against the generated table
                ctx.violation("cholesky/nonpd_not_raised/%s" % kind,
                              "Cholesky(upper=%s, %s) returned %s for the symmetric matrix %s which is not positive "
                              "definite (SolversGen: Raise)" % (upper, dtype, ev.get("got"), r["A"]),
                              {"spec": spec, "class": kind, "via": "table"})
            if n <= 2 or i in pick:
                traces.append({"cfg": spec, "ev": [ev], "class": kind})
        # ---- rounding ties: recorded, never judged
        for r in (tie if not q else rng.sample(tie, 60)):
            spec = {"fam": "chol", "dtype": dtype, "upper": upper, "As": [r["A"]], "bs": [[1] * len(r["A"])]}
            traces.append({"cfg": spec, "ev": [ev_chol(spec)], "class": "tie"})
        # ---- mixed batches: one non-PD element anywhere in a batch of PD systems must raise
        for _ in range(25 if q else 100):
            n = rng.choice((2, 3))
            good = rng.sample([r for r in pd if len(r["A"]) == n], rng.randint(1, 4))
            bad = rng.choice([r for r in notpd if len(r["A"]) == n])
            As = [r["A"] for r in good]
            As.insert(rng.randint(0, len(As)), bad["A"])
            spec = {"fam": "chol", "dtype": dtype, "upper": upper, "As": As, "bs": [[1] * n] * len(As)}
            traces.append({"cfg": spec, "ev": [ev_chol(spec)], "class": "mixed_batch"})


# ------------------------------------------------------------------------------------------ PINV / LSTSQ
def ls_batch(solver, A, b):
    """Run one batched call; returns (out, list of solution rows)."""
    try:
        x = solver(A, b)
    except Exception as ex:
        return "raise", None, repr(ex)[:120]
    return "value", x.reshape(A.shape[0], -1).tolist(), ""


def ev_ls_group(rows, dtype, lstsq_driver=None, aexp=0, bexp=0):
    """All matrices of one shape through one batched PINV call and one batched LSTSQ call per rhs index;
    one event per matrix."""
    import torch
    pp = pypose()
    d = dt(dtype)
    eps = EPS[dtype]
    nb = len(rows[0]["sols"])
    sols = [sorted(r["sols"], key=lambda s: s["b"]) for r in rows]
    sa, sb = 2.0 ** aexp, 2.0 ** bexp
    A = torch.tensor([r["A"] for r in rows], dtype=d) * sa
    evs = [{"act": "ls", "A": r["A"], "bs": [s["b"] for s in so], "xs": [s["x"] for s in so],
            "pinv": {"out": "value", "ulps": []}, "lstsq": {"out": "value", "ulps": [], "nres": []}}
           for r, so in zip(rows, sols)]
    for k in range(nb):
        b = torch.tensor([so[k]["b"] for so in sols], dtype=d).unsqueeze(-1) * sb
        for name, solver in (("pinv", pp.optim.solver.PINV()), ("lstsq", pp.optim.solver.LSTSQ(driver=lstsq_driver))):
            out, xs, msg = ls_batch(solver, A, b)
            if xs is not None:
                xs = [[v * (sa / sb) for v in row] for row in xs]
            for i, e in enumerate(evs):
                if out == "raise":
                    e[name]["out"] = "raise"
                    e[name]["msg"] = msg
                    continue
                frs = [Fr(*f) for f in sols[i][k]["x"]]
                e[name]["ulps"].append(ulps(xs[i], frs, eps))
                if name == "lstsq":
                    e[name]["nres"].append(nres_lattice(rows[i]["A"], sols[i][k]["b"], xs[i], eps))
    return evs


def ls_part(ctx, ls, traces):
    q = ctx.quick
    rng = ctx.rng
    shapes = sorted({(len(r["A"]), len(r["A"][0])) for r in ls})
    for dtype in ("float64", "float32"):
        for (m, n) in shapes:
            rows = [r for r in ls if (len(r["A"]), len(r["A"][0])) == (m, n)]
            evs = ev_ls_group(rows, dtype)
            ctx.evaluations += 2 * len(rows) * len(rows[0]["sols"])
            for r, e in zip(rows, evs):
                # spec -> code comparison in Python against the generated table (every row, both solvers)
                worst_p = max([max(u) for u in e["pinv"]["ulps"]] + [0])
                worst_l = max([max(u) for u in e["lstsq"]["ulps"]] + [0])
                cls = "fullrank" if r["rank"] == min(m, n) else "rankdef"
                if e["pinv"]["out"] == "raise" or worst_p > 256:
                    ctx.violation("pinv/table/%s" % cls, "PINV on %s (rank %d): %s, ulps %s vs pinv(A) b of SolversGen"
                                  % (r["A"], r["rank"], e["pinv"]["out"], e["pinv"]["ulps"]),
                                  {"spec": {"fam": "ls", "dtype": dtype, "rows": [r]}, "via": "table"})
                if e["lstsq"]["out"] == "raise" or (r["rank"] == n and worst_l > 256):
                    ctx.violation("lstsq/table/%s" % cls, "LSTSQ on %s (rank %d): %s, ulps %s"
                                  % (r["A"], r["rank"], e["lstsq"]["out"], e["lstsq"]["ulps"]),
                                  {"spec": {"fam": "ls", "dtype": dtype, "rows": [r]}, "via": "table"})
            keep = range(len(rows))
            if q and dtype == "float32" and len(rows) > 200:
                keep = rng.sample(range(len(rows)), 200)
            elif q and len(rows) > 600:
                keep = rng.sample(range(len(rows)), 600)
            for i in keep:
                traces.append({"cfg": {"fam": "ls", "dtype": dtype, "rows": [rows[i]]}, "ev": [evs[i]],
                               "class": "rank%d_%dx%d" % (rows[i]["rank"], m, n)})
    # the same systems with A and b scaled by powers of two (pinv / lstsq cut-offs must be relative)
    for (aexp, bexp) in ((-24, 6), (18, -9)):
        rows = rng.sample(ls, 240 if q else 1500)
        for (m, n) in shapes:
            grp = [r for r in rows if (len(r["A"]), len(r["A"][0])) == (m, n)]
            if grp:
                for r, e in zip(grp, ev_ls_group(grp, "float64", None, aexp, bexp)):
                    traces.append({"cfg": {"fam": "ls", "dtype": "float64", "rows": [r], "aexp": aexp, "bexp": bexp}, "ev": [e],
                                   "class": "rank%d_%dx%d_scaled" % (r["rank"], m, n)})
    if not q:   # the other LAPACK drivers documented for rank-deficient input
        for drv in ("gelsd", "gelss"):
            rows = rng.sample(ls, 400)
            for (m, n) in shapes:
                grp = [r for r in rows if (len(r["A"]), len(r["A"][0])) == (m, n)]
                if grp:
                    for r, e in zip(grp, ev_ls_group(grp, "float64", drv)):
                        traces.append({"cfg": {"fam": "ls", "dtype": "float64", "rows": [r], "driver": drv}, "ev": [e],
                                       "class": "rank%d_%dx%d_%s" % (r["rank"], m, n, drv)})


# ------------------------------------------------------------------------------------------ CG (lattice)
def to_layout(X, layout, blk=1):
    if layout == "dense":
        return X
    if layout == "csr":
        return X.to_sparse_csr()
    if layout == "coo":
        return X.to_sparse_coo()
    if layout == "bsr":
        return X.to_sparse_bsr((blk, blk))
    raise MachineryError("layout %s" % layout)


_SHARED_CG = {}


def shared_cg(kw):
    """Default-constructed CG solvers are reused for the whole run (one instance per keyword set), and their first
    use is a 1x1 system: the solver object must not carry anything from one solve to the next (e.g. an iteration
    budget frozen by the first call)."""
    import torch
    pp = pypose()
    if "maxiter" in kw:
        return pp.optim.solver.CG(**kw)
    key = tuple(sorted(kw.items()))
    if key not in _SHARED_CG:
        c = pp.optim.solver.CG(**kw)
        try:
            c(torch.tensor([[2.0]], dtype=torch.float64), torch.tensor([[1.0]], dtype=torch.float64))
        except Exception:
            pass
        _SHARED_CG[key] = c
    return _SHARED_CG[key]


def ev_cg(spec):
    """One real CG(maxiter, tol)(A, b, x0, M) call on a small integer SPD system."""
    import torch
    pp = pypose()
    d = dt(spec["dtype"])
    A, b, x0, M = spec["A"], spec["b"], spec["x0"], spec["M"]
    n = len(b)
    blk = n if (spec["layout"] == "bsr" and spec.get("bigblock")) else 1
    # A 2^aexp, b 2^bexp, x0 2^(bexp-aexp), M 2^-aexp: exact CG iterates scale exactly, its iteration count and
    # the relative residual do not change, so the event still carries the unscaled integers
    sa, sb = 2.0 ** spec.get("aexp", 0), 2.0 ** spec.get("bexp", 0)
    At = to_layout(torch.tensor(A, dtype=d) * sa, spec["layout"], blk)
    bt = torch.tensor(b, dtype=d) * sb
    bt = bt if spec.get("b1d") else bt.unsqueeze(-1)
    xt = None if not x0 else torch.tensor(x0, dtype=d).unsqueeze(-1) * (sb / sa)
    Mt = None if not M else to_layout(torch.tensor(M, dtype=d) / sa, spec["mlayout"], 1)
    probe = spec["mode"] == "probe"
    tol = CG_PROBE_TOL if probe else spec.get("tol", CG_DEFAULT_TOL)
    # probe: exact CG needs `iters` updates (SolversGen); the real loop gets one more (counting conventions)
    kw = {"maxiter": spec["iters"] + 1, "tol": tol} if probe else ({} if "tol" not in spec else {"tol": tol})
    ev = {"act": "cg", "A": A, "b": b, "x0": x0, "M": M, "iters": spec["iters"], "layout": spec["layout"],
          "maxiter": spec["iters"] + 1 if probe else 0, "tol_e9": int(tol * 1e9), "rel_e9": 0, "zero": False}
    try:
        x = shared_cg(kw)(At, bt, xt, Mt)
    except Exception as ex:
        ev["out"] = "raise"
        ev["msg"] = repr(ex)[:160]
        return ev
    ev["out"] = "value"
    x = x.to_dense() if x.layout != torch.strided else x
    xs = (x * (sa / sb)).reshape(-1).tolist()
    ev["zero"] = all(v == 0 for v in xs) and len(xs) == n
    if any(b):
        ev["rel_e9"] = rel_residual_e9(A, b, xs)
    return ev


def cg_part(ctx, cg, traces):
    q = ctx.quick
    rng = ctx.rng
    for r in cg:
        r["x0"] = r["x0"] or []
        r["M"] = r["M"] or []
    for i, r in enumerate(cg):
        combos = [("dense", "default"), ("dense", "probe")]
        others = [(l, m) for l in ("csr", "coo", "bsr") for m in ("default", "probe")]
        combos += others if not q else rng.sample(others, 1)
        for layout, mode in combos:
            spec = {"fam": "cg", "dtype": "float64", "layout": layout, "mlayout": layout,
                    "mode": mode, "A": r["A"], "b": r["b"], "x0": r["x0"], "M": r["M"], "iters": r["iters"]}
            if layout == "bsr" and len(r["b"]) > 1 and i % 2:
                spec["bigblock"] = True
            if not r["x0"] and i % 3 == 0 and mode == "default":
                spec["b1d"] = True
            ev = ev_cg(spec)
            ctx.evaluations += 1
            traces.append({"cfg": spec, "ev": [ev], "class": "%s_%s" % (layout, mode)})
        if i % 2 == 0:   # scaled system: the stopping rule must be relative to |b|
            spec = {"fam": "cg", "dtype": "float64", "layout": "dense", "mlayout": "dense", "mode": "default",
                    "A": r["A"], "b": r["b"], "x0": r["x0"], "M": r["M"], "iters": r["iters"],
                    "aexp": rng.choice([-8, 0, 0, 7]), "bexp": rng.choice([-30, -22, 21, 33])}
            traces.append({"cfg": spec, "ev": [ev_cg(spec)], "class": "dense_default_scaled"})
        if i % 4 == 0:   # float32 with a tolerance float32 can reach
            spec = {"fam": "cg", "dtype": "float32", "layout": "dense", "mlayout": "dense", "mode": "default", "tol": 1e-3,
                    "A": r["A"], "b": r["b"], "x0": r["x0"], "M": r["M"], "iters": r["iters"]}
            traces.append({"cfg": spec, "ev": [ev_cg(spec)], "class": "dense_default_f32"})


# ------------------------------------------------------------------------------------------ sampled orders 4..40
def big_spd(rng, n, emax):
    B = [[rng.randint(-2, 2) for _ in range(n)] for _ in range(n)]
    Mi = matmul_int(transpose(B), B)
    for i in range(n):
        Mi[i][i] += n
    e = [rng.randint(0, emax) for _ in range(n)]
    return [[Mi[i][j] * (1 << (e[i] + e[j])) for j in range(n)] for i in range(n)]


BIG = 1 << 200        # "infinite" error (nan / inf in the result)


def elog(err):
    """ceil(log2(err)) for an exact integer error measure (0 for err <= 1)."""
    return 0 if err <= 1 else (err - 1).bit_length()


def measure_ferr(xs, xstar, eps):
    """|x - x*|_inf / (eps |x*|_inf), exact, rounded up (not capped: it is logged as ceil(log2))."""
    xf = [fr_of(v) for v in xs]
    if any(v is None for v in xf):
        return BIG
    scale = max(abs(v) for v in xstar) or Fr(1)
    return ceil_fr(max(abs(a - c) for a, c in zip(xf, xstar)) / (eps * scale))


def measure_bres(A, b, xs, eps):
    """Backward residual |b - A x|_inf / (eps (|A|_inf |x|_inf + |b|_inf))."""
    xf = [fr_of(v) for v in xs]
    if any(v is None for v in xf):
        return BIG
    res = [c - a for a, c in zip(matvec(A, xf), b)]
    na = max(sum(abs(v) for v in row) for row in A)
    den = eps * (na * max(abs(v) for v in xf) + max(abs(v) for v in b))
    if den == 0:
        return 0 if all(v == 0 for v in res) else BIG
    return ceil_fr(max(abs(v) for v in res) / den)


def measure_nres(A, b, xs, eps):
    """|A'(A x - b)|_inf / (eps |A'|_inf (|b|_inf + |A|_inf |x|_inf))."""
    xf = [fr_of(v) for v in xs]
    if any(v is None for v in xf):
        return BIG
    At = transpose(A)
    res = [a - c for a, c in zip(matvec(A, xf), b)]
    g = matvec(At, res)
    na = max(sum(abs(v) for v in row) for row in A)
    nat = max(sum(abs(v) for v in row) for row in At)
    den = eps * nat * (max(abs(v) for v in b) + na * max(abs(v) for v in xf))
    if den == 0:
        return 0 if all(v == 0 for v in g) else BIG
    return ceil_fr(max(abs(v) for v in g) / den)


def klog2(torch, A64, rank=None):
    sv = torch.linalg.svdvals(A64)
    r = rank if rank is not None else len(sv)
    return max(0, int(math.ceil(math.log2(float(sv[0] / sv[r - 1])))))


def ev_big(spec):
    """A sampled instance of order 4..40, regenerated from its seed."""
    import torch
    pp = pypose()
    rng = random.Random(spec["seed"])
    dtype, solver, kind = spec["dtype"], spec["solver"], spec["kind"]
    d, eps = dt(dtype), EPS[dtype]
    n = spec["n"]
    batch = spec.get("batch", [1])
    nb = 1
    for s in batch:
        nb *= s
    ev = {"act": "big", "solver": solver, "kind": kind, "n": n, "m": spec.get("m", n), "expect": "value",
          "measure": "ferr", "err": 0, "elog": 0, "amp": 0, "bzero": False, "zero": False, "rel_e9": 0, "tol_e9": 0}
    if solver == "cg":
        emax = spec["emax"]
        while True:
            A = big_spd(rng, n, emax)
            A64 = torch.tensor(A, dtype=torch.float64)
            if float(torch.linalg.cond(A64)) <= 1e3:
                break
            emax = max(0, emax - 1)
        b = [0] * n if kind == "b0" else [rng.randint(-3, 3) or 1 for _ in range(n)]
        x0 = [rng.randint(-2, 2) for _ in range(n)] if spec.get("x0") else None
        At = to_layout(torch.tensor(A, dtype=d), spec["layout"], spec.get("blk", 1))
        Mt = None
        if spec.get("prec"):    # Jacobi-like preconditioner with power-of-two entries (exact)
            Mt = to_layout(torch.diag(torch.tensor([2.0 ** -int(math.floor(math.log2(A[i][i]))) for i in range(n)], dtype=d)),
                           spec["layout"], spec.get("blk", 1))
        tol = spec.get("tol", CG_DEFAULT_TOL)
        sb = 2.0 ** spec.get("bexp", 0)
        ev.update({"bzero": kind == "b0", "tol_e9": int(tol * 1e9)})
        try:
            x = shared_cg({"tol": tol} if "tol" in spec else {})(
                At, torch.tensor(b, dtype=d).unsqueeze(-1) * sb,
                None if x0 is None else torch.tensor(x0, dtype=d).unsqueeze(-1) * sb, Mt)
        except Exception as ex:
            ev.update({"out": "raise", "msg": repr(ex)[:160]})
            return ev
        xs = (x / sb).reshape(-1).tolist()
        ev.update({"out": "value", "zero": all(v == 0 for v in xs) and len(xs) == n,
                   "rel_e9": rel_residual_e9(A, b, xs) if any(b) else 0})
        return ev
    if kind in ("spd", "indefinite"):
        mats, rhs, stars = [], [], []
        bad_at = rng.randrange(nb) if kind == "indefinite" else -1
        for k in range(nb):
            A = big_spd(rng, n, spec["emax"])
            if k == bad_at:
                j = rng.randrange(n)
                A[j][j] = -A[j][j]
            b = [rng.randint(-3, 3) for _ in range(n)]
            mats.append(A)
            rhs.append(b)
            stars.append(None if kind == "indefinite" else solve_int(A, b))
        At = torch.tensor(mats, dtype=d).reshape(batch + [n, n])
        bt = torch.tensor(rhs, dtype=d).reshape(batch + [n, 1])
        sol = {"chol": pp.optim.solver.Cholesky(upper=spec.get("upper", False)), "pinv": pp.optim.solver.PINV(),
               "lstsq": pp.optim.solver.LSTSQ()}[solver]
        ev["expect"] = "raise" if kind == "indefinite" else "value"
        try:
            x = sol(At, bt)
        except Exception as ex:
            ev.update({"out": "raise", "msg": repr(ex)[:160]})
            return ev
        ev["out"] = "value"
        if kind == "indefinite":
            return ev
        xs = x.reshape(nb, n).tolist()
        if solver == "pinv":    # explicit pseudo-inverse: forward error up to cond * eps
            err = max(measure_ferr(xs[k], stars[k], eps) for k in range(nb))
            ev.update({"measure": "ferr", "amp": max(klog2(torch, torch.tensor(A, dtype=torch.float64)) for A in mats)})
        else:                   # factorisation-based solvers are backward stable whatever the condition number
            err = max(measure_bres(mats[k], rhs[k], xs[k], eps) for k in range(nb))
            ev.update({"measure": "bres", "amp": 0})
        ev.update({"err": min(CAP, err), "elog": elog(err)})
        return ev
    if kind == "tallscaled":
        # consistent tall systems with badly scaled columns: A = A0 diag(2^e), b = A0 x0 (integers), x* = x0 / 2^e.
        # Column scaling by powers of two is exact; cond(A) up to ~1e8 (f64) / ~1e3 (f32).  The forward error of a
        # least-squares solver on a consistent system grows with cond, not cond^2; a solver that forms the normal
        # equations (and truncates on sigma^2) loses the weakly scaled unknowns altogether.
        m, kmax = spec["m"], spec["kexp"]
        while True:
            A0 = [[rng.randint(-3, 3) for _ in range(n)] for _ in range(m)]
            if solve_int(matmul_int(transpose(A0), A0), [1] * n) is not None:
                break
        x0 = [rng.randint(-3, 3) or 1 for _ in range(n)]
        b = matvec(A0, x0)
        ex = [rng.randint(-kmax, kmax) for _ in range(n)]
        ex[0], ex[-1] = kmax, -kmax
        sc = torch.tensor([2.0 ** e for e in ex], dtype=d)
        At = (torch.tensor(A0, dtype=d) * sc).reshape([1, m, n])
        bt = torch.tensor(b, dtype=d).reshape([1, m, 1])
        sol = {"pinv": pp.optim.solver.PINV(), "lstsq": pp.optim.solver.LSTSQ()}[solver]
        try:
            x = sol(At, bt)
        except Exception as ex_:
            ev.update({"out": "raise", "msg": repr(ex_)[:160]})
            return ev
        ev["out"] = "value"
        z = (x.reshape(n) * sc).tolist()            # the solution in the scaled unknowns
        kl = klog2(torch, At[0].double())
        err = measure_ferr(z, [Fr(v) for v in x0], eps)
        ev.update({"measure": "ferr", "amp": kl, "err": min(CAP, err), "elog": elog(err)})
        return ev
    # least squares: tall / wide / rank-deficient integer matrices
    m = spec["m"]
    mats, rhs, stars, ranks = [], [], [], []
    tries = 0
    while len(mats) < nb:
        tries += 1
        if tries > 200:
            raise MachineryError("cannot generate a %s instance for %s" % (kind, spec))
        if kind == "rankdef":
            r = spec["rank"]
            Bf = [[rng.randint(-2, 2) for _ in range(r)] for _ in range(m)]
            Cf = [[rng.randint(-2, 2) for _ in range(n)] for _ in range(r)]
            A = matmul_int(Bf, Cf)
        else:
            r = min(m, n)
            A = [[rng.randint(-3, 3) for _ in range(n)] for _ in range(m)]
        b = [rng.randint(-3, 3) for _ in range(m)]
        if kind == "rankdef":    # x+ = C'(CC')^-1 (B'B)^-1 B' b
            y = solve_int(matmul_int(transpose(Bf), Bf), matvec(transpose(Bf), b))
            if y is None:
                continue
            den = math.lcm(*[v.denominator for v in y])
            z = solve_int(matmul_int(Cf, transpose(Cf)), [int(v * den) for v in y])
            if z is None:
                continue
            xs_ = [v / den for v in matvec(transpose(Cf), z)]
        elif m >= n:             # x = (A'A)^-1 A'b
            xs_ = solve_int(matmul_int(transpose(A), A), matvec(transpose(A), b))
            if xs_ is None:
                continue
        else:                    # x+ = A'(AA')^-1 b
            z = solve_int(matmul_int(A, transpose(A)), b)
            if z is None:
                continue
            xs_ = matvec(transpose(A), z)
        mats.append(A)
        rhs.append(b)
        stars.append(xs_)
        ranks.append(r)
    At = torch.tensor(mats, dtype=d).reshape(batch + [m, n])
    bt = torch.tensor(rhs, dtype=d).reshape(batch + [m, 1])
    sol = {"pinv": pp.optim.solver.PINV(), "lstsq": pp.optim.solver.LSTSQ()}[solver]
    try:
        x = sol(At, bt)
    except Exception as ex:
        ev.update({"out": "raise", "msg": repr(ex)[:160]})
        return ev
    ev["out"] = "value"
    xs = x.reshape(nb, n).tolist()
    kl = max(klog2(torch, torch.tensor(A, dtype=torch.float64), r) for A, r in zip(mats, ranks))
    if solver == "pinv" or (solver == "lstsq" and kind == "tall"):
        # forward error of a least-squares solution is amplified by up to cond^2
        err = max(measure_ferr(xs[k], stars[k], eps) for k in range(nb))
        ev.update({"measure": "ferr", "amp": 2 * kl})
    else:
        err = max(measure_nres(mats[k], rhs[k], xs[k], eps) for k in range(nb))
        ev.update({"measure": "nres", "amp": 0})
    ev.update({"err": min(CAP, err), "elog": elog(err)})
    return ev


def big_part(ctx, traces):
    q = ctx.quick
    rng = ctx.rng
    specs = []
    sizes = [4, 5, 7, 12, 23, 40] if q else list(range(4, 41))
    batches = [[1], [3], [2, 2]]
    for n in sizes:
        for solver in ("chol", "pinv", "lstsq"):
            for rep in range(1 if q else 2):
                emax = rng.choice([0, 4, 8, 12])
                specs.append({"fam": "big", "solver": solver, "kind": "spd", "n": n, "dtype": "float64", "emax": emax,
                              "batch": rng.choice(batches), "upper": rng.random() < 0.5})
            specs.append({"fam": "big", "solver": solver, "kind": "spd", "n": n, "dtype": "float64", "emax": 12,
                          "batch": [1]})          # condition number up to ~1e8
            specs.append({"fam": "big", "solver": solver, "kind": "spd", "n": n, "dtype": "float32", "emax": rng.choice([0, 2]),
                          "batch": rng.choice(batches)})
        for rep in range(2 if q else 4):
            specs.append({"fam": "big", "solver": "chol", "kind": "indefinite", "n": n, "dtype": rng.choice(["float64", "float32"]),
                          "emax": rng.choice([0, 4, 8]), "batch": rng.choice(batches), "upper": rng.random() < 0.5})
        for solver in ("pinv", "lstsq"):
            m_tall, m_wide = min(40, n + rng.randint(1, 9)), max(1, n - rng.randint(1, 3))
            specs.append({"fam": "big", "solver": solver, "kind": "tall", "n": n, "m": m_tall, "dtype": "float64", "batch": rng.choice(batches)})
            specs.append({"fam": "big", "solver": solver, "kind": "wide", "n": n, "m": m_wide, "dtype": "float64", "batch": rng.choice(batches)})
            if n <= 12:
                specs.append({"fam": "big", "solver": solver, "kind": "tallscaled", "n": n, "m": n + rng.randint(1, 6), "dtype": "float64",
                              "kexp": 13, "batch": [1]})
                specs.append({"fam": "big", "solver": solver, "kind": "tallscaled", "n": n, "m": n + rng.randint(1, 6), "dtype": "float32",
                              "kexp": 5, "batch": [1]})
            m_def = rng.randint(max(2, n - 3), min(40, n + 3))
            specs.append({"fam": "big", "solver": solver, "kind": "rankdef", "n": n, "m": m_def,
                          "rank": rng.randint(1, min(3, n - 1, m_def - 1)), "dtype": "float64", "batch": rng.choice(batches)})
        for layout in ("dense", "csr", "coo", "bsr"):
            blk = rng.choice([b for b in (1, 2, 4) if n % b == 0])
            specs.append({"fam": "big", "solver": "cg", "kind": rng.choice(["plain", "plain", "b0"]), "n": n, "dtype": "float64",
                          "emax": rng.choice([0, 2, 4]), "layout": layout, "blk": blk, "x0": rng.random() < 0.5,
                          "prec": rng.random() < 0.5, "bexp": rng.choice([-24, 0, 0, 19])})
        specs.append({"fam": "big", "solver": "cg", "kind": "plain", "n": n, "dtype": "float32", "emax": 0, "layout": "dense",
                      "tol": 1e-3, "x0": rng.random() < 0.5, "prec": False})
    for i, sp in enumerate(specs):
        sp["seed"] = ctx.seed * 100003 + i
        ev = ev_big(sp)
        traces.append({"cfg": sp, "ev": [ev], "class": "%s_%s" % (sp["solver"], sp["kind"])})


# ------------------------------------------------------------------------------------------ sparse products
BLOCKS = [(1, 1, 1), (2, 2, 2), (1, 2, 3), (3, 1, 2), (4, 4, 4), (2, 3, 1), (3, 3, 3), (4, 1, 2), (1, 4, 1)]


def rand_block(rng, r, c, zero_prob=0.15):
    if rng.random() < zero_prob:
        return [[0] * c for _ in range(r)]          # explicitly stored zero block
    return [[rng.randint(-3, 3) for _ in range(c)] for _ in range(r)]


def ev_merge_row(spec):
    """BSR x BSC built from the index arrays TLC wrote; result compared with the sum over the visited list."""
    import torch
    pp = pypose()
    from pypose.sparse.ops import _sparse_csr_mm, bsr_bsc_matmul
    row = spec["row"]
    rng = random.Random(spec["seed"])
    dm, dn, dp = spec["bs"]
    d = dt(spec["dtype"])
    sm, sn, sp = row["sm"], row["sn"], row["sp"]
    av = [rand_block(rng, dm, dn) for _ in row["col"]]
    bv = [rand_block(rng, dn, dp) for _ in row["row"]]
    idt = torch.int64      # (int32 index tensors make bsr_bsc_matmul raise for every pattern: loud, not judged)
    bsr = torch.sparse_bsr_tensor(torch.tensor(row["crow"], dtype=idt), torch.tensor(row["col"], dtype=idt),
                                  torch.tensor(av, dtype=d).reshape(len(av), dm, dn), size=(sm * dm, sn * dn))
    bsc = torch.sparse_bsc_tensor(torch.tensor(row["ccol"], dtype=idt), torch.tensor(row["row"], dtype=idt),
                                  torch.tensor(bv, dtype=d).reshape(len(bv), dn, dp), size=(sn * dn, sp * dp))
    # dense operands from the same data (independent of torch's to_dense)
    Ad = [[0] * (sn * dn) for _ in range(sm * dm)]
    pa = []
    for i in range(sm):
        for t in range(row["crow"][i], row["crow"][i + 1]):
            k = row["col"][t]
            pa.append([i, k])
            for r in range(dm):
                for c in range(dn):
                    Ad[i * dm + r][k * dn + c] = av[t][r][c]
    Bd = [[0] * (sp * dp) for _ in range(sn * dn)]
    pb = []
    for j in range(sp):
        for t in range(row["ccol"][j], row["ccol"][j + 1]):
            k = row["row"][t]
            pb.append([k, j])
            for r in range(dn):
                for c in range(dp):
                    Bd[k * dn + r][j * dp + c] = bv[t][r][c]
    # expected result from the spec's visited list:  C[coo[idx]] += A.values[k1] @ B.values[k2]
    Cx = [[0] * (sp * dp) for _ in range(sm * dm)]
    for h in row["src"]:
        i, j = row["coo"][h["idx"]] if h["idx"] < len(row["coo"]) else (None, None)
        if [i, j] != [h["i"], h["j"]]:
            raise MachineryError("BsrMergeGen row inconsistent: %s" % row)
        P = matmul_int(av[h["k1"]], bv[h["k2"]])
        for r in range(dm):
            for c in range(dp):
                Cx[i * dm + r][j * dp + c] += P[r][c]
    ev = {"act": "spmm", "pair": "bsr_bsc", "supported": True, "A": Ad, "B": Bd, "bs": [dm, dn, dp], "pa": pa, "pb": pb,
          "model": spec.get("model", True), "C": [], "fn": spec["fn"]}
    try:
        res = (bsr_bsc_matmul if spec["fn"] == "bsr_bsc_matmul" else _sparse_csr_mm)(bsr, bsc)
        C = res.to_dense()
    except Exception as ex:
        ev.update({"out": "raise", "msg": repr(ex)[:160]})
        return ev, Cx
    if not bool((C == C.round()).all()) or C.shape != (sm * dm, sp * dp):
        ev.update({"out": "value", "C": [[CAP]], "msg": "non-integer entries or wrong shape %s" % (tuple(C.shape),)})
        return ev, Cx
    ev.update({"out": "value", "C": [[int(v) for v in r] for r in C.tolist()]})
    return ev, Cx


def ev_pair(spec):
    """_sparse_csr_mm on a layout pair with random integer matrices."""
    import torch
    pypose()
    from pypose.sparse.ops import _sparse_csr_mm
    rng = random.Random(spec["seed"])
    d = dt(spec["dtype"])
    (dm, dn, dp), (sm, sn, sp) = spec["bs"], spec["grid"]
    dens = spec["density"]

    def dense(sr, sc, br, bc):
        X = [[0] * (sc * bc) for _ in range(sr * br)]
        pat = []
        for i in range(sr):
            for k in range(sc):
                if rng.random() < dens:
                    pat.append([i, k])
                    for r in range(br):
                        for c in range(bc):
                            X[i * br + r][k * bc + c] = rng.randint(-3, 3) or 1
        return X, pat
    Ad, pa = dense(sm, sn, dm, dn)
    Bd, pb = dense(sn, sp, dn, dp)

    def lay(X, name, br, bc):
        t = torch.tensor(X, dtype=d).reshape(len(X), len(X[0]))
        return {"dense": lambda: t, "csr": t.to_sparse_csr, "csc": t.to_sparse_csc,
                "bsr": lambda: t.to_sparse_bsr((br, bc)), "bsc": lambda: t.to_sparse_bsc((br, bc))}[name]()
    l1, l2 = spec["pair"]
    # torch's own bsr @ dense kernel (MKL) rejects non-square blocks loudly; that path is not pypose code
    sup = (l1, l2) in SUPPORTED_PAIRS and not ((l1, l2) == ("bsr", "dense") and dm != dn)
    ev = {"act": "spmm", "pair": "%s_%s" % (l1, l2), "supported": sup, "A": Ad, "B": Bd,
          "bs": [dm, dn, dp], "pa": pa, "pb": pb, "model": False, "C": [], "fn": "_sparse_csr_mm"}
    try:
        res = _sparse_csr_mm(lay(Ad, l1, dm, dn), lay(Bd, l2, dn, dp))
        C = res.to_dense() if res.layout != torch.strided else res
    except BaseException as ex:   # `raise NotImplemented` surfaces as TypeError; all of it is "fails loudly"
        if isinstance(ex, (KeyboardInterrupt, SystemExit)):
            raise
        ev.update({"out": "raise", "msg": repr(ex)[:160]})
        return ev
    if not bool((C == C.round()).all()) or tuple(C.shape) != (sm * dm, sp * dp):
        ev.update({"out": "value", "C": [[CAP]], "msg": "non-integer entries or wrong shape %s" % (tuple(C.shape),)})
        return ev
    ev.update({"out": "value", "C": [[int(v) for v in r] for r in C.tolist()]})
    return ev


def sparse_part(ctx, table, traces):
    q = ctx.quick
    rng = ctx.rng
    for i, row in enumerate(table):
        reps = 1 if q else 2
        for rep in range(reps):
            bs = BLOCKS[(i + 3 * rep) % len(BLOCKS)]
            spec = {"fam": "merge", "row": row, "bs": list(bs), "seed": ctx.seed * 7919 + 2 * i + rep,
                    "dtype": "float64" if (i + rep) % 3 else "float32", "fn": "bsr_bsc_matmul" if (i + rep) % 2 else "_sparse_csr_mm",
                    "model": (not q) or i % 4 == 0}
            ev, Cx = ev_merge_row(spec)
            ctx.evaluations += 1
            # spec -> code: exact comparison with the product formed over the spec's visited list
            if ev["out"] == "raise" or ev["C"] != Cx:
                ctx.violation("sparse/bsr_bsc/%s" % ("raised" if ev["out"] == "raise" else "product_mismatch"),
                              "%s on block grid %dx%d . %dx%d, blocks %s: %s; expected (BsrMergeGen visited list) %s, got %s"
                              % (spec["fn"], row["sm"], row["sn"], row["sn"], row["sp"], bs, ev.get("msg", ""), Cx, ev["C"]),
                              {"spec": spec, "via": "table"})
            traces.append({"cfg": spec, "ev": [ev], "class": "bsr_bsc_%d%d%d" % (row["sm"], row["sn"], row["sp"])})
    layouts = ["csr", "csc", "bsr", "bsc", "dense"]
    pairs = [(a, b) for a in layouts for b in layouts if (a, b) != ("dense", "dense")]
    k = 0
    for pair in pairs:
        sup = pair in SUPPORTED_PAIRS
        for rep in range((8 if q else 40) if sup else 2):
            blocked = "bsr" in pair or "bsc" in pair
            bs = rng.choice(BLOCKS) if blocked else (1, 1, 1)
            grid = (rng.randint(1, 4), rng.randint(1, 4), rng.randint(1, 4)) if blocked else \
                (rng.randint(1, 8), rng.randint(1, 8), rng.randint(1, 8))
            spec = {"fam": "pair", "pair": list(pair), "bs": list(bs), "grid": list(grid), "seed": ctx.seed * 104729 + k,
                    "density": rng.choice([0.0, 0.15, 0.4, 0.7, 1.0]), "dtype": rng.choice(["float64", "float32"])}
            k += 1
            traces.append({"cfg": spec, "ev": [ev_pair(spec)], "class": "pair_%s_%s" % pair})


# ------------------------------------------------------------------------------------------ judging
EVENT_FN = {"chol": ev_chol, "cg": ev_cg, "big": ev_big, "pair": ev_pair}


def remake(spec):
    """Re-run the real call described by a trace's cfg (used by --replay and selftest)."""
    fam = spec["fam"]
    if fam == "ls":
        return ev_ls_group(spec["rows"], spec["dtype"], spec.get("driver"), spec.get("aexp", 0), spec.get("bexp", 0))[0]
    if fam == "merge":
        return ev_merge_row(spec)[0]
    return EVENT_FN[fam](spec)


def key_of(tr, clause):
    c, e = tr["cfg"], tr["ev"][0]
    fam = c["fam"]
    if fam == "cg" and (c.get("aexp") or c.get("bexp")):
        return "cg/%s/%s/%s_scaled" % (clause, c["layout"], c["mode"])
    if fam == "chol":
        return "cholesky/%s/%s" % (clause, tr.get("class", "?"))
    if fam == "ls":
        r = c["rows"][0]
        m, n = len(r["A"]), len(r["A"][0])
        return "%s/%s" % (clause.replace("pinv_", "pinv/").replace("lstsq_", "lstsq/"),
                          "fullrank" if r["rank"] == min(m, n) else "rankdef")
    if fam == "cg":
        return "cg/%s/%s/%s" % (clause, c["layout"], c["mode"])
    if fam == "big":
        return "big/%s/%s/%s" % (c["solver"], clause, c["kind"])
    return "sparse/%s/%s" % (e["pair"], clause)


def judge(ctx, traces, verdicts):
    unjudged = 0
    for tr, v in zip(traces, verdicts):
        c, e = tr["cfg"], tr["ev"][0]
        if tr.get("class") == "tie" or (e["act"] == "spmm" and e["out"] == "raise" and not e["supported"]):
            unjudged += 1
        else:
            ident = {k: c[k] for k in c if k not in ("xs", "row", "rows")}
            if "rows" in c:
                ident["A"] = c["rows"][0]["A"]
            if "row" in c:
                ident["pat"] = [c["row"]["crow"], c["row"]["col"], c["row"]["ccol"], c["row"]["row"]]
            ctx.cover(json.dumps(ident, sort_keys=True))
        if v == "ok":
            continue
        clause, at = v.split("@")
        if clause.startswith("machinery_") or clause == "unknown_event":
            raise MachineryError("trace spec reports %s for %s / %s" % (clause, json.dumps(c)[:400], json.dumps(e)[:400]))
        short = {k: e[k] for k in e if k not in ("xs",)}
        ctx.violation(key_of(tr, clause), "real call rejected by the trace spec, clause %s: cfg=%s event=%s"
                      % (clause, json.dumps({k: c[k] for k in c if k not in ("xs", "row", "rows")})[:300], json.dumps(short)[:500]),
                      {"spec": c, "class": tr.get("class"), "verdict": v, "event": e})
    ctx.extra["events_recorded_not_judged"] = unjudged


def validate_all(ctx, traces):
    sol = [t for t in traces if t["ev"][0]["act"] != "spmm"]
    spm = [t for t in traces if t["ev"][0]["act"] == "spmm"]
    def strip(ts):
        return [{"cfg": {"n": len(t["ev"])}, "ev": [dict(e, i=k + 1) for k, e in enumerate(t["ev"])]} for t in ts]
    if sol:
        judge(ctx, sol, ctx.validate("SolversTrace", "SolversTrace.cfg", strip(sol), "solvers", chunk=4000))
    if spm:
        judge(ctx, spm, ctx.validate("BsrMergeTrace", "BsrMergeTrace.cfg", strip(spm), "spmm", chunk=4000))


# ------------------------------------------------------------------------------------------ entry points
def design_runs(ctx):
    q = ctx.quick
    w = int(os.environ.get("VERIF_WORKERS", "8"))
    ctx.tlc("Solvers", "Solvers_sym_q.cfg" if q else "Solvers_sym_t.cfg", workers=w, coverage=q,
            need_actions=["Build", "Pose"] if q else ())
    ctx.tlc("Solvers", "Solvers_ls_q.cfg" if q else "Solvers_ls_t.cfg", workers=w)
    ctx.tlc("Solvers", "Solvers_cg_q.cfg", workers=w, coverage=q,
            need_actions=["Build", "Pose", "Start", "Check", "Iterate"] if q else ())
    ctx.tlc("Solvers", "Solvers_cg_q2.cfg", workers=w)
    ctx.tlc("Solvers", "Solvers_cg_live.cfg", workers=4)
    ctx.tlc("BsrMerge", "BsrMerge_q.cfg", workers=w, coverage=q,
            need_actions=["RowLoop", "ColLoop", "K1Loop", "Advance", "Match", "EndCol"] if q else ())
    ctx.tlc("BsrMerge", "BsrMerge_live.cfg", workers=4)
    if not q:
        ctx.tlc("Solvers", "Solvers_cg_t.cfg", workers=w)
        ctx.tlc("Solvers", "Solvers_cg_t3.cfg", workers=w)
        ctx.tlc("BsrMerge", "BsrMerge_q2.cfg", workers=w)
        ctx.tlc("BsrMerge", "BsrMerge_t24.cfg", workers=w)
        ctx.tlc("BsrMerge", "BsrMerge_t33.cfg", workers=w, heap="12g")
    for r in ctx.tlc_runs:
        if r["violated"]:
            ctx.violation("design/%s/%s" % (r["module"], r["violated"][0]),
                          "%s design model (%s) violates %s" % (r["module"], r["cfg"], r["violated"]))


def tables(ctx):
    q = ctx.quick
    base = ctx.work / "gen"
    ctx.tlc("SolversGen", "SolversGen_q.cfg" if q else "SolversGen_t.cfg", env={"OUT_FILE": base}, workers=1)
    out = ctx.work / "merge.json"
    ctx.tlc("BsrMergeGen", "BsrMergeGen_q.cfg" if q else "BsrMergeGen_t.cfg", env={"OUT_FILE": out}, workers=1)
    load = lambda p: json.loads(open(p).read())["rows"]
    sym, ls, cg = load(str(base) + ".sym.json"), load(str(base) + ".ls.json"), load(str(base) + ".cg.json")
    merge = load(out)
    key = lambda r: json.dumps(r, sort_keys=True)
    for t in (sym, ls, cg, merge):       # TLC's set order is not part of the contract
        t.sort(key=key)
    ctx.extra["generated_rows"] = {"sym": len(sym), "ls": len(ls), "cg": len(cg), "merge": len(merge)}
    return sym, ls, cg, merge


def run(ctx):
    ctx.rule = [
        "TLC design: Cholesky PD/raise classification = definition of positive definiteness and adj(A)b/det(A) solves, on every "
        "symmetric matrix of order<=3 entries -2..2; pinv(A)b (Decell) satisfies the normal equations and is orthogonal to the "
        "null space on every m x n matrix m,n<=3 entries -1..1 (all ranks); exact-rational CG with the code's stopping rule, "
        "guess, preconditioner and b=0 shortcut terminates within n updates with zero residual and meets tol on every SPD "
        "instance; the merge-join of bsr_bsc_matmul visits exactly the needed block pairs and k2 stays in its column slice for "
        "every pattern pair on the enumerated block grids",
        "conformance: every row TLC tabulated (SolversGen/BsrMergeGen) is run through the real Cholesky/PINV/LSTSQ/CG/"
        "bsr_bsc_matmul and compared in integer arithmetic; every recorded call (raw integer inputs, integer ulp distances) is "
        "judged by TLC (SolversTrace/BsrMergeTrace); orders 4..40 and condition numbers to 1e8 are sampled with exact rational "
        "references; a case is distinct by (family, solver/layout/dtype/variant, input matrix or seed)"]
    ctx.assumptions = [
        "symmetric matrices whose first non-positive Cholesky pivot is an exact zero reached through inexact square roots are "
        "rounding ties (class Tie): recorded, not judged",
        "layout pairs outside {bsr x bsc, bsr x dense, csr/csc x csr/csc/dense} may fail loudly; a returned value is always judged",
        "CG is judged on |b - A x| <= tol |b| (1/64 slack), iteration counts only through maxiter = exact-CG count; float32 CG "
        "is run with tol 1e-3",
        "orders 4..40: errors are measured against exact rational solutions by the harness and compared by TLC with "
        "64 n eps * amplification (condition number, squared for least squares)"]
    design_runs(ctx)
    if ctx.replay:
        case = json.load(open(ctx.replay))["case"]
        spec = case["spec"]
        tr = {"cfg": spec, "ev": [remake(spec)], "class": case.get("class") or
              (chol_kind(spec["As"][0]) if spec["fam"] == "chol" and len(spec["As"]) == 1 else "replay")}
        print("replayed event:", json.dumps(tr["ev"][0])[:600])
        validate_all(ctx, [tr])
        return
    sym, ls, cg, merge = tables(ctx)
    traces = []
    cholesky_part(ctx, sym, traces)
    ls_part(ctx, ls, traces)
    cg_part(ctx, cg, traces)
    big_part(ctx, traces)
    sparse_part(ctx, merge, traces)
    for fam in ("chol", "ls", "cg", "big", "merge", "pair"):
        ex = next((t for t in traces if t["cfg"]["fam"] == fam and (fam != "chol" or t.get("class") == "negative_pivot")), None)
        if ex:
            e = ex["ev"][0]
            ctx.sample({"family": fam, "event": e if len(json.dumps(e)) < 1500 else
                        {k: v for k, v in e.items() if k in ("act", "out", "pair", "solver", "kind", "n", "err", "amp", "rel_e9")}})
    ctx.extra["traces_by_family"] = {f: sum(1 for t in traces if t["cfg"]["fam"] == f) for f in
                                     ("chol", "ls", "cg", "big", "merge", "pair")}
    validate_all(ctx, traces)


def selftest(ctx):
    """Binding demonstration: a corrupted field and a deleted event must both be rejected."""
    pd = {"fam": "chol", "dtype": "float64", "upper": False, "As": [[[2, 1], [1, 2]]], "bs": [[1, 1]],
          "xs": [[[1, 3], [1, 3]]]}
    e1 = ev_chol(pd)
    cgs = {"fam": "cg", "dtype": "float64", "layout": "dense", "mlayout": "dense", "mode": "default",
           "A": [[2, 1], [1, 2]], "b": [1, 0], "x0": [], "M": [], "iters": 2}
    e2 = ev_cg(cgs)
    good = {"cfg": {"n": 2}, "ev": [dict(e1, i=1), dict(e2, i=2)]}
    bad1 = json.loads(json.dumps(good))
    bad1["ev"][0]["ulps"][0][1] = 5000           # corrupted field: solution 5000 ulps off
    bad2 = json.loads(json.dumps(good))
    bad2["ev"][1]["rel_e9"] = 20000              # corrupted field: residual twice the tolerance
    bad3 = json.loads(json.dumps(good))
    del bad3["ev"][0]                             # deleted event
    bad4 = json.loads(json.dumps(good))
    del bad4["ev"][1]                             # deleted last event
    v = ctx.validate("SolversTrace", "SolversTrace.cfg", [good, bad1, bad2, bad3, bad4], "selftest")
    print("selftest solver verdicts:", v)
    assert v[0] == "ok" and v[1].startswith("solution_ulps@1") and v[2].startswith("residual_above_tol@2"), v
    assert v[3].startswith("event_sequence") and v[4].startswith("event_sequence"), v
    row = {"sm": 1, "sn": 2, "sp": 1, "crow": [0, 2], "col": [0, 1], "ccol": [0, 2], "row": [0, 1],
           "src": [{"i": 0, "j": 0, "k1": 0, "k2": 0, "idx": 0}, {"i": 0, "j": 0, "k1": 1, "k2": 1, "idx": 0}], "coo": [[0, 0]]}
    ms = {"fam": "merge", "row": row, "bs": [2, 2, 2], "seed": 5, "dtype": "float64", "fn": "bsr_bsc_matmul", "model": True}
    e3, _ = ev_merge_row(ms)
    g2 = {"cfg": {"n": 2}, "ev": [dict(e3, i=1), dict(e3, i=2)]}
    b4 = json.loads(json.dumps(g2))
    b4["ev"][1]["C"][0][0] += 1                    # corrupted field: one product entry
    b5 = json.loads(json.dumps(g2))
    del b5["ev"][0]                                # deleted event
    b6 = json.loads(json.dumps(g2))
    b6["ev"][0]["pa"] = b6["ev"][0]["pa"][:1]      # stored pattern no longer explains the product (model link)
    v2 = ctx.validate("BsrMergeTrace", "BsrMergeTrace.cfg", [g2, b4, b5, b6], "selftest2")
    print("selftest sparse verdicts:", v2)
    assert v2[0] == "ok" and v2[1].startswith("product_mismatch@2") and v2[2].startswith("event_sequence"), v2
    assert v2[3].startswith("machinery_model"), v2
    return 0
