"""C08 — LM accept/reject loop, restore, loss bookkeeping, strategy transitions (Mode S).

Design spec: spec/LMStep.tla (+ LMStep_q/_t/_live/_alt_reject_le/_mut_*.cfg); trace spec: LMStepTrace.tla;
spec->code table: LMStepGen.tla.

The real LevenbergMarquardt / GaussNewton optimizers are observed only through public extension points:
a user `solver` (nn.Module taking A, b), a user `strategy` object wrapping the real strategy, the model
parameters, optimizer.param_groups, the return value of step() and optimizer.loss/.last/.reject_count
after the call.
"""
import contextlib
import io
import itertools
import json
import math
from fractions import Fraction

from vlib.core import MachineryError, pypose

SENT = 999999999          # "not an exact small integer / power of two"
CAP = 10 ** 9
EPS = 2.0 ** -52
PB = 14                   # box of integer parameters (TLC integers are 32 bit)
LIM = 1 << 26             # bound on |actual|, |predicted| decrease on the integer models
QUALS = {"V": "Very", "S": "Successful", "U": "Unsuccessful"}
OUTS = {"B": "Better", "E": "Equal", "W": "Worse"}

HYPERS = {
    "quick": [dict(u=1, w0=1, f=1, minE=-3, maxE=2, d0=-1)],
    "thorough": [dict(u=1, w0=1, f=1, minE=-3, maxE=2, d0=-1),
                 dict(u=2, w0=1, f=2, minE=-4, maxE=3, d0=-6),
                 dict(u=1, w0=2, f=1, minE=-2, maxE=5, d0=4)],
}
THRESH = [([1, 1], [1, 3]), ([3, 2], [1, 2]), ([1, 1], [1, 5])]     # (high, low) as [m, e] = m / 2^e
EXACT_MODELS = [dict(name="himmel", a=11, b=7), dict(name="rosen", a=1, b=2),
                dict(name="himmel", a=5, b=3), dict(name="rosen", a=2, b=1)]


# ------------------------------------------------------------------ integer reference (stimulus search only)
def ref_res(m, p):
    x, y = p
    if m["name"] == "rosen":
        return (m["a"] - x, m["b"] * (y - x * x))
    return (x * x + y - m["a"], x + y * y - m["b"])


def ref_jacd(m, p, D):
    x, y = p
    if m["name"] == "rosen":
        return (-D[0], m["b"] * (D[1] - 2 * x * D[0]))
    return (2 * x * D[0] + D[1], D[0] + 2 * y * D[1])


def ref_loss(m, p):
    r = ref_res(m, p)
    return r[0] ** 2 + r[1] ** 2


def ref_pred(m, p, D):
    jd, r = ref_jacd(m, p, D), ref_res(m, p)
    return -(jd[0] * (2 * r[0] + jd[0]) + jd[1] * (2 * r[1] + jd[1]))


def ref_class(num, den, hi, lo):
    if den == 0:
        return "U" if num == 0 else None
    q = Fraction(num, den)
    return "V" if q > hi else ("S" if q > lo else "U")


_tables = {}


def step_table(m, p, hi, lo):
    """All integer steps D from p, keyed by (outcome, quality class) -> [(new loss, D)]."""
    key = (m["name"], m["a"], m["b"], tuple(p), tuple(hi), tuple(lo))
    if key in _tables:
        return _tables[key]
    fhi, flo = Fraction(hi[0], 1 << hi[1]), Fraction(lo[0], 1 << lo[1])
    t = {}
    L = ref_loss(m, p)
    for D in itertools.product(range(-PB, PB + 1), repeat=2):
        q = (p[0] + D[0], p[1] + D[1])
        if max(abs(q[0]), abs(q[1])) > PB:
            continue
        Lq = ref_loss(m, q)
        num, den = L - Lq, ref_pred(m, p, D)
        if abs(num) >= LIM or abs(den) >= LIM or Lq >= LIM:
            continue
        k = ref_class(num, den, fhi, flo)
        if k is None:
            continue
        o = "B" if num > 0 else ("E" if num == 0 else "W")
        t.setdefault((o, k), []).append((Lq, D))
    for k in t:
        # Better: keep the loss large (long runs); Worse / Equal: keep it small
        t[k].sort(key=lambda v: (-v[0] if k[0] == "B" else v[0], v[1]))
    if len(_tables) > 20000:
        _tables.clear()
    _tables[key] = t
    return t


def full_table(m, p, hi, lo):
    t = step_table(m, p, hi, lo)
    return all((o, k) in t for o in "BW" for k in "VSU") and ("E", "U") in t


def good_starts(m, hi, lo, rng, n):
    out = []
    tries = 0
    while len(out) < n and tries < 4000:
        tries += 1
        p = (rng.randint(-9, 9), rng.randint(-9, 9))
        if ref_loss(m, p) > 0 and full_table(m, p, hi, lo):
            out.append(p)
    if not out:
        raise MachineryError("no start point with all (outcome, class) cells for %s" % m)
    return out


# ------------------------------------------------------------------ numbers
def expo(x):
    """exponent of an exact power of two, SENT otherwise"""
    try:
        x = float(x)
    except Exception:
        return SENT
    if not (x > 0) or math.isinf(x):
        return SENT
    m, e = math.frexp(x)
    return e - 1 if m == 0.5 and abs(e) < 2000 else SENT


def iv(x):
    """small exact integer carried by a float / tensor, SENT otherwise"""
    try:
        x = float(x)
    except Exception:
        return SENT
    if math.isfinite(x) and x == int(x) and abs(x) < (1 << 30):
        return int(x)
    return SENT


def rel_units(a, b):
    """|a - b| in units of 2^-52 * max(|a|, |b|), integer, capped"""
    if a == b:
        return 0
    if not (math.isfinite(a) and math.isfinite(b)):
        return CAP
    if max(abs(a), abs(b)) < 1e-290:          # both at the bottom of the floating-point range: indistinguishable losses
        return 0
    u = abs(a - b) / (EPS * max(abs(a), abs(b)))
    return int(min(CAP, math.ceil(u)))


# ------------------------------------------------------------------ the observing session
class Session:
    """One real optimizer (LM or GN) with logging solver / strategy wrappers."""

    def __init__(self, cfg, model, inp, tgt=None, kernel=None, inner=None, lm_kw=None):
        import torch
        pp = pypose()
        self.torch, self.pp = torch, pp
        self.cfg, self.model, self.inp, self.tgt, self.kernel = cfg, model, inp, tgt, kernel
        self.exact = cfg["kind"] == "exact"
        self.ev = []
        self.script = []
        self.unreal = False          # a scripted choice had no integer realisation here
        self.extra = 0               # solves beyond the script (answered with a zero step)
        self.nonfinite = False
        self.solves = 0
        self.inner = inner
        self.tolR = cfg.get("tolR", 0)
        self.maxunits = {"eb": 0, "et": 0, "ed": 0, "lerr": 0, "rerr": 0}
        sess = self
        h = cfg["h"]
        hi, lo = cfg["hi"], cfg["lo"]
        fhi, flo = hi[0] / 2.0 ** hi[1], lo[0] / 2.0 ** lo[1]
        self.fhi, self.flo = fhi, flo

        class Solver(torch.nn.Module):
            def forward(self, A, b):
                return sess.on_solve(A, b)

        self.snap_trial = None
        self.prev = []
        if cfg["algo"] == "GN":
            self.opt = pp.optim.GN(model, solver=Solver(), kernel=kernel)
            self.pg = self.opt.param_groups[0]
            self.snap_base = self.snapshot()
            return

        def observed(base):
            class Observed(base):
                """user strategy: the real strategy, observed after its update"""

                def update(self, pg, last, loss, J, D, R, *a, **k):
                    super().update(pg, last=last, loss=loss, J=J, D=D, R=R)
                    sess.on_strategy(pg, last, loss, J, D, R)
            return Observed

        st = pp.optim.strategy
        if cfg["strat"] == "Constant":
            real = observed(st.Constant)(damping=2.0 ** h["d0"])
        elif cfg["strat"] == "Adaptive":
            real = observed(st.Adaptive)(damping=2.0 ** h["d0"], high=fhi, low=flo, up=2.0 ** h["u"],
                                         down=2.0 ** -h["w0"], min=2.0 ** h["minE"], max=2.0 ** h["maxE"])
        else:
            real = observed(st.TrustRegion)(radius=2.0 ** -h["d0"], high=fhi, low=flo, up=2.0 ** h["u"],
                                            down=2.0 ** -h["w0"], factor=2.0 ** -h["f"],
                                            min=2.0 ** h["minE"], max=2.0 ** h["maxE"])
        kw = dict(reject=cfg["reject"], min=2.0 ** -30, max=2.0 ** 60)
        kw.update(lm_kw or {})
        self.opt = pp.optim.LM(model, solver=Solver(), strategy=real, kernel=kernel, **kw)
        self.pg = self.opt.param_groups[0]
        self.snap_base = self.snapshot()

    # ---- parameters
    def plist(self):
        return [p for p in self.model.parameters()]

    def snapshot(self):
        return [p.detach().clone() for p in self.plist()]

    def pint(self):
        v = [iv(x) for p in self.plist() for x in p.detach().reshape(-1).tolist()]
        return v[:2] if len(v) >= 2 else [SENT, SENT]

    def punits(self, snap, scale_with=None):
        """distance of the current parameters to a snapshot in units of eps * magnitude of the
        points involved in the add / subtract (the round-off of the retraction)"""
        if snap is None:
            return CAP
        worst = 0.0
        for i, (p, q) in enumerate(zip(self.plist(), snap)):
            a, b = p.detach().reshape(-1).double(), q.reshape(-1).double()
            if not bool(self.torch.isfinite(a).all()):
                return CAP
            sc = max(float(a.abs().max()), float(b.abs().max()), 2.0 ** -60)
            if scale_with is not None:
                sc = max(sc, float(scale_with[i].reshape(-1).double().abs().max()))
            worst = max(worst, float((a - b).abs().max()) / (EPS * sc))
        return int(min(CAP, math.ceil(worst)))

    # ---- the harness' own loss: residuals from the user's model, robust sum in exact-rounded python
    def lref(self, snap=None):
        t = self.torch
        with t.no_grad():
            keep = None
            if snap is not None:
                keep = self.snapshot()
                for p, q in zip(self.plist(), snap):
                    p.data.copy_(q)
            out = self.model(self.inp)
            # (the output may alias a parameter: take the values before the parameters are put back)
            out = [o.clone() for o in out] if isinstance(out, (tuple, list)) else out.clone()
            if keep is not None:
                for p, q in zip(self.plist(), keep):
                    p.data.copy_(q)
        outs = list(out) if isinstance(out, (tuple, list)) else [out]       # a model may return several residual tensors
        tgts = list(self.tgt) if isinstance(self.tgt, (tuple, list)) else [self.tgt] * len(outs)
        rows = []
        for o, tg in zip(outs, tgts):
            if hasattr(o, "tensor"):
                o = o.tensor()
            r = o if tg is None else o - tg
            rows += r.detach().double().reshape(-1, r.shape[-1]).tolist()
        tot = []
        for row in rows:
            x = math.fsum(v * v for v in row)
            if self.kernel is not None:       # Huber: x if sqrt(x) < delta else 2 delta sqrt(x) - delta^2
                dl = self.cfg["huber"]
                x = x if math.sqrt(x) < dl else 2 * dl * math.sqrt(x) - dl * dl
            tot.append(x)
        return math.fsum(tot)

    def loss_err(self, value, extra_refs=()):
        """relative distance (units of 2^-52) of a loss value held by the code to the harness' loss at the
        current parameters or at a recorded point within retraction round-off of them"""
        value = float(value)
        best = rel_units(value, self.lref())
        for snap in self.near_points():
            if best == 0:
                break
            best = min(best, rel_units(value, self.lref(snap)))
        return best

    def near_points(self):
        """recorded points (entry / trial points of this and earlier calls) that the current parameters equal up
        to the accumulated round-off of the rejected trials made since (16 units per solve of the run)"""
        tol = 16 * (self.solves + 2)
        return [s for s in [self.snap_base, self.snap_trial] + list(self.prev)
                if s is not None and self.punits(s) <= tol]

    # ---- event records (every event carries every field)
    def newev(self, act, **kw):
        e = dict(act=act, ok=True, p=[0, 0], D=[0, 0], lk=0, lastk=0, lossk=0, ret=0, rej=0,
                 d=0, r=0, w=0, lerr=0, rerr=0, eb=0, et=0, ed=0, qhi=False, qlo=False, qj=True)
        e.update(kw)
        return e

    def strat_state(self):
        h = self.cfg["h"]
        d = expo(self.pg.get("damping", 0))
        r = expo(self.pg["radius"]) if "radius" in self.pg else (-d if d != SENT else SENT)
        w = expo(self.pg["down"]) if "down" in self.pg else -h["w0"]
        return d, r, (-w if w != SENT else SENT)

    def val(self, x):
        """loss value for the log: exact integer (exact runs) or the raw float (ranked later)"""
        if self.exact:
            return iv(x)
        x = float(x)
        if not math.isfinite(x):
            self.nonfinite = True
        return ("f", x)

    # ---- callbacks
    def on_solve(self, A, b):
        t = self.torch
        self.solves += 1
        trial = self.script.pop(0) if self.script else None
        if trial is None:
            self.extra += 1
            trial = {"zero": True}
        d, r, w = self.strat_state() if self.cfg["algo"] == "LM" else (0, 0, 0)
        e = self.newev("solve", d=d, r=r, w=w)
        self.snap_solve = self.snapshot()
        if self.exact:
            base = self.pint()
            e["p"] = base
            D = None
            if trial.get("zero"):
                D = [0, 0]
            elif "D" in trial:
                D = list(trial["D"])
            elif trial.get("ok", True):
                tab = step_table(self.cfg["model"], base, self.cfg["hi"], self.cfg["lo"]) \
                    if SENT not in base and max(abs(v) for v in base) <= PB else {}
                cands = tab.get((trial["o"][0], trial["q"][0]))
                if cands:
                    D = list(cands[min(len(cands) - 1, trial.get("pick", 0))][1])
                else:
                    self.unreal = True
                    D = [0, 0]
            if D is None:
                e["ok"] = False
                self.ev.append(e)
                raise RuntimeError("scripted solver failure")
            e["D"] = D
            self.ev.append(e)
            self.lastD = D
            return t.tensor([float(v) for v in D], dtype=A.dtype).view(-1, 1)
        # float runs: the real solver, possibly poisoned
        self.last_b = b.detach().clone()          # b = -J^T R at the base point, as the solver saw it
        e["eb"] = self.punits(self.snap_base, getattr(self, "scale_trial", None))
        self.maxunits["eb"] = max(self.maxunits["eb"], e["eb"])
        self.maxunits["eb_pct_of_tol"] = max(self.maxunits.get("eb_pct_of_tol", 0), int(100 * e["eb"] / max(1, self.tolR)))
        mode = trial.get("mode", "true")
        if mode == "raise":
            e["ok"] = False
            self.ev.append(e)
            raise RuntimeError("scripted solver failure")
        try:
            D = self.inner(A=A, b=b)
            if not bool(t.isfinite(D).all()):
                raise RuntimeError("real solver returned a non-finite step")     # a solver may refuse
        except Exception:
            e["ok"] = False        # the real solver itself raised (e.g. singular / indefinite system)
            self.genuine_raises = getattr(self, "genuine_raises", 0) + 1
            self.ev.append(e)
            raise
        if mode == "poison":
            D = -4.0 * D
        elif mode == "over":
            D = 2.0 * D
        elif mode == "tiny":
            D = D * 2.0 ** -30
        elif mode == "zero" or trial.get("zero"):
            D = t.zeros_like(D)
        self.ev.append(e)
        self.lastDt = D.detach().clone()
        return D

    def expected_trial_units(self):
        """float runs: distance of the current parameters to (parameters at solve) (+) D"""
        t, pp = self.torch, self.pp
        ps = self.plist()
        D = self.lastDt.reshape(-1)
        exp_, k = [], 0
        for p, q in zip(ps, self.snap_solve):
            if isinstance(p, pp.LieTensor):
                # D carries one slot per stored component; the retraction uses the first manifold-dim ones
                n = int(p.ltype.manifold[0])
                dd = D[k:k + p.numel()].view(p.shape)[..., :n]
                k += p.numel()
                x = pp.LieTensor(q.clone(), ltype=p.ltype)
                x = pp.LieTensor(dd, ltype=_algebra(pp, p.ltype)).Exp() * x
                exp_.append(x.tensor())
            else:
                dd = D[k:k + p.numel()].view(p.shape)
                k += p.numel()
                exp_.append(q + dd)
        # magnitude of the largest trial point of this call (round-off of + D - D is relative to it)
        prev = self.scale_trial
        self.scale_trial = [x.detach().abs().clone() if prev is None else self.torch.maximum(prev[i], x.detach().abs())
                            for i, x in enumerate(exp_)]
        self.exp_point = [x.detach().clone() for x in exp_]
        return self.punits(exp_)

    def on_strategy(self, pg, last, loss, J, D, R):
        t = self.torch
        d, r, w = self.strat_state()
        e = self.newev("strategy", d=d, r=r, w=w, lastk=self.val(last), lossk=self.val(loss))
        if getattr(self, "first_last", None) is None:
            self.first_last = self.val(last)
        if self.exact:
            e["p"] = self.pint()
        else:
            e["ed"] = self.expected_trial_units()
            # (an implementation may already have put a rejected trial back when it consults the strategy: the distance to
            #  the base point is logged too, and the trial loss is compared with the loss AT the trial point base (+) D)
            e["eb"] = self.punits(self.snap_base, self.scale_trial)
            e["lerr"] = min(self.loss_err(loss), rel_units(float(loss), self.lref(self.exp_point)))
            self.maxunits["ed"] = max(self.maxunits["ed"], min(e["ed"], e["eb"]))
            self.maxunits["lerr"] = max(self.maxunits["lerr"], e["lerr"])
            # the documented ratio, recomputed from what the strategy was given (logged as data)
            num = float(last) - float(loss)
            JD = J @ D
            den = float(-(JD.mT @ (2 * R + JD)).squeeze())
            # the same predicted decrease from the right-hand side the SOLVER was given at the base point
            # (-(JD)^T (2R + JD) = 2 D^T b - |JD|^2 with b = -J^T R): independent of whether the residual tensor handed to
            # the strategy still holds the base-point values after the parameter update
            lb = getattr(self, "last_b", None)
            if lb is not None and lb.numel() == D.numel():
                den = float(2 * (D.reshape(-1) @ lb.reshape(-1).to(D.dtype)) - (JD.reshape(-1) @ JD.reshape(-1)))
            if den == 0 or not math.isfinite(den) or not math.isfinite(num):
                e["qj"] = (den == 0 and num == 0)
            else:
                q = num / den
                e["qhi"], e["qlo"] = q > self.fhi, q > self.flo
                e["qj"] = all(abs(q - th) > 1e-6 * max(1.0, abs(q)) for th in (self.fhi, self.flo))
        self.snap_trial = self.snapshot()
        self.ev.append(e)

    # ---- one step() call
    def call(self, script):
        self.script = list(script)
        self.first_last = None
        self.prev = [s for s in [self.snap_base, self.snap_trial] + list(self.prev) if s is not None]
        self.snap_base = self.snapshot()
        self.snap_trial = None
        self.scale_trial = None
        seen, keep = set(), []
        for s in self.near_points():           # distinct points only; newest first
            k = tuple(x.numpy().tobytes() for x in s)
            if k not in seen:
                seen.add(k)
                keep.append(s)
        self.prev = keep[:6] + keep[6:][-6:]
        ce = self.newev("call")
        if self.exact:
            ce["p"] = self.pint()
        else:
            refs = [self.lref()] + [self.lref(s) for s in self.prev]
        self.ev.append(ce)
        raised = None
        with contextlib.redirect_stdout(io.StringIO()):
            try:
                ret = self.opt.step(self.inp, self.tgt)
            except Exception as ex:
                if "scripted solver failure" in str(ex):
                    raised = ex
                elif not self.exact and ("Nan" in str(ex) or "nan" in str(ex) or "inf" in str(ex)):
                    self.nonfinite = True      # the run left the finite numbers: not judged
                    self.ev.pop()
                    return None
                else:
                    raise
        o = self.opt
        if raised is not None:          # GN: the exception leaves step()
            ce["lk"] = ref_loss(self.cfg["model"], ce["p"]) if self.exact else ("f", refs[0])
            re_ = self.newev("raised")
            if self.exact:
                re_["p"] = self.pint()
            self.ev.append(re_)
            return None
        first = self.first_last if self.first_last is not None else self.val(o.last)
        ce["lk"] = first
        d, r, w = self.strat_state() if self.cfg["algo"] == "LM" else (0, 0, 0)
        e = self.newev("return", ret=self.val(ret), lk=self.val(o.loss), lastk=self.val(o.last),
                       rej=int(getattr(o, "reject_count", 0)), d=d, r=r, w=w)
        if self.exact:
            e["p"] = self.pint()
        else:
            ce["lerr"] = min(rel_units(first[1], v) for v in refs)
            e["eb"] = self.punits(self.snap_base, self.scale_trial)
            e["et"] = self.punits(self.snap_trial)
            if self.cfg["algo"] == "GN":
                e["ed"] = self.expected_trial_units()
                self.snap_trial = self.snapshot()
            e["rerr"] = self.loss_err(ret)
            self.maxunits["rerr"] = max(self.maxunits["rerr"], e["rerr"])
            self.maxunits["lerr"] = max(self.maxunits["lerr"], ce["lerr"])
            if self.cfg["algo"] == "LM":
                self.maxunits["eb"] = max(self.maxunits["eb"], min(e["eb"], e["et"]))
            else:
                self.maxunits["ed"] = max(self.maxunits["ed"], e["ed"])
        self.ev.append(e)
        return ret

    def trace(self, what, **kw):
        ev = self.ev
        if not self.exact:          # losses -> order preserving ranks
            vals = sorted({v[1] for e in ev for k in ("lk", "lastk", "lossk", "ret")
                           for v in [e[k]] if isinstance(v, tuple)})
            rank = {v: i + 1 for i, v in enumerate(vals)}
            ev = [{k: (rank[v[1]] if isinstance(v, tuple) else v) for k, v in e.items()} for e in ev]
        tr = {"cfg": self.cfg, "ev": ev, "what": what}
        tr.update(kw)
        return tr


def _algebra(pp, ltype):
    return {pp.SE3_type: pp.se3_type, pp.SO3_type: pp.so3_type, pp.Sim3_type: pp.sim3_type,
            pp.RxSO3_type: pp.rxso3_type}[ltype]


# ------------------------------------------------------------------ models
def exact_model(m, p0):
    import torch
    name, a, b = m["name"], m["a"], m["b"]

    class Poly(torch.nn.Module):
        def __init__(self):
            super().__init__()
            self.p = torch.nn.Parameter(torch.tensor([float(p0[0]), float(p0[1])], dtype=torch.float64))

        def forward(self, inp):
            x, y = self.p[0], self.p[1]
            if name == "rosen":
                r = torch.stack([a - x, b * (y - x * x)])
            else:
                r = torch.stack([x * x + y - a, x + y * y - b])
            return r.unsqueeze(-1)

    return Poly()


def float_model(kind, rng, seed, ms=None):
    """(model, input, target, description, ms) of a residual model started far from the solution;
    ms = the drawn numbers (so that a recorded case can be rebuilt)"""
    import torch
    pp = pypose()
    f64 = torch.float64
    if ms is None:
        ms = {"rosen": lambda: dict(x0=[rng.choice([-1, 1]) * rng.uniform(1.2, 40),
                                        rng.choice([-1, 1]) * rng.uniform(1, 60)], k=rng.choice([10.0, 100.0, 3.0])),
              "sat": lambda: dict(w0=[rng.uniform(3, 12) * rng.choice([-1, 1]), rng.uniform(-6, 6)]),
              "expfit": lambda: dict(w0=[rng.uniform(0.1, 8), rng.uniform(-3, 3)]),
              "himmelf": lambda: dict(x0=[rng.uniform(-9, 9), rng.uniform(-9, 9)]),
              "multi": lambda: dict(x0=[rng.uniform(-6, 6), rng.uniform(-6, 6)]),
              "prior": lambda: dict(x0=[rng.uniform(-9, 9) for _ in range(3)], view=rng.random() < 0.5),
              "pose": lambda: dict(sig=rng.choice([0.5, 2.0]), seed=seed)}[kind]()
    if kind == "multi":
        # two residual outputs of different size, one (default / shared) kernel for both
        x0 = ms["x0"]

        class Multi(torch.nn.Module):
            def __init__(self):
                super().__init__()
                self.p = torch.nn.Parameter(torch.tensor(x0, dtype=f64))

            def forward(self, inp):
                x, y = self.p[0], self.p[1]
                return torch.stack([x * x + y - 11, x + y * y - 7]).unsqueeze(-1), \
                    torch.stack([3 * (x - y), x * y - 2, x + 2 * y]).view(1, 3)

        return Multi(), torch.zeros(1, dtype=f64), None, "two residual outputs from %s" % x0, ms
    if kind == "prior":
        # min |x|^2: the model output IS the parameter (or a view of it) - a residual tensor kept by the optimizer across the
        # parameter update must not alias it
        x0, view = ms["x0"], ms["view"]

        class Prior(torch.nn.Module):
            def __init__(self):
                super().__init__()
                self.x = torch.nn.Parameter(torch.tensor(x0, dtype=f64))

            def forward(self, inp):
                return self.x.view(-1, 1) if view else self.x

        return Prior(), torch.zeros(1, dtype=f64), None, "prior |x|^2 from %s (%s)" % (x0, "view" if view else "parameter"), ms
    if kind == "rosen":
        x0, k = ms["x0"], ms["k"]

        class Rosen(torch.nn.Module):
            def __init__(self):
                super().__init__()
                self.p = torch.nn.Parameter(torch.tensor(x0, dtype=f64))

            def forward(self, inp):
                x, y = self.p[0], self.p[1]
                return torch.stack([1 - x, k * (y - x * x)]).unsqueeze(-1)

        return Rosen(), torch.zeros(1, dtype=f64), None, "rosenbrock k=%g from %s" % (k, x0), ms
    if kind == "sat":
        w0 = ms["w0"]
        xs = torch.linspace(-2, 2, 9, dtype=f64)
        tgt = torch.atan(xs * 0.5 + 0.25).unsqueeze(-1)

        class Sat(torch.nn.Module):
            def __init__(self):
                super().__init__()
                self.w = torch.nn.Parameter(torch.tensor(w0, dtype=f64))

            def forward(self, inp):
                return torch.atan(inp * self.w[0] + self.w[1]).unsqueeze(-1)

        return Sat(), xs, tgt, "saturating atan fit from %s" % w0, ms
    if kind == "expfit":
        w0 = ms["w0"]
        ts = torch.linspace(0, 2, 7, dtype=f64)
        tgt = (2.0 * torch.exp(-1.0 * ts)).unsqueeze(-1)

        class ExpFit(torch.nn.Module):
            def __init__(self):
                super().__init__()
                self.w = torch.nn.Parameter(torch.tensor(w0, dtype=f64))

            def forward(self, inp):
                return (self.w[0] * torch.exp(self.w[1] * inp)).unsqueeze(-1)

        return ExpFit(), ts, tgt, "exponential fit from %s" % w0, ms
    if kind == "himmelf":
        x0 = ms["x0"]

        class Himmel(torch.nn.Module):
            def __init__(self):
                super().__init__()
                self.p = torch.nn.Parameter(torch.tensor(x0, dtype=f64))

            def forward(self, inp):
                x, y = self.p[0], self.p[1]
                return torch.stack([x * x + y - 11, x + y * y - 7]).unsqueeze(-1)

        return Himmel(), torch.zeros(1, dtype=f64), None, "himmelblau from %s" % x0, ms
    if kind == "pose":
        torch.manual_seed(ms["seed"])
        sig = ms["sig"]
        init = pp.randn_SE3(2, sigma=sig, dtype=f64)
        inp = pp.randn_SE3(2, sigma=sig, dtype=f64)

        class PoseInv(torch.nn.Module):
            def __init__(self):
                super().__init__()
                self.pose = pp.Parameter(init)

            def forward(self, inputs):
                return (self.pose @ inputs).Log().tensor()

        return PoseInv(), inp, None, "SE3 pose inversion sigma=%g seed=%d" % (sig, ms["seed"]), ms
    raise MachineryError("unknown float model " + kind)


# ------------------------------------------------------------------ exact runs (scripted integer solver)
def mk_cfg(kind, algo, strat, reject, h, th, model=None, **kw):
    cfg = dict(kind=kind, algo=algo, strat=strat, reject=reject, h=dict(h), hi=list(th[0]), lo=list(th[1]),
               model=model or dict(name="none", a=0, b=0), tolU=0, tolR=0)
    cfg.update(kw)
    return cfg


def T(o, q, **kw):
    d = {"ok": True, "o": OUTS[o], "q": QUALS[q]}
    d.update(kw)
    return d


RAISE = {"ok": False}


def run_exact(cfg, p0, calls, what, **kw):
    sess = Session(cfg, exact_model(cfg["model"], p0), None)
    import torch
    sess.inp = torch.zeros(1, dtype=torch.float64)
    for sc in calls:
        sess.call(sc)
    tr = sess.trace(what, p0=list(p0), calls=calls, **kw)
    tr["unreal"], tr["extra"] = sess.unreal, sess.extra
    return tr


def script_key(sc):
    return "+".join("raise" if not t.get("ok", True) else ("D" if "D" in t else t["o"][0] + t["q"][0]) for t in sc)


def scripted_exact_traces(ctx, rejects, n_random):
    """first k trials increase the loss for k = 0..reject+1 over several calls; the solver raises at the j-th
    solve of the run for every j; random scripts; GN"""
    rng = ctx.rng
    traces = []
    hypers = HYPERS["quick"] if ctx.quick else HYPERS["thorough"]
    qs = "VSU"
    for si, strat in enumerate(["Constant", "Adaptive", "TrustRegion"]):
        for R in rejects:
            h = hypers[(si + R) % len(hypers)]
            th = THRESH[(si + R) % len(THRESH)]
            m = EXACT_MODELS[(si + R) % len(EXACT_MODELS)]
            cfg = mk_cfg("exact", "LM", strat, R, h, th, m)
            p0 = good_starts(m, th[0], th[1], rng, 1)[0]
            ks = list(range(0, R + 2)) if R <= 4 else sorted({0, 1, 2, R // 2, R - 1, R, R + 1})
            for k in ks:
                # call 1: first k trials worse; then two more calls on the same data
                def mk(kk, off):
                    sc = [T("W", qs[(i + off) % 3]) for i in range(min(kk, R + 1))]
                    if kk <= R:
                        sc.append(T("B", qs[(kk + off) % 3]))
                    return sc
                calls = [mk(k, 0), mk((k + 1) % (R + 2), 1), mk(0, 2), mk(R + 1, 0)]
                base = run_exact(cfg, p0, calls, "k=%d worse trials first" % k)
                traces.append(base)
                ctx.cover("worsefirst:%s:R%d:k%d" % (strat, R, k))
                # the solver raises at the j-th solve of the run, every j
                nsolve = sum(1 for e in base["ev"] if e["act"] == "solve")
                js = range(1, nsolve + 1) if (R <= 4 or not ctx.quick) else sorted({1, 2, nsolve // 2, nsolve})
                for j in js:
                    calls_j, seen = [], 0
                    for sc in calls:
                        scj = []
                        for t_ in sc:
                            seen += 1
                            scj.append(dict(RAISE) if seen == j else t_)
                            if seen == j:
                                break
                        calls_j.append(scj)
                        if seen == j and len(calls_j) < len(calls):
                            # the calls after the failing one run their own scripts
                            calls_j += [list(s) for s in calls[len(calls_j):]]
                            break
                    traces.append(run_exact(cfg, p0, calls_j, "k=%d, solver raises at solve %d" % (k, j)))
                    ctx.cover("raise:%s:R%d:k%d:j%d" % (strat, R, k, j))
    # random scripts over many calls ("up to ~30 step() calls")
    for i in range(n_random):
        strat = ["Constant", "Adaptive", "TrustRegion"][i % 3]
        R = rng.choice([0, 1, 2, 3, 4, 5, 8, 16])
        h, th, m = rng.choice(hypers), rng.choice(THRESH), rng.choice(EXACT_MODELS)
        cfg = mk_cfg("exact", "LM", strat, R, h, th, m)
        p0 = good_starts(m, th[0], th[1], rng, 1)[0]
        calls = []
        for _ in range(rng.randint(3, 30 if not ctx.quick else 8)):
            sc = []
            for _t in range(R + 1):
                u = rng.random()
                if u < 0.07:
                    sc.append(dict(RAISE))
                    break
                o = rng.choice("BWWWE" if R > 2 else "BWE")
                q = "U" if o == "E" else rng.choice(qs)
                sc.append(T(o, q, pick=rng.randint(0, 3)))
                if o != "W":
                    break
            calls.append(sc)
        traces.append(run_exact(cfg, p0, calls, "random scripts"))
    # GN: scripted steps over several calls
    for i in range(max(6, n_random // 4)):
        m, th = rng.choice(EXACT_MODELS), THRESH[0]
        cfg = mk_cfg("exact", "GN", "Constant", 0, HYPERS["quick"][0], th, m)
        p0 = good_starts(m, th[0], th[1], rng, 1)[0]
        calls = []
        for _ in range(rng.randint(2, 6)):
            u = rng.random()
            calls.append([dict(RAISE)] if u < 0.1 else [T(rng.choice("BWE"), "U", pick=rng.randint(0, 3))])
        # quality classes are irrelevant for GN: take any cell with the outcome
        for sc in calls:
            for t_ in sc:
                if t_.get("ok", True) and t_["o"] != "Equal":
                    t_["q"] = QUALS[rng.choice("VU")]
        traces.append(run_exact(cfg, p0, calls, "GN scripted"))
        ctx.cover("gn:%s" % "|".join(script_key(s) for s in calls))
    return traces


# ------------------------------------------------------------------ float runs (real solvers, genuine rejections)
def run_float(ctx, algo, kind, strat, R, h, th, modes, ncalls, seed, kernel=False, solver="Cholesky", ms=None):
    import torch
    pp = pypose()
    rng = ctx.rng
    model, inp, tgt, desc, ms = float_model(kind, rng, seed, ms)
    cfg = mk_cfg("float", algo, strat, R, h, th, None, tolU=256, tolR=16 * (R + 2), fmodel=kind)
    kern = None
    if kernel:
        cfg["huber"] = 1.0
        kern = pp.optim.kernel.Huber(1.0)
    inner = {"Cholesky": pp.optim.solver.Cholesky, "PINV": pp.optim.solver.PINV,
             "LSTSQ": pp.optim.solver.LSTSQ}[solver]()
    sess = Session(cfg, model, inp, tgt, kernel=kern, inner=inner,
                   lm_kw=dict(min=1e-6, max=1e32))
    it = iter(modes)
    for _ in range(ncalls):
        sc = []
        for _t in range(R + 2):
            sc.append({"mode": next(it, "true")})
        sess.call(sc)
        if sess.nonfinite:
            break
        # unused script entries are discarded at the next call
    tr = sess.trace("%s %s; solver %s%s" % (algo, desc, solver, " + Huber" if kernel else ""),
                    modes=list(modes), seed=seed, rebuild=dict(fn="run_float", algo=algo, kind=kind, strat=strat, R=R,
                                                               h=h, th=th, ncalls=ncalls, kernel=kernel,
                                                               solver=solver, ms=ms))
    tr["nonfinite"] = sess.nonfinite
    tr["maxunits"] = sess.maxunits
    return tr


def float_traces(ctx, n):
    rng = ctx.rng
    traces = []
    kinds = ["sat", "rosen", "expfit", "himmelf", "pose", "prior", "multi"]
    hyp = dict(u=1, w0=1, f=1, minE=-24, maxE=24, d0=-20)       # tiny damping: genuine rejections
    hyp2 = dict(u=2, w0=1, f=1, minE=-30, maxE=10, d0=-12)
    for i in range(n):
        kind = kinds[i % len(kinds)]
        strat = ["TrustRegion", "Adaptive", "Constant"][(i // len(kinds)) % 3]
        R = rng.choice([0, 1, 2, 4, 4, 8, 16])
        h = rng.choice([hyp, hyp2])
        th = ([1, 1], [1, 10]) if rng.random() < 0.5 else ([3, 2], [1, 2])
        ncalls = rng.randint(3, 8 if ctx.quick else 30)
        # per-solve modes of the wrapped real solver
        style = rng.choice(["true", "true", "poison", "mixed", "raise"])
        modes = []
        for _ in range(ncalls * (R + 2)):
            u = rng.random()
            if style == "true":
                modes.append("true")
            elif style == "poison":
                modes.append("poison" if u < 0.5 else "true")
            elif style == "mixed":
                modes.append("poison" if u < 0.3 else "zero" if u < 0.4 else "over" if u < 0.55 else
                             "tiny" if u < 0.6 else "raise" if u < 0.68 else "true")
            else:
                modes.append("raise" if u < 0.25 else "true")
        if kind == "pose":
            R = min(R, 4)
        solver = "Cholesky" if kind != "sat" or rng.random() < 0.7 else "PINV"
        traces.append(run_float(ctx, "LM", kind, strat, R, h, th, modes, ncalls, ctx.seed * 100000 + i,
                                kernel=(i % 4 == 3 and kind != "pose"), solver=solver))
    # the real solver raises at the j-th solve of a rejecting run, every j
    for strat in ["TrustRegion", "Adaptive", "Constant"]:
        j, nsolve = 0, 0
        while j <= nsolve:
            tr = run_float_raise_at(ctx, strat, 3, hyp, 4, j)
            if j == 0:
                nsolve = sum(1 for e in tr["ev"] if e["act"] == "solve")
            traces.append(tr)
            j += 1
    # GN with the real PINV solver
    for i in range(max(3, n // 6)):
        kind = ["himmelf", "rosen", "pose", "expfit"][i % 4]
        ms = [rng.choice(["true", "true", "over", "poison"]) for _ in range(40)]
        traces.append(run_float(ctx, "GN", kind, "Constant", 0, hyp, ([1, 1], [1, 3]), ms,
                                rng.randint(2, 6), ctx.seed * 100000 + 5000 + i, solver="PINV"))
    # GN with a robust kernel (residuals outside the quadratic zone): the recorded previous loss is the robust loss
    for i in range(3):
        kind = ["himmelf", "rosen", "expfit"][i % 3]
        ms = [rng.choice(["true", "true", "over"]) for _ in range(40)]
        traces.append(run_float(ctx, "GN", kind, "Constant", 0, hyp, ([1, 1], [1, 3]), ms,
                                rng.randint(2, 4), ctx.seed * 100000 + 6000 + i, kernel=True, solver="PINV"))
    return traces


def run_float_raise_at(ctx, strat, R, h, ncalls, j, ms=None):
    """the saturating model (genuine rejections) with the real solver raising at the j-th solve of the run"""
    import torch
    pp = pypose()
    import random
    model, inp, tgt, desc, ms = float_model("sat", random.Random(ctx.seed * 7 + 13), 0, ms)
    cfg = mk_cfg("float", "LM", strat, R, h, ([1, 1], [1, 10]), None, tolU=256, tolR=16 * (R + 2), fmodel="sat")
    sess = Session(cfg, model, inp, tgt, inner=pp.optim.solver.Cholesky(), lm_kw=dict(min=1e-6, max=1e32))
    orig = sess.on_solve

    def on_solve(A, b):
        if sess.solves + 1 == j:
            sess.script = [{"mode": "raise"}]
        else:
            sess.script = [{"mode": "true"}]
        return orig(A, b)
    sess.on_solve = on_solve
    for _ in range(ncalls):
        sess.call([])
        if sess.nonfinite:
            break
    tr = sess.trace("LM %s; real solver raises at solve %d of the run" % (desc, j), raise_at=j,
                    rebuild=dict(fn="run_float_raise_at", strat=strat, R=R, h=h, ncalls=ncalls, j=j, ms=ms))
    tr["nonfinite"] = sess.nonfinite
    tr["maxunits"] = sess.maxunits
    return tr


# ------------------------------------------------------------------ spec -> code
def table_replay(ctx, gens, sample=None):
    """Drive the real LM through every tabulated call script and compare after every observable action."""
    rng = ctx.rng
    checked = unreal = rows_n = 0
    for gcfg in gens:
        out = ctx.work / ("table_%s.json" % gcfg)
        res = ctx.tlc("LMStepGen", gcfg, env={"OUT_FILE": out}, workers=1, timeout=3000)
        rows = json.loads(out.read_text())["rows"]
        nrows = res.printed("ROWS")
        if not nrows or nrows[0][1] != len(rows):
            raise MachineryError("LMStepGen row count mismatch")
        index = {}
        for r in rows:
            hk = json.dumps(r["h"], sort_keys=True)
            index.setdefault((r["strat"], r["reject"], hk, r["start"]["d"], r["start"]["w"]), []).append(r)
        todo = rows
        if sample is not None and len(rows) > sample:
            todo = rng.sample(rows, sample)
        rows_n += len(todo)
        starts_cache = {}
        for r in todo:
            h = r["h"]
            th = THRESH[0]
            m = EXACT_MODELS[0]
            key = (m["name"], m["a"], m["b"])
            if key not in starts_cache:
                starts_cache[key] = good_starts(m, th[0], th[1], rng, 12)
            p0 = rng.choice(starts_cache[key])
            cfg = mk_cfg("exact", "LM", r["strat"], r["reject"], h, th, m)
            sess = Session(cfg, exact_model(m, p0), None)
            import torch
            sess.inp = torch.zeros(1, dtype=torch.float64)
            # bring the strategy to the tabulated state at entry (param_groups is the optimizer's public state)
            d, w = r["start"]["d"], r["start"]["w"]
            sess.pg["damping"] = 2.0 ** d
            if r["strat"] == "TrustRegion":
                sess.pg["radius"] = 2.0 ** -d
                sess.pg["down"] = 2.0 ** -w
            cur = r
            ncalls = 2
            for ci in range(ncalls):
                script = [dict(RAISE) if t_ == "raise" else
                          {"ok": True, "o": t_.split("/")[0], "q": t_.split("/")[1]} for t_ in cur["script"]]
                k0 = len(sess.ev)
                sess.call(script)
                if sess.unreal:
                    unreal += 1
                    break
                bad = compare_obs(cur, sess.ev[k0:], sess.extra)
                checked += 1
                ctx.cover("row:%s:R%d:%d:%d:%s" % (r["strat"], r["reject"], cur["start"]["d"], cur["start"]["w"],
                                                   "+".join(cur["script"])))
                if bad:
                    ctx.violation("LM/table/%s/%s/%s" % (r["strat"], bad[0], bad[1]),
                                  "spec->code: %s reject=%d entered with (d=%d, w=%d), script %s: after %s the real "
                                  "optimizer shows %s, LMStep prescribes %s" %
                                  (r["strat"], r["reject"], cur["start"]["d"], cur["start"]["w"], cur["script"],
                                   bad[0], bad[2], bad[3]),
                                  {"mode": "table", "trace": sess.trace("table row", p0=list(p0), row=cur)})
                    break
                # next call: the row for the state the optimizer is in now
                dd, _r, ww = sess.strat_state()
                cands = index.get((r["strat"], r["reject"], json.dumps(h, sort_keys=True), dd, ww), []) \
                    if ci + 1 < ncalls else []
                if not cands:
                    break
                cur = rng.choice(cands)
    ctx.evaluations += checked
    ctx.extra["table_rows_replayed"] = checked
    ctx.extra["table_rows_unrealisable"] = unreal
    return checked


def compare_obs(row, ev, extra):
    """first difference (act, field, real, spec) between the observed call and the tabulated one"""
    obs = row["obs"]
    real = [e for e in ev if e["act"] in ("solve", "strategy", "return")]
    tie = any(t_.startswith("Equal") for t_ in row["script"])     # equal-loss trial: continuation not judged
    given = None
    for e in ev:
        if e["act"] == "call":
            given = e["lk"]
            base = e["p"]
    sgn = lambda v: (v > 0) - (v < 0)
    i = 0
    for o in obs:
        if i >= len(real):
            return (o["act"], "missing", "call ended", o)
        e = real[i]
        if e["act"] != o["act"]:
            if tie and o["act"] == "return":
                return None
            return (o["act"], "order", e["act"], o["act"])
        i += 1
        strat = row["strat"]
        if o["act"] == "solve":
            got = {"d": e["d"], "at": "B" if e["p"] == base else "?"}
            want = {"d": o["d"], "at": "B"}
        elif o["act"] == "strategy":
            got = {"d": e["d"], "loss": sgn(e["lossk"] - given), "last": sgn(e["lastk"] - given)}
            want = {"d": o["d"], "loss": sgn(o["loss"]), "last": sgn(o["last"])}
            if strat == "TrustRegion":
                got.update(r=e["r"], w=e["w"])
                want.update(r=o["r"], w=o["w"])
        else:
            if tie:
                got = {"ret": sgn(e["ret"] - given)}
                want = {"ret": sgn(o["ret"])}
            else:
                got = {"d": e["d"], "rej": e["rej"], "ret": sgn(e["ret"] - given), "loss": sgn(e["lk"] - given),
                       "last": sgn(e["lastk"] - given), "at": "B" if e["p"] == base else "T"}
                want = {"d": o["d"], "rej": o["rej"], "ret": sgn(o["ret"]), "loss": sgn(o["loss"]),
                        "last": sgn(o["last"]), "at": o["at"]}
                if strat == "TrustRegion":
                    got.update(r=e["r"], w=e["w"])
                    want.update(r=o["r"], w=o["w"])
        for k in want:
            if got[k] != want[k]:
                return (o["act"], k, got, want)
    if i < len(real) and not tie:
        return ("return", "extra_events", real[i]["act"], "end of call")
    return None


# ------------------------------------------------------------------ judging
def judge(ctx, traces, verdicts):
    for tr, v in zip(traces, verdicts):
        cfg = tr["cfg"]
        if v != "ok":
            clause, at = v.split("@")
            e = tr["ev"][int(at) - 1]
            ctx.violation("%s/%s/%s/%s/%s" % (cfg["algo"], cfg["kind"], cfg["strat"], e["act"], clause),
                          "%s: real %s (%s, reject=%d) trace rejected by LMStepTrace at event %s (%s): clause %s; "
                          "event=%s" % (tr.get("what"), cfg["algo"], cfg["strat"], cfg["reject"], at, e["act"],
                                        clause, e),
                          {"mode": "trace", "trace": tr, "verdict": v})


def usable(ctx, traces):
    keep = []
    for tr in traces:
        if tr.get("unreal"):
            ctx.extra["exact_traces_unrealisable"] = ctx.extra.get("exact_traces_unrealisable", 0) + 1
            continue
        if tr.get("nonfinite"):
            ctx.extra["float_traces_nonfinite_unjudged"] = ctx.extra.get("float_traces_nonfinite_unjudged", 0) + 1
            continue
        keep.append(tr)
    return keep


def stats(ctx, traces):
    cnt = {}
    mu = {}

    def add(kind, key, n=1):
        cnt.setdefault(kind, {})
        cnt[kind][key] = cnt[kind].get(key, 0) + n
    for tr in traces:
        cfg = tr["cfg"]
        kind = cfg["kind"]
        for k, v in (tr.get("maxunits") or {}).items():
            mu[k] = max(mu.get(k, 0), v)
        add(kind, "traces")
        for i, e in enumerate(tr["ev"]):
            if e["act"] == "call":
                add(kind, "step_calls")
            if e["act"] == "return" and cfg["algo"] == "LM":
                add(kind, "rejected_trials", e["rej"])
                if e["rej"] == cfg["reject"] and e["ret"] > e["lastk"]:
                    add(kind, "calls_exhausted_returning_worse")
                if e["rej"] > 0 and e["ret"] < e["lastk"]:
                    add(kind, "calls_accepting_after_rejections")
            if e["act"] == "solve" and not e["ok"]:
                add(kind, "solver_raises")
            if e["act"] == "strategy":
                add(kind, "strategy_events")
                if e["lossk"] == e["lastk"] and i + 1 < len(tr["ev"]):     # tie: continuation not judged, counted
                    add(kind, "equal_loss_trials_" + ("rejected" if tr["ev"][i + 1]["act"] == "solve" else "accepted"))
                if not e["qj"]:
                    add(kind, "quality_unjudged")
        if kind == "float":
            ctx.cover("float:%s:%s:%s:R%d:%s" % (cfg["algo"], cfg.get("fmodel"), cfg["strat"], cfg["reject"],
                                               "".join(e["act"][0] for e in tr["ev"])[:60]))
        else:
            ctx.cover("exact:%s:%s:R%d:%s" % (cfg["algo"], cfg["strat"], cfg["reject"],
                                             "|".join(script_key(s) for s in tr.get("calls", []))[:200]))
    ctx.extra.update(observed=cnt, float_max_units=mu)


def design(ctx):
    q = ctx.quick
    ctx.tlc("LMStep", "LMStep_q.cfg" if q else "LMStep_t.cfg", workers=4, coverage=True,
            need_actions=["Begin", "Damp", "SolveOk", "SolveRaise", "Update", "Eval", "Strategy", "Reject",
                          "AcceptOrExhaust", "Return", "GNBegin", "GNSolveOk", "GNSolveRaise", "GNRecord",
                          "GNUpdate", "GNEval"])
    ctx.tlc("LMStep", "LMStep_live.cfg", workers=2)
    ctx.tlc("LMStep", "LMStep_alt_reject_le.cfg", workers=2)
    for r in ctx.tlc_runs:
        if r["violated"]:
            ctx.violation("design/%s" % r["violated"][0], "LMStep design model (%s) violates %s" % (r["cfg"], r["violated"]))


def run(ctx):
    q = ctx.quick
    ctx.rule = [
        "TLC: LMStep exhaustively, LM x {Constant, Adaptive, TrustRegion} x reject 0..4 (thorough 0..6) x 4 (5) calls "
        "x every environment choice per trial (solver ok|raise, loss Better|Equal|Worse, quality class), GN",
        "conformance code->spec: real LM/GN traces (scripted integer solver on integer polynomial models: first k "
        "trials worse for k = 0..reject+1, solver raising at every j-th solve, random scripts over up to 30 calls; real "
        "Cholesky/PINV on Rosenbrock / saturating / exponential / Himmelblau / SE3 models from far starts with tiny "
        "damping, poisoned, zero and raising solves) validated by LMStepTrace; spec->code: every tabulated call script "
        "of LMStepGen replayed on the real LM from every strategy state; a case is distinct by (kind, algo, strategy, "
        "reject, script / event shape)"]
    ctx.assumptions = [
        "same data on every call, parameters untouched between calls (the property's premise)",
        "hyper-parameters up/down/factor/min/max/damping are powers of two so damping and radius are exact; "
        "thresholds high/low dyadic",
        "a trial whose loss EQUALS the previous loss is a tie (documentation rejects 'not decreasing', code accepts): "
        "either continuation is admitted; quality ratios x/0 (x != 0) and ratios within 1e-6 of a threshold (float "
        "runs) are not judged",
        "float runs: 'equal' means within cfg.tolU units of 2^-52 relative (loss recomputation) and cfg.tolR units of "
        "eps * magnitude (parameters after + D - D), the round-off of the retraction",
        "runs whose loss becomes inf/NaN are not judged"]
    design(ctx)
    if ctx.replay:
        case = json.loads(open(ctx.replay).read())["case"]
        tr = replay_case(ctx, case)
        if tr is not None:
            judge(ctx, [tr], ctx.validate("LMStepTrace", "LMStepTrace.cfg", [tr], "replay"))
        return
    # ---- spec -> code
    import time
    t0 = time.time()
    table_replay(ctx, ["LMStepGen_q.cfg"] if q else ["LMStepGen_t.cfg", "LMStepGen_t2.cfg"],
                 sample=1200 if q else None)
    t1 = time.time()
    # ---- code -> spec
    traces = scripted_exact_traces(ctx, [0, 1, 2, 3, 4, 16] if q else list(range(0, 17)), 120 if q else 600)
    t2 = time.time()
    traces += float_traces(ctx, 150 if q else 600)
    t3 = time.time()
    traces = usable(ctx, traces)
    stats(ctx, traces)
    for t in traces[:1] + traces[-1:]:
        ctx.sample({"kind": "code->spec trace", "what": t["what"], "cfg": t["cfg"], "ev": t["ev"][:4]})
    verdicts = ctx.validate("LMStepTrace", "LMStepTrace.cfg", traces, "lm", chunk=1500)
    judge(ctx, traces, verdicts)
    ctx.extra["phase_wall_s"] = dict(table=round(t1 - t0, 1), exact_runs=round(t2 - t1, 1), float_runs=round(t3 - t2, 1),
                                     validate=round(time.time() - t3, 1))


def replay_case(ctx, case):
    """re-run the recorded stimuli on the current tree"""
    tr = case["trace"]
    cfg = tr["cfg"]
    if cfg["kind"] == "exact" and "calls" in tr:
        return run_exact(cfg, tr["p0"], tr["calls"], "replayed on current tree")
    if cfg["kind"] == "exact" and "row" in tr:
        row = tr["row"]
        sess = Session(cfg, exact_model(cfg["model"], tr["p0"]), None)
        import torch
        sess.inp = torch.zeros(1, dtype=torch.float64)
        d, w = row["start"]["d"], row["start"]["w"]
        sess.pg["damping"] = 2.0 ** d
        if row["strat"] == "TrustRegion":
            sess.pg["radius"], sess.pg["down"] = 2.0 ** -d, 2.0 ** -w
        sess.call([dict(RAISE) if t_ == "raise" else {"ok": True, "o": t_.split("/")[0], "q": t_.split("/")[1]}
                   for t_ in row["script"]])
        bad = compare_obs(row, sess.ev, sess.extra)
        if bad:
            ctx.violation("LM/table/%s/%s/%s" % (row["strat"], bad[0], bad[1]), "replay: %s" % (bad,),
                          {"mode": "table", "trace": sess.trace("table row", p0=tr["p0"], row=row)})
        return None
    rb = tr.get("rebuild")
    if rb and rb["fn"] == "run_float":
        return run_float(ctx, rb["algo"], rb["kind"], rb["strat"], rb["R"], rb["h"], rb["th"], tr["modes"],
                         rb["ncalls"], tr["seed"], kernel=rb["kernel"], solver=rb["solver"], ms=rb["ms"])
    if rb and rb["fn"] == "run_float_raise_at":
        return run_float_raise_at(ctx, rb["strat"], rb["R"], rb["h"], rb["ncalls"], rb["j"], ms=rb["ms"])
    return tr


def selftest(ctx):
    """Binding demonstration: corrupted fields and a removed event must be rejected; seeded design
    mutants must violate a named property."""
    cfg = mk_cfg("exact", "LM", "TrustRegion", 2, HYPERS["quick"][0], THRESH[0], EXACT_MODELS[0])
    p0 = good_starts(EXACT_MODELS[0], THRESH[0][0], THRESH[0][1], ctx.rng, 1)[0]
    good = run_exact(cfg, p0, [[T("W", "V"), T("W", "U"), T("B", "S")], [dict(RAISE)], [T("B", "V")]], "selftest")
    bads = []
    for fld, idx_act in (("d", "strategy"), ("ret", "return"), ("p", "solve"), ("rej", "return")):
        b = json.loads(json.dumps(good))
        e = [x for x in b["ev"] if x["act"] == idx_act][-1 if fld != "p" else 1]
        if fld == "p":
            e["p"] = [e["p"][0] + 1, e["p"][1]]
        else:
            e[fld] += 1
        bads.append(b)
    b = json.loads(json.dumps(good))
    del b["ev"][2]          # remove the first strategy event
    bads.append(b)
    v = ctx.validate("LMStepTrace", "LMStepTrace.cfg", [good] + bads, "selftest")
    print("selftest verdicts:", v)
    assert v[0] == "ok" and all(x != "ok" for x in v[1:]), v
    for m_ in ["no_minusD", "no_reset_rej", "keep_trial_loss", "swapped_clamp", "down_not_reset", "loop_lt"]:
        r = ctx.tlc("LMStep", "LMStep_mut_%s.cfg" % m_, workers=2)
        print("design mutant %s: violated %s" % (m_, r.violated))
        assert r.violated, m_
    return 0
