"""C12 — cumulative products equal the sequential fold for every length (Mode S + E).
Spec: Scan.tla (design, every L), ScanTrace.tla (recorded executions over the interval monoid)."""
import itertools
import json

from vlib.core import pypose

SH, LB = 13, 26
MASK = (1 << SH) - 1


def enc(lane, lo, hi):
    return (lane << LB) | (lo << SH) | hi


def dec(c):
    c = int(c)
    return [(c >> SH) & MASK, c & MASK]


class Monoid:
    """The interval monoid on int64 codes, with a log of every product invocation."""

    def __init__(self, torch, dim):
        self.t, self.dim, self.log = torch, dim, []

    def mul(self, p, q):
        t = self.t
        p = p.as_subclass(t.Tensor)
        q = q.as_subclass(t.Tensor)
        plo, phi, pl = (p >> SH) & MASK, p & MASK, p >> LB
        qlo, qhi, ql = (q >> SH) & MASK, q & MASK, q >> LB
        ok = (p >= 0) & (q >= 0)
        asc = ok & (phi + 1 == qlo)
        desc = ok & (qhi + 1 == plo)
        lanes = pl == ql
        res = t.where(asc & lanes, (pl << LB) | (plo << SH) | qhi,
                      t.where(desc & lanes, (pl << LB) | (qlo << SH) | phi, t.full_like(p, -1)))
        rows = p.shape[self.dim] if p.dim() else 0
        ev = {"act": "round", "rows": int(rows)}
        if rows > 0 and p.numel() > 0:
            def row(x, r):
                return dec(x.select(self.dim, r).reshape(-1)[0])
            ev.update({"asc": bool(asc.all()), "desc": bool(desc.all()), "lanes": bool(lanes.all()),
                       "p0": row(p, 0), "q0": row(q, 0), "p1": row(p, rows - 1), "q1": row(q, rows - 1)})
        self.log.append(ev)
        return res


def make_input(torch, shape, dim):
    L = shape[dim]
    idx = torch.arange(L, dtype=torch.int64) + 1
    view = [1] * len(shape)
    view[dim] = L
    i = idx.view(view).expand(shape)
    others = [s for k, s in enumerate(shape) if k != dim]
    nl = 1
    for s in others:
        nl *= s
    lane_shape = [s if k != dim else 1 for k, s in enumerate(shape)]
    lane = torch.arange(nl, dtype=torch.int64).view(lane_shape).expand(shape)
    return ((lane << LB) | (i << SH) | i).contiguous(), lane.contiguous()


def run_interval(ctx, shape, dim, fn, order, inplace, layout="contig"):
    """One execution of cumops/cumprod/cummul(+_) over the interval monoid; returns a trace.
    layout "strided": the input is a non-contiguous view (every second element of a larger buffer)."""
    import torch
    pp = pypose()
    L = shape[dim]
    x, lane = make_input(torch, shape, dim)
    if layout == "strided":
        big = torch.full(tuple(shape) + (2,), -7, dtype=torch.int64)
        big[..., 0] = x
        x = big[..., 0]
        assert not x.is_contiguous() or x.numel() <= 1
    mon = Monoid(torch, dim)

    class W(torch.Tensor):
        @classmethod
        def __torch_function__(cls, func, types, args=(), kwargs=None):
            if func in (torch.Tensor.__matmul__, torch.Tensor.__mul__, torch.matmul, torch.mul,
                        torch.Tensor.matmul, torch.Tensor.mul, torch.Tensor.__rmatmul__, torch.Tensor.__rmul__):
                return mon.mul(args[0], args[1]).as_subclass(W)
            return super().__torch_function__(func, types, args, kwargs or {})

    orig = x.clone()
    cfg = {"L": L, "order": order, "fn": fn + ("_" if inplace else ""), "inplace": inplace,
           "dim": dim, "shape": list(shape), "kind": "interval", "layout": layout}
    f = getattr(pp, cfg["fn"])
    strides = []
    darg = dim if ctx.rng.random() < 0.7 else dim - len(shape)        # the same dimension, counted from the end
    cfg["dimarg"] = darg
    try:
        if fn == "cumops":
            # documented: y_i = x_1 o ... o x_i, ops(a, b) with a the earlier prefix
            def ops(a, b):
                r = mon.mul(a, b)
                return r
            inp = x
            out = f(inp, darg, ops)
        else:
            inp = x.as_subclass(W)
            out = f(inp, darg, left=(order == "left"))
    except Exception as ex:  # a call that raises for a valid L is a violation, judged by the trace spec
        return {"cfg": cfg, "ev": mon.log and _with_strides(mon.log, L) + [{"act": "raise", "msg": repr(ex)[:200]}]
                or [{"act": "raise", "msg": repr(ex)[:200]}]}
    ev = _with_strides(mon.log, L)
    o = out.as_subclass(torch.Tensor)
    xi = inp.as_subclass(torch.Tensor)
    i = torch.arange(L, dtype=torch.int64) + 1
    view = [1] * len(shape)
    view[dim] = L
    want = (lane << LB) | (1 << SH) | i.view(view).expand(shape)
    probe_i = ctx.rng.randint(1, L)
    flat = o.movedim(dim, 0).reshape(L, -1)
    ev.append({"act": "done", "first": dec(flat[0, 0]), "last": dec(flat[L - 1, 0]),
               "probe_i": probe_i, "probe": dec(flat[probe_i - 1, 0]),
               "allfold": bool(torch.equal(o, want)),
               "untouched": bool(torch.equal(xi, orig)),
               "aliased": bool(o.data_ptr() == xi.data_ptr()),
               "input_is_result": bool(torch.equal(xi, o))})
    return {"cfg": cfg, "ev": ev}


def _with_strides(log, L):
    # the stride of a round is revealed by the number of rows the product received: rows = L - stride
    out = []
    for e in log:
        e = dict(e)
        e["stride"] = L - e["rows"] if e["rows"] > 0 else L
        out.append(e)
    return out


# ---------------------------------------------------------------- lattice LieTensors
HURWITZ = [(1, 0, 0, 0), (0, 1, 0, 0), (0, 0, 1, 0), (0, 0, 0, 1)]


def hurwitz24():
    units = []
    for s in (1, -1):
        for k in range(4):
            q = [0, 0, 0, 0]
            q[k] = s
            units.append(tuple(float(v) for v in q))
    for signs in itertools.product((0.5, -0.5), repeat=4):
        units.append(signs)
    return units   # (x, y, z, w) ordering is irrelevant for the set


def lattice(rng, torch, ltype, n, dtype):
    pp = pypose()
    H = hurwitz24()
    rows = []
    for _ in range(n):
        q = list(rng.choice(H))
        t = [float(rng.randint(-2, 2)) for _ in range(3)]
        s = [rng.choice([0.5, 1.0, 2.0])]
        rows.append({"SO3": q, "SE3": t + q, "RxSO3": q + s, "Sim3": t + q + s}[ltype])
    return pp.LieTensor(torch.tensor(rows, dtype=dtype), ltype=getattr(pp, ltype + "_type"))


def same_transform(torch, a, b, ltype):
    """Exact equality up to the sign of the quaternion (same group element)."""
    a, b = a.tensor(), b.tensor()
    off = {"SO3": 0, "SE3": 3, "RxSO3": 0, "Sim3": 3}[ltype]
    qa, qb = a[..., off:off + 4], b[..., off:off + 4]
    sign_ok = ((qa == qb).all(-1) | (qa == -qb).all(-1)).all()
    rest = torch.cat([a[..., :off], a[..., off + 4:]], -1) == torch.cat([b[..., :off], b[..., off + 4:]], -1)
    return bool(sign_ok and rest.all())


def run_lie(ctx, ltype, L, batch, dim_first, fn, order, inplace, dtype, layout="contig"):
    import torch
    pp = pypose()
    n = L * batch
    if layout == "strided":      # a non-contiguous LieTensor view: every second item of a longer sequence
        X = lattice(ctx.rng, torch, ltype, 2 * n, dtype)
        X = X.lview(2 * L, batch)[::2] if dim_first else X.lview(batch, 2 * L)[:, ::2]
    else:
        X = lattice(ctx.rng, torch, ltype, n, dtype)
        X = X.lview(L, batch) if dim_first else X.lview(batch, L)
    dim = 0 if dim_first else 1
    cfg = {"L": L, "order": order, "fn": fn + ("_" if inplace else ""), "inplace": inplace, "dim": dim,
           "shape": list(X.shape), "kind": "lie", "ltype": ltype, "dtype": str(dtype), "layout": layout}
    orig = X.clone()
    try:
        method = ctx.rng.random() < 0.5
        cfg["form"] = "method" if method else "function"
        # the same dimension counted from the end of the tensor (the last axis holds the element's coordinates)
        darg = dim if ctx.rng.random() < 0.5 else dim - X.tensor().dim()
        cfg["dimarg"] = darg
        if fn == "cumops":       # the user-defined-operation entry points on LieTensors
            ops = (lambda a, b: b @ a) if order == "left" else (lambda a, b: a @ b)
            out = getattr(X, cfg["fn"])(darg, ops) if method else getattr(pp, cfg["fn"])(X, darg, ops)
        else:
            out = getattr(X, cfg["fn"])(darg, left=(order == "left")) if method else \
                getattr(pp, cfg["fn"])(X, darg, left=(order == "left"))
    except Exception as ex:
        return {"cfg": cfg, "ev": [{"act": "raise", "msg": repr(ex)[:200]}]}
    # sequential fold with the library's own product, item by item
    items = [orig.select(dim, i) if False else orig.tensor().select(dim, i) for i in range(L)]
    items = [pp.LieTensor(t, ltype=orig.ltype) for t in items]
    acc, fold = items[0], [items[0]]
    for i in range(1, L):
        acc = items[i] @ acc if order == "left" else acc @ items[i]
        fold.append(acc)
    want = pp.LieTensor(torch.stack([f.tensor() for f in fold], dim), ltype=orig.ltype)
    ev = [{"act": "liedone",
           "equal_fold": same_transform(torch, out, want, ltype),
           "ltype_kept": bool(isinstance(out, pp.LieTensor) and out.ltype == orig.ltype and out.dtype == dtype),
           "untouched": bool(torch.equal(X.tensor(), orig.tensor())),
           "aliased": bool(out.data_ptr() == X.data_ptr()),
           "input_is_result": bool(torch.equal(X.tensor(), out.tensor()))}]
    return {"cfg": cfg, "ev": ev}


def run_plainmat(ctx, L, k, batch, fn, order, inplace, dtype, layout="contig"):
    """cumprod (matrix product @) / cummul (element-wise *) on PLAIN tensors of small integer matrices: the two differ
    there (on LieTensors both are the group product).  Exact in floating point: entries stay small integers."""
    import torch
    pp = pypose()
    rng = ctx.rng
    g = torch.Generator().manual_seed(rng.randint(0, 2 ** 31))
    shape = (batch, L, k, k)
    M = torch.randint(-1, 2, shape, generator=g).to(dtype)
    if fn == "cumprod":      # unipotent / signed permutation-like factors keep the products bounded
        M = torch.eye(k, dtype=dtype).expand(shape).clone() + torch.triu(M, 1)
        M = M * torch.tensor([1.0, -1.0], dtype=dtype)[torch.randint(0, 2, (batch, L, 1, 1), generator=g)]
        M = M.transpose(-1, -2).contiguous() if rng.random() < 0.5 else M
    if layout == "strided":
        big = torch.zeros((batch, 2 * L, k, k), dtype=dtype)
        big[:, ::2] = M
        X = big[:, ::2]
    else:
        X = M.clone()
    cfg = {"L": L, "order": order, "fn": fn + ("_" if inplace else ""), "inplace": inplace, "dim": 1,
           "shape": list(shape), "kind": "plainmat", "ltype": "none", "dtype": str(dtype), "layout": layout}
    orig = X.clone()
    try:
        out = getattr(pp, cfg["fn"])(X, 1, left=(order == "left"))
    except Exception as ex:
        return {"cfg": cfg, "ev": [{"act": "raise", "msg": repr(ex)[:200]}]}
    op = (lambda a, b: a @ b) if fn == "cumprod" else (lambda a, b: a * b)
    acc, fold = orig[:, 0], [orig[:, 0]]
    for i in range(1, L):
        acc = op(orig[:, i], acc) if order == "left" else op(acc, orig[:, i])
        fold.append(acc)
    want = torch.stack(fold, 1)
    ev = [{"act": "liedone", "equal_fold": bool(out.shape == want.shape and torch.equal(out, want)),
           "ltype_kept": bool(out.dtype == dtype and not isinstance(out, pp.LieTensor)),
           "untouched": bool(torch.equal(X, orig)), "aliased": bool(out.data_ptr() == X.data_ptr()),
           "input_is_result": bool(out.shape == X.shape and torch.equal(X, out))}]
    return {"cfg": cfg, "ev": ev}


def fold_events(ctx):
    """cumprod / cummul on lattice LieTensors with the expected fold recomputed by TLC from LieExact
    (independent of the library's own binary product)."""
    import torch
    from vlib import lattice as LL
    pp = pypose()
    rng = ctx.rng
    ev = []
    for ty in LL.TYPES:
        for L in ([2, 3, 5, 7] if ctx.quick else [2, 3, 4, 5, 6, 7, 8, 9, 11, 16]):
            for left in (True, False):
                dtype = rng.choice([torch.float64, torch.float32])
                rows = [LL.rand_elem(rng, ty, tbox=1, sbox=1) for _ in range(L)]
                X = LL.mk(ty, rows, dtype)
                fn = rng.choice(["cumprod", "cummul", "cumprod_", "cummul_"])
                Y = getattr(X.clone(), fn)(0, left=left)
                ev.append({"op": "cumfold", "ty": ty, "left": left, "fn": fn,
                           "xs": [LL.dyvec(X.tensor()[i]) for i in range(L)],
                           "outs": [LL.dyvec(Y.tensor()[i]) for i in range(L)]})
    return ev


def gen_traces(ctx):
    """The calls are made in a shuffled order (seeded): the result must depend on the input only, not on
    which lengths were scanned before in the same process."""
    import torch
    q = ctx.quick
    rng = ctx.rng
    jobs = []
    fns = [("cumops", "right"), ("cumprod", "left"), ("cumprod", "right"), ("cummul", "left"), ("cummul", "right")]
    # every L: the index schedule depends only on L
    Lmax = 640 if q else 4096
    for L in range(1, Lmax + 1):
        fn, order = fns[L % len(fns)] if q else (None, None)
        combos = [(fn, order, bool(L % 2))] if q else [(f, o, ip) for f, o in fns for ip in (False, True)]
        if q and L <= 64:
            combos = [(f, o, ip) for f, o in fns for ip in (False, True)]
        for f, o, ip in combos:
            jobs.append(("interval", (L,), 0, f, o, ip))
    if q:
        for k in range(10, 13):
            for L in (2 ** k - 1, 2 ** k, min(2 ** k + 1, 4096)):
                f, o = fns[(L + k) % len(fns)]
                jobs.append(("interval", (L,), 0, f, o, bool(k % 2)))
        for _ in range(24):
            L = rng.randint(641, 4096)
            f, o = rng.choice(fns)
            jobs.append(("interval", (L,), 0, f, o, rng.random() < 0.5))
    # every dim of tensors up to rank 4
    for rank in range(1, 5):
        for dim in range(rank):
            for L in ([1, 2, 3, 5, 8, 13] if q else [1, 2, 3, 4, 5, 6, 7, 8, 9, 13, 16, 17, 31, 33]):
                shape = [rng.randint(1, 3) for _ in range(rank)]
                shape[dim] = L
                for f, o in fns:
                    jobs.append(("interval", tuple(shape), dim, f, o, rng.random() < 0.5))
    # lattice LieTensors, all four group types, both dtypes
    for ltype in ("SO3", "SE3", "RxSO3", "Sim3"):
        for dtype in (torch.float64, torch.float32):
            for L in ([1, 2, 3, 5, 6, 7, 8, 9, 12, 17] if q else list(range(1, 41)) + [63, 64, 65, 100]):
                for fn in ("cumprod", "cummul", "cumops"):
                    for order in ("left", "right"):
                        jobs.append(("lie", ltype, L, rng.randint(1, 3), rng.random() < 0.5, fn, order,
                                     rng.random() < 0.5, dtype))
                        if fn == "cumops":      # both forms (method / function), out-of-place: the input must stay untouched
                            jobs.append(("lie", ltype, L, rng.randint(1, 3), rng.random() < 0.5, fn, order, False, dtype))
    # non-contiguous inputs (strided views): the in-place variants must overwrite the view, the others leave it alone
    for L in ([1, 2, 3, 5, 8, 13, 64] if q else [1, 2, 3, 4, 5, 7, 8, 9, 16, 17, 33, 64, 100]):
        for f, o in fns:
            for ip in (False, True):
                jobs.append(("interval", (L, rng.randint(1, 3)), 0, f, o, ip, "strided"))
                jobs.append(("interval", (rng.randint(1, 3), L), 1, f, o, ip, "strided"))
    for ltype in ("SO3", "SE3", "RxSO3", "Sim3"):
        for L in ([1, 2, 5, 9] if q else [1, 2, 3, 5, 8, 9, 17, 33]):
            for fn in ("cumprod", "cummul", "cumops"):
                for ip in (False, True):
                    jobs.append(("lie", ltype, L, rng.randint(1, 3), rng.random() < 0.5, fn, rng.choice(["left", "right"]), ip,
                                 rng.choice([torch.float64, torch.float32]), "strided"))
    # plain matrix tensors: cumprod is the matrix product, cummul the element-wise product
    for L in ([1, 2, 3, 4, 7, 12] if q else [1, 2, 3, 4, 5, 6, 7, 8, 9, 12, 16, 17, 24]):
        for fn in ("cumprod", "cummul"):
            for order in ("left", "right"):
                for ip in (False, True):
                    jobs.append(("plainmat", L, rng.choice([2, 3]), rng.randint(1, 3), fn, order, ip,
                                 rng.choice([torch.float64, torch.float32]), rng.choice(["contig", "contig", "strided"])))
    rng.shuffle(jobs)
    # a few long scans right at the start, before any medium-sized one (history dependence across calls)
    early = [("interval", (rng.randint(2100, 4096),), 0) + rng.choice(fns) + (False,) for _ in range(3)]
    jobs = [("interval", (3,), 0, "cumops", "right", False)] + early + jobs
    traces = []
    for j in jobs:
        if j[0] == "interval":
            traces.append(run_interval(ctx, *j[1:]))
        elif j[0] == "plainmat":
            traces.append(run_plainmat(ctx, *j[1:]))
        else:
            traces.append(run_lie(ctx, *j[1:]))
    return traces


def judge(ctx, traces, verdicts):
    for tr, v in zip(traces, verdicts):
        c = tr["cfg"]
        ctx.cover("%s:%s:%s:L=%d:dim=%d:%s:%s" % (c["kind"], c["fn"], c["order"], c["L"], c["dim"], c["shape"],
                                                  c.get("ltype", "") + ":" + c.get("layout", "contig")))
        if v != "ok":
            clause, at = v.split("@")
            e = tr["ev"][int(at) - 1]
            pow2 = c["L"] & (c["L"] - 1) == 0
            ctx.violation("%s/%s/%s" % (c["kind"], clause, "pow2" if pow2 else "nonpow2"),
                          "%s(L=%d, dim=%d, shape=%s, order=%s): clause %s at event %s: %s"
                          % (c["fn"], c["L"], c["dim"], c["shape"], c["order"], clause, at, e),
                          {"trace": tr, "verdict": v})


def run(ctx):
    q = ctx.quick
    ctx.rule = ["TLC: round-by-round scan over the interval monoid for every L in 1..512 (quick) / 1..4096 (thorough): "
                "closed form, fold at end, ceil(log2 L) rounds",
                "conformance: real cumops/cumprod/cummul(+in-place) run on interval-coded tensors for every L, every dim "
                "of rank<=4 shapes, both orders; every product invocation is an event validated against Scan!Closed; "
                "lattice LieTensors of four types vs item-by-item fold; distinct = (fn, order, L, dim, shape, ltype)"]
    ctx.assumptions = ["the interval monoid (contiguous words of the free monoid) detects any wrong stride, missing round "
                       "or swapped operand; arbitrary associative operations are represented by it",
                       "LieTensor folds are compared exactly on the Hurwitz/integer lattice where IEEE arithmetic is exact"]
    ctx.tlc("Scan", "Scan_q.cfg" if q else "Scan_t.cfg", workers=16, coverage=q, need_actions=["Round"] if q else ())
    ctx.tlc("Scan", "Scan_live.cfg", workers=4)
    for res in ctx.tlc_runs:
        if res["violated"]:
            ctx.violation("design/%s" % res["violated"][0], "Scan design model violates %s" % res["violated"])
    if ctx.replay:
        case = json.load(open(ctx.replay))["case"]
        c = case["trace"]["cfg"]
        import torch
        if c["kind"] == "cumfold":
            e0 = case["trace"]["ev"][0]
            from vlib import lattice as LL
            X = LL.mk(e0["ty"], [[LL.undy(d) for d in row] for row in e0["xs"]], torch.float64)
            Y = getattr(X.clone(), e0["fn"])(0, left=e0["left"])
            e1 = dict(e0)
            e1["outs"] = [LL.dyvec(Y.tensor()[i]) for i in range(len(e0["xs"]))]
            tr = {"cfg": c, "ev": [e1]}
            v = ctx.validate("LieTrace", "LieTrace.cfg", [tr], "replay")[0]
            if v != "ok":
                ctx.violation("cumfold/%s/%s" % (e0["ty"], v.split("@")[0]), "replayed on the current tree: still differs", {"trace": tr})
            return
        lay = c.get("layout", "contig")
        if c["kind"] == "interval":
            tr = run_interval(ctx, tuple(c["shape"]), c["dim"], c["fn"].rstrip("_"), c["order"], c["inplace"], lay)
        elif c["kind"] == "plainmat":
            tr = run_plainmat(ctx, c["L"], c["shape"][-1], c["shape"][0], c["fn"].rstrip("_"), c["order"], c["inplace"],
                              torch.float64 if "64" in c["dtype"] else torch.float32, lay)
        else:
            tr = run_lie(ctx, c["ltype"], c["L"], 2, c["dim"] == 0, c["fn"].rstrip("_"), c["order"], c["inplace"],
                         torch.float64 if "64" in c["dtype"] else torch.float32, lay)
        judge(ctx, [tr], ctx.validate("ScanTrace", "ScanTrace.cfg", [tr], "replay"))
        return
    traces = gen_traces(ctx)
    ctx.sample({"cfg": traces[5]["cfg"], "ev": traces[5]["ev"][:3]})
    ctx.sample({"cfg": traces[-1]["cfg"], "ev": traces[-1]["ev"]})
    verdicts = ctx.validate("ScanTrace", "ScanTrace.cfg", traces, "scan", chunk=3000)
    judge(ctx, traces, verdicts)
    fev = fold_events(ctx)
    ftr = [{"cfg": {"ty": e["ty"], "kind": "cumfold"}, "ev": [e]} for e in fev]
    for tr, v in zip(ftr, ctx.validate("LieTrace", "LieTrace.cfg", ftr, "fold", chunk=400)):
        e = tr["ev"][0]
        ctx.cover("cumfold:%s:%s:%d:%s" % (e["ty"], e["fn"], len(e["xs"]), e["left"]))
        if v != "ok":
            ctx.violation("cumfold/%s/%s" % (e["ty"], v.split("@")[0]),
                          "%s(left=%s) on %d lattice %s items differs from the fold computed by LieExact" % (e["fn"], e["left"], len(e["xs"]), e["ty"]),
                          {"trace": tr})


def selftest(ctx):
    good = run_interval(ctx, (8,), 0, "cumops", "right", False)
    bad1 = json.loads(json.dumps(good))
    bad1["ev"][1]["asc"] = False
    bad2 = json.loads(json.dumps(good))
    bad2["ev"][-1]["last"] = [1, 7]
    v = ctx.validate("ScanTrace", "ScanTrace.cfg", [good, bad1, bad2], "selftest")
    print("selftest verdicts:", v)
    assert v[0] == "ok" and v[1] != "ok" and v[2] != "ok", v
    return 0
