"""C04 — autograd through LieTensor ops gives exact left-perturbation Jacobians.
Mode E: LieJac.tla (dual numbers over dyadics), LieJacMC.tla (design), LieJacTrace.tla (exact validation).
Mode R: programs with generic Exp / Log / Jinvp nodes against 60-digit finite differences (LieNumTrace)."""
import json
import math

from vlib.core import MachineryError, pypose
from vlib import lattice as L


# ------------------------------------------------------------------ typed program generator (exact fragment)
class Gen:
    """Random well-typed programs over {mul, inv, act3, act4, adj, adjT, retr, exp, log, matrix}.
    Sorts: G group, Gt group with identity rotation and unit scale, A algebra, At algebra with zero
    rotation / log-scale part (Exp, Log, Retr are finite series there), V3, V4."""

    def __init__(self, rng, ty):
        self.rng, self.ty = rng, ty
        self.kinds, self.vals = [], []

    def inp(self, sort):
        rng, ty = self.rng, self.ty
        # reuse an existing input of the same sort now and then (gradient accumulation)
        same = [k for k, s in enumerate(self.sorts) if s == sort] if hasattr(self, "sorts") else []
        if same and rng.random() < 0.3:
            return {"op": "in", "k": rng.choice(same) + 1}
        if not hasattr(self, "sorts"):
            self.sorts = []
        if sort == "G":
            v, kind = L.rand_elem(rng, ty, tbox=2, sbox=1), "G"
        elif sort == "Gt":
            t = [float(rng.randint(-2, 2)) for _ in range(3)]
            q = [0.0, 0.0, 0.0, rng.choice([1.0, 1.0, -1.0])]
            v, kind = {"SO3": q, "SE3": t + q, "RxSO3": q + [1.0], "Sim3": t + q + [1.0]}[ty], "G"
        elif sort == "A":
            v, kind = L.rand_alg(rng, ty, box=2), "A"
        elif sort == "At":
            v, kind = L.rand_alg(rng, ty, box=2, pure_trans=True), "A"
        elif sort == "V3":
            v, kind = [float(rng.randint(-3, 3)) for _ in range(3)], "V"
        else:
            v, kind = [float(rng.randint(-3, 3)) for _ in range(3)] + [float(rng.choice([0, 1, 1, -1, 2]))], "V"
        self.kinds.append(kind)
        self.vals.append(v)
        self.sorts.append(sort)
        return {"op": "in", "k": len(self.vals)}

    def expr(self, sort, d):
        rng = self.rng
        if d <= 0:
            return self.inp(sort)
        c = rng.random()
        if sort == "G":
            if c < 0.35:
                return {"op": "mul", "a": self.expr(rng.choice(["G", "Gt"]), d - 1), "b": self.expr("G", d - 1)}
            if c < 0.55:
                return {"op": "inv", "a": self.expr("G", d - 1)}
            if c < 0.7:
                return {"op": "retr", "a": self.expr("G", d - 1), "b": self.expr("At", d - 1)}
            if c < 0.8:
                return {"op": "mul", "a": self.expr("G", d - 1), "b": self.expr("Gt", d - 1)}
            return self.inp("G")
        if sort == "Gt":
            if c < 0.3:
                return {"op": "exp", "a": self.expr("At", d - 1)}
            if c < 0.5:
                return {"op": "mul", "a": self.expr("Gt", d - 1), "b": self.expr("Gt", d - 1)}
            if c < 0.65:
                return {"op": "inv", "a": self.expr("Gt", d - 1)}
            if c < 0.8:
                return {"op": "retr", "a": self.expr("Gt", d - 1), "b": self.expr("At", d - 1)}
            return self.inp("Gt")
        if sort == "A":
            if c < 0.4:
                return {"op": "adj", "a": self.expr("G", d - 1), "b": self.expr("A", d - 1)}
            if c < 0.75:
                return {"op": "adjT", "a": self.expr("G", d - 1), "b": self.expr("A", d - 1)}
            if c < 0.85:
                return self.expr("At", d)
            return self.inp("A")
        if sort == "At":
            if c < 0.3:
                return {"op": "log", "a": self.expr("Gt", d - 1)}
            if c < 0.5:
                return {"op": "adj", "a": self.expr("G", d - 1), "b": self.expr("At", d - 1)}
            if c < 0.7:
                return {"op": "adjT", "a": self.expr("G", d - 1), "b": self.expr("At", d - 1)}
            return self.inp("At")
        if sort == "V3":
            if c < 0.7:
                return {"op": "act3", "a": self.expr("G", d - 1), "b": self.expr("V3", d - 1)}
            return self.inp("V3")
        if sort == "V4":
            if c < 0.7:
                return {"op": "act4", "a": self.expr("G", d - 1), "b": self.expr("V4", d - 1)}
            return self.inp("V4")
        raise ValueError(sort)

    def program(self, d):
        c = self.rng.random()
        if c < 0.25:
            return {"op": "act3", "a": self.expr("G", d - 1), "b": self.expr("V3", d - 1)}
        if c < 0.4:
            return {"op": "act4", "a": self.expr("G", d - 1), "b": self.expr("V4", d - 1)}
        if c < 0.55:
            return {"op": "tensor", "a": {"op": "log", "a": self.expr("Gt", d - 1)}}
        if c < 0.7:
            return {"op": "tensor", "a": {"op": "adj", "a": self.expr("G", d - 1), "b": self.expr("A", d - 1)}}
        if c < 0.85:
            return {"op": "tensor", "a": {"op": "adjT", "a": self.expr("G", d - 1), "b": self.expr("A", d - 1)}}
        return {"op": "matrix", "a": self.expr("G", d - 1)}


def interp(pp, e, env):
    op = e["op"]
    if op == "in":
        return env[e["k"] - 1]
    a = interp(pp, e["a"], env)
    if op == "inv":
        return a.Inv()
    if op == "exp":
        return a.Exp()
    if op == "log":
        return a.Log()
    if op == "matrix":
        return a.matrix().reshape(-1)
    if op == "tensor":
        return a.tensor()
    b = interp(pp, e["b"], env)
    if op == "mul":
        return a @ b
    if op in ("act3", "act4"):
        return a.Act(b)
    if op == "adj":
        return a.Adj(b)
    if op == "adjT":
        return a.AdjT(b)
    if op == "retr":
        return a.Retr(b)
    raise ValueError(op)


def make_inputs(pp, torch, ty, kinds, vals, dtype):
    env = []
    for kind, v in zip(kinds, vals):
        t = torch.tensor(v, dtype=dtype)
        if kind == "G":
            x = pp.LieTensor(t, ltype=getattr(pp, ty + "_type")).requires_grad_(True)
        elif kind == "A":
            x = pp.LieTensor(t, ltype=getattr(pp, L.ALG[ty] + "_type")).requires_grad_(True)
        else:
            x = t.requires_grad_(True)
        env.append(x)
    return env


def jac_by(api, pp, torch, ty, prog, kinds, vals, dtype):
    """Jacobians (list per input of m x width lists) of the program by one of the autograd entry points."""
    env = make_inputs(pp, torch, ty, kinds, vals, dtype)
    used = sorted(set(_inputs(prog)))
    if api == "grad":
        y = interp(pp, prog, env)
        m = y.numel()
        yf = y.reshape(-1)
        J = [[None] * m for _ in env]
        for r in range(m):
            gs = torch.autograd.grad(yf[r], env, retain_graph=True, allow_unused=True)
            for k, g in enumerate(gs):
                J[k][r] = (torch.zeros_like(env[k]) if g is None else g).reshape(-1)
        return y, [torch.stack(j) for j in J]
    if api == "backward":
        y = interp(pp, prog, env)
        yf = y.reshape(-1)
        m = yf.numel()
        J = [[None] * m for _ in env]
        for r in range(m):
            for x in env:
                x.grad = None
            yf[r].backward(retain_graph=True)
            for k, x in enumerate(env):
                J[k][r] = (torch.zeros_like(x) if x.grad is None else x.grad.clone()).reshape(-1)
        return y, [torch.stack(j) for j in J]
    f = lambda *xs: interp(pp, prog, list(xs)).reshape(-1)
    if api == "functional":
        y = f(*env)
        Js = torch.autograd.functional.jacobian(f, tuple(env), vectorize=False)
        return y, [j.reshape(y.numel(), -1) for j in Js]
    if api == "functional_vec":
        y = f(*env)
        Js = torch.autograd.functional.jacobian(f, tuple(env), vectorize=True)
        return y, [j.reshape(y.numel(), -1) for j in Js]
    if api == "jacrev":
        y = f(*env)
        Js = pp.func.jacrev(f, argnums=tuple(range(len(env))))(*env)
        return y, [j.reshape(y.numel(), -1) for j in Js]
    if api == "modjac":
        class M(torch.nn.Module):
            def __init__(s):
                super().__init__()
                for k, x in enumerate(env):
                    setattr(s, "p%d" % k, pp.Parameter(x.detach().clone()) if isinstance(x, pp.LieTensor)
                            else torch.nn.Parameter(x.detach().clone()))

            def forward(s):
                return interp(pp, prog, [getattr(s, "p%d" % k) for k in range(len(env))]).reshape(-1)
        mod = M()
        y = mod()
        Js = pp.optim.functional.modjac(mod, input=None, vectorize=True, flatten=False)
        Js = Js if isinstance(Js, (tuple, list)) else [Js]
        names = [n for n, _ in mod.named_parameters()]
        out = [None] * len(env)
        for n, j in zip(names, Js):
            out[int(n[1:])] = j.reshape(y.numel(), -1)
        return y, out
    raise ValueError(api)


def _inputs(e):
    if e["op"] == "in":
        return [e["k"]]
    r = _inputs(e["a"])
    if "b" in e:
        r += _inputs(e["b"])
    return r


def depth(e):
    if e["op"] == "in":
        return 0
    return 1 + max(depth(e["a"]), depth(e["b"]) if "b" in e else 0)


def shape_of(e):
    if e["op"] == "in":
        return "x"
    return e["op"] + "(" + shape_of(e["a"]) + ("," + shape_of(e["b"]) if "b" in e else "") + ")"


APIS = ["grad", "backward", "functional", "functional_vec", "jacrev", "modjac"]


def exact_events(ctx, ty, dtype, nprog, maxd):
    import torch
    pp = pypose()
    rng = ctx.rng
    ev = []
    tries = 0
    while len(ev) < nprog and tries < nprog * 20:
        tries += 1
        g = Gen(rng, ty)
        g.sorts = []
        prog = g.program(rng.randint(1, maxd))
        used = set(_inputs(prog))
        if len(used) != len(g.vals):
            continue
        api = APIS[len(ev) % len(APIS)] if len(ev) >= len(APIS) else APIS[len(ev)]
        try:
            y, Js = jac_by(api, pp, torch, ty, prog, g.kinds, g.vals, dtype)
        except Exception as ex:  # a well-typed program must be differentiable by every entry point
            ev.append({"ty": ty, "prog": prog, "kinds": g.kinds, "vals": [[L.dy(v) for v in x] for x in g.vals],
                       "value": [], "jac": [], "finite": False, "api": api, "raised": repr(ex)[:300], "depth": depth(prog)})
            continue
        fin = bool(torch.isfinite(y).all() and all(torch.isfinite(j).all() for j in Js))
        ev.append({"ty": ty, "prog": prog, "kinds": g.kinds, "vals": [[L.dy(v) for v in x] for x in g.vals],
                   "value": L.dyvec(y), "jac": [[L.dyvec(row) for row in j] for j in Js], "finite": fin,
                   "api": api, "depth": depth(prog)})
    return ev


def judge(ctx, traces, verdicts, spec):
    for tr, v in zip(traces, verdicts):
        if v != "ok":
            clause, at = v.split("@")
            e = tr["ev"][int(at) - 1]
            if spec == "LieJacTrace":
                ops = sorted(set(_ops(e["prog"])))
                key = "exact/%s/%s/%s" % (e["ty"], clause, "+".join(ops))
                what = "%s api=%s program %s: clause %s%s" % (tr["cfg"].get("dtype"), e.get("api"), shape_of(e["prog"]), clause,
                                                              (" raised " + e["raised"]) if "raised" in e else "")
            else:
                key = "num/%s/%s/%s" % (e.get("ty"), clause, e.get("cell"))
                what = "%s: clause %s event=%s" % (tr["cfg"].get("dtype"), clause, json.dumps(e)[:500])
            ctx.violation(key, what, {"spec": spec, "trace": {"cfg": tr["cfg"], "ev": [e]}})


def _ops(e):
    if e["op"] == "in":
        return []
    return [e["op"]] + _ops(e["a"]) + (_ops(e["b"]) if "b" in e else [])


def run(ctx):
    import torch
    pypose()
    q = ctx.quick
    ctx.rule = ["TLC (LieJacMC): LieRing over dyadics = LieExact; per-operator left-perturbation Jacobians (Mul, Inv, Act, Adj, AdjT, "
                "Exp/Log first order) equal the dual-number derivation, for every lattice element",
                "Mode E: random well-typed programs (depth <= 4 quick / 6 thorough) over mul, inv, act3, act4, adj, adjT, retr, "
                "exp, log, matrix on lattice inputs; Jacobians from six autograd entry points validated exactly by TLC "
                "(LieJacTrace) incl. the zero slot; distinct = distinct program shape x type"]
    ctx.assumptions = ["exact fragment: Exp/Log/Retr nodes are evaluated where their series are finite (zero rotation and "
                       "log-scale part); generic Exp/Log/Jinvp nodes are covered by the Mode-R part",
                       "group-valued program outputs have no property-defined raw-coordinate Jacobian and are not generated"]
    if ctx.replay:
        case = json.load(open(ctx.replay))["case"]
        tr = case["trace"]
        judge(ctx, [tr], ctx.validate(case["spec"], case["spec"] + ".cfg", [tr], "replay"), case["spec"])
        return
    ctx.tlc_many([dict(module="LieJacMC", cfg="LieJacMC_%s%s.cfg" % (ty, "" if q else "_t"), workers=2, timeout=7200)
                  for ty in L.TYPES], parallel=4)
    for r in ctx.tlc_runs:
        if r["violated"]:
            ctx.violation("design/%s/%s" % (r["cfg"], r["violated"][0]), "LieJacMC violates %s" % r["violated"])
    traces = []
    for ty in L.TYPES:
        for dtype in (torch.float64, torch.float32):
            ev = exact_events(ctx, ty, dtype, 18 if q else 250, 4 if q else 6)
            for e in ev:
                ctx.cover("E:%s:%s" % (ty, shape_of(e["prog"])))
            for i in range(0, len(ev), 6):
                traces.append({"cfg": {"ty": ty, "dtype": str(dtype), "kind": "exact"}, "ev": ev[i:i + 6]})
    ctx.sample({"program": shape_of(traces[0]["ev"][0]["prog"]), "event": traces[0]["ev"][0]})
    ctx.extra["programs"] = sum(len(t["ev"]) for t in traces)
    ctx.extra["max_depth"] = max(e["depth"] for t in traces for e in t["ev"])
    judge(ctx, traces, ctx.validate("LieJacTrace", "LieJacTrace.cfg", traces, "jac", chunk=2000, workers=16), "LieJacTrace")


def selftest(ctx):
    import torch
    pypose()
    ev = exact_events(ctx, "SE3", torch.float64, 3, 3)
    good = {"cfg": {"kind": "exact"}, "ev": ev}
    bad = json.loads(json.dumps(good))
    row = bad["ev"][0]["jac"][0][0]
    row[0] = [row[0][0] + 1, row[0][1]]
    bad2 = json.loads(json.dumps(good))
    bad2["ev"][0]["jac"][0] = bad2["ev"][0]["jac"][0][1:]
    v = ctx.validate("LieJacTrace", "LieJacTrace.cfg", [good, bad, bad2], "selftest")
    print("selftest verdicts:", v)
    assert v[0] == "ok" and v[1] != "ok" and v[2] != "ok"
    return 0
