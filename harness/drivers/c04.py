"""C04 — autograd through LieTensor ops gives exact left-perturbation Jacobians.
Mode E: LieJac.tla (dual numbers over dyadics), LieJacMC.tla (design), LieJacTrace.tla (exact validation).
Mode R: programs with generic Exp / Log / Jinvp nodes against 60-digit finite differences (LieNumTrace)."""
import json
import math

from vlib.core import MachineryError, pypose
from vlib import lattice as L


# ------------------------------------------------------------------ typed program generator (exact fragment)
class Gen:
    """Random well-typed programs over {mul, inv, act3, act4, adj, adjT, retr, exp, log, matrix}.
    Sorts: G group, Gt group with identity rotation and unit scale, A algebra, At algebra with zero
    rotation / log-scale part (Exp, Log, Retr are finite series there), V3, V4."""

    def __init__(self, rng, ty):
        self.rng, self.ty = rng, ty
        self.kinds, self.vals = [], []

    def inp(self, sort):
        rng, ty = self.rng, self.ty
        # reuse an existing input of the same sort now and then (gradient accumulation)
        same = [k for k, s in enumerate(self.sorts) if s == sort] if hasattr(self, "sorts") else []
        if same and rng.random() < 0.3:
            return {"op": "in", "k": rng.choice(same) + 1}
        if not hasattr(self, "sorts"):
            self.sorts = []
        if sort == "G":
            v, kind = L.rand_elem(rng, ty, tbox=2, sbox=1), "G"
        elif sort == "Gt":
            t = [float(rng.randint(-2, 2)) for _ in range(3)]
            q = [0.0, 0.0, 0.0, rng.choice([1.0, 1.0, -1.0])]
            v, kind = {"SO3": q, "SE3": t + q, "RxSO3": q + [1.0], "Sim3": t + q + [1.0]}[ty], "G"
        elif sort == "A":
            v, kind = L.rand_alg(rng, ty, box=2), "A"
        elif sort == "At":
            v, kind = L.rand_alg(rng, ty, box=2, pure_trans=True), "A"
        elif sort == "V3":
            v, kind = [float(rng.randint(-3, 3)) for _ in range(3)], "V"
        else:
            v, kind = [float(rng.randint(-3, 3)) for _ in range(3)] + [float(rng.choice([0, 1, 1, -1, 2]))], "V"
        self.kinds.append(kind)
        self.vals.append(v)
        self.sorts.append(sort)
        return {"op": "in", "k": len(self.vals)}

    def expr(self, sort, d):
        rng = self.rng
        if d <= 0:
            return self.inp(sort)
        c = rng.random()
        if sort == "G":
            if c < 0.35:
                return {"op": "mul", "a": self.expr(rng.choice(["G", "Gt"]), d - 1), "b": self.expr("G", d - 1)}
            if c < 0.55:
                return {"op": "inv", "a": self.expr("G", d - 1)}
            if c < 0.7:
                return {"op": "retr", "a": self.expr("G", d - 1), "b": self.expr("At", d - 1)}
            if c < 0.8:
                return {"op": "mul", "a": self.expr("G", d - 1), "b": self.expr("Gt", d - 1)}
            return self.inp("G")
        if sort == "Gt":
            if c < 0.3:
                return {"op": "exp", "a": self.expr("At", d - 1)}
            if c < 0.5:
                return {"op": "mul", "a": self.expr("Gt", d - 1), "b": self.expr("Gt", d - 1)}
            if c < 0.65:
                return {"op": "inv", "a": self.expr("Gt", d - 1)}
            if c < 0.8:
                return {"op": "retr", "a": self.expr("Gt", d - 1), "b": self.expr("At", d - 1)}
            return self.inp("Gt")
        if sort == "A":
            if c < 0.4:
                return {"op": "adj", "a": self.expr("G", d - 1), "b": self.expr("A", d - 1)}
            if c < 0.75:
                return {"op": "adjT", "a": self.expr("G", d - 1), "b": self.expr("A", d - 1)}
            if c < 0.85:
                return self.expr("At", d)
            return self.inp("A")
        if sort == "At":
            if c < 0.3:
                return {"op": "log", "a": self.expr("Gt", d - 1)}
            if c < 0.5:
                return {"op": "adj", "a": self.expr("G", d - 1), "b": self.expr("At", d - 1)}
            if c < 0.7:
                return {"op": "adjT", "a": self.expr("G", d - 1), "b": self.expr("At", d - 1)}
            return self.inp("At")
        if sort == "V3":
            if c < 0.55:
                return {"op": "act3", "a": self.expr("G", d - 1), "b": self.expr("V3", d - 1)}
            if c < 0.75:      # sum of two vectors: the two branches receive the same cotangent tensor in backward
                return {"op": "vadd", "a": self.expr("V3", d - 1), "b": self.expr("V3", d - 1)}
            return self.inp("V3")
        if sort == "V4":
            if c < 0.55:
                return {"op": "act4", "a": self.expr("G", d - 1), "b": self.expr("V4", d - 1)}
            if c < 0.75:
                return {"op": "vadd", "a": self.expr("V4", d - 1), "b": self.expr("V4", d - 1)}
            return self.inp("V4")
        raise ValueError(sort)

    def program(self, d):
        c = self.rng.random()
        if c < 0.07:          # X.Act(p) + Y.Act(q): both action nodes are handed one cotangent tensor
            return {"op": "vadd", "a": {"op": "act3", "a": self.expr("G", d - 1), "b": self.expr("V3", d - 1)},
                    "b": {"op": "act3", "a": self.expr("G", d - 1), "b": self.expr("V3", d - 1)}}
        if c < 0.12:
            return {"op": "vadd", "a": {"op": "act4", "a": self.expr("G", d - 1), "b": self.expr("V4", d - 1)},
                    "b": {"op": "act4", "a": self.expr("G", d - 1), "b": self.expr("V4", d - 1)}}
        if c < 0.25:
            return {"op": "act3", "a": self.expr("G", d - 1), "b": self.expr("V3", d - 1)}
        if c < 0.4:
            return {"op": "act4", "a": self.expr("G", d - 1), "b": self.expr("V4", d - 1)}
        if c < 0.55:
            return {"op": "tensor", "a": {"op": "log", "a": self.expr("Gt", d - 1)}}
        if c < 0.7:
            return {"op": "tensor", "a": {"op": "adj", "a": self.expr("G", d - 1), "b": self.expr("A", d - 1)}}
        if c < 0.85:
            return {"op": "tensor", "a": {"op": "adjT", "a": self.expr("G", d - 1), "b": self.expr("A", d - 1)}}
        return {"op": "matrix", "a": self.expr("G", d - 1)}


def interp(pp, e, env):
    op = e["op"]
    if op == "in":
        return env[e["k"] - 1]
    a = interp(pp, e["a"], env)
    if op == "inv":
        return a.Inv()
    if op == "exp":
        return a.Exp()
    if op == "log":
        return a.Log()
    if op == "matrix":
        return a.matrix().reshape(-1)
    if op in ("tensor", "gtensor"):
        return a.tensor()
    b = interp(pp, e["b"], env)
    if op == "mul":
        return a @ b
    if op in ("act3", "act4"):
        return a.Act(b)
    if op == "vadd":
        return a + b
    if op == "adj":
        return a.Adj(b)
    if op == "adjT":
        return a.AdjT(b)
    if op == "retr":
        return a.Retr(b)
    raise ValueError(op)


def make_inputs(pp, torch, ty, kinds, vals, dtype):
    env = []
    for kind, v in zip(kinds, vals):
        t = torch.tensor(v, dtype=dtype)
        if kind == "G":
            x = pp.LieTensor(t, ltype=getattr(pp, ty + "_type")).requires_grad_(True)
        elif kind == "A":
            x = pp.LieTensor(t, ltype=getattr(pp, L.ALG[ty] + "_type")).requires_grad_(True)
        else:
            x = t.requires_grad_(True)
        env.append(x)
    return env


def jac_by(api, pp, torch, ty, prog, kinds, vals, dtype, frozen=()):
    """Jacobians (list per input of m x width lists) of the program by one of the autograd entry points.
    frozen: indices of inputs that are constants (requires_grad False); their entry of the result is None."""
    env = make_inputs(pp, torch, ty, kinds, vals, dtype)
    for k in frozen:
        env[k].requires_grad_(False)
    live = [k for k in range(len(env)) if k not in frozen]
    used = sorted(set(_inputs(prog)))
    if api == "grad":
        y = interp(pp, prog, env)
        m = y.numel()
        yf = y.reshape(-1)
        J = [[None] * m for _ in env]
        for r in range(m):
            gs = torch.autograd.grad(yf[r], [env[k] for k in live], retain_graph=True, allow_unused=True)
            for k, g in zip(live, gs):
                J[k][r] = (torch.zeros_like(env[k]) if g is None else g).reshape(-1)
        return y, [torch.stack(J[k]) if k in live else None for k in range(len(env))]
    if api == "backward":
        y = interp(pp, prog, env)
        yf = y.reshape(-1)
        m = yf.numel()
        J = [[None] * m for _ in env]
        for r in range(m):
            for x in env:
                x.grad = None
            yf[r].backward(retain_graph=True)
            for k in live:
                x = env[k]
                J[k][r] = (torch.zeros_like(x) if x.grad is None else x.grad.clone()).reshape(-1)
        return y, [torch.stack(J[k]) if k in live else None for k in range(len(env))]
    if frozen and api == "jacrev":
        f2 = lambda *xs: interp(pp, prog, [xs[live.index(k)] if k in live else env[k] for k in range(len(env))]).reshape(-1)
        y = f2(*[env[k] for k in live])
        Js = pp.func.jacrev(f2, argnums=tuple(range(len(live))))(*[env[k] for k in live])
        out = [None] * len(env)
        for k, j in zip(live, Js):
            out[k] = j.reshape(y.numel(), -1)
        return y, out
    if frozen:
        raise ValueError("frozen inputs are only used with grad / backward / jacrev")
    f = lambda *xs: interp(pp, prog, list(xs)).reshape(-1)
    if api == "functional":
        y = f(*env)
        Js = torch.autograd.functional.jacobian(f, tuple(env), vectorize=False)
        return y, [j.reshape(y.numel(), -1) for j in Js]
    if api == "functional_vec":
        y = f(*env)
        Js = torch.autograd.functional.jacobian(f, tuple(env), vectorize=True)
        return y, [j.reshape(y.numel(), -1) for j in Js]
    if api == "jacrev":
        y = f(*env)
        Js = pp.func.jacrev(f, argnums=tuple(range(len(env))))(*env)
        return y, [j.reshape(y.numel(), -1) for j in Js]
    if api == "modjac":
        class M(torch.nn.Module):
            def __init__(s):
                super().__init__()
                for k, x in enumerate(env):
                    setattr(s, "p%d" % k, pp.Parameter(x.detach().clone()) if isinstance(x, pp.LieTensor)
                            else torch.nn.Parameter(x.detach().clone()))

            def forward(s):
                return interp(pp, prog, [getattr(s, "p%d" % k) for k in range(len(env))]).reshape(-1)
        mod = M()
        y = mod()
        Js = pp.optim.functional.modjac(mod, input=None, vectorize=True, flatten=False)
        Js = Js if isinstance(Js, (tuple, list)) else [Js]
        names = [n for n, _ in mod.named_parameters()]
        out = [None] * len(env)
        for n, j in zip(names, Js):
            out[int(n[1:])] = j.reshape(y.numel(), -1)
        return y, out
    raise ValueError(api)


def _inputs(e):
    if e["op"] == "in":
        return [e["k"]]
    r = _inputs(e["a"])
    if "b" in e:
        r += _inputs(e["b"])
    return r


def depth(e):
    if e["op"] == "in":
        return 0
    return 1 + max(depth(e["a"]), depth(e["b"]) if "b" in e else 0)


def shape_of(e):
    if e["op"] == "in":
        return "x"
    return e["op"] + "(" + shape_of(e["a"]) + ("," + shape_of(e["b"]) if "b" in e else "") + ")"


APIS = ["grad", "backward", "functional", "functional_vec", "jacrev", "modjac"]


def exact_events(ctx, ty, dtype, nprog, maxd):
    import torch
    pp = pypose()
    rng = ctx.rng
    ev = []
    tries = 0
    nbase = 0
    while nbase < nprog and tries < nprog * 20:
        tries += 1
        g = Gen(rng, ty)
        g.sorts = []
        prog = g.program(rng.randint(1, maxd))
        used = set(_inputs(prog))
        if len(used) != len(g.vals):
            continue
        api = APIS[nbase % len(APIS)]
        nbase += 1
        try:
            y, Js = jac_by(api, pp, torch, ty, prog, g.kinds, g.vals, dtype)
        except Exception as ex:  # a well-typed program must be differentiable by every entry point
            ev.append({"ty": ty, "prog": prog, "kinds": g.kinds, "vals": [[L.dy(v) for v in x] for x in g.vals],
                       "value": [], "jac": [], "finite": False, "api": api, "raised": repr(ex)[:300], "depth": depth(prog),
                       "zero_only": False, "skip": []})
            continue
        fin = bool(torch.isfinite(y).all() and all(torch.isfinite(j).all() for j in Js))
        ev.append({"ty": ty, "prog": prog, "kinds": g.kinds, "vals": [[L.dy(v) for v in x] for x in g.vals],
                   "value": L.dyvec(y), "jac": [[L.dyvec(row) for row in j] for j in Js], "finite": fin,
                   "api": api, "depth": depth(prog), "zero_only": False, "skip": []})
        # the same program with some inputs held constant (requires_grad False): the Jacobians of the others are unchanged
        if len(g.vals) >= 2 and nbase % 2 == 0:
            fz = tuple(sorted(rng.sample(range(len(g.vals)), rng.randint(1, len(g.vals) - 1))))
            api2 = ["grad", "backward", "jacrev"][(nbase // 2) % 3]
            try:
                y2, Js2 = jac_by(api2, pp, torch, ty, prog, g.kinds, g.vals, dtype, frozen=fz)
                fin2 = bool(torch.isfinite(y2).all() and all(torch.isfinite(j).all() for j in Js2 if j is not None))
                ev.append({"ty": ty, "prog": prog, "kinds": g.kinds, "vals": [[L.dy(v) for v in x] for x in g.vals],
                           "value": L.dyvec(y2), "jac": [[L.dyvec(row) for row in j] if j is not None else [] for j in Js2],
                           "finite": fin2, "api": api2 + "/const", "depth": depth(prog), "zero_only": False,
                           "skip": [k + 1 for k in fz]})
            except Exception as ex:
                ev.append({"ty": ty, "prog": prog, "kinds": g.kinds, "vals": [[L.dy(v) for v in x] for x in g.vals],
                           "value": [], "jac": [], "finite": False, "api": api2 + "/const", "raised": repr(ex)[:300],
                           "depth": depth(prog), "zero_only": False, "skip": [k + 1 for k in fz]})
    # group-valued outputs (raw coordinates, every unit cotangent incl. the last coordinate): only the zero slot.
    # First every group-valued operator at the ROOT with input leaves as operands (the upstream cotangent then reaches the
    # operator's own backward with a non-zero entry in the extra slot), then random programs.
    def fixed_roots():
        out = []
        for shape in ("mul", "mul_chain", "inv", "retr", "mul_inv"):
            g = Gen(rng, ty)
            g.sorts = []
            X, Y = g.inp("G"), None
            if shape == "mul":
                body = {"op": "mul", "a": X, "b": g.inp("G")}
            elif shape == "mul_chain":
                body = {"op": "mul", "a": {"op": "mul", "a": X, "b": g.inp("G")}, "b": g.inp("G")}
            elif shape == "inv":
                body = {"op": "inv", "a": X}
            elif shape == "retr":
                body = {"op": "retr", "a": X, "b": g.inp("At")}
            else:
                body = {"op": "mul", "a": X, "b": {"op": "inv", "a": g.inp("G")}}
            out.append((g, {"op": "gtensor", "a": body}))
        return out

    rootprogs = fixed_roots()
    for k in range(len(rootprogs) + max(2, nprog // 4)):
        if k < len(rootprogs):
            g, prog = rootprogs[k]
        else:
            g = Gen(rng, ty)
            g.sorts = []
            prog = {"op": "gtensor", "a": g.expr("G", rng.randint(1, maxd - 1))}
        if len(set(_inputs(prog))) != len(g.vals) or "G" not in g.kinds or prog["a"]["op"] == "in":
            continue      # (the raw coordinates of an input itself are plain tensor autograd, no Lie operator involved)
        api = ["grad", "backward", "functional", "jacrev"][k % 4]
        try:
            y, Js = jac_by(api, pp, torch, ty, prog, g.kinds, g.vals, dtype)
            fin = bool(torch.isfinite(y).all() and all(torch.isfinite(j).all() for j in Js))
            jac = [[L.dyvec(row) for row in j] for j in Js]
        except Exception as ex:
            fin, jac, y = False, [[] for _ in g.vals], None
        ev.append({"ty": ty, "prog": prog, "kinds": g.kinds, "vals": [[L.dy(v) for v in x] for x in g.vals],
                   "value": [], "jac": jac, "finite": fin, "api": api, "depth": depth(prog), "zero_only": True, "skip": []})
    return ev


# ------------------------------------------------------------------ Mode R: Exp / Log nodes at generic points
def rand_dir(rng, n):
    v = [rng.gauss(0, 1) for _ in range(n)]
    s = math.sqrt(sum(x * x for x in v)) or 1.0
    return [x / s for x in v]


def num_events(ctx, ty, dtype):
    """Autograd Jacobians of  Act(Exp(x), p),  Log(X)  and  Log(Exp(x) @ Y)  at evaluation points of every
    magnitude class (identity / zero, tiny, inside the small-angle window, generic, large rotation away from pi)
    against central finite differences of the defining matrix exponential / logarithm in 60-digit arithmetic."""
    import torch
    import mpmath as mp
    from vlib import refsem as R
    pp = pypose()
    rng = ctx.rng
    q = ctx.quick
    eps = mp.mpf(float(torch.finfo(dtype).eps))
    dt = "f64" if dtype == torch.float64 else "f32"
    unit = eps
    n = L.ADIM[ty]
    rots = [0.0, 1e-6, 2e-3, 0.1, 2.5] if q else [0.0, 1e-12, 1e-6, 1e-3, 2e-3, 3e-3, 0.1, 1.0, 2.5]
    if ty == "Sim3":      # keep |ad xi| moderate so that the documented truncation allowance stays meaningful
        tras, sigs = ([0.0, 0.3] if q else [0.0, 1e-3, 0.3]), [0.0, 0.3]
        rots = [r for r in rots if r <= 1.0]
    else:
        tras = ([0.0, 5.0] if q else [0.0, 1e-3, 1.0, 30.0]) if ty == "SE3" else [0.0]
        sigs = [0.0, 0.5] if ty == "RxSO3" else [0.0]
    cells = [(r, t, s) for r in rots for t in tras for s in sigs]
    if dt == "f32":
        cells = cells[::2]
    h = mp.mpf(10) ** -20
    ev = []

    def alg(cell):
        r, t, s = cell
        phi = [r * d for d in rand_dir(rng, 3)]
        tau = [t * d for d in rand_dir(rng, 3)]
        return {"SO3": phi, "SE3": tau + phi, "RxSO3": phi + [s], "Sim3": tau + phi + [s]}[ty]

    def rows_of(y, leaf):
        out = []
        yf = y.reshape(-1)
        for r in range(yf.numel()):
            g, = torch.autograd.grad(yf[r], leaf, retain_graph=True)
            out.append(g.reshape(-1).tolist())
        return out

    def allow_for(xi_alg, denom, scale):
        if ty != "Sim3":
            return 0
        return int(min(mp.ceil(4 * R.ad_norm6(ty, xi_alg) / denom / scale / unit), R.CAP))

    def emit(chk, got, ref, cell, allow, zero_ok=True, x=None):
        # got / ref: lists of rows; relative to the largest reference entry
        flat_r = [v for row in ref for v in row]
        flat_g = [v for row in got for v in row]
        fin = all(math.isfinite(v) for v in flat_g)
        scale = max(max(abs(v) for v in flat_r), mp.mpf(10) ** -290)
        err = R.CAP if not fin else int(min(mp.ceil(max(abs(mp.mpf(a) - b) for a, b in zip(flat_g, flat_r)) / scale / unit), R.CAP))
        ev.append({"chk": chk, "ty": ty, "dt": dt, "err": err, "finite": fin, "allow": allow,
                   "cell": {"rot": cell[0], "trans": cell[1], "sigma": cell[2]}, "x": x, "a": []})
        if not zero_ok:
            ev.append({"chk": "grad_zero_slot", "ty": ty, "dt": dt, "err": 1, "finite": fin, "allow": 0,
                       "cell": {"rot": cell[0], "trans": cell[1], "sigma": cell[2]}, "x": x, "a": []})

    single1, single2 = [], []        # (cell, inputs, unbatched Jacobian) of P1 / P2, re-evaluated as ONE batched call below
    for cell in cells:
        xv = alg(cell)
        # ---- P1: Act(Exp(x), p) w.r.t. the algebra input x (ordinary Jacobian)
        x = L.mkalg(ty, xv, dtype).requires_grad_(True)
        pv = [float(rng.randint(-2, 2)) or 1.0 for _ in range(3)]
        p = torch.tensor(pv, dtype=dtype)
        got = rows_of(x.Exp().Act(p), x)                       # 3 x n
        single1.append((cell, xv, pv, got))
        xf = x.tensor().detach().tolist()
        ph = mp.matrix(pv + [1.0])
        ref_cols = []
        for i in range(n):
            xp, xm = [mp.mpf(v) for v in xf], [mp.mpf(v) for v in xf]
            xp[i] += h
            xm[i] -= h
            d = (R.exp_ref(ty, xp) * ph - R.exp_ref(ty, xm) * ph) / (2 * h)
            ref_cols.append([d[0], d[1], d[2]])
        ref = [[ref_cols[i][r] for i in range(n)] for r in range(3)]
        scale1 = max(max(abs(v) for row in ref for v in row), mp.mpf(10) ** -290)
        emit("grad_exp_act", got, ref, cell, allow_for(xf, 5040, scale1) , x=xf)
        # ---- P2: Log(X) w.r.t. a left perturbation of the group input X
        Xv = L.mkalg(ty, xv, dtype).Exp().tensor().detach()
        X = pp.LieTensor(Xv.clone(), ltype=getattr(pp, ty + "_type")).requires_grad_(True)
        rows = rows_of(X.Log().tensor(), X)                   # n x (n + 1)
        got = [row[:n] for row in rows]
        zero_ok = all(row[n] == 0 for row in rows) and all(len(row) == n + 1 for row in rows)
        Xl = Xv.tolist()
        single2.append((cell, Xl, rows))
        cols = []
        for i in range(n):
            e = [0.0] * n
            e[i] = 1.0
            cols.append(R.jlinv_fd(ty, Xl, e))
        ref = [[cols[i][r] for i in range(n)] for r in range(n)]
        scale2 = max(max(abs(v) for row in ref for v in row), mp.mpf(10) ** -290)
        xi_log = R.log_ref(ty, R.mat_of(ty, Xl)) if ty == "Sim3" else None
        emit("grad_log", got, ref, cell, allow_for(xi_log, 30240, scale2), zero_ok=zero_ok, x=Xl)
        # ---- P3: Log(Exp(x) @ Y) w.r.t. x
        if not q or cell[0] in (0.0, 2e-3, 2.5):
            # Y: rotation by 2 pi / 3 (|w| = 1/2) so that Exp(x) @ Y stays away from the cut of Log at pi
            off_q = {"SO3": 0, "SE3": 3, "RxSO3": 0, "Sim3": 3}[ty]
            while True:
                yv = L.rand_elem(rng, ty, tbox=1, sbox=0)
                if abs(yv[off_q + 3]) == 0.5:
                    break
            Y = L.mk(ty, yv, dtype)
            x = L.mkalg(ty, xv, dtype).requires_grad_(True)
            zq = (x.Exp() @ Y).tensor().detach()[off_q:off_q + 4]
            ang = 2 * math.atan2(float(zq[:3].norm()), abs(float(zq[3])))
            if ang > math.pi - 0.2:
                continue
            got = rows_of((x.Exp() @ Y).Log().tensor(), x)       # n x n
            My = R.mat_of(ty, Y.tensor().tolist())
            cols = []
            for i in range(n):
                xp, xm = [mp.mpf(v) for v in xf], [mp.mpf(v) for v in xf]
                xp[i] += h
                xm[i] -= h
                lp = R.log_ref(ty, R.exp_ref(ty, xp) * My)
                lm = R.log_ref(ty, R.exp_ref(ty, xm) * My)
                cols.append([(a - b) / (2 * h) for a, b in zip(lp, lm)])
            ref = [[cols[i][r] for i in range(n)] for r in range(n)]
            scale3 = max(max(abs(v) for row in ref for v in row), mp.mpf(10) ** -290)
            zl = R.log_ref(ty, R.exp_ref(ty, xf) * My) if ty == "Sim3" else None
            a3 = 0 if ty != "Sim3" else min(R.CAP, allow_for(xf, 5040, scale3) + allow_for(zl, 30240, scale3))
            emit("grad_logexp", got, ref, cell, a3, x=xf)
    # ---- batched evaluation: all cells (identity, tiny, generic, large rotations mixed) in ONE call; the items of a batch are
    # independent, so row r of item i's Jacobian is the gradient of sum_i y[i, r] - it must equal the item evaluated alone
    def batched(chk_rows, singles):
        for i, (cell, xin, alone) in enumerate(singles):
            rows_b = [row[i] for row in chk_rows]
            flat_a = [v for row in alone for v in row]
            flat_b = [v for row in rows_b for v in row]
            fin = all(math.isfinite(v) for v in flat_b) and len(flat_a) == len(flat_b)
            scale = max(max(abs(v) for v in flat_a), 1e-290)
            err = R.CAP if not fin else int(min(math.ceil(max(abs(a - b) for a, b in zip(flat_a, flat_b)) / scale / eps_f), R.CAP))
            ev.append({"chk": "grad_batched", "ty": ty, "dt": dt, "err": err, "finite": fin, "allow": 0,
                       "cell": {"rot": cell[0], "trans": cell[1], "sigma": cell[2]}, "x": xin, "a": []})

    eps_f = float(torch.finfo(dtype).eps)
    if len(single1) > 1:
        xb = L.mkalg(ty, [s_[1] for s_ in single1], dtype).requires_grad_(True)
        pb = torch.tensor([s_[2] for s_ in single1], dtype=dtype)
        yb = xb.Exp().Act(pb)
        rows_b = [torch.autograd.grad(yb[:, r].sum(), xb, retain_graph=True)[0].tolist() for r in range(3)]
        batched(rows_b, [(c, xv_, g) for c, xv_, _, g in single1])
        Xb = pp.LieTensor(torch.tensor([s_[1] for s_ in single2], dtype=dtype), ltype=getattr(pp, ty + "_type")).requires_grad_(True)
        lb = Xb.Log().tensor()
        rows_b = [torch.autograd.grad(lb[:, r].sum(), Xb, retain_graph=True)[0].tolist() for r in range(n)]
        batched(rows_b, single2)
    # ---- P4: Jinvp(X, p) away from the zero rotation, w.r.t. X (left perturbation) and p.  Sim3 is left out: its Jinvp is a
    # documented truncated series and the property gives no bound for the derivative of the truncation.
    if ty != "Sim3":
        h2 = mp.mpf(10) ** -10
        for r in ([0.3, 2.4] if q else [0.3, 1.1, 2.4]):
            for t in (tras if ty == "SE3" else [0.0]):
                cell = (r, t, sigs[-1])
                xv = alg(cell)
                Xv = L.mkalg(ty, xv, dtype).Exp().tensor().detach()
                X = pp.LieTensor(Xv.clone(), ltype=getattr(pp, ty + "_type")).requires_grad_(True)
                pv = rand_dir(rng, n)
                p = L.mkalg(ty, pv, dtype).requires_grad_(True)
                y = X.Jinvp(p).tensor()
                rx = rows_of(y, X)
                rp = rows_of(y, p)
                zero_ok = all(row[n] == 0 for row in rx)
                M = R.mat_of(ty, Xv.tolist())
                pf = p.tensor().detach().tolist()
                colsX, colsP = [], []
                for i in range(n):
                    e = [0.0] * n
                    e[i] = 1.0
                    Ep, Em = mp.expm(h2 * R.hat4(ty, e), method="taylor"), mp.expm(-h2 * R.hat4(ty, e), method="taylor")
                    fp, fm = R.jlinv_fd_mat(ty, Ep * M, pf), R.jlinv_fd_mat(ty, Em * M, pf)
                    colsX.append([(a - b) / (2 * h2) for a, b in zip(fp, fm)])
                    colsP.append(R.jlinv_fd_mat(ty, M, e))
                refX = [[colsX[i][k] for i in range(n)] for k in range(n)]
                refP = [[colsP[i][k] for i in range(n)] for k in range(n)]
                emit("grad_jinvp_X", [row[:n] for row in rx], refX, cell, 0, zero_ok=zero_ok, x=Xv.tolist())
                emit("grad_jinvp_p", rp, refP, cell, 0, x=Xv.tolist())
    return ev


class _MiniCtx:
    def __init__(self, seed, quick):
        import random
        self.rng, self.quick, self.seed = random.Random(seed), quick, seed


def _num_worker(args):
    import torch
    ty, dts, seed, quick = args
    pypose()
    return num_events(_MiniCtx(seed, quick), ty, torch.float64 if dts == "f64" else torch.float32)


def judge(ctx, traces, verdicts, spec):
    for tr, v in zip(traces, verdicts):
        if v != "ok":
            clause, at = v.split("@")
            e = tr["ev"][int(at) - 1]
            if spec == "LieJacTrace":
                ops = sorted(set(_ops(e["prog"])))
                key = "exact/%s/%s/%s" % (e["ty"], clause, "+".join(ops))
                what = "%s api=%s program %s: clause %s%s" % (tr["cfg"].get("dtype"), e.get("api"), shape_of(e["prog"]), clause,
                                                              (" raised " + e["raised"]) if "raised" in e else "")
            else:
                key = "num/%s/%s/%s" % (e.get("ty"), clause, e.get("cell"))
                what = "%s: clause %s event=%s" % (tr["cfg"].get("dtype"), clause, json.dumps(e)[:500])
            ctx.violation(key, what, {"spec": spec, "trace": {"cfg": tr["cfg"], "ev": [e]}})


def _ops(e):
    if e["op"] == "in":
        return []
    return [e["op"]] + _ops(e["a"]) + (_ops(e["b"]) if "b" in e else [])


def run(ctx):
    import torch
    pypose()
    q = ctx.quick
    ctx.rule = ["TLC (LieJacMC): LieRing over dyadics = LieExact; per-operator left-perturbation Jacobians (Mul, Inv, Act, Adj, AdjT, "
                "Exp/Log first order) equal the dual-number derivation, for every lattice element",
                "Mode E: random well-typed programs (depth <= 4 quick / 6 thorough) over mul, inv, act3, act4, adj, adjT, retr, "
                "exp, log, matrix on lattice inputs; Jacobians from six autograd entry points validated exactly by TLC "
                "(LieJacTrace) incl. the zero slot; distinct = distinct program shape x type",
                "Mode R: autograd Jacobians of Act(Exp(x), p), Log(X) (left perturbation) and Log(Exp(x) @ Y) at evaluation points "
                "of every magnitude class (zero/identity, tiny, inside the small-angle window, generic, large rotation away from pi; "
                "translations to 30) vs central finite differences of expm/logm in 60-digit arithmetic; judged by LieNumTrace "
                "(4 sqrt(eps); Sim3 with the documented truncation allowances |ad xi|^6/5040 and /30240)"]
    ctx.assumptions = ["exact fragment: Exp/Log/Retr nodes are evaluated where their series are finite (zero rotation and "
                       "log-scale part); generic Exp/Log/Jinvp nodes are covered by the Mode-R part",
                       "group-valued program outputs have no property-defined raw-coordinate Jacobian and are not generated"]
    if ctx.replay:
        case = json.load(open(ctx.replay))["case"]
        tr = case["trace"]
        judge(ctx, [tr], ctx.validate(case["spec"], case["spec"] + ".cfg", [tr], "replay"), case["spec"])
        return
    # the Mode-R measurements (pure-Python 60-digit arithmetic) run in worker processes while TLC works
    import multiprocessing as mpc
    jobs = [(ty, dts, ctx.seed * 100 + 7 * i + j, q) for i, ty in enumerate(L.TYPES) for j, dts in enumerate(("f64", "f32"))]
    pool = mpc.get_context("fork").Pool(8)
    pending = pool.map_async(_num_worker, jobs)
    ctx.tlc_many([dict(module="LieJacMC", cfg="LieJacMC_%s%s.cfg" % (ty, "" if q else "_t"), workers=2, timeout=7200)
                  for ty in L.TYPES], parallel=4)
    for r in ctx.tlc_runs:
        if r["violated"]:
            ctx.violation("design/%s/%s" % (r["cfg"], r["violated"][0]), "LieJacMC violates %s" % r["violated"])
    traces = []
    for ty in L.TYPES:
        for dtype in (torch.float64, torch.float32):
            ev = exact_events(ctx, ty, dtype, 18 if q else 250, 4 if q else 6)
            for e in ev:
                ctx.cover("E:%s:%s" % (ty, shape_of(e["prog"])))
            for i in range(0, len(ev), 6):
                traces.append({"cfg": {"ty": ty, "dtype": str(dtype), "kind": "exact"}, "ev": ev[i:i + 6]})
    ctx.sample({"program": shape_of(traces[0]["ev"][0]["prog"]), "event": traces[0]["ev"][0]})
    ctx.extra["programs"] = sum(len(t["ev"]) for t in traces)
    ctx.extra["max_depth"] = max(e["depth"] for t in traces for e in t["ev"])
    judge(ctx, traces, ctx.validate("LieJacTrace", "LieJacTrace.cfg", traces, "jac", chunk=12, parallel=8), "LieJacTrace")
    # Mode R: generic evaluation points of Exp / Log nodes
    ntr = []
    worst = {}
    results = pending.get(timeout=7200)
    pool.close()
    for (ty, dts, _, _), nev in zip(jobs, results):
        dtype = torch.float64 if dts == "f64" else torch.float32
        if True:
            for e in nev:
                ctx.cover("R:%s:%s:%s:%s" % (e["chk"], ty, e["dt"], e["cell"]))
                k = "%s/%s/%s" % (e["chk"], ty, e["dt"])
                worst[k] = max(worst.get(k, 0), e["err"] - e["allow"])
            for i in range(0, len(nev), 20):
                ntr.append({"cfg": {"ty": ty, "dtype": str(dtype), "kind": "num"}, "ev": nev[i:i + 20]})
    ctx.extra["numeric_events"] = sum(len(t["ev"]) for t in ntr)
    ctx.extra["worst_err_minus_allowance_eps_units"] = worst
    ctx.sample(ntr[0]["ev"][0])
    judge(ctx, ntr, ctx.validate("LieNumTrace", "LieNumTrace.cfg", ntr, "gradnum", chunk=4000), "LieNumTrace")


def selftest(ctx):
    import torch
    pypose()
    ev = exact_events(ctx, "SE3", torch.float64, 3, 3)
    good = {"cfg": {"kind": "exact"}, "ev": ev}
    bad = json.loads(json.dumps(good))
    row = bad["ev"][0]["jac"][0][0]
    row[0] = [row[0][0] + 1, row[0][1]]
    bad2 = json.loads(json.dumps(good))
    bad2["ev"][0]["jac"][0] = bad2["ev"][0]["jac"][0][1:]
    v = ctx.validate("LieJacTrace", "LieJacTrace.cfg", [good, bad, bad2], "selftest")
    print("selftest verdicts:", v)
    assert v[0] == "ok" and v[1] != "ok" and v[2] != "ok"
    return 0
