"""C13 -- EKF/UKF equal the Kalman filter on linear-Gaussian systems; covariances valid; PF band.

Spec: Kalman.tla (design: KF / EKF-as-documented / UKF-as-documented over exact rationals, resampling
law in KalmanResample.tla), KalmanGen.tla (spec -> code table of exact posteriors and re-seeded runs),
KalmanTrace.tla (judges the recorded executions).  See notes/C13.md.
"""
import json
import math
from fractions import Fraction as Fr

from vlib.core import MachineryError, pypose

EPS = Fr(1, 2 ** 52)
CAP = 10 ** 9


# --------------------------------------------------------------------------- exact helpers
def fr(q):
    return Fr(q[0], q[1])


def units(val, exact, scale):
    """|val - exact| in units of eps*scale, rounded up, capped (val: python float)."""
    if not math.isfinite(val):
        return CAP
    d = abs(Fr(val) - exact) / (EPS * scale)
    return int(min(CAP, -(-d.numerator // d.denominator)))


def imm(X, Y):
    return [[sum(X[i][k] * Y[k][j] for k in range(len(Y))) for j in range(len(Y[0]))] for i in range(len(X))]


def itr(X):
    return [list(r) for r in zip(*X)]


def data_scale(row):
    """Magnitude of the data of one lattice instance (inputs, predicted covariance, exact outputs)."""
    I = row["inst"]
    m = 1
    for k in ("A", "B", "C", "D", "R"):
        m = max(m, max(abs(v) for r in I[k] for v in r))
    for k in ("c1", "c2", "x", "u"):
        m = max(m, max(abs(v) for v in I[k]))
    m = max(m, max(abs(v) for v in row["y"]))
    m = max(m, max(abs(v) for r in row["P"] for v in r), max(abs(v) for r in row["Q"] for v in r))
    L2 = I["L2p"]
    m = max(m, I["nk"] * max(abs(v) for r in imm(L2, itr(L2)) for v in r))      # P- = nk L2p L2p'
    for key in ("ekf", "kf"):
        if row.get(key):
            m = max(m, max(abs(fr(q)) for q in row[key]["x"]), max(abs(fr(q)) for r in row[key]["P"] for q in r))
    return Fr(m)


# --------------------------------------------------------------------------- the real objects
def make_model(I):
    """The instance as a pypose NLS subclass (EKF needs the `t` keyword, so LTI cannot be passed)."""
    import torch
    pp = pypose()
    T = lambda a: torch.tensor(a, dtype=torch.float64)
    A, B, C, D, c1, c2, fa, ga = (T(I[k]) for k in ("A", "B", "C", "D", "c1", "c2", "fa", "ga"))

    class Sys(pp.module.NLS):
        def state_transition(self, state, input, t=None):
            return pp.bmv(A, state) + pp.bmv(B, input) + c1 + fa * state * state

        def observation(self, state, input, t=None):
            return pp.bmv(C, state) + pp.bmv(D, input) + c2 + ga * (state[..., :1] * state[..., -1:])

    return Sys()


def cov_measures(P, scale):
    """Asymmetry and negative part of the spectrum of a returned covariance, in units of eps*scale."""
    import torch
    if not bool(torch.isfinite(P).all()):
        return CAP, CAP
    sym = float((P - P.mT).abs().max())
    lam = float(torch.linalg.eigvalsh((P + P.mT) / 2).min())
    u = float(EPS) * float(scale)
    return int(min(CAP, math.ceil(sym / u))), int(min(CAP, math.ceil(max(0.0, -lam) / u)))


def step_event(act, filt, row):
    """One real EKF/UKF step on a lattice instance, measured against the table's exact fractions."""
    import torch
    I = row["inst"]
    T = lambda a: torch.tensor(a, dtype=torch.float64)
    x, u, y, P, Q, R = T(I["x"]), T(I["u"]), T(row["y"]), T(row["P"]), T(row["Q"]), T(I["R"])
    exp = row["ekf"] if act == "ekf" else row["kf"]
    ev = {"act": act, "inst": I, "y": row["y"], "P": row["P"], "Q": row["Q"], "exp": exp}
    try:
        # a filter constructed with covariances gets Q / R per call only where they differ from its own: the
        # covariances "in effect" at a step must not depend on what earlier calls were given
        qc, rc = getattr(filt, "_verif_ctor", (None, None))
        Qa = None if (qc is not None and row["Q"] == qc) else Q
        Ra = None if (rc is not None and I["R"] == rc) else R
        if act == "ekf":
            xo, Po = filt(x, y, u, P, Qa, Ra)
        else:
            xo, Po = filt(x, y, u, P, Qa, Ra, k=I["nk"] - I["n"])
    except Exception as ex:  # a filter that raises on a valid instance is judged by the trace spec
        return {"act": "raise", "filter": act, "inst": I, "y": row["y"], "msg": repr(ex)[:200]}
    s = data_scale(row)
    n = I["n"]
    ev["finite"] = bool(torch.isfinite(xo).all() and torch.isfinite(Po).all()) and \
        tuple(xo.shape) == (n,) and tuple(Po.shape) == (n, n)
    if not ev["finite"]:
        ev.update({"ux": [CAP] * n, "uP": [[CAP] * n] * n, "sym": CAP, "neg": CAP})
        return ev
    ev["ux"] = [units(float(xo[i]), fr(exp["x"][i]), s) for i in range(n)]
    ev["uP"] = [[units(float(Po[i, j]), fr(exp["P"][i][j]), s) for j in range(n)] for i in range(n)]
    ev["sym"], ev["neg"] = cov_measures(Po, s)
    ev["got"] = repr({"x": [float(v) for v in xo], "P": [[float(v) for v in r] for r in Po]})   # diagnosis only
    return ev


def run_steps(rows, what, act):
    """A run: ONE filter object (with its own model object) sees every step.  One trace per filter class so
    that a failure of one filter cannot mask the other (a verdict names the first failing event of a trace)."""
    pp = pypose()
    model = make_model(rows[0]["inst"])
    import torch
    T = lambda a: torch.tensor(a, dtype=torch.float64)
    # the constructor covariances are those of the LAST step of the run: earlier steps override them per call,
    # steps that agree with them omit the argument
    qc, rc = rows[-1]["Q"], rows[-1]["inst"]["R"]
    cls = pp.module.EKF if act == "ekf" else pp.module.UKF
    filt = cls(model, Q=T(qc), R=T(rc)) if len(rows) > 1 else cls(model)
    if len(rows) > 1:
        object.__setattr__(filt, "_verif_ctor", (qc, rc))
    ev = [step_event(act, filt, row) for row in rows]
    return {"cfg": {"kind": "steps", "filter": act}, "ev": ev, "what": what}


def step_traces(rows_list, what):
    out = []
    for rows in rows_list:
        out.append(run_steps(rows, what % len(rows), "ekf"))
        if all(r["linear"] for r in rows):
            out.append(run_steps(rows, what % len(rows), "ukf"))
    return out


# --------------------------------------------------------------------------- random SPD data, dims 1..6
def rand_spd(torch, g, n, scale):
    M = torch.randn(n, n + 2, dtype=torch.float64, generator=g)
    S = M @ M.mT / (n + 2) + 0.05 * torch.eye(n, dtype=torch.float64)
    return (S + S.mT) / 2 * scale


def kalman_reference(A, B, C, D, c1, c2, Q, R, x, P, u, y):
    """60-digit evaluation of the Kalman predict-then-update recursion on the float inputs."""
    import mpmath as mp
    mp.mp.dps = 60
    M = lambda t: mp.matrix([[mp.mpf(float(v)) for v in r] for r in t.tolist()])
    V = lambda t: mp.matrix([mp.mpf(float(v)) for v in t.tolist()])
    A_, B_, C_, D_, Q_, R_, P_ = M(A), M(B), M(C), M(D), M(Q), M(R), M(P)
    xm = A_ * V(x) + B_ * V(u) + V(c1)
    Pm = A_ * P_ * A_.T + Q_
    S = C_ * Pm * C_.T + R_
    K = Pm * C_.T * mp.inverse(S)
    xp = xm + K * (V(y) - (C_ * xm + D_ * V(u) + V(c2)))
    Pp = Pm - K * C_ * Pm
    return xp, Pp, Pm, S


def cov_traces(ctx, count):
    """EKF / UKF (k >= 0) / PF on random SPD data spanning 6 orders of magnitude, dimensions 1..6,
    linear and nonlinear systems: symmetry / PSD of the returned covariance (units of eps*scale of P-);
    on linear systems also the distance of EKF / UKF (any k > -n) to a 60-digit Kalman recursion."""
    import torch
    import mpmath as mp
    pp = pypose()
    rng = ctx.rng
    traces = []
    for it in range(count):
        g = torch.Generator().manual_seed(ctx.seed * 100003 + it)
        n, m, p = rng.randint(1, 6), rng.randint(1, 6), rng.randint(1, 6)
        linear = it % 3 != 2
        eP, eQ, eR = rng.uniform(-3, 3), rng.uniform(-3, 3), rng.uniform(-3, 3)
        rn = lambda *s: torch.randn(*s, dtype=torch.float64, generator=g)
        A = rn(n, n) / math.sqrt(n)
        B, C, D, c1, c2 = rn(n, m), rn(p, n), rn(p, m), rn(n), rn(p)
        # "any c1, c2": states far from the origin with a small spread (map coordinates): only the PF is run there
        # (symmetric PSD covariance); a covariance formed as E[x x^T] - m m^T cancels catastrophically
        far = it % 6 == 5
        if far:
            eP, eQ = rng.uniform(-3, -1), rng.uniform(-3, -1)
            c1 = c1 * 1e7
        Cn = rn(p, n)
        P, Q, R = rand_spd(torch, g, n, 10 ** eP), rand_spd(torch, g, n, 10 ** eQ), rand_spd(torch, g, p, 10 ** eR)
        sx = math.sqrt(10 ** eP)
        x, u = rn(n) * sx, rn(m)
        amp = 0.0 if linear else 0.3 * sx

        # time-varying variant: A(t) = A + t A1, C(t) = C + t C1 with the step's time stamp passed explicitly (t = 0 or 3)
        # to a filter whose model object has already been used (its own clock is elsewhere)
        tv = linear and not far and it % 4 == 1
        tt = None if not tv else torch.tensor([0, 0, 3][it % 3])
        A1, C1 = (rn(n, n) * 0.3, rn(p, n) * 0.3) if tv else (torch.zeros(n, n, dtype=torch.float64), torch.zeros(p, n, dtype=torch.float64))
        A0, C0 = A, C

        class Sys(pp.module.NLS):
            def state_transition(self, state, input, t=None):
                tf = 0.0 if (t is None or not tv) else t.to(state.dtype).reshape(-1)[0]
                return pp.bmv(A0 + tf * A1, state) + pp.bmv(B, input) + c1 + amp * torch.sin(state / sx)

            def observation(self, state, input, t=None):
                tf = 0.0 if (t is None or not tv) else t.to(state.dtype).reshape(-1)[0]
                return pp.bmv(C0 + tf * C1, state) + pp.bmv(D, input) + c2 + amp * torch.cos(pp.bmv(Cn, state) / sx)

        model = Sys()
        if tv:
            for _ in range(2):
                model(x, u)                 # the model object was used before (e.g. to simulate): systime = 2
            A, C = A0 + float(tt) * A1, C0 + float(tt) * C1    # what the step at time tt is about (reference recursion)
        xt = model.state_transition(x + rn(n) * sx, u)
        y = model.observation(xt, u) + rn(p) * math.sqrt(10 ** eR)
        # scale of the round-off: |P-| times the condition of the innovation covariance (the gain is S^-1-limited);
        # Jacobians by the harness' own autograd call at the prior mean
        from torch.autograd.functional import jacobian
        Aj = jacobian(lambda s_: model.state_transition(s_, u, t=tt), x)
        Cj = jacobian(lambda s_: model.observation(s_, u, t=tt), x)
        Pm = Aj @ P @ Aj.mT + Q
        S = Cj @ Pm @ Cj.mT + R
        cond = float(torch.linalg.cond(S)) if p > 1 else 1.0
        scale = float(Pm.abs().max()) * cond
        cfg = {"kind": "cov", "n": n, "m": m, "p": p, "linear": linear, "eP": round(eP), "eQ": round(eQ),
               "eR": round(eR), "it": it, "tv": bool(tv)}
        ref = None
        if linear:
            xr, Pr, Pmr, Sr = kalman_reference(A, B, C, D, c1, c2, Q, R, x, P, u, y)
            xs = max(float(max(abs(v) for v in xr)), float(x.abs().max()), 1e-300)
            ref = (xr, Pr, xs)
        ks = sorted({0, 1, max(0, 3 - n), 4}) + ([1 - n] if (linear and n >= 2) else [])
        calls = [("EKF", None)] + [("UKF", k) for k in ks] + [("PF", None)]
        if far:
            calls = [("PF", None)]
        if tv:
            calls = [("EKF", None), ("UKF", 1)]
        tkw = {} if tt is None else {"t": tt}
        ev = []
        for name, k in calls:
            e = {"act": "cov", "filter": name, "k": -99 if k is None else k, "judge_cov": k is None or k >= 0,
                 "ref": -1}
            try:
                torch.manual_seed(ctx.seed * 7919 + it)
                if name == "EKF":
                    xo, Po = pp.module.EKF(model)(x, y, u, P, Q, R, **tkw)
                elif name == "UKF":
                    # the documented default square root given explicitly is the same filter (every other call)
                    mkw = {"msqrt": torch.linalg.cholesky} if (it + len(ev)) % 2 else {}
                    xo, Po = pp.module.UKF(model, **mkw)(x, y, u, P, Q, R, k=k, **tkw)
                else:
                    xo, Po = pp.module.PF(model, particles=300)(x, y, u, P, Q, R)
            except Exception as ex:
                ev.append({"act": "raise", "filter": name, "k": e["k"], "msg": repr(ex)[:200]})
                continue
            e["finite"] = bool(torch.isfinite(xo).all() and torch.isfinite(Po).all())
            e["sym"], e["neg"] = cov_measures(Po, scale) if e["finite"] else (CAP, CAP)
            if ref is not None and name != "PF" and e["finite"]:
                xr, Pr, xs = ref
                dx = max(abs(mp.mpf(float(xo[i])) - xr[i]) for i in range(n)) / (xs * cond)
                dP = max(abs(mp.mpf(float(Po[i, j])) - Pr[i, j]) for i in range(n) for j in range(n)) / scale
                e["ref"] = int(min(CAP, math.ceil(float(max(dx, dP)) / float(EPS))))
            ev.append(e)
        for name in ("EKF", "UKF", "PF"):
            sub = [e for e in ev if e.get("filter") == name]
            if sub:
                traces.append({"cfg": dict(cfg, filter=name), "ev": sub, "what": "random SPD data"})
    return traces


# --------------------------------------------------------------------------- PF
def pf_sigma(row):
    """Closed-form asymptotic covariance (times N) of the PF estimate for the documented particle model on a
    linear system: multinomial resampling adds the posterior covariance to the variance of the
    self-normalised importance-sampling mean.  Floats: it only sets the width of the acceptance band."""
    import numpy as np
    I = row["inst"]
    A, B, C, D = (np.array(I[k], dtype=float) for k in ("A", "B", "C", "D"))
    c1, c2, x, u, y = (np.array(v, dtype=float) for v in (I["c1"], I["c2"], I["x"], I["u"], row["y"]))
    P, R = np.array(row["P"], dtype=float), np.array(I["R"], dtype=float)
    n = I["n"]
    m0 = A @ x + B @ u + c1
    S0 = n * A @ P @ A.T
    e = y - (C @ m0 + D @ u + c2)

    def upd(Rk):
        S = C @ S0 @ C.T + Rk
        K = S0 @ C.T @ np.linalg.inv(S)
        return m0 + K @ e, S0 - K @ C @ S0, S

    mu, Sig, S1 = upd(R)
    mu2, Sig2, S2 = upd(R / 2)

    def logn(S):      # log N(e; 0, S)
        return -0.5 * (e @ np.linalg.solve(S, e) + np.linalg.slogdet(2 * np.pi * S)[1])

    p = len(y)
    logZ1 = 0.5 * np.linalg.slogdet(2 * np.pi * R)[1] + logn(S1)
    logZ2 = 0.5 * np.linalg.slogdet(2 * np.pi * R / 2)[1] + logn(S2)
    ratio = math.exp(logZ2 - 2 * logZ1)            # E[w^2] / E[w]^2  (= N / effective sample size)
    Vis = ratio * (Sig2 + np.outer(mu2 - mu, mu2 - mu))
    return mu, Sig + Vis, ratio


def pf_traces(ctx, rows, Ns, per_n):
    import torch
    pp = pypose()
    traces = []
    picked = []
    for row in rows:
        if not row["linear"]:
            continue
        mu, V, ratio = pf_sigma(row)
        if ratio <= 25 and all(V[i, i] > 1e-9 for i in range(len(mu))):    # moderately informative measurement
            picked.append((row, V))
    step = max(1, len(picked) // per_n)
    for idx, (row, V) in enumerate(picked[::step][:per_n]):
        I = row["inst"]
        T = lambda a: torch.tensor(a, dtype=torch.float64)
        x, u, y, P, Q, R = T(I["x"]), T(I["u"]), T(row["y"]), T(row["P"]), T(row["Q"]), T(I["R"])
        ev = []
        for N in Ns:
            torch.manual_seed(ctx.seed * 104729 + idx * 31 + N)
            e = {"act": "pf", "inst": I, "y": row["y"], "P": row["P"], "Q": row["Q"], "exp": row["pf"], "N": N}
            try:
                xo, Po = pp.module.PF(make_model(I), particles=N)(x, y, u, P, Q, R)
            except Exception as ex:
                ev.append({"act": "raise", "filter": "pf", "inst": I, "msg": repr(ex)[:200]})
                continue
            e["finite"] = bool(torch.isfinite(xo).all() and torch.isfinite(Po).all())
            e["dev"] = [int(min(CAP, math.ceil(1000 * abs(float(xo[i]) - float(fr(row["pf"][i])))
                                                 / math.sqrt(V[i, i] / N)))) if e["finite"] else CAP
                        for i in range(I["n"])]
            e["got"] = repr([float(v) for v in xo])
            sym, neg = cov_measures(Po, float(max(1.0, Po.abs().max()))) if e["finite"] else (CAP, CAP)
            ev.append(e)
            ev.append({"act": "cov", "filter": "PF", "k": -99, "judge_cov": True, "ref": -1, "finite": e["finite"],
                       "sym": sym, "neg": neg})
        traces.append({"cfg": {"kind": "pf"}, "ev": ev, "what": "PF band on a linear lattice instance"})
    return traces


def resample_traces(ctx, count):
    """PF.resample_particles with dyadic weights; the uniform numbers are observed (and chosen on a dyadic
    grid) by intercepting torch.rand for the duration of the call.  If the implementation stops drawing
    through torch.rand the event cannot be observed and nothing is judged (counted as unobserved)."""
    import torch
    pp = pypose()
    rng = ctx.rng
    traces, unobserved = [], 0
    for it in range(count):
        N = rng.choice([2, 3, 4, 5, 8, 16])
        tot = 64
        cuts = sorted(rng.randint(0, tot) for _ in range(N - 1))
        c = [b - a for a, b in zip([0] + cuts, cuts + [tot])]
        rd = 256
        rn = [rng.choice([2 * rng.randint(0, rd // 2 - 1) + 1, rng.randint(1, rd - 1)]) for _ in range(N)]
        # avoid ties r = cumsum_j (measure zero; the documentation and searchsorted differ there)
        cum = [sum(c[:i + 1]) * rd for i in range(N)]
        rn = [r if r * tot not in cum else r + 1 for r in rn]
        rn = [min(r, rd - 1) for r in rn]
        if any(r * tot in cum for r in rn):
            continue
        pf = pp.module.PF(None, particles=N)
        q = torch.tensor([v / tot for v in c], dtype=torch.float64)
        xs = torch.arange(N, dtype=torch.float64).view(N, 1)
        seen = []
        orig = torch.rand

        def fake(*a, **kw):
            out = orig(*a, **kw)
            if out.numel() == N:
                seen.append(1)
                return torch.tensor([r / rd for r in rn], dtype=out.dtype).view(out.shape)
            return out

        torch.rand = fake
        try:
            try:
                out = pf.resample_particles(q, xs)
            finally:
                torch.rand = orig
        except Exception as ex:
            traces.append({"cfg": {"kind": "resample"}, "ev": [{"act": "raise", "filter": "resample",
                                                                 "msg": repr(ex)[:200]}], "what": "resample"})
            continue
        if not seen:
            unobserved += 1
            continue
        idx = [int(v) for v in out.view(-1).tolist()]
        traces.append({"cfg": {"kind": "resample"}, "what": "resample",
                       "ev": [{"act": "resample", "c": c, "tot": tot, "rn": rn, "rd": rd, "idx": idx}]})
    ctx.extra["resample_calls_unobserved"] = unobserved
    return traces


# --------------------------------------------------------------------------- judging
FILTER_OF = {"ekf": "EKF", "ukf": "UKF", "pf": "PF", "resample": "PF"}


def key_of(tr, clause, e):
    kind = tr["cfg"]["kind"]
    if kind == "steps":
        I = e.get("inst", {})
        f = FILTER_OF.get(e.get("act"), FILTER_OF.get(e.get("filter"), "?"))
        cls = "nonlinear" if any(I.get("fa", [])) or any(I.get("ga", [])) else "linear"
        hist = "step1" if I.get("step", 1) == 1 else "later_step"
        return "%s/%s/%s/%s" % (f, clause, cls, hist)
    if kind == "cov":
        return "%s/%s/%s" % (e.get("filter"), clause, "linear" if tr["cfg"]["linear"] else "nonlinear")
    if kind == "pf":
        return "PF/%s" % clause
    return "PF/%s" % clause


def judge(ctx, traces, verdicts):
    for tr, v in zip(traces, verdicts):
        if v == "ok":
            continue
        clause, at = v.rsplit("@", 1)
        e = tr["ev"][int(at) - 1]
        brief = {k: e[k] for k in e if k not in ("inst", "exp", "P", "Q")}
        ctx.violation(key_of(tr, clause, e),
                      "%s: clause %s at event %s: %s; instance=%s expected=%s"
                      % (tr.get("what"), clause, at, brief, json.dumps(e.get("inst")), json.dumps(e.get("exp"))),
                      {"trace": tr, "verdict": v})


def cover_steps(ctx, tr):
    for e in tr["ev"]:
        I = e.get("inst")
        if I:
            ctx.cover("%s:%s:n%dp%dm%d:nk%d:A%s:Lp%s:L2p%s:C%s:R%s:x%s:fa%s:ga%s:step%d" % (
                e["act"], I["fam"], I["n"], I["p"], I["m"], I["nk"], I["A"], I["Lp"], I["L2p"], I["C"], I["R"],
                I["x"], I["fa"], I["ga"], I["step"]))


def design(ctx):
    q = ctx.quick
    ctx.tlc("Kalman", "Kalman_q.cfg" if q else "Kalman_t.cfg", workers=8)
    ctx.tlc("KalmanResample", "KalmanResample.cfg", workers=2)
    for r in ctx.tlc_runs:
        if r["violated"]:
            ctx.violation("design/%s" % r["violated"][0], "%s violates %s" % (r["module"], r["violated"]))
    # vacuity: the states the properties talk about are reachable (TLC must find the witness "violations")
    for cfg, inv in (("Kalman_wit_step.cfg", "NoSecondStepPosterior"), ("Kalman_wit_nonlin.cfg", "NoNonlinearPosterior")):
        r = ctx.tlc("Kalman", cfg, workers=2)
        if inv not in r.violated:
            raise MachineryError("vacuity: witness %s not reached in %s" % (inv, cfg))
        ctx.tlc_runs[-1]["violated"] = []
        ctx.tlc_runs[-1]["witness_reached"] = inv


def table(ctx):
    out = ctx.work / "kalman_table.json"
    res = ctx.tlc("KalmanGen", "KalmanGen_q.cfg" if ctx.quick else "KalmanGen_t.cfg", env={"OUT_FILE": out},
                  workers=1)
    tab = json.loads(out.read_text())
    gen = res.printed("GEN")
    if not gen:
        raise MachineryError("KalmanGen printed no GEN line")
    if not tab["ok"]:
        ctx.violation("design/table_identities", "KalmanGen: UKF = KF = EKF / PSD / Loewner fails on a tabulated row")
    return tab


def run(ctx):
    import torch
    q = ctx.quick
    ctx.rule = [
        "TLC (Kalman.tla): every integer system of the lattice (n,p<=2; A entries -1..1; non-diagonal factors of P "
        "and P-; every n+k of the config; mean, nonlinear and re-seeded-run families): UKF = KF, EKF = KF, "
        "EKF = linearised KF, posterior symmetric PSD and <= prior; KalmanResample: index law on every weight vector",
        "conformance: every row / run of the KalmanGen table is executed on real EKF and UKF objects and judged by "
        "KalmanTrace (TLC recomputes the exact posterior); random SPD data (dims 1..6, 6 orders of magnitude) for "
        "symmetry/PSD and a 60-digit Kalman reference; PF band and resampling law; a case is distinct by "
        "(filter, instance) / (filter, dims, scales)"]
    ctx.assumptions = [
        "lattice inputs are integers (exact in float64); outputs are compared with TLC's fractions in units of "
        "eps * data scale, tolerance 65536 units",
        "instances whose innovation covariance has det > 20000 are outside the 32-bit range of TLC and skipped",
        "PF clause is statistical: 7-sigma band (>= 6 sigma) around the exact mean of the documented particle model, "
        "fixed seeds, N = 1e3..1e5 (1e6 thorough); sigma is the closed-form asymptotic value computed in floats",
        "UKF covariance validity is judged for k >= 0 only; ties r = cumsum_j in resampling are not generated"]
    if ctx.replay:
        case = json.loads(open(ctx.replay).read())["case"]
        tr = replay_trace(ctx, case["trace"])
        judge(ctx, [tr], ctx.validate("KalmanTrace", "KalmanTrace.cfg", [tr], "replay"))
        return
    design(ctx)
    tab = table(ctx)
    rows, runs = tab["rows"], tab["runs"]
    traces = step_traces([[r] for r in rows], "single step (%d)")
    traces += step_traces(runs, "re-seeded run of %d steps")
    for t in traces:
        cover_steps(ctx, t)
    ctx.extra["table_rows"] = len(rows)
    ctx.extra["table_runs"] = len(runs)
    ctx.extra["run_steps"] = sum(len(r) for r in runs)
    ct = cov_traces(ctx, 60 if q else 400)
    for t in ct:
        c = t["cfg"]
        for e in t["ev"]:
            ctx.cover("cov:%s:k%s:n%d:p%d:%s:eP%d:eQ%d:eR%d" % (e.get("filter"), e.get("k"), c["n"], c["p"], c["linear"],
                                                           c["eP"], c["eQ"], c["eR"]))
    pool = rows + [r for run_ in runs for r in run_]
    pt = pf_traces(ctx, pool, [1000, 10000, 100000] if q else [1000, 10000, 100000, 1000000], 12 if q else 40)
    for t in pt:
        for e in t["ev"]:
            if e["act"] == "pf":
                ctx.cover("pf:N%d:%s" % (e["N"], json.dumps(e["inst"], sort_keys=True)))
    rt = resample_traces(ctx, 100 if q else 1000)
    for t in rt:
        ctx.cover("resample:%s" % t["ev"][0].get("c"))
    ctx.extra["cov_traces"], ctx.extra["pf_traces"], ctx.extra["resample_traces"] = len(ct), len(pt), len(rt)
    if traces:
        ctx.sample({"kind": "step", "ev": {k: v for k, v in traces[len(traces) // 2]["ev"][0].items() if k != "inst"},
                    "inst": traces[len(traces) // 2]["ev"][0].get("inst")})
    if ct:
        ctx.sample({"kind": "cov", "cfg": ct[0]["cfg"], "ev": ct[0]["ev"][:3]})
    if pt:
        ctx.sample({"kind": "pf", "ev": [{k: v for k, v in e.items() if k not in ("inst", "P", "Q")}
                                        for e in pt[0]["ev"][:2]]})
    alltr = traces + ct + pt + rt
    verdicts = ctx.validate("KalmanTrace", "KalmanTrace.cfg", alltr, "kalman", chunk=400, workers=4)
    judge(ctx, alltr, verdicts)


def replay_trace(ctx, tr):
    """Re-run the stimuli of a recorded violating trace on the current tree."""
    kind = tr["cfg"]["kind"]
    if kind == "steps":
        rows, seen = [], set()
        for e in tr["ev"]:
            I = e.get("inst")
            if not I or e["act"] == "raise" or I["step"] in seen:
                continue
            seen.add(I["step"])
            lin = not (any(I["fa"]) or any(I["ga"]))
            peers = [o for o in tr["ev"] if o.get("inst", {}).get("step") == I["step"] and "exp" in o]
            ek = [o for o in peers if o["act"] == "ekf"]
            uk = [o for o in peers if o["act"] == "ukf"]
            rows.append({"inst": I, "y": e["y"], "P": e["P"], "Q": e["Q"], "linear": lin,
                         "ekf": (ek or uk)[0]["exp"], "kf": (uk or ek)[0]["exp"] if lin else []})
        return run_steps(rows, "replayed on current tree", tr["cfg"].get("filter", "ekf"))
    if kind == "pf":
        e = [o for o in tr["ev"] if o["act"] == "pf"][0]
        row = {"inst": e["inst"], "y": e["y"], "P": e["P"], "Q": e["Q"], "linear": True, "pf": e["exp"]}
        Ns = [o["N"] for o in tr["ev"] if o["act"] == "pf"]
        # same seeds as the original run are not reproducible per instance index; the band is re-tested
        out = pf_traces(ctx, [row], Ns, 1)
        if out:
            return out[0]
    # random-data / resample traces are regenerated from the seed of the original run
    if kind == "cov":
        it = tr["cfg"]["it"]
        for t in cov_traces(ctx, it + 1):
            if t["cfg"]["it"] == it and t["cfg"]["filter"] == tr["cfg"].get("filter"):
                return t
    if kind == "resample":
        out = resample_traces(ctx, 100)
        if out:
            return out[0]
    return tr


def selftest(ctx):
    """Binding demonstration: a corrupted field and a removed event are rejected; TLC rejects the three
    seeded design mutants (rows of the factor, mixed sigma sets, innovation at the pre-transition state)."""
    tab = table(ctx)
    run_ = [r for r in tab["runs"] if len(r) >= 3 and r[0]["linear"]][0]
    # the judged values are replaced by the exact ones so that the selftest does not depend on the tree
    good = run_steps(run_, "selftest", "ukf")
    for e in good["ev"]:
        if e["act"] == "raise":
            raise MachineryError("selftest run raised: %s" % e)
        n = e["inst"]["n"]
        e.update({"ux": [0] * n, "uP": [[0] * n] * n, "sym": 0, "neg": 0, "finite": True})
    bad1 = json.loads(json.dumps(good))
    bad1["ev"][1]["uP"][0][0] = 10 ** 6
    bad2 = json.loads(json.dumps(good))
    del bad2["ev"][1]                         # a step is missing: the next prior is not the re-seeded one
    bad3 = json.loads(json.dumps(good))
    bad3["ev"][0]["exp"]["x"][0][0] += 1      # the harness compared with a wrong fraction
    v = ctx.validate("KalmanTrace", "KalmanTrace.cfg", [good, bad1, bad2, bad3], "selftest")
    print("selftest verdicts:", v)
    assert v[0] == "ok" and all(x != "ok" for x in v[1:]), v
    for m, inv in (("rows", "UKFEqualsKF"), ("mixed", "UKFEqualsKF"), ("ekf_pre", "EKFEqualsKF")):
        r = ctx.tlc("Kalman", "Kalman_mut_%s.cfg" % m, workers=4)
        print("design mutant %s: violated %s" % (m, r.violated))
        assert inv in r.violated, (m, r.violated)
    return 0
