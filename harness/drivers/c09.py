"""C09 — kernels match closed forms; correctors preserve the robust gradient and Hessian.
Spec: Kernels.tla (design, exact rationals), KernelsTrace.tla (values returned by the real code),
KernelsGen.tla (spec -> code table of both identity sides for rational, non-dyadic instances)."""
import itertools
import json
import math
from fractions import Fraction as F

from vlib.core import MachineryError, pypose

CAP = 10 ** 9
INT_LIMIT = 1 << 29          # TLC integers are 32 bit; instances are kept far below


# ============================================================================ number codecs
def _pow2(d):
    return d > 0 and d & (d - 1) == 0


def dy_of_fraction(q):
    """[m, e] with q = m 2^-e (q must be dyadic)."""
    q = F(q)
    if not _pow2(q.denominator):
        raise MachineryError("not dyadic: %s" % q)
    return [q.numerator, q.denominator.bit_length() - 1]


def snap(v, eps, maxe=12, maxm=1 << 22):
    """float -> dyadic Fraction on the 2^-maxe lattice if within 64 eps max(1,|v|), else None."""
    if not math.isfinite(v):
        return None
    q = F(v)
    if _pow2(q.denominator) and q.denominator <= (1 << maxe) and abs(q.numerator) <= maxm:
        return q
    c = F(round(q * (1 << maxe)), 1 << maxe)
    if abs(c - q) <= 64 * F(eps) * max(1, abs(q)) and abs(c.numerator) <= maxm:
        return c
    return None


def rat(q):
    q = F(q)
    return [q.numerator, q.denominator]


def qsqrt(q):
    if q < 0:
        return None
    n, d = q.numerator, q.denominator
    rn, rd = math.isqrt(n), math.isqrt(d)
    return F(rn, rd) if rn * rn == n and rd * rd == d else None


def is_dy(q, maxe, maxm):
    return _pow2(q.denominator) and q.denominator <= (1 << maxe) and abs(q.numerator) <= maxm


def eps_of(dtype_name):
    return F(1, 1 << 52) if dtype_name == "float64" else F(1, 1 << 23)


def tdtype(torch, name):
    return torch.float64 if name == "float64" else torch.float32


# ============================================================================ polynomial user kernels
def d1(c, x):
    return sum(k * ck * x ** (k - 1) for k, ck in enumerate(c, 1))


def d2(c, x):
    return sum(k * (k - 1) * ck * x ** (k - 2) for k, ck in enumerate(c, 1) if k > 1)


def d0(c, x):
    return sum(ck * x ** k for k, ck in enumerate(c, 1))


def classify(c, x):
    """(rho', rho'', masked) if the corrector outputs at squared norm x are exact small dyadics, else None."""
    g1, g2 = d1(c, x), d2(c, x)
    s = qsqrt(g1)
    if s is None or not is_dy(s, 4, 64):
        return None
    masked = g2 > 0 and x != 0
    if masked:
        if g1 == 0:
            return None
        r = qsqrt(1 + 2 * x * g2 / g1)
        if r is None or not is_dy(r, 3, 64):
            return None
        if not is_dy(s / r, 6, 64) or not is_dy((1 - r) / x, 6, 64):
            return None
    return g1, g2, masked


def _solve(A, b):
    n = len(A)
    M = [row[:] + [bb] for row, bb in zip(A, b)]
    for i in range(n):
        p = next((r for r in range(i, n) if M[r][i] != 0), None)
        if p is None:
            return None
        M[i], M[p] = M[p], M[i]
        M[i] = [v / M[i][i] for v in M[i]]
        for r in range(n):
            if r != i and M[r][i] != 0:
                M[r] = [vr - M[r][i] * vi for vr, vi in zip(M[r], M[i])]
    return [M[i][n] for i in range(n)]


def _menu(x):
    if x == 0:
        return [(g1, None) for g1 in (F(0), F(1, 4), F(1), F(4))]
    out = []
    for g1 in (F(1, 4), F(1), F(4), F(9, 4)):
        for s in (F(2), F(4), F(3), F(3, 2)):
            out.append((g1, g1 * (s * s - 1) / (2 * x)))        # rho'' > 0 with a rational alpha
        for g2 in (F(-1, 4), F(-1), F(-1, 8)):
            out.append((g1, g2))
        out.append((g1, F(0)))
        out.append((g1, None))
    return out


NODESETS = [(0, 4), (0, 1), (0, 2), (4,), (1,), (2,), (3,), (0, 3), (2, 4), (4, 8), (1, 2), (1, 3), (0, 4, 8),
            (0, 2, 4), (1, 9), (4, 16), (1, 5), (2, 6), (0, 8), (0, 16), (3, 6), (0, 6), (0, 12), (0, 1, 2),
            (0, 1, 4), (0, 4, 16), (0, 1, 9)]
BASES = [(1,), (1, 2), (1, 2, 4), (1, 2, 4, 8), (1, 2, 3), (1, 2, 3, 4), (1, 2, 3, 4, 5), (1, 2, 3, 4, 6)]


def _try_kernel(ns, combo):
    """solve rho' / rho'' conditions at the nodes for dyadic coefficients; None if not exact"""
    eqs = []
    for x, (g1, g2) in zip(ns, combo):
        eqs.append((1, x, g1))
        if g2 is not None:
            eqs.append((2, x, g2))
    for basis in BASES:
        if len(basis) != len(eqs):
            continue
        A = [[(k * x ** (k - 1) if o == 1 else (k * (k - 1) * x ** (k - 2) if k > 1 else F(0)))
              for k in basis] for o, x, v in eqs]
        sol = _solve(A, [v for o, x, v in eqs])
        if sol is None or not all(is_dy(v, 10, 1 << 14) for v in sol):
            continue
        c = [F(0)] * max(basis)
        for k, v in zip(basis, sol):
            c[k - 1] = v
        while c and c[-1] == 0:
            c.pop()
        if not c:
            continue
        cl = {x: classify(c, x) for x in ns}
        if any(v is None for v in cl.values()) or not poly_ok(c, ns):
            continue
        return c, cl
    return None


def kernel_family(ctx, n):
    """n user-defined polynomial kernels rho(x) = sum c_k x^k (dyadic c_k), solved so that at every node x
    (a squared residual norm) sqrt(rho'), alpha and the corrector outputs are exact dyadics; balanced over
    the row classes they offer.  Returns [(coefficients c_1.., {x: (rho', rho'', masked)})]."""
    cache = getattr(ctx, "_c09_family", None)
    if cache is not None and len(cache) >= n:
        return cache[:n]
    rng = ctx.rng
    found = {}
    persig = {}
    # linear kernels (rho'' = 0 everywhere; Scale is one of them)
    for g in (F(1, 4), F(4), F(1), F(9, 4))[:max(2, n // 12)]:
        nodes = {F(x): classify([g], F(x)) for x in (0, 1, 2, 3, 4, 9)}
        found[(g,)] = ([g], nodes)
    cap = max(2, n // 8)
    tries = 0
    while len(found) < n and tries < 400 * n:
        tries += 1
        ns = [F(v) for v in rng.choice(NODESETS)]
        combo = [rng.choice(_menu(x)) for x in ns]
        r = _try_kernel(ns, combo)
        if r is None:
            continue
        c, cl = r
        sig = signature(cl)
        if tuple(c) in found or persig.get(sig, 0) >= cap or len(c) == 1:
            continue
        persig[sig] = persig.get(sig, 0) + 1
        found[tuple(c)] = (c, cl)
    fam = list(found.values())
    if len(fam) < n:
        raise MachineryError("only %d exact polynomial kernels found" % len(fam))
    ctx._c09_family = fam
    return fam


def signature(nodes):
    """classes of rows a kernel offers: M (rho''>0, R#0), N (rho''<0), 0 (rho''=0), Z (zero residual),
    G (rho'=0)."""
    s = set()
    for x, (g1, g2, m) in nodes.items():
        if x == 0:
            s.add("Z+" if g2 > 0 else "Z")
        elif m:
            s.add("M")
        elif g2 < 0:
            s.add("N")
        else:
            s.add("0")
        if g1 == 0:
            s.add("G")
    return "".join(sorted(s))


def make_poly(torch, c):
    cf = [float(v) for v in c]

    class Poly(torch.nn.Module):
        """user-defined robust kernel rho(x) = c1 x + c2 x^2 + ... (Horner form)"""

        def forward(self, x):
            acc = torch.zeros_like(x) + cf[-1]
            for v in reversed(cf[:-1]):
                acc = acc * x + v
            return acc * x

    return Poly()


_VECS = {}


def vectors(d, x4):
    """all half-integer vectors (entries k/2, |k| <= 8) of dimension d with 4|v|^2 = x4, as tuples of k."""
    key = (d, x4)
    if key in _VECS:
        return _VECS[key]
    res = []

    def rec(prefix, rest, left):
        if left == 0:
            if rest == 0:
                res.append(tuple(prefix))
            return
        if len(res) > 4000:
            return
        for k in range(-8, 9):
            if k * k <= rest:
                rec(prefix + [k], rest - k * k, left - 1)

    rec([], x4, d)
    _VECS[key] = res
    return res


# ============================================================================ corrector traces (Mode E)
def frac_rows(t):
    return [[F(float(v)) for v in row] for row in t]


def build_instance(rng, c, nodes, d, P, bshape, want=None):
    """rows R_i with squared norms among the kernel's nodes, integer/half-integer Jacobian."""
    usable = [x for x in nodes if vectors(d, int(x * 4))]
    if not usable:
        return None
    N = 1
    for b in bshape:
        N *= b
    picks = [usable[i % len(usable)] for i in range(N)]
    rng.shuffle(picks)
    if want is not None and want in usable:
        picks[rng.randrange(N)] = want
    R = []
    for x in picks:
        v = rng.choice(vectors(d, int(x * 4)))
        R.append([F(k, 2) for k in v])
    half = rng.random() < 0.25
    J = [[[F(rng.randint(-4, 4), 2) if half else F(rng.randint(-2, 2)) for _ in range(P)] for _ in range(d)]
         for _ in range(N)]
    return R, J, picks


def bound_ok(R, J, g1s, g2s, outs=()):
    """Keep every intermediate of the spec's rational arithmetic far below 2^31: for every sum the spec
    forms, (sum of |terms|) x (largest term denominator) must stay below 2^29.  Rows may be ragged."""
    N = len(R)
    P = len(J[0][0])

    def chk(terms):
        terms = [F(t) for t in terms]
        if not terms:
            return True
        return sum(abs(t) for t in terms) * max(t.denominator for t in terms) < INT_LIMIT

    pairs = [(R, J, g1s)]
    if outs:
        pairs.append((outs[0], outs[1], [F(1)] * N))
        if len(outs) > 2:
            pairs.append((outs[2], outs[3], [F(1)] * N))
    for Rx, Jx, gs in pairs:
        for p in range(P):
            if not chk([gs[i] * Jx[i][k][p] * Rx[i][k] for i in range(N) for k in range(len(Rx[i]))]):
                return False
            for q in range(P):
                if not chk([gs[i] * Jx[i][k][p] * Jx[i][k][q] for i in range(N) for k in range(len(Rx[i]))]):
                    return False
    for p in range(P):
        for q in range(P):
            t = []
            for i in range(N):
                vp = sum(R[i][k] * J[i][k][p] for k in range(len(R[i])))
                vq = sum(R[i][k] * J[i][k][q] for k in range(len(R[i])))
                t.append(2 * g2s[i] * vp * vq)
                t += [g1s[i] * J[i][k][p] * J[i][k][q] for k in range(len(R[i]))]
            if not chk(t):
                return False
    return all(abs(F(v).numerator) * F(v).denominator < INT_LIMIT for v in list(g1s) + list(g2s))


def poly_ok(c, nodes):
    """the spec evaluates rho, rho', rho'' at every node with 32-bit integers"""
    deg = len(c)
    for x in nodes:
        if x ** deg >= INT_LIMIT:
            return False
        for f in (lambda k, ck: ck * x ** k, lambda k, ck: k * ck * x ** (k - 1),
                  lambda k, ck: k * (k - 1) * ck * x ** max(k - 2, 0)):
            terms = [F(f(k, ck)) for k, ck in enumerate(c, 1)]
            if sum(abs(t) for t in terms) * max(t.denominator for t in terms) * 64 >= INT_LIMIT:
                return False
    return True


def _flat(a):
    if isinstance(a, (list, tuple)):
        for v in a:
            yield from _flat(v)
    else:
        yield a


def enc(a):
    if isinstance(a, (list, tuple)):
        return [enc(v) for v in a]
    return dy_of_fraction(a)


def identity_errors(R, J, g1, g2, Rp, Jp, Rf, Jf, eps):
    """fallback for off-lattice outputs: identity residuals over exact Fractions of the floats, in units
    of eps * sum |terms| (capped integers).  Only reached when the outputs are not small dyadics."""
    N, d, P = len(R), len(R[0]), len(J[0][0])

    def ulps(num, den):
        if num == 0:
            return 0
        if den == 0:
            return CAP
        return int(min(CAP, -(-num // (den * eps))))

    gerr = herr = cerr = 0
    for p in range(P):
        lhs = sum(Jp[i][k][p] * Rp[i][k] for i in range(N) for k in range(d))
        rhs = sum(g1[i] * J[i][k][p] * R[i][k] for i in range(N) for k in range(d))
        mag = sum(abs(Jp[i][k][p] * Rp[i][k]) + abs(g1[i] * J[i][k][p] * R[i][k]) for i in range(N) for k in range(d))
        gerr = max(gerr, ulps(abs(lhs - rhs), mag))
    masked = [i for i in range(N) if g2[i] > 0 and any(v != 0 for v in R[i])]
    for p in range(P):
        for q in range(P):
            lhs = sum(Jp[i][k][p] * Jp[i][k][q] for i in masked for k in range(d))
            rtj = {i: (sum(R[i][k] * J[i][k][p] for k in range(d)), sum(R[i][k] * J[i][k][q] for k in range(d)))
                   for i in masked}
            rhs = sum(g1[i] * sum(J[i][k][p] * J[i][k][q] for k in range(d)) + 2 * g2[i] * rtj[i][0] * rtj[i][1]
                      for i in masked)
            mag = sum(abs(Jp[i][k][p] * Jp[i][k][q]) + abs(g1[i] * J[i][k][p] * J[i][k][q]) for i in masked
                      for k in range(d)) + sum(abs(2 * g2[i] * rtj[i][0] * rtj[i][1]) for i in masked)
            herr = max(herr, ulps(abs(lhs - rhs), mag))
    if Rf is not None:
        for i in range(N):
            if i in masked:
                continue
            for k in range(d):
                cerr = max(cerr, ulps(abs(Rp[i][k] - Rf[i][k]), abs(Rf[i][k])))
                for p in range(P):
                    cerr = max(cerr, ulps(abs(Jp[i][k][p] - Jf[i][k][p]), abs(Jf[i][k][p])))
    return gerr, herr, cerr


def run_corrector(c, corr, dtype, R, J, bshape, k):
    """Run the real corrector on (R, J); returns the event."""
    import torch
    pp = pypose()
    from pypose.optim.corrector import FastTriggs, Triggs
    dt = tdtype(torch, dtype)
    eps = eps_of(dtype)
    N, d, P = len(R), len(R[0]), len(J[0][0])
    kern = make_poly(torch, c)
    Rt = torch.tensor([[float(v) for v in r] for r in R], dtype=dt).reshape(tuple(bshape) + (d,))
    Jt = torch.tensor([[[float(v) for v in row] for row in blk] for blk in J], dtype=dt).reshape(N * d, P)
    R0, J0 = Rt.clone(), Jt.clone()
    # rho', rho'' as the real autograd sees them for this kernel (must be exact on the lattice)
    xs = (R0 * R0).sum(-1).reshape(-1).clone().requires_grad_(True)
    with torch.enable_grad():
        g1t = torch.autograd.grad(kern(xs).sum(), xs, create_graph=True)[0]
        if g1t.requires_grad:
            g2t = torch.autograd.grad(g1t.sum(), xs)[0]
        else:
            g2t = torch.zeros_like(xs)
    g1 = [F(float(v)) for v in g1t.detach()]
    g2 = [F(float(v)) for v in g2t]
    xq = [sum(v * v for v in r) for r in R]
    if g1 != [d1(c, x) for x in xq] or g2 != [d2(c, x) for x in xq]:
        return None                                     # kernel not exact in this dtype: instance unusable
    cls = FastTriggs if corr == "FastTriggs" else Triggs
    ev = {"act": "corr", "k": k, "shape": list(bshape) + [d], "R": enc(R), "J": enc(J),
          "g1": [rat(v) for v in g1], "g2": [rat(v) for v in g2], "raised": False}
    try:
        Rp, Jp = cls(kern)(R=Rt, J=Jt)
        Rf = Jf = None
        if corr == "Triggs":
            Rf, Jf = FastTriggs(kern)(R=R0.clone(), J=J0.clone())
    except Exception as ex:
        ev.update({"finite": False, "exact": False, "gerr": CAP, "herr": CAP, "cerr": CAP, "Rp": enc(R), "Jp": enc(J),
                   "raised": True, "what": repr(ex)[:200]})
        if corr == "Triggs":
            ev.update({"Rf": enc(R), "Jf": enc(J)})
        return ev
    if tuple(Rp.shape) != tuple(Rt.shape) or tuple(Jp.shape) != tuple(Jt.shape):
        ev.update({"finite": False, "exact": False, "gerr": CAP, "herr": CAP, "cerr": CAP, "Rp": enc(R), "Jp": enc(J),
                   "what": "shape %s %s" % (tuple(Rp.shape), tuple(Jp.shape))})
        if corr == "Triggs":
            ev.update({"Rf": enc(R), "Jf": enc(J)})
        return ev

    def unpack(Rx, Jx):
        Rl = Rx.detach().reshape(N, d).tolist()
        Jl = Jx.detach().reshape(N, d, P).tolist()
        return Rl, Jl

    Rl, Jl = unpack(Rp, Jp)
    finite = all(math.isfinite(v) for v in _flat(Rl)) and all(math.isfinite(v) for v in _flat(Jl))
    outs = [Rl, Jl]
    if corr == "Triggs":
        Rfl, Jfl = unpack(Rf, Jf)
        finite = finite and all(math.isfinite(v) for v in _flat(Rfl)) and all(math.isfinite(v) for v in _flat(Jfl))
        outs += [Rfl, Jfl]
    ev["finite"] = finite
    snapped = None
    if finite:
        snapped = [_map(o, lambda v: snap(v, eps)) for o in outs]
        if any(v is None for v in _flat(snapped)) or not bound_ok(R, J, g1, g2, snapped):
            snapped = None
    if snapped is not None:
        ev.update({"exact": True, "gerr": 0, "herr": 0, "cerr": 0, "Rp": enc(snapped[0]), "Jp": enc(snapped[1])})
        if corr == "Triggs":
            ev.update({"Rf": enc(snapped[2]), "Jf": enc(snapped[3])})
    else:
        ev.update({"exact": False, "Rp": enc(R), "Jp": enc(J)})
        if corr == "Triggs":
            ev.update({"Rf": enc(R), "Jf": enc(J)})
        if finite:
            ex = [_map(o, lambda v: F(v)) for o in outs]
            ge, he, ce = identity_errors(R, J, g1, g2, ex[0], ex[1], ex[2] if corr == "Triggs" else None,
                                         ex[3] if corr == "Triggs" else None, eps)
            ev.update({"gerr": ge, "herr": he, "cerr": ce})
        else:
            ev.update({"gerr": CAP, "herr": CAP, "cerr": CAP})
    # the correctors are pure functions of (R, J): the caller's tensors keep their values
    ev["inputs_kept"] = bool(torch.equal(Rt.detach(), R0) and torch.equal(Jt.detach(), J0))
    return ev


def _map(a, f):
    if isinstance(a, (list, tuple)):
        return [_map(v, f) for v in a]
    return f(a)


SHAPES = [(1,), (2,), (3,), (5,), (), (2, 2), (1, 3), (2, 1, 2), (6,), (3, 2)]


def corrector_traces(ctx, nkern, per):
    rng = ctx.rng
    chosen = kernel_family(ctx, nkern)
    traces = []
    for c, nodes in chosen:
        for corr in ("FastTriggs", "Triggs"):
            for dtype in ("float64", "float32"):
                ev = []
                tries = 0
                ds = [d for d in range(1, 7) if any(vectors(d, int(x * 4)) for x in nodes)]
                while len(ev) < per and tries < per * 6:
                    tries += 1
                    d = ds[(len(ev) + tries) % len(ds)]
                    P = rng.randint(1, 4)
                    bshape = rng.choice(SHAPES)
                    n = 1
                    for b in bshape:
                        n *= b
                    if n * d > 24:
                        continue
                    want = rng.choice(sorted(nodes))
                    inst = build_instance(rng, c, nodes, d, P, bshape, want)
                    if inst is None:
                        continue
                    R, J, picks = inst
                    if not bound_ok(R, J, [nodes[x][0] for x in picks], [nodes[x][1] for x in picks]):
                        continue
                    e = run_corrector(c, corr, dtype, R, J, bshape, len(ev) + 1)
                    if e is None:
                        continue
                    e["cls"] = sorted({_rowclass(nodes[x], x) for x in picks})
                    ev.append(e)
                if not ev:
                    continue
                ev.append({"act": "done", "n": len(ev)})
                traces.append({"cfg": {"kind": "corr", "corr": corr, "c": [rat(v) for v in c], "dtype": dtype,
                                       "sig": signature(nodes)}, "ev": ev})
    return traces


def _rowclass(node, x):
    g1, g2, m = node
    if x == 0:
        return "zero_residual"
    if m:
        return "rho2pos"
    return "rho2neg" if g2 < 0 else "rho2zero"


def rerun_corr_trace(tr):
    """replay: rebuild the logged inputs and run the real corrector of the current tree again"""
    cfg = tr["cfg"]
    c = [F(n, d) for n, d in cfg["c"]]
    ev = []
    for e in tr["ev"]:
        if e["act"] != "corr":
            continue
        R = _map_dy(e["R"])
        J = _map_dy(e["J"])
        ne = run_corrector(c, cfg["corr"], cfg["dtype"], R, J, e["shape"][:-1], len(ev) + 1)
        if ne is None:
            raise MachineryError("replay: kernel not exact any more")
        ne["cls"] = e.get("cls", [])
        ev.append(ne)
    ev.append({"act": "done", "n": len(ev)})
    return {"cfg": cfg, "ev": ev}


def _map_dy(a):
    if a and isinstance(a[0], list):
        return [_map_dy(v) for v in a]
    return F(a[0], 1 << a[1])


# ============================================================================ optimiser traces
def optimizer_traces(ctx, n):
    import torch
    pp = pypose()
    from pypose.optim.corrector import FastTriggs, Triggs
    rng = ctx.rng
    fam = [kn for kn in kernel_family(ctx, 24 if ctx.quick else 160) if len(kn[1]) >= 2 and len(kn[0]) > 1]
    masked = [kn for kn in fam if "M" in signature(kn[1])]
    if not masked:
        raise MachineryError("no kernel with positive curvature in the family")
    traces = []
    combos = [("GN", ["Triggs", "FastTriggs"]), ("GN", ["FastTriggs", "Triggs"]), ("GN", ["auto", "auto"]),
              ("GN", ["Triggs"]), ("LM", ["Triggs", "FastTriggs"]), ("LM", ["auto"]), ("LM", ["Triggs"]),
              ("GN", ["Triggs", "Triggs", "FastTriggs"]),
              # a kernel list with None entries (documented: "the element must be nn.Module or None"): group without a kernel
              ("GN", ["auto", "auto"], (0,)), ("LM", ["auto", "auto"], (1,)), ("GN", ["auto", "auto", "auto"], (1,))]
    ident = ([F(1)], {F(x): classify([F(1)], F(x)) for x in (0, 1, 2, 3, 4, 9)})
    t = 0
    while len(traces) < n and t < 8 * n:
        t += 1
        combo = combos[len(traces) % len(combos)]
        opt, corrs = combo[0], combo[1]
        none_idx = combo[2] if len(combo) > 2 else ()
        G = max(2, len(corrs))
        single = len(corrs) == 1
        kerns = [rng.choice(masked)] if single else [rng.choice(masked if corrs[g] == "Triggs" else fam) for g in range(G)]
        for g in none_idx:
            kerns[g] = ident
        P = rng.randint(1, 3)
        rows, Ms, grp = [], [], []
        ok = True
        shapes = []
        for g in range(G):
            c, nodes = kerns[0] if single else kerns[g]
            ds = [d for d in range(1, 5) if all(vectors(d, int(x * 4)) for x in nodes)] or \
                 [d for d in range(1, 5) if any(vectors(d, int(x * 4)) for x in nodes)]
            d = rng.choice(ds)
            ng = rng.randint(1, 3)
            inst = build_instance(rng, c, nodes, d, P, (ng,), rng.choice(sorted(nodes)))
            if inst is None:
                ok = False
                break
            R, J, picks = inst
            J = [[[F(int(v)) if v.denominator == 1 else F(round(v)) for v in row] for row in blk] for blk in J]
            rows.append((R, J))
            shapes.append((ng, d))
        if not ok:
            continue
        theta0 = [F(rng.randint(-2, 2)) for _ in range(P)]
        Rall = [r for R, J in rows for r in R]
        Jall = [b for R, J in rows for b in J]
        gl = [g + 1 for g, (R, J) in enumerate(rows) for _ in R]
        g1s = [d1((kerns[0] if single else kerns[g - 1])[0], sum(v * v for v in r)) for g, r in zip(gl, Rall)]
        g2s = [d2((kerns[0] if single else kerns[g - 1])[0], sum(v * v for v in r)) for g, r in zip(gl, Rall)]
        if len(Rall) * max(s[1] for s in shapes) > 24 or not _bound_rows(rows, g1s, g2s):
            continue

        traces.append(run_opt(opt, corrs, [kn[0] for kn in kerns], rows, theta0, none_idx))
    return traces


def run_opt(opt, corrs, kcoeffs, rows, theta0, none_idx=()):
    """One GN / LM step of the real optimiser on a linear model whose residual groups are `rows`
    (group g = (R rows, J blocks)), observed at the linear solver.  Returns the trace."""
    import torch
    pp = pypose()
    from pypose.optim.corrector import FastTriggs, Triggs
    single = len(corrs) == 1
    P = len(rows[0][1][0][0])
    shapes = [(len(R), len(R[0])) for R, J in rows]
    Rall = [r for R, J in rows for r in R]
    Jall = [b for R, J in rows for b in J]
    gl = [g + 1 for g, (R, J) in enumerate(rows) for _ in R]
    dt = torch.float64
    Mts = [torch.tensor([[float(v) for v in row] for blk in J for row in blk], dtype=dt) for R, J in rows]
    th0 = torch.tensor([float(v) for v in theta0], dtype=dt)
    targets = tuple((M @ th0).reshape(s) - torch.tensor([[float(v) for v in r] for r in R], dtype=dt)
                    for M, s, (R, J) in zip(Mts, shapes, rows))

    class Lin(torch.nn.Module):
        def __init__(self):
            super().__init__()
            self.theta = torch.nn.Parameter(th0.clone())

        def forward(self, inp):
            return tuple((M @ self.theta).reshape(s) for M, s in zip(Mts, shapes))

    class Rec(torch.nn.Module):
        def forward(self, A, b):
            self.A, self.b = A.detach().clone(), b.detach().clone()
            return torch.zeros(A.shape[-1], 1, dtype=A.dtype)

    mods = [None if g in none_idx else make_poly(torch, c) for g, c in enumerate(kcoeffs)]   # None: rho(x) = x
    for g in none_idx:
        if [F(v) for v in kcoeffs[g]] != [F(1)]:
            raise MachineryError("a None kernel must be recorded as the identity kernel")

    def mkcorr(name, m):
        return Triggs(m) if name == "Triggs" else FastTriggs(m)

    kw = {}
    if single:
        kw["kernel"] = mods[0]
        if corrs[0] != "auto":
            kw["corrector"] = mkcorr(corrs[0], mods[0])
    else:
        kw["kernel"] = mods
        if corrs[0] != "auto":
            kw["corrector"] = [mkcorr(nm, m) for nm, m in zip(corrs, mods)]
    rec = Rec()
    model = Lin()
    if opt == "GN":
        o = pp.optim.GN(model, solver=rec, **kw)
    else:
        o = pp.optim.LM(model, solver=rec, strategy=pp.optim.strategy.Constant(damping=1.0), **kw)
    cfg = {"kind": "opt", "opt": opt, "corrs": corrs, "kernels": [[rat(v) for v in c] for c in kcoeffs],
           "dtype": "float64", "none": list(none_idx)}
    ev = {"act": opt.lower(), "k": 1, "R": enc(Rall), "J": enc(Jall), "grp": gl, "raised": False}
    try:
        loss = o.step(torch.zeros(1, dtype=dt), target=targets)
        with torch.enable_grad():
            lg = torch.autograd.grad(o.model.loss(torch.zeros(1, dtype=dt), targets), model.theta)[0]
        # the raw residuals/Jacobian of the same model through the same pipeline without a kernel
        rec0 = Rec()
        model0 = Lin()
        pp.optim.GN(model0, solver=rec0).step(torch.zeros(1, dtype=dt), target=targets)
        rawR = [F(float(-v)) for v in rec0.b.reshape(-1)]
        rawJ = [[F(float(v)) for v in row] for row in rec0.A]
        if rawR != [v for r in Rall for v in r] or rawJ != [row for blk in Jall for row in blk]:
            raise MachineryError("optimizer trace: the plain GN pipeline does not hand the constructed R, J")
        eps = eps_of("float64")
        vals = {"loss": snap(float(loss), eps, 16), "lgrad": [snap(float(v), eps) for v in lg]}
        if opt == "GN":
            b = (-rec.b).reshape(-1).tolist()
            A = rec.A.tolist()
            vals["Rp"], vals["Jp"], i0 = [], [], 0
            for (R, J) in rows:
                for r in R:
                    dd = len(r)
                    vals["Rp"].append([snap(v, eps) for v in b[i0:i0 + dd]])
                    vals["Jp"].append([[snap(v, eps) for v in row] for row in A[i0:i0 + dd]])
                    i0 += dd
        else:
            vals["jtr"] = [snap(float(-v), eps) for v in rec.b.reshape(-1)]
        if any(v is None for v in _flat(list(vals.values()))):
            ev.update({"finite": False, "loss": [0, 0], "lgrad": [[0, 0]] * P, "Rp": enc(Rall), "Jp": enc(Jall),
                       "jtr": [[0, 0]] * P, "what": "off-lattice or non-finite"})
        else:
            ev["finite"] = True
            for kk, vv in vals.items():
                ev[kk] = enc(vv)
    except MachineryError:
        raise
    except Exception as ex:
        ev.update({"finite": False, "loss": [0, 0], "lgrad": [[0, 0]] * P, "Rp": enc(Rall), "Jp": enc(Jall),
                   "jtr": [[0, 0]] * P, "raised": True, "what": repr(ex)[:200]})
    return {"cfg": cfg, "ev": [ev, {"act": "done", "n": 1}]}


def rerun_opt_trace(tr):
    cfg = tr["cfg"]
    e = tr["ev"][0]
    R, J = _map_dy(e["R"]), _map_dy(e["J"])
    rows = []
    for g in sorted(set(e["grp"])):
        idx = [i for i, gg in enumerate(e["grp"]) if gg == g]
        rows.append(([R[i] for i in idx], [J[i] for i in idx]))
    P = len(J[0][0])
    return run_opt(cfg["opt"], cfg["corrs"], [[F(n, d) for n, d in c] for c in cfg["kernels"]], rows, [F(0)] * P,
                   tuple(cfg.get("none", ())))


def _bound_rows(rows, g1s, g2s):
    return bound_ok([r for Rr, J in rows for r in Rr], [b for Rr, J in rows for b in J], g1s, g2s)


# ============================================================================ Huber on perfect squares
def huber_traces(ctx, deltas, dtypes):
    import torch
    pp = pypose()
    traces = []
    for dl in deltas:
        for dtype in dtypes:
            dt = tdtype(torch, dtype)
            eps = eps_of(dtype)
            us = sorted({F(k, 4) for k in range(0, int(4 * (4 * dl + 2)) + 1)} | {dl, 2 * dl, 4 * dl, 8 * dl, dl / 2})
            kern = pp.optim.kernel.Huber(float(dl))
            xs = [u * u for u in us]
            xt = torch.tensor([float(x) for x in xs], dtype=dt)
            ev = []
            try:
                y = kern(xt).tolist()
            except Exception as ex:
                y = [float("nan")] * len(xs)
            for k, (x, v) in enumerate(zip(xs, y), 1):
                s = snap(v, eps)
                ev.append({"act": "hval", "k": k, "x": dy_of_fraction(x), "onlat": s is not None,
                           "y": dy_of_fraction(s) if s is not None else [0, 0]})
            # slope where it is dyadic: below the threshold, at it, and at u = delta 2^j
            for u in sorted({u for u in us if 0 < u <= dl} | {2 * dl, 4 * dl, 8 * dl}):
                xg = torch.tensor([float(u * u)], dtype=dt, requires_grad=True)
                try:
                    g = float(torch.autograd.grad(kern(xg).sum(), xg)[0][0])
                except Exception:
                    g = float("nan")
                s = snap(g, eps)
                ev.append({"act": "hgrad", "x": dy_of_fraction(u * u), "onlat": s is not None,
                           "g": dy_of_fraction(s) if s is not None else [0, 0]})
            ev += negative_probes(torch, kern, dt)
            ev.append({"act": "done", "n": len(xs)})
            traces.append({"cfg": {"kind": "huber", "kernel": "Huber", "delta": dy_of_fraction(dl), "dtype": dtype},
                           "ev": ev})
    return traces


def negative_probes(torch, kern, dt):
    ev = []
    for vals in ([-1.0], [0.5, -0.001, 2.0], [-1e-30], [[1.0, 4.0], [9.0, -4.0]]):
        t = torch.tensor(vals, dtype=dt)
        try:
            out = kern(t)
            ev.append({"act": "neg", "raised": False, "input": json.dumps(vals), "returned": json.dumps(out.tolist())})
        except Exception as ex:
            ev.append({"act": "neg", "raised": True, "input": json.dumps(vals), "what": type(ex).__name__})
    return ev


# ============================================================================ floating closed forms (Mode R)
def reference(mp, name, par, x):
    """(value, scale) of the documented closed form at x, 50 digits; scale = largest intermediate."""
    mpf = mp.mpf
    x = mpf(x)
    if name == "UserIdentity":
        return x, abs(x)
    if name == "Huber":
        dl = mpf(par[0])
        if mp.sqrt(x) < dl:
            return x, abs(x)
        return 2 * dl * mp.sqrt(x) - dl * dl, 2 * dl * mp.sqrt(x) + dl * dl
    if name == "PseudoHuber":
        d2_ = mpf(par[0]) ** 2
        r = mp.sqrt(1 + x / d2_)
        return 2 * d2_ * (r - 1), 2 * d2_ * (r + 1)
    if name == "Cauchy":
        d2_ = mpf(par[0]) ** 2
        lg = mp.log(1 + x / d2_)
        return d2_ * lg, d2_ * (1 + lg)
    if name == "SoftLOne":
        dl = mpf(par[0])
        r = dl * mp.sqrt(1 / dl ** 2 + x)
        return 2 * (r - 1), 2 * (r + 1)
    if name == "Arctan":
        d2_ = mpf(par[0]) ** 2
        y = d2_ * mp.atan(x / d2_)
        return y, abs(y)
    if name == "Tolerant":
        a, b = mpf(par[0]), mpf(par[1])

        def term(z):
            u = mp.exp(z)
            lg = mp.log(1 + u)
            return lg, lg + (1 + abs(z)) * u / (1 + u)

        l1, s1 = term((x - a) / b)
        l0, s0 = term(-a / b)
        y = b * l1 - b * l0
        return y, abs(b) * (s1 + s0) + abs(y)
    if name == "Scale":
        y = mpf(par[0]) * x
        return y, abs(y)
    raise MachineryError("unknown kernel %s" % name)


def grid(rng, name, par, n_extra):
    pts = {0.0}
    for k in range(-12, 13, 2):
        pts.add(10.0 ** k)
    base = par[0] ** 2 if name not in ("Tolerant", "Scale") else (par[0] if name == "Tolerant" else 1.0)
    for m in (0.01, 0.1, 0.25, 0.5, 0.9, 1.0, 1.1, 2.0, 3.0, 4.0, 10.0, 30.0, 100.0, 1000.0):
        pts.add(base * m)
    if name == "Huber":
        t = par[0] ** 2
        pts.update({math.nextafter(t, 0.0), math.nextafter(t, math.inf), t * (1 - 1e-9), t * (1 + 1e-9)})
    if name == "Tolerant":
        a, b = par
        for m in (-30, -10, -3, -1, -0.3, 0.3, 1, 3, 10, 30, 100, 700):
            v = a + m * abs(b)
            if v > 0:
                pts.add(v)
    for _ in range(n_extra):
        pts.add(10.0 ** rng.uniform(-10, 10))
        pts.add(base * 10.0 ** rng.uniform(-3, 3))
    return sorted(pts)


def make_kernel(pp, name, par):
    import torch
    if name == "UserIdentity":            # user-defined kernels that hand their input back: rho(x) = x
        class Same(torch.nn.Module):
            def forward(self, x):
                return x
        return Same() if not par else torch.nn.Identity()
    K = getattr(pp.optim.kernel, name)
    return K(*par)


def float_trace(ctx, name, par, dtype, n_extra, xs=None):
    import mpmath
    import torch
    pp = pypose()
    mp = mpmath.mp
    mp.dps = 50
    dt = tdtype(torch, dtype)
    eps = mp.mpf(2) ** (-52 if dtype == "float64" else -23)
    if xs is None:
        xs = grid(ctx.rng, name, par, n_extra)
    xs = sorted(set(torch.tensor(xs, dtype=dt).tolist()))
    kern = make_kernel(pp, name, par)
    xt = torch.tensor(xs, dtype=dt)
    try:
        ys = kern(xt).tolist()
    except Exception:
        ys = [float("nan")] * len(xs)
    ev = []
    prev = None
    worst = 0
    for k, (x, y) in enumerate(zip(xs, ys), 1):
        fin = math.isfinite(y)
        err, dyv = CAP, 0
        if fin:
            ref, scale = reference(mp, name, par, x)
            unit = eps * (scale if scale > 0 else mp.mpf(10) ** -300)
            e = abs(mp.mpf(y) - ref) / unit
            err = int(min(CAP, mp.ceil(e))) if e > 0 else 0
            if prev is not None and math.isfinite(prev):
                dq = (mp.mpf(y) - mp.mpf(prev)) / unit
                dyv = int(max(-CAP, min(CAP, mp.floor(dq))))
        worst = max(worst, err if fin else 0)
        ev.append({"act": "eval", "k": k, "x0": x == 0.0, "finite": fin, "err": err, "dy": dyv,
                   "x": float(x).hex(), "y": float(y).hex() if fin else "nan"})
        prev = y
    ev += negative_probes(torch, kern, dt)
    ev.append({"act": "done", "n": len(xs)})
    return {"cfg": {"kind": "kern", "kernel": name, "par": [float(p).hex() for p in par], "dtype": dtype},
            "ev": ev}, worst


PARAMS_Q = {
    "Huber": [(1.0,), (0.3,), (2.5,), (10.0,)],
    "PseudoHuber": [(1.0,), (0.1,), (3.0,), (25.0,)],
    "Cauchy": [(1.0,), (0.1,), (3.0,), (25.0,)],
    "SoftLOne": [(1.0,), (0.3,), (3.0,), (20.0,)],
    "Arctan": [(1.0,), (0.2,), (4.0,), (-1.5,)],
    "Tolerant": [(1.0, -1.0), (5.0, -0.1), (50.0, -1.0), (0.5, -2.0), (10.0, -0.25), (3.0, -3.0)],
    "Scale": [(1.0,), (0.5,), (0.1,), (0.3,)],
}
PARAMS_T = {
    "Huber": [(0.01,), (0.7,), (100.0,)],
    "PseudoHuber": [(0.01,), (0.7,), (100.0,)],
    "Cauchy": [(0.01,), (0.7,), (100.0,)],
    "SoftLOne": [(0.05,), (0.7,), (100.0,)],
    "Arctan": [(0.01,), (0.7,), (100.0,)],
    "Tolerant": [(0.001, -1.0), (1.0, -0.02), (100.0, -2.0), (7.0, -0.5), (2.0, -50.0), (1e-3, -1e-3)],
    "Scale": [(0.9,), (0.01,), (1e-6,)],
}


# ============================================================================ spec -> code
def builtin_corrector_traces(ctx):
    """Every built-in kernel through FastTriggs and Triggs on residual tensors that contain exactly-zero rows,
    rows exactly at the Huber threshold and ordinary rows: J'^T R' must be sum_i rho'(|R_i|^2) J_i^T R_i with
    rho' from the 50-digit closed form (one-sided derivative at 0), everything finite; all built-in kernels have
    rho'' <= 0, so Triggs must coincide with FastTriggs.  Judged by LieNumTrace (corr_gradient, corr_ft_equal)."""
    import torch
    import mpmath as mp
    pp = pypose()
    from pypose.optim.corrector import FastTriggs, Triggs
    mp.mp.dps = 50
    rng = ctx.rng
    kernels = [("Huber", [1.0]), ("Huber", [0.5]), ("PseudoHuber", [1.0]), ("Cauchy", [2.0]), ("SoftLOne", [1.0]),
               ("Arctan", [1.0]), ("Tolerant", [1.0, -0.5]), ("Scale", [0.5]),
               ("UserIdentity", []), ("UserIdentity", [1.0])]       # (a user module / torch.nn.Identity): rho'' = 0
    traces = []
    for name, par in kernels:
        for dname in ("float64", "float32"):
            dt = tdtype(torch, dname)
            eps = mp.mpf(float(eps_of(dname)))
            for d in ([1, 3] if ctx.quick else [1, 2, 3, 6]):
                P = rng.randint(1, 3)
                rows = [[0.0] * d,                                                   # exactly zero residual
                        [float(par[0]) if par else 1.0] + [0.0] * (d - 1),           # |R| = delta exactly (Huber threshold)
                        [0.0] * (d - 1) + [float(rng.randint(1, 3))],                # a zero component but non-zero row
                        [float(rng.randint(-3, 3)) / 2 for _ in range(d)],
                        [float(rng.randint(-8, 8)) for _ in range(d)]]
                if not any(rows[3]):
                    rows[3][0] = 0.5
                if not any(rows[4]):
                    rows[4][0] = 4.0
                R = torch.tensor(rows, dtype=dt)
                J = torch.tensor([[float(rng.randint(-3, 3)) for _ in range(P)] for _ in range(len(rows) * d)], dtype=dt)
                kern = make_kernel(pp, name, par)
                ev = []
                out = {}
                for cname, cls in (("FastTriggs", FastTriggs), ("Triggs", Triggs)):
                    try:
                        Rp, Jp = cls(kern)(R=R.clone(), J=J.clone())
                        fin = bool(torch.isfinite(Rp).all() and torch.isfinite(Jp).all())
                    except Exception as ex:
                        ev.append({"chk": "corr_gradient", "ty": name, "dt": "f64" if dname == "float64" else "f32", "err": CAP,
                                   "finite": False, "allow": 0, "cell": {"corr": cname, "d": d, "raised": repr(ex)[:120]}, "x": rows, "a": par})
                        continue
                    out[cname] = (Rp, Jp)
                    # reference gradient with rho' from the closed form
                    want = [mp.mpf(0)] * P
                    for i, r in enumerate(rows):
                        x = sum(mp.mpf(v) ** 2 for v in r)
                        f = lambda z: reference(mp, name, par, z)[0]
                        g1 = mp.diff(f, x, direction=1) if x == 0 else mp.diff(f, x)
                        if name == "Huber" and x == mp.mpf(par[0]) ** 2:
                            g1 = mp.mpf(1)        # value and slope are continuous at the threshold
                        for c in range(P):
                            want[c] += g1 * sum(mp.mpf(float(J[i * d + k, c])) * mp.mpf(r[k]) for k in range(d))
                    got = (Jp.reshape(len(rows) * d, P).double().T @ Rp.reshape(-1).double()).tolist() if fin else [float("nan")] * P
                    scale = max(max(abs(w) for w in want), mp.mpf(1))
                    err = CAP if not fin else int(min(mp.ceil(max(abs(mp.mpf(g) - w) for g, w in zip(got, want)) / scale / eps), CAP))
                    ev.append({"chk": "corr_gradient", "ty": name, "dt": "f64" if dname == "float64" else "f32", "err": err,
                               "finite": fin, "allow": 0, "cell": {"corr": cname, "d": d, "P": P}, "x": rows, "a": par})
                if len(out) == 2:
                    (Rf, Jf), (Rt, Jt) = out["FastTriggs"], out["Triggs"]
                    fin = bool(torch.isfinite(Rt).all() and torch.isfinite(Jt).all() and torch.isfinite(Rf).all())
                    dmax = max(float((Rf - Rt).abs().max()), float((Jf - Jt).abs().max())) if fin else float("inf")
                    sc = max(1.0, float(Rf.abs().max()) if fin else 1.0, float(Jf.abs().max()) if fin else 1.0)
                    ev.append({"chk": "corr_ft_equal", "ty": name, "dt": "f64" if dname == "float64" else "f32",
                               "err": CAP if not fin else int(min(math.ceil(dmax / sc / float(eps)), CAP)), "finite": fin, "allow": 0,
                               "cell": {"corr": "Triggs=FastTriggs", "d": d}, "x": rows, "a": par})
                traces.append({"cfg": {"kind": "builtin_corrector", "kernel": name, "dtype": dname}, "ev": ev})
    return traces


def gen_table(ctx):
    """TLC tabulates both identity sides (and Huber values) for rational instances whose corrector outputs
    are NOT dyadic; the real code is run on each instance with a quadratic kernel realising (rho', rho'')."""
    import torch
    pp = pypose()
    from pypose.optim.corrector import FastTriggs, Triggs
    out = ctx.work / "kernels_table.json"
    ctx.tlc("KernelsGen", "KernelsGen.cfg" if ctx.quick else "KernelsGen_t.cfg", env={"OUT_FILE": out}, workers=1)
    tab = json.loads(out.read_text())
    eps = eps_of("float64")
    n = 0
    worst = 0
    for idx, row in enumerate(tab["rows"]):
        R = [F(v[0], v[1]) for v in row["R"]]
        J = [[F(v[0], v[1]) for v in r] for r in row["J"]]
        g1, g2 = F(*row["g1"]), F(*row["g2"])
        x = sum(v * v for v in R)
        # rho(t) = (g1 - g2 x) t + g2 t^2 / 2  has rho'(x) = g1, rho''(x) = g2
        c1, c2 = float(g1 - g2 * x), float(g2 / 2)

        class Quad(torch.nn.Module):
            def forward(self, t):
                return c1 * t + c2 * t * t

        Rt = torch.tensor([[float(v) for v in R]], dtype=torch.float64)
        Jt = torch.tensor([[float(v) for v in r] for r in J], dtype=torch.float64)
        for corr, cls in (("FastTriggs", FastTriggs), ("Triggs", Triggs)):
            masked = g2 > 0 and x != 0
            P = len(J[0])
            bad = None
            try:
                Rp, Jp = cls(Quad())(R=Rt.clone(), J=Jt.clone())
                Rp, Jp = Rp.reshape(-1).tolist(), Jp.tolist()
                if not all(math.isfinite(v) for v in _flat([Rp, Jp])):
                    bad = ("nonfinite", 0, Rp, "finite values")
            except Exception as ex:
                bad = ("raised", 0, repr(ex)[:120], "a result")
            if bad:
                n += 1
                ctx.violation("%s/%s/%s" % (corr, bad[0], "rho2pos" if masked else "rho2nonpos"),
                              "spec->code: %s on R=%s J=%s rho'=%s rho''=%s: %s (%s)" % (
                                  corr, [str(v) for v in R], [[str(v) for v in r] for r in J], g1, g2, bad[0], bad[2]),
                              {"mode": "table", "row": row, "corr": corr})
                continue
            Rp = [F(v) for v in Rp]
            Jp = [[F(v) for v in r] for r in Jp]
            for p in range(P):
                lhs = sum(Jp[k][p] * Rp[k] for k in range(len(R)))
                want = F(*row["grad"][p])
                mag = sum(abs(Jp[k][p] * Rp[k]) for k in range(len(R))) + abs(want)
                u = 0 if lhs == want else (CAP if mag == 0 else int(min(CAP, abs(lhs - want) / (eps * mag))))
                worst = max(worst, u if u < CAP else 0)
                if u > 256:
                    bad = ("gradient", p, float(lhs), float(want))
            if corr == "Triggs" and masked and bad is None:
                for p in range(P):
                    for q in range(P):
                        lhs = sum(Jp[k][p] * Jp[k][q] for k in range(len(R)))
                        want = F(*row["hess"][p][q])
                        mag = sum(abs(Jp[k][p] * Jp[k][q]) for k in range(len(R))) + abs(want)
                        u = 0 if lhs == want else (CAP if mag == 0 else int(min(CAP, abs(lhs - want) / (eps * mag))))
                        worst = max(worst, u if u < CAP else 0)
                        if u > 256:
                            bad = ("hessian", (p, q), float(lhs), float(want))
            n += 1
            if bad:
                ctx.violation("%s/%s/%s" % (corr, bad[0], "rho2pos" if masked else "rho2nonpos"),
                              "spec->code: %s on R=%s J=%s rho'=%s rho''=%s: %s component %s is %r, "
                              "Kernels gives %r" % (corr, [str(v) for v in R], [[str(v) for v in r] for r in J],
                                                    g1, g2, bad[0], bad[1], bad[2], bad[3]),
                              {"mode": "table", "row": row, "corr": corr})
            ctx.cover("table:%s:%s:%d" % (corr, "M" if masked else "U", idx))
    for h in tab["huber"]:
        dl, x, want = F(*h["delta"]), F(*h["x"]), F(*h["y"])
        y = F(float(pp.optim.kernel.Huber(float(dl))(torch.tensor([float(x)], dtype=torch.float64))[0]))
        mag = abs(want) + dl * dl
        u = 0 if y == want else int(min(CAP, abs(y - want) / (eps * mag)))
        n += 1
        if u > 64:
            ctx.violation("Huber/huber_value", "spec->code: Huber(%s)(%s) = %r, Kernels!HuberDoc gives %s"
                          % (dl, x, float(y), want), {"mode": "table", "huber": h})
    ctx.evaluations += n
    ctx.extra["table_instances_replayed"] = n
    ctx.extra["table_worst_identity_error_eps"] = worst
    ctx.sample({"kind": "spec->code row", "example": tab["rows"][len(tab["rows"]) // 2]})


# ============================================================================ judging
def judge(ctx, traces, verdicts, selftest=False):
    for tr, v in zip(traces, verdicts):
        c = tr["cfg"]
        if c["kind"] == "corr":
            for e in tr["ev"]:
                if e["act"] == "corr":
                    ctx.cover("corr:%s:%s:%s:%s:%s" % (c["corr"], c["dtype"], c["c"], e["shape"], e["cls"]))
        elif c["kind"] == "opt":
            ctx.cover("opt:%s:%s:%s" % (c["opt"], c["corrs"], c["kernels"]))
        elif c["kind"] == "huber":
            ctx.cover("huber:%s:%s" % (c["delta"], c["dtype"]))
        else:
            ctx.cover("kern:%s:%s:%s" % (c["kernel"], c["par"], c["dtype"]))
        if v == "ok":
            continue
        clause, at = v.split("@")
        e = tr["ev"][int(at) - 1]
        if clause.startswith("harness_") and not selftest:
            raise MachineryError("trace inconsistent (%s) in %s" % (v, json.dumps(tr)[:600]))
        if c["kind"] == "corr":
            cls = e.get("cls", [])
            key = "%s/%s/%s" % (c["corr"], clause, "linear_kernel" if len(c["c"]) == 1 else
                                "rho2pos" if "rho2pos" in cls else "rho2nonpos")
            what = "%s(user polynomial kernel c=%s, %s) on R%s with row classes %s: clause %s (returned R'=%s)" % (
                c["corr"], ["%d/%d" % tuple(q) for q in c["c"]], c["dtype"], e.get("shape"), cls, clause,
                e.get("Rp") if e.get("exact") else e.get("what", "off-lattice"))
        elif c["kind"] == "opt":
            key = "opt/%s/%s/%s" % (c["opt"], clause, "+".join(sorted(set(c["corrs"]))))
            what = "%s.step with correctors %s: clause %s" % (c["opt"], c["corrs"], clause)
        elif c["kind"] == "huber":
            key = "Huber/%s" % clause
            what = "Huber(delta=%s, %s): clause %s at event %s" % (F(c["delta"][0], 1 << c["delta"][1]), c["dtype"],
                                                                   clause, {k: e[k] for k in e if k != "act"})
        else:
            key = "%s/%s" % (c["kernel"], clause)
            what = "%s(%s, %s): clause %s at event %s" % (c["kernel"], [float.fromhex(p) for p in c["par"]],
                                                          c["dtype"], clause, {k: e[k] for k in e if k != "act"})
        ctx.violation(key, what, {"trace": tr, "verdict": v})


def replay(ctx):
    case = json.load(open(ctx.replay))["case"]
    if case.get("mode") == "table":
        gen_table(ctx)
        return
    tr = case["trace"]
    c = tr["cfg"]
    if c["kind"] == "corr":
        new = rerun_corr_trace(tr)
    elif c["kind"] == "kern":
        new, _ = float_trace(ctx, c["kernel"], tuple(float.fromhex(p) for p in c["par"]), c["dtype"], 0,
                             xs=[float.fromhex(e["x"]) for e in tr["ev"] if e["act"] == "eval"])
    elif c["kind"] == "huber":
        new = huber_traces(ctx, [F(c["delta"][0], 1 << c["delta"][1])], [c["dtype"]])[0]
    else:
        new = rerun_opt_trace(tr)
    judge(ctx, [new], ctx.validate("KernelsTrace", "KernelsTrace.cfg", [new], "replay"))


def run(ctx):
    q = ctx.quick
    ctx.rule = ["TLC: FastTriggs/Triggs/per-group mixtures over exact rationals, every enumerated instance "
                "(shapes N<=2, d<=2, P<=2, rho' in squares, rho'' >0/=0/<0 with rational alpha): gradient identity, "
                "Triggs Hessian identity on masked rows, coincidence with FastTriggs elsewhere, alpha root; "
                "Huber two-piece form, continuity of value and slope, secants, monotone, rejection of negatives",
                "conformance: real FastTriggs/Triggs on user polynomial kernels with exact dyadic outputs (both "
                "identity sides computed by TLC on the RETURNED values), real GN/LM steps observed at the solver, "
                "Huber on perfect squares, seven kernels vs 50-digit closed forms judged by spec tolerances; "
                "distinct = (corrector, dtype, kernel, batch shape, row classes) / (kernel, params, dtype)"]
    ctx.assumptions = ["corrector inputs are chosen so that sqrt(rho'), alpha and all outputs are small dyadics "
                       "(IEEE arithmetic exact); outputs within 64 eps of the lattice are snapped",
                       "rho' = 0 together with rho'' > 0 (division by rho') and kernels with rho' < 0 are not generated",
                       "floating closed forms: error unit = eps(dtype) x largest intermediate of the documented "
                       "formula; tolerance constants live in Kernels.tla"]
    ctx.tlc("Kernels", "Kernels_q.cfg" if q else "Kernels_t.cfg", workers=8, coverage=q,
            need_actions=["CallFastTriggs", "CallTriggsCurved", "CallTriggsFlat", "CallOptStep", "CallHuber"] if q else ())
    for r in ctx.tlc_runs:
        if r["violated"]:
            ctx.violation("design/" + r["violated"][0], "Kernels design model violates %s" % r["violated"])
    if ctx.replay:
        replay(ctx)
        return
    gen_table(ctx)
    traces = corrector_traces(ctx, 24 if q else 160, 5 if q else 8)
    ncorr = len(traces)
    traces += optimizer_traces(ctx, 24 if q else 160)
    deltas = [F(1, 2), F(1), F(3, 2), F(3)] if q else [F(1, 4), F(1, 2), F(1), F(3, 2), F(2), F(3), F(5), F(7, 2)]
    traces += huber_traces(ctx, deltas, ["float64", "float32"])
    worst = {}
    for name in PARAMS_Q:
        pars = PARAMS_Q[name] + ([] if q else PARAMS_T[name])
        for par in pars:
            if name == "Tolerant" and par[0] / abs(par[1]) > 50:
                continue
            for dtype in ("float64", "float32"):
                tr, w = float_trace(ctx, name, par, dtype, 4 if q else 60)
                worst[name] = max(worst.get(name, 0), w)
                traces.append(tr)
    ctx.extra["closed_form_worst_error_units"] = worst
    ctx.extra["corrector_traces"] = ncorr
    ctx.sample({"kind": "corrector trace", "cfg": traces[1]["cfg"], "ev": traces[1]["ev"][:1]})
    ctx.sample({"kind": "closed-form trace", "cfg": traces[-1]["cfg"], "ev": traces[-1]["ev"][:3]})
    verdicts = ctx.validate("KernelsTrace", "KernelsTrace.cfg", traces, "kern", chunk=400)
    judge(ctx, traces, verdicts)
    # built-in kernels through both correctors (zero rows, threshold rows): numeric clauses of LieNumTrace
    btr = builtin_corrector_traces(ctx)
    wb = 0
    for tr, v in zip(btr, ctx.validate("LieNumTrace", "LieNumTrace.cfg", btr, "bcorr", chunk=2000)):
        for e in tr["ev"]:
            ctx.cover("bcorr:%s:%s:%s:%s" % (tr["cfg"]["kernel"], tr["cfg"]["dtype"], e["chk"], e["cell"]))
            if e["finite"]:
                wb = max(wb, e["err"])
        if v != "ok":
            clause, at = v.split("@")
            e = tr["ev"][int(at) - 1]
            ctx.violation("builtin/%s/%s/%s" % (tr["cfg"]["kernel"], e["cell"].get("corr"), clause),
                          "%s kernel through %s (%s, d=%s) on rows incl. an exactly-zero row and a row at the threshold: clause %s "
                          "(err=%s eps-units, finite=%s)" % (tr["cfg"]["kernel"], e["cell"].get("corr"), tr["cfg"]["dtype"],
                                                             e["cell"].get("d"), clause, e["err"], e["finite"]),
                          {"trace": tr, "verdict": v, "spec": "LieNumTrace"})
    ctx.extra["builtin_corrector_worst_error_eps"] = wb


def selftest(ctx):
    """Binding demonstration: a corrupted field and a removed event must both be rejected."""
    fam = [kn for kn in kernel_family(ctx, 24) if "M" in signature(kn[1])]
    c, nodes = fam[0]
    x = [x for x in nodes if nodes[x][2]][0]
    d = [d for d in range(1, 7) if vectors(d, int(x * 4))][0]
    good = None
    for _ in range(20):
        R, J, picks = build_instance(ctx.rng, c, nodes, d, 2, (2,), x)
        ev = [run_corrector(c, "FastTriggs", "float64", R, J, (2,), 1)]
        R2, J2, _ = build_instance(ctx.rng, c, nodes, d, 2, (1,), x)
        ev.append(run_corrector(c, "FastTriggs", "float64", R2, J2, (1,), 2))
        if all(e is not None and e["exact"] for e in ev) and any(v[0] != 0 for v in _flat_pairs(ev[0]["Rp"])):
            for e in ev:
                e["cls"] = []
            good = {"cfg": {"kind": "corr", "corr": "FastTriggs", "c": [rat(v) for v in c], "dtype": "float64",
                            "sig": signature(nodes)}, "ev": ev + [{"act": "done", "n": 2}]}
            break
    assert good is not None
    bad1 = json.loads(json.dumps(good))
    i, kk = next((i, kk) for i, row in enumerate(bad1["ev"][0]["Rp"]) for kk, v in enumerate(row) if v[0] != 0)
    bad1["ev"][0]["Rp"][i][kk][0] += 1
    bad2 = json.loads(json.dumps(good))
    del bad2["ev"][0]
    ft, _ = float_trace(ctx, "Cauchy", (1.0,), "float64", 0)
    bad3 = json.loads(json.dumps(ft))
    bad3["ev"][3]["err"] = 100000
    bad4 = json.loads(json.dumps(ft))
    del bad4["ev"][2]
    v = ctx.validate("KernelsTrace", "KernelsTrace.cfg", [good, bad1, bad2, ft, bad3, bad4], "selftest")
    print("selftest verdicts:", v)
    assert v[0] == "ok" and v[1].startswith("gradient") and v[2] != "ok", v
    assert v[3] == "ok" and v[4].startswith("closed_form") and v[5] != "ok", v
    return 0


def _flat_pairs(a):
    if a and isinstance(a[0], list) and a[0] and isinstance(a[0][0], list):
        for v in a:
            yield from _flat_pairs(v)
    else:
        for v in a:
            yield v
