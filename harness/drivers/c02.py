"""C02 — Log is the principal inverse of Exp on SO3, SE3, RxSO3, Sim3 (Mode R with exact points).
Design: LieRegimes.tla; verdicts: LieRegimesTrace.tla (clauses LogClause, LogExpClause)."""
import json
import math

from vlib.core import pypose
from vlib import lattice as L
from drivers.c01 import rand_dir, dexp, theta_classes, sigma_classes, TRANS, PI


def angle_classes(eps, q):
    c = [0.0, 1e-30, 2 * eps * (1 - 2 ** -8), 2 * eps * (1 + 2 ** -8), 1e3 * eps, math.sqrt(eps), 1e-3, 0.5, 1.5, 2.5, 3.0,
         PI - 1e-1, PI - 1e-3, PI - 1e-5, PI - 1e-7, PI - 1e-9, PI - 1e-12, PI - 1e-15, PI, PI, PI]
    if not q:
        c += [10.0 ** k for k in range(-28, 0, 3)] + [PI - 10.0 ** -k for k in range(2, 16)]
    return c


def group_cells(ty, eps, q):
    ang = angle_classes(eps, q)
    sg = [s for s in sigma_classes(eps, q)] if ty in ("RxSO3", "Sim3") else [0.0]
    tr = TRANS if ty in ("SE3", "Sim3") else [0.0]
    return [(a, h, s, p) for a in ang for h in (1, -1) for s in sg for p in tr]


def build(rng, ty, cell, dtype):
    """A valid group element of the cell: unit quaternion (axis sin(a/2), cos(a/2)) * hemisphere sign."""
    import mpmath as mp
    a, h, s, p = cell
    ax = rand_dir(rng)
    sh, ch = mp.sin(mp.mpf(a) / 2), mp.cos(mp.mpf(a) / 2)
    q = [float(h * sh * v) for v in ax] + [float(h * ch)]
    if a == PI:
        # exact half turns: w is exactly 0 (also exactly representable axes such as (1,0,0) and (0.6,0.8,0)),
        # or the smallest normal / a subnormal float
        k = rng.randint(0, 4)
        if k == 0:
            q = [1.0, 0.0, 0.0, 0.0]
        elif k == 1:
            q = [0.6, 0.8, 0.0, 0.0]
        q[3] = [0.0, 0.0, 0.0, h * 1e-300, h * 5e-324][k] if k < 5 else 0.0
    t = [p * d for d in rand_dir(rng)]
    sc = [math.exp(s)]
    return {"SO3": q, "SE3": t + q, "RxSO3": q + sc, "Sim3": t + q + sc}[ty]


def measure_log(ctx, ty, dtype, per_cell):
    import torch
    import mpmath as mp
    from vlib import refsem as R
    pp = pypose()
    rng = ctx.rng
    eps_f = float(torch.finfo(dtype).eps)
    eps = mp.mpf(eps_f)
    dt = "f64" if dtype == torch.float64 else "f32"
    cs = group_cells(ty, eps_f, ctx.quick)
    rows, meta = [], []
    for c in cs:
        for _ in range(per_cell):
            rows.append(build(rng, ty, c, dtype))
            meta.append(c)
    X = L.mk(ty, rows, dtype)
    off = {"SO3": 0, "SE3": 3, "RxSO3": 0, "Sim3": 3}[ty]
    # renormalise the quaternion in the dtype (a valid element as the library sees it)
    t = X.tensor().clone()
    t[:, off:off + 4] = t[:, off:off + 4] / t[:, off:off + 4].norm(dim=-1, keepdim=True)
    X = pp.LieTensor(t, ltype=X.ltype)
    tn = X.tensor().clone()
    tn[:, off:off + 4] = -tn[:, off:off + 4]
    Xn = pp.LieTensor(tn, ltype=X.ltype)

    def every_other_row_in_a_batch_with_extent_3(f, Z):
        """"any batch shape": f on the flat batch, with the odd rows taken from the same rows evaluated in a batch folded as
        (-1, 2, 3) (an extent equal to the size of a coordinate axis)."""
        flat = f(Z)
        n_ = Z.shape[0]
        pad3 = (-n_) % 6
        Zp = pp.LieTensor(torch.cat([Z.tensor(), Z.tensor()[:1].expand(pad3, -1)]), ltype=Z.ltype) if pad3 else Z
        folded = f(Zp.lview(-1, 2, 3))
        ft = flat.tensor().clone()
        ft[1:n_:2] = folded.tensor().reshape(-1, ft.shape[-1])[1:n_:2]
        return pp.LieTensor(ft, ltype=flat.ltype)
    Lg = every_other_row_in_a_batch_with_extent_3(lambda Z: Z.Log(), X)
    RT = every_other_row_in_a_batch_with_extent_3(lambda Z: Z.Exp(), Lg)
    Ln = every_other_row_in_a_batch_with_extent_3(lambda Z: Z.Log(), Xn)
    Li = every_other_row_in_a_batch_with_extent_3(lambda Z: Z.Inv().Log(), X)
    ident = getattr(pp, "identity_" + ty)(dtype=dtype).tensor()
    ro = {"SO3": (0, 3), "SE3": (3, 6), "RxSO3": (0, 3), "Sim3": (3, 6)}[ty]       # rotation slots of the algebra
    so = {"SO3": None, "SE3": None, "RxSO3": 3, "Sim3": 6}[ty]                     # log-scale slot

    def sig_err(a, b):
        # the log-scale can only be known to eps absolutely (s = e^sigma has O(1) entries): error relative to max(1, |sigma|)
        if so is None:
            return 0
        return int(min(mp.ceil(abs(mp.mpf(float(a[so])) - b[so]) / max(mp.mpf(1), abs(b[so])) / eps), R.CAP))
    ev = []
    for i in range(len(rows)):
        xi = X.tensor()[i].tolist()
        li = Lg.tensor()[i]
        fin = bool(torch.isfinite(li).all() and torch.isfinite(RT.tensor()[i]).all() and torch.isfinite(Ln.tensor()[i]).all()
                   and torch.isfinite(Li.tensor()[i]).all())
        a, h, s, p = meta[i]
        sgv = float(math.log(xi[-1])) if ty in ("RxSO3", "Sim3") else 0.0
        e = {"chk": "log", "ty": ty, "dt": dt, "eT": dexp(a), "eS": dexp(s), "eP": dexp(p), "hemi": h, "finite": fin,
             "awayPi": bool(a <= PI - 1e-6), "identity_in": bool(torch.equal(X.tensor()[i], ident)),
             "gT": bool(a > eps_f), "gS": bool(abs(s) > eps_f), "sT": bool(a < eps_f ** 0.25), "sS": bool(abs(s) < eps_f ** 0.25), "cell": [a, h, s, p], "x": xi}
        if not fin:
            e.update({"norm_excess": 0, "rt_rot": R.CAP, "rt_trans": R.CAP, "zero_out": False, "neg_same": R.CAP,
                      "inv_neg_rot": R.CAP, "inv_neg_trans": R.CAP})
            ev.append(e)
            continue
        phi = li[ro[0]:ro[0] + 3].double()
        nrm = mp.sqrt(sum(mp.mpf(float(v)) ** 2 for v in phi.tolist()))
        e["norm_excess"] = int(min(max(mp.mpf(0), mp.ceil((nrm - mp.pi) / (mp.pi * eps))), R.CAP))
        Mx, Mrt = R.mat_of(ty, xi), R.mat_of(ty, RT.tensor()[i].tolist())
        e["rt_rot"] = R.block_err(Mrt, Mx, range(3), range(3), eps)
        if ty in ("SE3", "Sim3"):
            if all(v == 0 for v in xi[0:3]):
                e["rt_trans"] = 0 if all(v == 0 for v in RT.tensor()[i][0:3].tolist()) else R.CAP
            else:
                e["rt_trans"] = R.block_err(Mrt, Mx, range(3), [3], eps)
        else:
            e["rt_trans"] = 0
        e["zero_out"] = bool((li == 0).all())
        lref = [mp.mpf(float(v)) for v in li.tolist()]
        floor = mp.mpf(10) ** -290

        def rel(vi, vr, sl):
            return R.vec_err([vi[k] for k in range(*sl)], [vr[k] for k in range(*sl)], eps, floor=floor)
        # Log(-q) = Log(q)
        e["neg_same"] = max(rel(Ln.tensor()[i].tolist(), lref, ro), sig_err(Ln.tensor()[i].tolist(), lref),
                            rel(Ln.tensor()[i].tolist(), lref, (0, 3)) if ty in ("SE3", "Sim3") and any(v != 0 for v in xi[0:3]) else 0)
        # Log(Inv X) = -Log X   (rotation/log-scale slots and translation slots separately)
        neg = [-v for v in lref]
        e["inv_neg_rot"] = max(rel(Li.tensor()[i].tolist(), neg, ro), sig_err(Li.tensor()[i].tolist(), neg))
        e["inv_neg_trans"] = rel(Li.tensor()[i].tolist(), neg, (0, 3)) if ty in ("SE3", "Sim3") and any(v != 0 for v in xi[0:3]) else 0
        ev.append(e)
    return ev


def measure_logexp(ctx, ty, dtype, per_cell):
    """Log(Exp(x)) = x for rotation angle below pi."""
    import torch
    import mpmath as mp
    from vlib import refsem as R
    rng = ctx.rng
    eps_f = float(torch.finfo(dtype).eps)
    eps = mp.mpf(eps_f)
    dt = "f64" if dtype == torch.float64 else "f32"
    th = [t for t in theta_classes(eps_f, ctx.quick) if t < PI - 1e-7]
    sg = sigma_classes(eps_f, ctx.quick) if ty in ("RxSO3", "Sim3") else [0.0]
    tr = TRANS if ty in ("SE3", "Sim3") else [0.0]
    rows, meta = [], []
    for t in th:
        for s in sg:
            for p in tr:
                for _ in range(per_cell):
                    phi = [t * d for d in rand_dir(rng)]
                    tau = [p * d for d in rand_dir(rng)]
                    rows.append({"SO3": phi, "SE3": tau + phi, "RxSO3": phi + [s], "Sim3": tau + phi + [s]}[ty])
                    meta.append((t, s, p))
    x = L.mkalg(ty, rows, dtype)
    y = x.Exp().Log()
    ro = {"SO3": (0, 3), "SE3": (3, 6), "RxSO3": (0, 3), "Sim3": (3, 6)}[ty]
    so = {"SO3": None, "SE3": None, "RxSO3": 3, "Sim3": 6}[ty]
    ev = []
    floor = mp.mpf(10) ** -290
    for i in range(len(rows)):
        xi = [mp.mpf(v) for v in x.tensor()[i].tolist()]
        yi = y.tensor()[i].tolist()
        fin = bool(torch.isfinite(y.tensor()[i]).all())
        t, s, p = meta[i]
        e = {"chk": "logexp", "ty": ty, "dt": dt, "eT": dexp(t), "eS": dexp(s), "eP": dexp(p), "finite": fin,
             "gT": bool(t > eps_f), "gS": bool(abs(s) > eps_f), "sT": bool(t < eps_f ** 0.25), "sS": bool(abs(s) < eps_f ** 0.25), "cell": [t, 1, s, p], "x": x.tensor()[i].tolist()}
        if fin:
            e["err_rot"] = R.vec_err([yi[k] for k in range(*ro)], [xi[k] for k in range(*ro)], eps, floor=floor)
            if so is not None:   # log-scale: absolute to eps (relative to max(1, |sigma|))
                e["err_rot"] = max(e["err_rot"], int(min(mp.ceil(abs(mp.mpf(yi[so]) - xi[so]) / max(mp.mpf(1), abs(xi[so])) / eps), R.CAP)))
            e["err_trans"] = R.vec_err(yi[0:3], xi[0:3], eps, floor=floor) if ty in ("SE3", "Sim3") and p != 0 else 0
        else:
            e["err_rot"] = e["err_trans"] = R.CAP
        ev.append(e)
    return ev


def exact_points(ctx, ty, dtype):
    """Mode E on the 24 Hurwitz units: Log(-q) = Log(q) bitwise away from pi (angles 0, 2pi/3), Log(identity) = 0."""
    import torch
    pp = pypose()
    ev = []
    rows = []
    for qv in L.U24:
        if abs(qv[3]) in (0.5, 1.0):
            r = list(qv)
            rows.append({"SO3": r, "SE3": [1.0, -2.0, 3.0] + r, "RxSO3": r + [1.0], "Sim3": [1.0, -2.0, 3.0] + r + [1.0]}[ty])
    X = L.mk(ty, rows, dtype)
    off = {"SO3": 0, "SE3": 3, "RxSO3": 0, "Sim3": 3}[ty]
    tn = X.tensor().clone()
    tn[:, off:off + 4] = -tn[:, off:off + 4]
    a, b = X.Log().tensor(), pp.LieTensor(tn, ltype=X.ltype).Log().tensor()
    same = bool(torch.equal(a, b))
    return {"same": same, "n": len(rows)}


class _MiniCtx:
    def __init__(self, seed, quick):
        import random
        self.rng, self.quick, self.seed = random.Random(seed), quick, seed


def _worker(args):
    import torch
    ty, dts, seed, quick = args
    pypose()
    dtype = torch.float64 if dts == "f64" else torch.float32
    c = _MiniCtx(seed, quick)
    return measure_log(c, ty, dtype, 1 if quick else 5) + measure_logexp(c, ty, dtype, 1 if quick else 4), exact_points(c, ty, dtype)


def judge(ctx, traces, verdicts):
    for tr, v in zip(traces, verdicts):
        if v != "ok":
            clause, at = v.split("@")
            e = tr["ev"][int(at) - 1]
            key = "%s/%s/%s/%s/eS=%d" % (e["chk"], e["ty"], e["dt"], clause, e["eS"])
            if "near_pi" in clause or not e.get("awayPi", True):
                key += "/nearPi"
            ctx.violation(key, "%s %s %s cell angle~%.6g hemi=%s sigma~%.3g |t|~%.3g: clause %s; measures=%s" % (
                e["chk"], e["ty"], e["dt"], e["cell"][0], e["cell"][1], e["cell"][2], e["cell"][3], clause,
                {k: e[k] for k in e if k.startswith(("rt_", "err_", "neg_", "inv_", "norm_"))}),
                {"trace": {"cfg": tr["cfg"], "ev": [e]}, "spec": "LieRegimesTrace"})


def run(ctx):
    import torch
    pypose()
    q = ctx.quick
    ctx.rule = ["TLC (LieRegimes): regime totality and the error model over every magnitude cell",
                "every group cell (angle 0, 1e-30, 2eps-/+, .., pi-1e-k (k<=15), pi; both hemispheres; scale e^sigma for the sigma "
                "classes of C01 up to e^+-8; |t| 0..1e4) x random axes: Exp(Log X) vs X per block, |rot(Log X)| <= pi, "
                "Log(-q) = Log(q) and Log(Inv X) = -Log X away from pi, Log(identity) = 0; Log(Exp x) = x for angles below pi; "
                "TLC judges the integer errors; distinct = cell x type x dtype"]
    ctx.assumptions = ["'away from pi' is taken as angle <= pi - 1e-6; closer cells are judged only for the round trip and the norm bound",
                       "the relations Log(-q) = Log(q) and Log(Inv X) = -Log X are checked on the implementation's own outputs (no oracle)"]
    if ctx.replay:
        case = json.load(open(ctx.replay))["case"]
        tr = case["trace"]
        judge(ctx, [tr], ctx.validate("LieRegimesTrace", "LieRegimesTrace.cfg", [tr], "replay"))
        return
    ctx.tlc("LieRegimes", "LieRegimes.cfg", workers=4)
    for r in ctx.tlc_runs:
        if r["violated"]:
            ctx.violation("design/%s" % r["violated"][0], "LieRegimes violates %s" % r["violated"])
    traces = []
    worst = {}
    import multiprocessing as mpc
    jobs = [(ty, dts, ctx.seed * 1000 + 19 * i + j, q) for i, ty in enumerate(L.TYPES) for j, dts in enumerate(("f64", "f32"))]
    with mpc.get_context("fork").Pool(8) as pool:
        results = pool.map(_worker, jobs)
    for (ty, dts, _, _), (ev, xp) in zip(jobs, results):
        if True:
            for e in ev:
                ctx.cover("%s:%s:%s:%s:%s:%s:%s" % (e["chk"], ty, e["dt"], e["cell"][0], e["cell"][1], e["eS"], e["eP"]))
                w = worst.setdefault("%s/%s/%s" % (e["chk"], ty, e["dt"]), {})
                for k in e:
                    if k.startswith(("rt_", "err_", "neg_", "inv_", "norm_")):
                        w[k] = max(w.get(k, 0), e[k])
                traces.append({"cfg": {"spec": "LieRegimesTrace"}, "ev": [e]})
            ctx.evaluations += xp["n"]
            if not xp["same"]:
                ctx.violation("exact/%s/log_of_negated_quaternion" % ty, "Log(-q) != Log(q) bitwise on the Hurwitz units with |w| in {1/2, 1}")
    ctx.extra["worst_err_eps_units"] = worst
    ctx.sample(traces[5]["ev"][0])
    ctx.sample(traces[-1]["ev"][0])
    judge(ctx, traces, ctx.validate("LieRegimesTrace", "LieRegimesTrace.cfg", traces, "log", chunk=2500, parallel=8))


def selftest(ctx):
    import torch
    pypose()
    ev = measure_log(ctx, "SE3", torch.float64, 1)[:6]
    good = {"cfg": {}, "ev": ev}
    bad = json.loads(json.dumps(good))
    bad["ev"][1]["rt_rot"] = 10 ** 6
    bad2 = json.loads(json.dumps(good))
    bad2["ev"][0]["norm_excess"] = 100
    v = ctx.validate("LieRegimesTrace", "LieRegimesTrace.cfg", [good, bad, bad2], "selftest")
    print("selftest verdicts:", v)
    assert v[0] == "ok" and v[1] != "ok" and v[2] != "ok"
    return 0
