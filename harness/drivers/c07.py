"""C07 — a GN / LM step is the documented damped, weighted linear solve on the manifold (Mode E + S).

Design: spec/NormalEq.tla (stacking, weight expansion, GN / LM systems, layouts, split, update kinds),
spec/NormalEqMC.tla (+ NormalEqMC_*.cfg) model-checked by TLC; binding: spec/NormalEqTrace.tla judges what the
REAL pypose.optim.GaussNewton / LevenbergMarquardt hand to a recording solver (public extension point) and
how they change the parameters, on lattice models described to TLC as programs + inputs (the spec recomputes
residuals, the true Jacobian by dual numbers, the block-diagonal weight and the documented systems exactly).

Observation points (all public): `solver=nn.Module(A, b)`, `strategy=object(update)`, `corrector=nn.Module(R, J)`,
the user's model (its forward records the parameter values it is evaluated with), the parameters after step().
"""
import copy
import json
import math
from fractions import Fraction

from vlib.core import MachineryError, pypose
from vlib import lattice as L
from drivers import c04

CAP = 10 ** 9
OUTDIM = {"act3": lambda ty: 3, "act4": lambda ty: 4, "tensor": lambda ty: L.ADIM[ty],
          "matrix": lambda ty: 9 if ty == "SO3" else 16}


def outdim(prog, ty):
    if prog["op"] == "vadd":          # sum of two vector-valued sub-programs (c04 grammar)
        return outdim(prog["a"], ty)
    return OUTDIM[prog["op"]](ty)
KDIM = lambda ty, kind, n=3: {"G": L.GDIM[ty], "A": L.ADIM[ty]}.get(kind, n)
TDIM = lambda ty, kind, n=3: {"G": L.ADIM[ty], "A": L.ADIM[ty]}.get(kind, n)


def prod(s):
    r = 1
    for x in s:
        r *= x
    return r


def unravel(i, shape):
    idx = []
    for d in reversed(shape):
        idx.append(i % d)
        i //= d
    return tuple(reversed(idx))


def bcast_index(i, bshape, wshape):
    """Linear index into a tensor of batch shape wshape that broadcasts (right-aligned) against bshape."""
    mi = unravel(i, bshape)
    k, j = len(bshape), len(wshape)
    r = 0
    for a in range(j):
        r = r * wshape[a] + (0 if wshape[a] == 1 else mi[k - j + a])
    return r


def D(x):
    return L.dy(x)


# ====================================================================== model generation
def sample(rng, ty, sort):
    """A lattice value of a sort of c04.Gen (G, Gt, A, At, V3, V4) -> (value list, kind)."""
    if sort == "G":
        return L.rand_elem(rng, ty, tbox=2, sbox=1), "G"
    if sort == "Gt":
        t = [float(rng.randint(-2, 2)) for _ in range(3)]
        q = [0.0, 0.0, 0.0, rng.choice([1.0, 1.0, -1.0])]
        return {"SO3": q, "SE3": t + q, "RxSO3": q + [1.0], "Sim3": t + q + [1.0]}[ty], "G"
    if sort == "A":
        return L.rand_alg(rng, ty, box=2), "A"
    if sort == "At":
        return L.rand_alg(rng, ty, box=2, pure_trans=True), "A"
    if sort == "V3":
        return [float(rng.randint(-3, 3)) for _ in range(3)], "V"
    if sort == "V4":
        return [float(rng.randint(-3, 3)) for _ in range(3)] + [float(rng.choice([0, 1, 1, -1, 2]))], "V"
    if sort.startswith("E"):          # Euclidean vector of dimension n ("E<n>")
        return [float(rng.randint(-3, 3)) for _ in range(int(sort[1:]))], "V"
    raise ValueError(sort)


BSHAPES = [(), (), (2,), (2,), (3,), (2, 2), (1, 2), (2, 1, 2), (2, 3)]


def spd(rng, n, cls):
    """A symmetric positive definite n x n matrix with small dyadic entries."""
    if cls == "diag" or n > 4:
        return [[(rng.choice([0.5, 1.0, 2.0, 4.0]) if i == j else 0.0) for j in range(n)] for i in range(n)]
    Lo = [[(float(rng.randint(1, 2)) if i == j else (float(rng.randint(-1, 1)) if j < i else 0.0)) for j in range(n)]
          for i in range(n)]
    W = [[sum(Lo[i][k] * Lo[j][k] for k in range(n)) for j in range(n)] for i in range(n)]
    sc = rng.choice([1.0, 1.0, 0.5, 2.0])
    return [[sc * W[i][j] for j in range(n)] for i in range(n)]


def wshapes_of(bshape):
    """Every weight batch shape that broadcasts against bshape, with its class."""
    out = [((), "RR")]
    k = len(bshape)
    for j in range(1, k + 1):
        suf = bshape[k - j:]
        opts = [[1, d] if d != 1 else [1] for d in suf]
        import itertools
        for w in itertools.product(*opts):
            w = tuple(w)
            lead = 0
            while lead < len(w) and w[lead] == 1:
                lead += 1
            rest = w[lead:]
            if rest == tuple(suf[lead:]):
                cls = "full" if (j == k and lead == 0) else ("lead1" if lead > 0 else "suffix")
            else:
                cls = "interior1"
            if all(d == 1 for d in suf):
                cls = "full" if j == k else "suffix"
            out.append((w, cls))
    return out


class ModelGen:
    """Random lattice model: 1-3 parameters of kinds G / A / V (batched or not), 1-2 residual blocks."""

    def __init__(self, rng, ty, family, maxd=3, allow_frozen=True, allow_G=True, weight="any", interior=False,
                 nblocks=None, bshapes=None, wcls=None):
        self.rng, self.ty, self.family, self.maxd = rng, ty, family, maxd
        self.allow_frozen, self.allow_G, self.weight, self.interior = allow_frozen, allow_G, weight, interior
        self.nblocks, self.bshapes, self.wcls = nblocks, bshapes, wcls
        self.kinds, self.vals = [], []
        self.params = []          # dicts: kind, sort, shape, el, fr, dim
        self.blocks = []          # dicts as in the spec + python-only "target_arg"
        self.consts = []          # element ids of constants, in input order

    def elem(self, sort):
        v, kind = sample(self.rng, self.ty, sort)
        self.kinds.append(kind)
        self.vals.append(v)
        return len(self.vals)

    def new_param(self, sort, shape):
        el = [self.elem(sort) for _ in range(prod(shape))]
        kind = self.kinds[el[0] - 1]
        p = dict(kind=kind, sort=sort, shape=tuple(shape), el=el, fr=False, dim=len(self.vals[el[0] - 1]))
        self.params.append(p)
        return len(self.params) - 1

    def usable(self, p, bshape):
        s = self.params[p]["shape"]
        return len(s) <= len(bshape) and all(a == b for a, b in zip(s, bshape[len(bshape) - len(s):]))

    def bind(self, sort, bshape, want_param):
        """Choose a parameter (index) for a program input of this sort, or None for a constant."""
        rng = self.rng
        kind = {"G": "G", "Gt": "G", "A": "A", "At": "A"}.get(sort, "V")
        if kind == "G" and not self.allow_G:
            return None
        same = [i for i, p in enumerate(self.params) if p["sort"] == sort and self.usable(i, bshape)]
        if same and rng.random() < 0.6:
            return rng.choice(same)
        if want_param and len(self.params) < 3:
            shapes = [()]
            if bshape:
                shapes += [tuple(bshape[-1:]), tuple(bshape)]
            return self.new_param(sort, rng.choice(shapes))
        return None

    def lin_term(self, R, bshape, force_new=False):
        rng = self.rng
        cands = [i for i, p in enumerate(self.params) if p["kind"] in ("V", "A") and self.usable(i, bshape)]
        if (not cands or force_new or rng.random() < 0.4) and len(self.params) < 3:
            if rng.random() < 0.3:
                sort = "A"
            else:
                sort = "E%d" % rng.choice([1, 2, 3, 3, L.GDIM[self.ty], L.ADIM[self.ty]])
            shapes = [()] + ([tuple(bshape[-1:])] if bshape else [])
            p = self.new_param(sort, rng.choice(shapes))
        elif cands:
            p = rng.choice(cands)
        else:
            return None
        d = self.params[p]["dim"]
        M = [[float(rng.randint(-2, 2)) for _ in range(d)] for _ in range(R)]
        c = rng.random()
        if c < 0.2 and d > 1:                 # rank deficiency: repeated / zero column
            j = rng.randrange(d)
            k = (j + 1) % d
            for r in range(R):
                M[r][k] = M[r][j] if c < 0.1 else 0.0
        return dict(t="lin", c=rng.choice([1.0, -1.0, 2.0, 0.5]), p=p, M=M)

    def block(self):
        rng, ty = self.rng, self.ty
        bshape = rng.choice(self.bshapes or BSHAPES)
        if self.interior:
            bshape = rng.choice([(2, 2), (2, 3), (3, 2), (2, 2, 2)])
        terms = []
        fam = self.family
        if fam == "mixed":
            fam = rng.choice(["prog", "prog", "lin", "proglin"])
        if fam in ("prog", "proglin"):
            for _ in range(50):
                g = c04.Gen(rng, ty)
                g.sorts = []
                prog = g.program(rng.randint(1, self.maxd))
                if len(set(c04._inputs(prog))) == len(g.vals):
                    break
            R = outdim(prog, ty)
            if R > 7 and prod(bshape) > 2 and not self.bshapes:
                bshape = rng.choice([(), (2,)])
            n_in = len(g.sorts)
            order = list(range(n_in))
            rng.shuffle(order)
            roles = [None] * n_in
            nwant = rng.randint(1, 2) if self.params else rng.randint(1, 3)
            for j in order:
                roles[j] = self.bind(g.sorts[j], bshape, nwant > 0)
                if roles[j] is not None:
                    nwant -= 1
            terms.append(dict(t="prog", c=rng.choice([1.0, 1.0, -1.0, 2.0, 0.5]), prog=prog, sorts=g.sorts, roles=roles))
        else:
            R = rng.choice([1, 2, 3, 3])
        if fam in ("lin", "proglin"):
            for _ in range(rng.randint(1, 2)):
                t = self.lin_term(R, bshape)
                if t:
                    terms.append(t)
        if not terms:
            t = self.lin_term(R, bshape, force_new=True)
            if t is None:
                self.bad = True
                return
            terms.append(t)
        items = []
        for i in range(prod(bshape)):
            loc, its = [], []
            for t in terms:
                if t["t"] == "prog":
                    base = len(loc)
                    for j, s in enumerate(t["sorts"]):
                        if t["roles"][j] is None:
                            g_id = self.elem(s)
                            self.consts.append(g_id)
                        else:
                            p = self.params[t["roles"][j]]
                            g_id = p["el"][bcast_index(i, bshape, p["shape"])]
                        loc.append(g_id)
                    its.append(dict(t="prog", c=D(t["c"]), prog=_shift(t["prog"], base, loc), cf=t["c"]))
                else:
                    p = self.params[t["p"]]
                    g_id = p["el"][bcast_index(i, bshape, p["shape"])]
                    if g_id not in loc:
                        loc.append(g_id)
                    its.append(dict(t="lin", c=D(t["c"]), k=loc.index(g_id) + 1, M=[[D(x) for x in row] for row in t["M"]],
                                    cf=t["c"], Mf=t["M"]))
            loc2, its2 = _dedupe(loc, its)
            tgt = [float(rng.randint(-2, 2)) for _ in range(R)] if rng.random() < 0.6 else [0.0] * R
            items.append(dict(loc=loc2, terms=its2, tgt=[D(x) for x in tgt], tgtf=tgt))
        self.blocks.append(dict(R=R, bshape=list(bshape), items=items, target_arg=rng.random() < 0.4))

    def finish(self):
        rng = self.rng
        if not any(self._used(p) for p in range(len(self.params))):
            return None
        # frozen subset (at least one trainable parameter)
        if self.allow_frozen and len(self.params) > 1 and rng.random() < 0.3:
            k = rng.randrange(len(self.params))
            self.params[k]["fr"] = True
            if len(self.params) == 3 and rng.random() < 0.3:
                self.params[(k + 1) % 3]["fr"] = True
        # weights
        wsel = self.weight
        wt = []
        if wsel == "any":
            wsel = rng.choice(["none", "w", "w", "w"])
        if wsel != "none":
            for b in self.blocks:
                opts = wshapes_of(tuple(b["bshape"]))
                if self.interior:
                    opts = [o for o in opts if o[1] == "interior1"] or opts
                else:
                    opts = [o for o in opts if o[1] != "interior1"]
                if self.wcls:
                    opts = [o for o in opts if o[1] in self.wcls] or opts
                w, cls = rng.choice(opts)
                mcls = rng.choice(["diag", "full", "full"])
                mats = [spd(rng, b["R"], mcls) for _ in range(prod(w))]
                wt.append(dict(wshape=list(w), mats=[[[D(x) for x in row] for row in m] for m in mats], matsf=mats, cls=cls))
        self.wt = wt
        return self

    def _used(self, p):
        els = set(self.params[p]["el"])
        return any(els & set(it["loc"]) for b in self.blocks for it in b["items"])

    # ------------------------------------------------------------------ description for TLC
    def desc(self):
        return dict(ty=self.ty, kinds=self.kinds, vals=[[D(x) for x in v] for v in self.vals],
                    params=[dict(fr=p["fr"], el=p["el"]) for p in self.params],
                    blocks=[dict(R=b["R"], bshape=b["bshape"],
                                 items=[dict(loc=it["loc"], tgt=it["tgt"],
                                             terms=[{k: v for k, v in t.items() if k not in ("cf", "Mf")} for t in it["terms"]])
                                        for it in b["items"]]) for b in self.blocks],
                    wt=[dict(wshape=w["wshape"], mats=w["mats"]) for w in self.wt],
                    cor=[])

    def to_json(self):
        return json.loads(json.dumps(dict(ty=self.ty, kinds=self.kinds, vals=self.vals, params=self.params,
                                          blocks=self.blocks, wt=self.wt, consts=self.consts)))

    @classmethod
    def from_json(cls, d):
        g = cls.__new__(cls)
        g.ty, g.kinds, g.vals, g.consts = d["ty"], d["kinds"], d["vals"], d["consts"]
        g.params = [dict(p, shape=tuple(p["shape"])) for p in d["params"]]
        g.blocks, g.wt = d["blocks"], d["wt"]
        return g

    def widths(self):
        """Column layouts: name -> (width, keep indices (0-based))."""
        out = {}
        for lay in ("emb", "tan", "emb_all", "tan_all"):
            off, keep = 0, []
            for p in self.params:
                if p["fr"] and not lay.endswith("_all"):
                    continue
                for _ in p["el"]:
                    t = TDIM(self.ty, p["kind"], p["dim"])
                    w = KDIM(self.ty, p["kind"], p["dim"]) if lay.startswith("emb") else t
                    if not p["fr"]:
                        keep += list(range(off, off + t))
                    off += w
            out[lay] = (off, tuple(keep))
        return out

    def ambiguous(self):
        w = self.widths()
        seen = {}
        for lay, (width, keep) in w.items():
            if width in seen and seen[width] != keep:
                return True
            seen[width] = keep
        return False

    def cls(self):
        tr = [p for p in self.params if not p["fr"]]
        return dict(kinds="".join(sorted(p["kind"] for p in tr)), frozen=any(p["fr"] for p in self.params),
                    batched=any(p["shape"] for p in self.params), nblocks=len(self.blocks),
                    branks="".join(str(len(b["bshape"])) for b in self.blocks),
                    w="+".join(w["cls"] for w in self.wt) if self.wt else "none")


def _shift(prog, base, loc):
    """Re-index the inputs of a program by an offset (inputs of several terms share one local list)."""
    if prog["op"] == "in":
        return {"op": "in", "k": prog["k"] + base}
    r = {"op": prog["op"], "a": _shift(prog["a"], base, loc)}
    if "b" in prog:
        r["b"] = _shift(prog["b"], base, loc)
    return r


def _remap(prog, mp):
    if prog["op"] == "in":
        return {"op": "in", "k": mp[prog["k"]]}
    r = {"op": prog["op"], "a": _remap(prog["a"], mp)}
    if "b" in prog:
        r["b"] = _remap(prog["b"], mp)
    return r


def _dedupe(loc, terms):
    """The spec wants distinct element ids in loc: merge repeated ids and re-index the programs."""
    new, mp = [], {}
    for i, g in enumerate(loc):
        if g not in new:
            new.append(g)
        mp[i + 1] = new.index(g) + 1
    out = []
    for t in terms:
        t = dict(t)
        if t["t"] == "prog":
            t["prog"] = _remap(t["prog"], mp)
        else:
            t["k"] = mp[t["k"]]
        out.append(t)
    return new, out


def gen_model(rng, ty, family, need=None, **kw):
    for _ in range(400):
        g = ModelGen(rng, ty, family, **kw)
        for _ in range(kw.get("nblocks") or rng.choice([1, 1, 2])):
            g.block()
        if getattr(g, "bad", False) or g.finish() is None or g.ambiguous():
            continue
        rows = sum(b["R"] * len(b["items"]) for b in g.blocks)
        if rows > 40 or g.widths()["emb_all"][0] > 30:
            continue
        if need is not None and not need(g):
            continue
        return g
    raise MachineryError("could not generate a model")


# ====================================================================== the real model
def build(g, dtype, input_form="tuple"):
    """torch module realising the description, its input / target / weight arguments."""
    import torch
    pp = pypose()
    nn = torch.nn
    ty = g.ty

    def tens(gid):
        return torch.tensor(g.vals[gid - 1], dtype=dtype)

    def lie(gid, t):
        k = g.kinds[gid - 1]
        if k == "G":
            return pp.LieTensor(t, ltype=getattr(pp, ty + "_type"))
        if k == "A":
            return pp.LieTensor(t, ltype=getattr(pp, L.ALG[ty] + "_type"))
        return t

    cpos = {gid: i for i, gid in enumerate(g.consts)}
    owner = {}
    for pi, p in enumerate(g.params):
        for e, gid in enumerate(p["el"]):
            owner[gid] = (pi, e)
    any_target = any(b["target_arg"] for b in g.blocks)

    class Model(nn.Module):
        def __init__(s):
            super().__init__()
            s.snaps = []
            for pi, p in enumerate(g.params):
                t = torch.stack([tens(gid) for gid in p["el"]]).reshape(p["shape"] + (p["dim"],))
                if p["kind"] == "V":
                    par = nn.Parameter(t)
                else:
                    par = pp.Parameter(lie(p["el"][0], t))
                setattr(s, "p%d" % pi, par)
                if p["fr"]:
                    par.requires_grad_(False)

        def snapshot(s):
            out = []
            for pi, p in enumerate(g.params):
                t = getattr(s, "p%d" % pi).detach().clone()
                t = t.tensor() if isinstance(t, pp.LieTensor) else t
                out.append(t.reshape(-1, p["dim"]))
            return out

        def forward(s, *args, **kwargs):
            consts = [kwargs["c%d" % i] for i in range(len(g.consts))] if kwargs else list(args)
            if len(g.consts) == 1 and len(consts) == 1 and input_form == "tensor":
                consts = [lie(g.consts[0], consts[0])]
            s.snaps.append(s.snapshot())

            def get(gid):
                if gid in owner:
                    pi, e = owner[gid]
                    par = getattr(s, "p%d" % pi)
                    shape = g.params[pi]["shape"]
                    return par[unravel(e, shape)] if shape else par
                return consts[cpos[gid]]
            outs = []
            for b in g.blocks:
                vals = []
                for it in b["items"]:
                    env = [get(gid) for gid in it["loc"]]
                    v = None
                    for t in it["terms"]:
                        if t["t"] == "prog":
                            y = c04.interp(pp, t["prog"], env)
                            y = y.tensor() if isinstance(y, pp.LieTensor) else y
                        else:
                            x = env[t["k"] - 1]
                            x = x.tensor() if isinstance(x, pp.LieTensor) else x
                            y = torch.tensor(t["Mf"], dtype=dtype) @ x
                        v = t["cf"] * y if v is None else v + t["cf"] * y
                    if not b["target_arg"]:
                        v = v - torch.tensor(it["tgtf"], dtype=dtype)
                    vals.append(v.reshape(-1))
                outs.append(torch.stack(vals).reshape(tuple(b["bshape"]) + (b["R"],)))
            return outs[0] if len(outs) == 1 else tuple(outs)

    cs = [lie(gid, tens(gid)) for gid in g.consts]
    if input_form == "dict" and cs:
        inp = {"c%d" % i: c for i, c in enumerate(cs)}
    elif input_form == "tensor" and len(cs) == 1:
        inp = cs[0]
    else:
        inp = tuple(cs)
    target = None
    if any_target:
        tg = [torch.tensor([it["tgtf"] if b["target_arg"] else [0.0] * b["R"] for it in b["items"]], dtype=dtype)
              .reshape(tuple(b["bshape"]) + (b["R"],)) for b in g.blocks]
        target = tg[0] if len(tg) == 1 else tuple(tg)
    weight = None
    if g.wt:
        ws = [torch.tensor(w["matsf"], dtype=dtype).reshape(tuple(w["wshape"]) + (b["R"], b["R"]))
              for w, b in zip(g.wt, g.blocks)]
        weight = ws[0] if len(ws) == 1 and input_form != "dict" else ws
    return Model(), inp, target, weight


def snap_dy(g, snap):
    """Parameter snapshot -> per element dyadic vectors, in Elems(m, TRUE) order."""
    out = []
    for p, t in zip(g.params, snap):
        for e in range(len(p["el"])):
            out.append(L.dyvec(t[e]))
    return out


# ====================================================================== scripted solver / strategy / corrector
def embed(g, layout, dtan):
    """Tangent increment (list per trainable element, in column order) -> vector in the layout."""
    out, it = [], iter(dtan)
    for p in g.params:
        if p["fr"] and not layout.endswith("_all"):
            continue
        for _ in p["el"]:
            t = TDIM(g.ty, p["kind"], p["dim"])
            w = KDIM(g.ty, p["kind"], p["dim"]) if layout.startswith("emb") else t
            if p["fr"]:
                out += [0.0] * w
            else:
                d = next(it)
                out += list(d) + [0.0] * (w - t)
    return out


def pick_layout(g, width):
    ws = g.widths()
    for lay in ("emb", "tan", "emb_all", "tan_all"):
        if ws[lay][0] == width:
            return lay
    return "emb"


def rand_delta(rng, g, big, generic=False):
    """Integer tangent increment per trainable element; group elements get rotation-free increments
    (so that Exp is exact) unless generic."""
    out = []
    for p in g.params:
        if p["fr"]:
            continue
        for _ in p["el"]:
            t = TDIM(g.ty, p["kind"], p["dim"])
            s = rng.choice([4, 8]) if big else 1
            d = [float(s * rng.randint(-3, 3)) for _ in range(t)]
            if p["kind"] == "G" and not generic:
                if g.ty in ("SE3", "Sim3"):
                    d = d[:3] + [0.0] * (t - 3)
                else:
                    d = [0.0] * t
            if big and not any(d):
                d[0] = 8.0 if (p["kind"] != "G" or g.ty in ("SE3", "Sim3")) else 0.0
            out.append(d)
    return out


def make_solver(torch, g, script, opt_holder, model, scale=1.0):
    class Recorder(torch.nn.Module):
        def __init__(s):
            super().__init__()
            s.calls = []

        def forward(s, A, b):
            k = len(s.calls)
            opt = opt_holder[0]
            lam = opt.param_groups[0].get("damping", 0.0) if opt is not None else 0.0
            lay = pick_layout(g, A.shape[-1])
            dt = script[min(k, len(script) - 1)]
            dx = embed(g, lay, dt)
            if len(dx) != A.shape[-1]:
                dx = [0.0] * A.shape[-1]
            s.calls.append(dict(A=A.detach().clone(), b=b.detach().clone().reshape(-1), lam=float(lam), layout=lay,
                                dx=[x * scale for x in dx], dx_int=dx, mark=len(model.snaps)))
            return (torch.tensor(dx, dtype=A.dtype) * scale).reshape(-1, 1)
    return Recorder()


class ScriptStrategy:
    """A user strategy (public extension point): the damping of trial k+1 is lams[k+1]."""

    def __init__(self, lams):
        self.lams, self.k = list(lams), 0
        self.defaults = {"damping": self.lams[0]}

    def update(self, pg, *args, **kwargs):
        self.k += 1
        pg["damping"] = self.lams[min(self.k, len(self.lams) - 1)]


def mat_rows(t):
    return [L.dyvec(r) for r in t]


# ====================================================================== correctors / kernels (public extension points)
def lattice_corrector(torch, g, Cs, CJs, record):
    """A user corrector acting item-wise linearly: R_i' = C_i R_i, J_i' = CJ_i J_i (dyadic R x R matrices).  One instance
    serves every block in turn (the optimizers call the corrector once per residual block, in output order)."""
    nb = len(g.blocks)

    class LatticeCorrector(torch.nn.Module):
        def __init__(s, only=None):
            super().__init__()
            s.n, s.only = 0, only

        def forward(s, R, J):
            b = s.only if s.only is not None else s.n % nb
            s.n += 1
            record.append((b, R.detach().clone(), J.detach().clone()))
            Rd = g.blocks[b]["R"]
            C = torch.tensor(Cs[b], dtype=R.dtype)                       # items x Rd x Rd
            CJ = torch.tensor(CJs[b], dtype=R.dtype)
            R2 = torch.einsum("ijk,ik->ij", C, R.reshape(-1, Rd)).reshape(R.shape)
            J2 = torch.einsum("ijk,ikc->ijc", CJ, J.reshape(-1, Rd, J.shape[-1])).reshape(J.shape)
            return R2, J2
    return LatticeCorrector


def rand_cmats(rng, g):
    Cs = []
    for b in g.blocks:
        Rd, out = b["R"], []
        for _ in b["items"]:
            c = rng.random()
            sc = rng.choice([0.5, 1.0, 2.0])
            C = [[(sc if i == j else 0.0) for j in range(Rd)] for i in range(Rd)]
            if c < 0.5 and Rd > 1:                    # a shear: not symmetric, not diagonal
                i, j = rng.sample(range(Rd), 2)
                C[i][j] = float(rng.choice([-1, 1, 2]))
            out.append(C)
        Cs.append(out)
    return Cs


def force_residuals(g, dtype, rng, x):
    """Choose the targets so that every item's residual is an integer vector of squared norm x (1 or 4)."""
    import torch
    for b in g.blocks:
        for it in b["items"]:
            it["tgtf"] = [0.0] * b["R"]
    for b in g.blocks:
        b["_ta"], b["target_arg"] = b["target_arg"], False
    model, inp, _, _ = build(g, dtype)
    with torch.no_grad():
        out = model(**inp) if isinstance(inp, dict) else (model(*inp) if isinstance(inp, tuple) else model(inp))
    outs = out if isinstance(out, tuple) else (out,)
    for o, b in zip(outs, g.blocks):
        b["target_arg"] = b.pop("_ta")
        vals = o.reshape(-1, b["R"]).tolist()
        for it, v in zip(b["items"], vals):
            Rd = b["R"]
            r = [0.0] * Rd
            if x == 4 and Rd >= 4 and rng.random() < 0.5:
                for j in rng.sample(range(Rd), 4):
                    r[j] = float(rng.choice([-1, 1]))
            else:
                r[rng.randrange(Rd)] = float(rng.choice([-1, 1])) * (2.0 if x == 4 else 1.0)
            it["tgtf"] = [a - c for a, c in zip(v, r)]
            it["tgt"] = [D(t) for t in it["tgtf"]]


def item_sqnorms(g, dtype):
    """|R_item|^2 of every item at the base point (float arithmetic is exact on the lattice)."""
    import torch
    model, inp, target, _ = build(g, dtype)
    with torch.no_grad():
        out = model(**inp) if isinstance(inp, dict) else (model(*inp) if isinstance(inp, tuple) else model(inp))
    outs = out if isinstance(out, tuple) else (out,)
    tg = (target if isinstance(target, tuple) else (target,)) if target is not None else (None,) * len(outs)
    res = []
    for o, t, b in zip(outs, tg, g.blocks):
        r = (o if t is None else o - t).reshape(-1, b["R"])
        res.append([float(x) for x in r.square().sum(-1)])
    return res


def pick_poly_kernel(rng, xs):
    """rho'(x) = a0 + a1 x with dyadic a0, a1 such that rho'(x_i) is the square of a small dyadic for every x_i."""
    cands = []
    for a0 in (0.25, 1.0, 4.0, 2.25, 0.0, 9.0):
        for a1 in (0.0, 0.25, 1.0, 2.0, 3.0, 0.75, -0.25):
            ok = True
            for x in xs:
                v = a0 + a1 * x
                r = math.sqrt(v) if v > 0 else -1
                if v <= 0 or abs(r * 8 - round(r * 8)) > 0 or r > 64:
                    ok = False
                    break
            if ok:
                cands.append((a0, a1))
    curved = [c for c in cands if c[1] != 0]
    if curved and rng.random() < 0.7:
        return rng.choice(curved)
    return rng.choice([c for c in cands if c[1] == 0])


def poly_kernel(torch, a0, a1):
    class PolyKernel(torch.nn.Module):            # rho(x) = a0 x + a1 x^2 / 2
        def forward(s, x):
            return a0 * x + (a1 / 2) * x * x
    return PolyKernel()


def cor_spec(rng, g, dtype, mode):
    """A JSON description of the corrector / kernel configuration of a run (may adjust the model's targets)."""
    nb = len(g.blocks)
    if mode == "mat":
        Cs = rand_cmats(rng, g)
        return dict(mode="mat", Cs=Cs, CJs=Cs if rng.random() < 0.5 else rand_cmats(rng, g),
                    form=rng.choice(["single", "list"]) if nb > 1 else "single")
    if mode == "tr":
        # Triggs with rho'' > 0: rho'(x) = -1/2 + 3 x / (2 x0) at residuals of squared norm x0: rho' = 1, u = 2, alpha = -1
        x0 = rng.choice([1, 4])
        force_residuals(g, dtype, rng, x0)
        return dict(mode="tr", ks=[[-0.5, 1.5 / x0]] * nb, form=rng.choice(["single", "list"]) if nb > 1 else "single",
                    xs=item_sqnorms(g, dtype), x0=x0)
    xs = item_sqnorms(g, dtype)
    form = rng.choice(["kernel", "kernel_list", "kernel_list", "corrector", "triggs_linear"]) if nb > 1 \
        else rng.choice(["kernel", "corrector", "triggs_linear"])
    if form == "kernel_list":
        ks = [pick_poly_kernel(rng, x) for x in xs]
    elif form == "triggs_linear":
        k = pick_poly_kernel(rng, [])
        ks = [(k[0] if k[0] > 0 else 1.0, 0.0)] * nb
    else:
        ks = [pick_poly_kernel(rng, [x for blk in xs for x in blk])] * nb
    return dict(mode="ft", ks=[list(k) for k in ks], form=form, xs=xs)


def cor_make(g, sp):
    """-> (desc 'cor' list for TLC, optimizer kwargs, record list)."""
    import torch
    pp = pypose()
    nb = len(g.blocks)
    record = []
    form = sp["form"]
    dm = lambda Ms: [[[D(x) for x in row] for row in C] for C in Ms]
    if sp["mode"] == "mat":
        cor = [dict(t="mat", C=dm(c), CJ=dm(cj)) for c, cj in zip(sp["Cs"], sp["CJs"])]
        cls = lattice_corrector(torch, g, sp["Cs"], sp["CJs"], record)
        return cor, dict(corrector=cls() if form == "single" else [cls(only=b) for b in range(nb)]), record
    ks = sp["ks"]
    if sp["mode"] == "tr":
        if any(x != sp["x0"] for blk in sp["xs"] for x in blk):
            raise MachineryError("forced residuals do not have the squared norm %s: %s" % (sp["x0"], sp["xs"]))
        cor = [dict(t="tr", dk=[D(ks[b][0]), D(ks[b][1])], s=[D(1.0)] * len(sp["xs"][b]), u=[D(2.0)] * len(sp["xs"][b]))
               for b in range(nb)]
        k = poly_kernel(torch, *ks[0])
        T = pp.optim.corrector.Triggs
        return cor, dict(kernel=k, corrector=T(k) if form == "single" else [T(k) for _ in range(nb)]), record
    cor = [dict(t="ft", dk=[D(ks[b][0]), D(ks[b][1])], s=[D(math.sqrt(ks[b][0] + ks[b][1] * x)) for x in sp["xs"][b]])
           for b in range(nb)]
    if form == "kernel":
        kw = dict(kernel=poly_kernel(torch, *ks[0]))
    elif form == "kernel_list":
        kw = dict(kernel=[poly_kernel(torch, *k) for k in ks])
    elif form == "corrector":
        k = poly_kernel(torch, *ks[0])
        kw = dict(kernel=k, corrector=pp.optim.corrector.FastTriggs(k))
    else:
        k = poly_kernel(torch, *ks[0])
        kw = dict(kernel=k, corrector=pp.optim.corrector.Triggs(k))          # rho'' = 0: Triggs = FastTriggs
    return cor, kw, record


# ====================================================================== one recorded step
def run_step(ctx, g, opt, dtype, cfg):
    """Run one real optimizer.step() with the scripted recording solver; returns (event, meta)."""
    import torch
    pp = pypose()
    model, inp, target, weight = build(g, dtype, cfg.get("input_form", "tuple"))
    rej = cfg.get("reject", 0)
    holder = [None]
    solver = make_solver(torch, g, cfg["script"], holder, model, cfg.get("scale", 1.0))
    kw = dict(solver=solver, vectorize=cfg.get("vectorize", True))
    desc = g.desc()
    record = None
    if cfg.get("cor") is not None:
        desc["cor"], ckw, record = cor_make(g, cfg["cor"])
        kw.update(ckw)
    w_ctor, w_step = (weight, None) if cfg.get("weight_at", "ctor") == "ctor" else (None, weight)
    if cfg.get("weight_at") == "both" and weight is not None:     # the step argument overrides the constructor's
        w_ctor = [torch.eye(b["R"], dtype=dtype) * 7 for b in g.blocks]
        w_ctor = w_ctor[0] if len(w_ctor) == 1 else w_ctor
        w_step = weight
    out, raised = "ok", None
    before = model.snapshot()
    try:
        if opt == "GN":
            o = pp.optim.GN(model, weight=w_ctor, **kw)
        else:
            strat = make_strategy(pp, cfg["strategy"])
            o = pp.optim.LM(model, strategy=strat, weight=w_ctor, reject=rej, min=cfg["mn"], max=cfg["mx"], **kw)
        holder[0] = o
        del model.snaps[:]
        if target is not None or w_step is not None:
            o.step(inp, target=target, weight=w_step)
        else:
            o.step(inp)
    except Exception as ex:            # a step on a well-formed model must not raise
        out, raised = "raise", repr(ex)[:300]
    final = model.snapshot()
    lay = solver.calls[0]["layout"] if solver.calls else "emb"
    meta = dict(raised=raised, cls=g.cls(), dtype=str(dtype).split(".")[1], trials=len(solver.calls),
                cor=(cfg["cor"]["mode"] + "/" + cfg["cor"]["form"]) if cfg.get("cor") else "none",
                replay=dict(kind="first" if cfg.get("first") else "step", g=g.to_json(), opt=opt, cfg=cfg))
    if cfg.get("first"):
        sc = cfg["first"]
        chg = []
        for p, t0, t1 in zip(g.params, before, final):
            for e in range(len(p["el"])):
                x0, x1 = t0[e].double(), t1[e].double()
                if p["kind"] == "G":                       # same transformation: choose the nearer quaternion sign
                    qo = 3 if g.ty in ("SE3", "Sim3") else 0
                    if (x1[qo:qo + 4] + x0[qo:qo + 4]).norm() < (x1[qo:qo + 4] - x0[qo:qo + 4]).norm():
                        x1 = x1.clone()
                        x1[qo:qo + 4] = -x1[qo:qo + 4]
                chg.append([D(round(float(v) * (2.0 ** sc) * 1024) / 1024) for v in (x1 - x0)])
        a = [D(x) for x in (solver.calls[0]["dx_int"] if solver.calls else [])]
        return dict(act="first", opt=opt, m=desc, out=out, layout=lay, sc=sc, a=a, chg=chg), meta
    after = snap_dy(g, final)
    trials = []
    for k, c in enumerate(solver.calls):
        hi = solver.calls[k + 1]["mark"] if k + 1 < len(solver.calls) else len(model.snaps)
        seen = []
        for sn in model.snaps[c["mark"]:hi]:
            d = snap_dy(g, sn)
            if d not in seen:
                seen.append(d)
        A = c["A"]
        trials.append(dict(lam=D(c["lam"]), A=mat_rows(A if A.dim() == 2 else A.reshape(-1, A.shape[-1])), b=L.dyvec(c["b"]),
                           dx=[D(x) for x in c["dx"]], seen=seen))
        if bool(torch.isfinite(A).all() and torch.isfinite(c["b"]).all()) and \
                (any(x == L.SENTINEL for r in trials[-1]["A"] for x in r) or L.SENTINEL in trials[-1]["b"]):
            meta["overflow"] = True        # finite values outside the [m, e] code (|m| < 2^30, e <= 24): cannot be judged
    cin = []
    if record:
        nb = len(g.blocks)
        for b, R, J in record[:nb]:
            cin.append(dict(R=L.dyvec(R), J=mat_rows(J.reshape(-1, J.shape[-1]))))
        meta["corrector_calls"] = len(record)
    ev = dict(act="step", opt=opt, m=desc, out=out, layout=lay, mn=D(cfg.get("mn", 1.0)), mx=D(cfg.get("mx", 1.0)),
              trials=trials, after=after, cin=cin)
    return ev, meta


def make_strategy(pp, sp):
    if sp["kind"] == "constant":
        return pp.optim.strategy.Constant(damping=sp["damping"])
    if sp["kind"] == "script":
        return ScriptStrategy(sp["lams"])
    if sp["kind"] == "trust":
        return pp.optim.strategy.TrustRegion(radius=sp["radius"], up=2.0, down=0.5, factor=0.5)
    return pp.optim.strategy.Adaptive(damping=sp["damping"], up=2.0, down=0.5)


def lm_cfg(rng, g, dtype_name, rej=None):
    f32 = dtype_name == "float32"
    rej = rng.choice([0, 1, 2, 3]) if rej is None else rej
    lam_pool = [1.0, 2.0, 3.0] if f32 else [0.0625, 0.125, 0.25, 0.5, 1.0, 2.0, 4.0, 3.0]
    kind = rng.choice(["constant", "constant", "script", "trust", "adaptive"])
    if rej >= 2 and not f32:
        lam_pool = [0.25, 0.5, 1.0, 2.0, 4.0, 3.0]
    lam0 = rng.choice(lam_pool)
    if kind == "adaptive" and not f32:
        lam0 = rng.choice([0.5, 1.0, 2.0])
    if kind == "constant":
        strat = dict(kind=kind, damping=lam0)
    elif kind == "script":
        strat = dict(kind=kind, lams=[rng.choice(lam_pool) for _ in range(rej + 2)])
    elif kind == "trust":
        strat = dict(kind=kind, radius=rng.choice([1.0, 2.0, 0.5] if f32 else [1.0, 4.0, 0.5, 16.0]))
    else:
        strat = dict(kind=kind, damping=lam0 if not f32 else 1.0)
    mn = rng.choice([2.0 ** -10, 2.0 ** -6, 1.0, 4.0, 16.0])
    mx = rng.choice([m for m in [8.0, 64.0, 1024.0, 2.0 ** 20] if m >= mn])
    script = [rand_delta(rng, g, big=True) for _ in range(rej)] + [rand_delta(rng, g, big=False)]
    return dict(reject=rej, strategy=strat, skind=kind, mn=mn, mx=mx, script=script)


def gn_cfg(rng, g):
    return dict(script=[rand_delta(rng, g, big=False)])


def variation(rng, g):
    forms = ["tuple", "tuple", "dict"] + (["tensor"] if len(g.consts) == 1 else [])
    return dict(input_form=rng.choice(forms), weight_at=rng.choice(["ctor", "step", "both"]))


# ====================================================================== default solvers, end to end
def frac_matrix(t):
    return [[Fraction(float(x)) for x in row] for row in t.tolist()]


def null_basis(A):
    """Integer basis of the null space of a Fraction matrix (reduced row echelon form)."""
    m, n = len(A), len(A[0])
    M = [row[:] for row in A]
    piv, r = [], 0
    for c in range(n):
        p = next((i for i in range(r, m) if M[i][c] != 0), None)
        if p is None:
            continue
        M[r], M[p] = M[p], M[r]
        M[r] = [x / M[r][c] for x in M[r]]
        for i in range(m):
            if i != r and M[i][c] != 0:
                f = M[i][c]
                M[i] = [x - f * y for x, y in zip(M[i], M[r])]
        piv.append(c)
        r += 1
        if r == m:
            break
    basis = []
    for fcol in [c for c in range(n) if c not in piv]:
        v = [Fraction(0)] * n
        v[fcol] = Fraction(1)
        for i, c in enumerate(piv):
            v[c] = -M[i][fcol]
        den = 1
        for x in v:
            den = den * x.denominator // math.gcd(den, x.denominator)
        basis.append([int(x * den) for x in v])
    return basis


def ulps(num, scale, eps):
    if num == 0:
        return 0
    if scale == 0:
        return CAP
    return min(CAP, int(math.ceil(num / (Fraction(eps) * scale))))


def run_e2e(ctx, g, opt, dtype, cfg):
    """The DEFAULT solver (GN: PINV, LM: Cholesky) on a model with Euclidean / algebra parameters only; the system is
    recorded on a twin with a recording solver (and validated by TLC), the observed parameter change is judged through
    integer measures computed in exact rational arithmetic from that system."""
    import torch
    pp = pypose()
    zero = [[0.0] * TDIM(g.ty, p["kind"], p["dim"]) for p in g.params if not p["fr"] for _ in p["el"]]
    twin_cfg = dict(cfg, script=[zero], reject=0)
    ev, meta = run_step(ctx, g, opt, dtype, twin_cfg)
    meta["replay"] = dict(kind="e2e", g=g.to_json(), opt=opt, cfg=cfg)
    model, inp, target, weight = build(g, dtype)
    x0 = model.snapshot()
    out2 = "ok"
    try:
        if opt == "GN":
            o = pp.optim.GN(model, weight=weight)
        else:
            S = pp.optim.solver
            solver = {"default": None, "chol_upper": S.Cholesky(upper=True), "pinv": S.PINV(), "lstsq": S.LSTSQ()}[cfg.get("solver", "default")]
            o = pp.optim.LM(model, solver=solver, strategy=make_strategy(pp, cfg["strategy"]), weight=weight, reject=0,
                            min=cfg["mn"], max=cfg["mx"])
        o.step(inp, target=target) if target is not None else o.step(inp)
    except Exception as ex:
        out2, meta["raised2"] = "raise", repr(ex)[:300]
    x1 = model.snapshot()
    e = dict(act="e2e", opt=opt, solver=cfg.get("solver", "default"), m=ev["m"], out=ev["out"], out2=out2, layout=ev["layout"], mn=ev["mn"], mx=ev["mx"],
             sys=(ev["trials"][0] if ev["trials"] else dict(lam=[0, 0], A=[], b=[], dx=[], seen=[])),
             nulls=[], ne_ulps=0, null_ulps=0, res_ulps=0)
    if ev["out"] != "ok" or out2 != "ok" or not ev["trials"]:
        return e, meta
    eps = float(torch.finfo(dtype).eps)
    keep = list(g.widths()[ev["layout"]][1])
    delta, base = [], []
    for p, t0, t1 in zip(g.params, x0, x1):
        if p["fr"]:
            continue
        for k in range(len(p["el"])):
            delta += [Fraction(float(b)) - Fraction(float(a)) for a, b in zip(t0[k], t1[k])]
            base += [abs(Fraction(float(a))) for a in t0[k]]
    # norm-wise scale: the solvers' backward error is relative to the size of the whole increment / parameter vector
    top = max([abs(d) + x for d, x in zip(delta, base)] or [Fraction(0)])
    mag = [top] * len(delta)
    # the recorded system (as logged: dyadic codes), restricted to the tangent columns
    A = [[Fraction(c[0], 1 << c[1]) for c in row] for row in e["sys"]["A"]]
    b = [Fraction(c[0], 1 << c[1]) for c in e["sys"]["b"]]
    n = len(keep)
    if opt == "GN":
        Ap = [[row[c] for c in keep] for row in A]
        N = [[sum(Ap[r][i] * Ap[r][j] for r in range(len(Ap))) for j in range(n)] for i in range(n)]
        gv = [sum(Ap[r][i] * b[r] for r in range(len(Ap))) for i in range(n)]
        ne = 0
        for i in range(n):
            r = abs(sum(N[i][j] * delta[j] for j in range(n)) - gv[i])
            sc = sum(abs(N[i][j]) * mag[j] for j in range(n)) + abs(gv[i])
            ne = max(ne, ulps(r, sc, eps))
        nulls = [v for v in null_basis(Ap) if max(abs(x) for x in v) < 10 ** 6]
        nu = 0
        for v in nulls:
            r = abs(sum(v[j] * delta[j] for j in range(n)))
            sc = sum(abs(v[j]) * mag[j] for j in range(n))
            nu = max(nu, ulps(r, sc, eps))
        e.update(nulls=[[[x, 0] for x in v] for v in nulls], ne_ulps=ne, null_ulps=nu)
        meta["rank_deficiency"] = len(nulls)
    else:
        rs = 0
        for i in range(n):
            r = abs(sum(A[keep[i]][keep[j]] * delta[j] for j in range(n)) - b[keep[i]])
            sc = sum(abs(A[keep[i]][keep[j]]) * mag[j] for j in range(n)) + abs(b[keep[i]])
            rs = max(rs, ulps(r, sc, eps))
        e.update(res_ulps=rs)
    meta["measures"] = [e["ne_ulps"], e["null_ulps"], e["res_ulps"]]
    return e, meta


# ====================================================================== judging
def clause_key(ev, meta, verdict):
    """<input class>/<event>/<optimizer>/<clause>[/k1|k>1]; the input class names what is special about the model."""
    clause = verdict.split("@")[0]
    base, _, k = clause.partition(".k")
    c = meta["cls"]
    kk = ("/k1" if k == "1" else "/k>1") if k and ev.get("opt") == "LM" and base.startswith("lm_") else ""
    cor = meta.get("cor", "none").split("/")[0]
    cell = "frozen" if c["frozen"] else ("w=interior1" if "interior1" in c["w"] else ("cor=" + cor if cor != "none" else "general"))
    return "%s/%s/%s/%s%s" % (cell, ev["act"], ev["opt"], base, kk)


def judge(ctx, traces, metas, verdicts):
    for tr, ms, v in zip(traces, metas, verdicts):
        if v != "ok":
            at = int(v.split("@")[1])
            ev, meta = tr["ev"][at - 1], ms[at - 1]
            if v.startswith("machinery"):
                raise MachineryError("trace spec reports %s for %s" % (v, json.dumps(meta["cls"])[:400]))
            rp = dict(meta["replay"], dtype=meta["dtype"])
            ctx.violation(clause_key(ev, meta, v),
                          "%s %s on model %s (%s, %s): clause %s%s" % (ev["act"], ev["opt"], json.dumps(meta["cls"]), meta["dtype"],
                                                                     meta.get("tag", ""), v.split("@")[0],
                                                                     (" raised " + meta["raised"]) if meta.get("raised") else ""),
                          rp)


def replay(ctx, case):
    """Re-run a recorded case on the current tree."""
    import torch
    if "row" in case:
        table_replay(ctx, rows=[case["row"]])
        return
    if case.get("kind") == "e2e_scaled":
        ev, meta = run_e2e_scaled(case["seed"], case["dname"], case["opt"])
        tr = {"cfg": {"n": 0}, "ev": [ev]}
        judge(ctx, [tr], [[meta]], ctx.validate("NormalEqTrace", "NormalEqTrace.cfg", [tr], "replay"))
        return
    g = ModelGen.from_json(case["g"])
    dtype = getattr(torch, case["dtype"])
    if case["kind"] == "e2e":
        ev, meta = run_e2e(ctx, g, case["opt"], dtype, case["cfg"])
    else:
        ev, meta = run_step(ctx, g, case["opt"], dtype, case["cfg"])
    tr = {"cfg": {"n": 0}, "ev": [ev]}
    judge(ctx, [tr], [[meta]], ctx.validate("NormalEqTrace", "NormalEqTrace.cfg", [tr], "replay"))


def run_e2e_scaled(seed, dname, opt="GN"):
    """GN with the DEFAULT solver on an ill-scaled but full-rank linear least-squares model  r(theta) = A diag(2^k) theta - b
    (integer A, exact column scaling).  The step must be the least-squares solution; a solver that squares the condition
    number (normal equations + rank truncation) loses the weakly scaled unknowns altogether.  Measure: norm-wise forward
    error against the exact rational solution, in eps units; cond = ceil(cond_2(A S)) is logged for the tolerance."""
    import random
    import numpy as np
    import torch
    pp = pypose()
    rng = random.Random(seed)
    dtype = torch.float32 if dname == "float32" else torch.float64
    eps = float(torch.finfo(dtype).eps)
    n, m = rng.randint(2, 4), rng.randint(5, 9)
    kmax = 6 if dname == "float32" else 14
    while True:
        A0 = [[rng.randint(-3, 3) for _ in range(n)] for _ in range(m)]
        if np.linalg.matrix_rank(np.array(A0, dtype=float)) == n and np.linalg.cond(np.array(A0, dtype=float)) < 20:
            break
    ex = [rng.randint(-kmax, kmax) for _ in range(n)]
    ex[0], ex[-1] = kmax, -kmax
    th_true = [Fraction(rng.randint(-3, 3) or 1) / (Fraction(2) ** e) for e in ex]      # consistent system: residual 0 at the optimum
    AS = [[Fraction(A0[i][j]) * Fraction(2) ** ex[j] for j in range(n)] for i in range(m)]
    b = [sum(AS[i][j] * th_true[j] for j in range(n)) for i in range(m)]
    At = torch.tensor([[float(v) for v in row] for row in AS], dtype=dtype)
    bt = torch.tensor([float(v) for v in b], dtype=dtype)

    class Lin(torch.nn.Module):
        def __init__(self):
            super().__init__()
            self.theta = torch.nn.Parameter(torch.zeros(n, dtype=dtype))

        def forward(self, inp):
            return At @ self.theta - bt

    model = Lin()
    cond = int(math.ceil(np.linalg.cond(np.array([[float(v) for v in row] for row in AS]))))
    ev = {"act": "e2e_scaled", "opt": opt, "dt": dname, "cond": min(cond, 10 ** 7), "err": CAP, "finite": False, "out": "ok",
          "n": n, "m": m, "kexp": kmax}
    meta = {"cls": {"kinds": "V", "frozen": False, "batched": False, "nblocks": 1, "branks": "0", "w": "none", "scaled": 2 * kmax},
            "dtype": dname, "replay": dict(kind="e2e_scaled", seed=seed, dname=dname, opt=opt)}
    try:
        o = pp.optim.GN(model) if opt == "GN" else pp.optim.LM(model, strategy=pp.optim.strategy.Constant(damping=1e-30), min=1e-300)
        o.step(torch.zeros(1, dtype=dtype))
    except Exception as ex_:
        ev["out"], meta["raised"] = "raise", repr(ex_)[:300]
        return ev, meta
    got = [Fraction(float(v)) for v in model.theta.detach()]
    ev["finite"] = all(math.isfinite(float(v)) for v in model.theta.detach())
    if ev["finite"]:
        top = max(abs(v) for v in th_true)
        ev["err"] = min(CAP, int(math.ceil(max(abs(a - t) for a, t in zip(got, th_true)) / top / Fraction(eps))))
    return ev, meta


class Batch:
    """Collects events; identical events (same model, same logs: e.g. vectorize on / off, float32 / float64) are sent
    to TLC once."""

    def __init__(self):
        self.traces, self.metas, self.index, self.count, self.unjudged = [], [], {}, 0, 0

    def add(self, ev, meta, tag):
        if meta.get("overflow"):
            self.unjudged += 1
            return
        self.count += 1
        key = json.dumps(ev, sort_keys=True)
        if key in self.index:
            self.metas[self.index[key]][0].setdefault("also", []).append(tag)
            return
        self.index[key] = len(self.traces)
        meta["tag"] = tag
        self.traces.append({"cfg": {"n": len(self.traces)}, "ev": [ev]})
        self.metas.append([meta])


DESIGN_Q = ["shape_q", "num_q", "upd_SE3", "upd_Sim3", "upd_SO3", "upd_RxSO3"]
DESIGN_T = ["shape_t", "num_t", "upd_SE3", "upd_Sim3", "upd_SO3", "upd_RxSO3"]


def design(ctx):
    cfgs = DESIGN_Q if ctx.quick else DESIGN_T
    jobs = [dict(module="NormalEqMC", cfg="NormalEqMC_%s.cfg" % c, workers=4 if c.startswith("num") else 1, timeout=7200)
            for c in cfgs]
    jobs.append(dict(module="NormalEqMC", cfg="NormalEqMC_wit_tiling.cfg", workers=1, expect_ok=False))
    ctx.tlc_many(jobs, parallel=3)
    for r in ctx.tlc_runs:
        if r["cfg"] == "NormalEqMC_wit_tiling.cfg":
            # the witness: tiling the list of weight matrices is NOT broadcasting when an inner extent is 1
            if r["violated"] != ["TilingOnEveryBroadcastableShape"]:
                raise MachineryError("the tiling witness was not produced: %s" % r)
            ctx.extra["tiling_witness"] = "TilingOnEveryBroadcastableShape violated (expected): wshape with an inner extent 1"
        elif r["violated"]:
            ctx.violation("design/%s/%s" % (r["cfg"], r["violated"][0]), "NormalEqMC violates %s" % r["violated"])


def table_replay(ctx, rows=None):
    """spec -> code: every row of NormalEqGen through the real LM and GN on the linear model J theta + R at theta = 0."""
    import torch
    pp = pypose()
    if rows is None:
        out = str(ctx.work / "normaleq_table.json")
        ctx.tlc("NormalEqGen", "NormalEqGen_q.cfg" if ctx.quick else "NormalEqGen_t.cfg", env={"OUT_FILE": out}, workers=1)
        rows = json.load(open(out))["rows"]
    fr = lambda d: Fraction(d[0], 1 << d[1])
    fl = lambda d: d[0] / float(1 << d[1])
    f64 = torch.float64

    class Lin(torch.nn.Module):
        def __init__(s, J, R):
            super().__init__()
            s.J, s.R = J, R
            s.theta = torch.nn.Parameter(torch.zeros(J.shape[1], dtype=f64))

        def forward(s):
            return s.J @ s.theta + s.R

    class Rec(torch.nn.Module):
        def __init__(s, n):
            super().__init__()
            s.calls, s.n = [], n

        def forward(s, A, b):
            s.calls.append((A.detach().clone(), b.detach().clone().reshape(-1)))
            return torch.tensor([64.0, 192.0][:s.n], dtype=f64).reshape(-1, 1)      # J delta != 0 unless J = 0: rejected

    def exact(t):
        return [[Fraction(float(x)) for x in r] for r in t.tolist()]
    for row in rows:
        J = torch.tensor([[fl(x) for x in r] for r in row["J"]], dtype=f64)
        R = torch.tensor([fl(x) for x in row["R"]], dtype=f64)
        W = torch.tensor([[fl(x) for x in r] for r in row["W"]], dtype=f64) if row["W"] else None
        n = J.shape[1]
        wk = "weighted" if W is not None else "unweighted"
        # LM: all trials of one call
        lams = [fl(x) for x in row["lams"]]
        rec = Rec(n)
        try:
            o = pp.optim.LM(Lin(J, R), solver=rec, strategy=ScriptStrategy(lams), weight=W, reject=len(lams) - 1,
                            min=fl(row["mn"]), max=fl(row["mx"]))
            o.step(())
        except Exception as ex:
            ctx.violation("table/LM/raised/" + wk, "LM raised on a linear model: %r" % ex, {"row": row})
            continue
        want_b = [fr(x) for x in row["b"]]
        for k, (A, b) in enumerate(rec.calls):
            ctx.evaluations += 1
            wantA = [[fr(x) for x in r] for r in row["A"][k]]
            gotA = exact(A)
            if gotA != wantA:
                diag_only = all(gotA[i][j] == wantA[i][j] for i in range(n) for j in range(n) if i != j)
                ctx.violation("table/LM/%s/%s/%s" % ("lm_matrix_diag" if diag_only else "lm_matrix_offdiag", "k1" if k == 0 else "k>1", wk),
                              "LM trial %d: recorded A differs from the documented A_k" % (k + 1),
                              {"row": row, "k": k + 1, "got": [[str(x) for x in r] for r in gotA]})
            if [Fraction(float(x)) for x in b.tolist()] != want_b:
                ctx.violation("table/LM/lm_rhs/" + wk, "LM trial %d: recorded b differs from -J'WR" % (k + 1), {"row": row, "k": k + 1})
        if len(rec.calls) != len(lams) and bool((J != 0).any()):
            ctx.violation("table/LM/trials/" + wk, "LM made %d solver calls, %d expected" % (len(rec.calls), len(lams)), {"row": row})
        ctx.cover("table:LM:%s:%d:%d" % (wk, J.shape[0], len(rec.calls)))
        # GN: the normal form of what the solver receives
        rec = Rec(n)
        try:
            pp.optim.GN(Lin(J, R), solver=rec, weight=W).step(())
        except Exception as ex:
            ctx.violation("table/GN/raised/" + wk, "GN raised on a linear model: %r" % ex, {"row": row})
            continue
        ctx.evaluations += 1
        A, b = exact(rec.calls[0][0]), [Fraction(float(x)) for x in rec.calls[0][1].tolist()]
        N = [[sum(A[r][i] * A[r][j] for r in range(len(A))) for j in range(n)] for i in range(n)]
        gv = [sum(A[r][i] * b[r] for r in range(len(A))) for i in range(n)]
        if N != [[fr(x) for x in r] for r in row["N"]]:
            ctx.violation("table/GN/gn_normal_matrix/" + wk, "GN: A'A differs from (WJ)'(WJ)", {"row": row})
        if gv != [fr(x) for x in row["g"]]:
            ctx.violation("table/GN/gn_normal_rhs/" + wk, "GN: A'b differs from -(WJ)'WR", {"row": row})
    ctx.extra["table_rows"] = len(rows)


def steps_for(ctx, batch, g, dtype, tagbase, cor_mode=None, lm_rej=None):
    rng = ctx.rng
    dn = str(dtype).split(".")[1]
    for opt in ("GN", "LM"):
        cfg = gn_cfg(rng, g) if opt == "GN" else lm_cfg(rng, g, dn, rej=lm_rej)
        cfg.update(variation(rng, g))
        cor = cor_spec(rng, g, dtype, cor_mode) if cor_mode else None
        for vec in (True, False):          # vectorize on / off must give the same events
            c = dict(cfg, vectorize=vec, cor=cor)
            ev, meta = run_step(ctx, g, opt, dtype, c)
            batch.add(ev, meta, "%s/%s/vec=%s/%s" % (tagbase, opt, vec, dn))
            cl = meta["cls"]
            ctx.cover(json.dumps([opt, cl["kinds"], cl["frozen"], cl["batched"], cl["nblocks"], cl["w"], meta["cor"],
                                  meta["trials"], cfg.get("skind", "-"), cfg["input_form"], cfg["weight_at"]]))


def run(ctx):
    import torch
    pypose()
    q = ctx.quick
    rng = ctx.rng
    ctx.rule = ["TLC (NormalEqMC): column/row partitions, the four column layouts and their projections, delta split, weight "
                "expansion = recursive broadcasting (every broadcastable weight shape), LM diagonal closed form / symmetry / "
                "Newton step of the weighted quadratic model, GN normal form solved by consistent systems and minimising, "
                "rotation-free retraction = left translation, first-order retraction != addition",
                "Mode E+S (NormalEqTrace): real GN/LM with a scripted recording solver / strategy / corrector on lattice models "
                "(c04 programs + integer linear maps, 1-3 parameters of kinds G/A/V, batched, frozen subsets, 1-2 blocks, every "
                "weight shape class); TLC recomputes R, the true Jacobian (dual numbers), W, A_k, b and the updates exactly",
                "first-order retraction with generic increments 2^-30 a; default solvers end to end (PINV min-norm / Cholesky) "
                "through integer ulp measures; distinct = (optimizer, parameter kinds, frozen, batched, blocks, weight classes, "
                "corrector form, trials, strategy, input form, weight argument)"]
    ctx.assumptions = ["lattice models: Exp/Log nodes where their series are finite; scripted increments rotation-free so that "
                       "Exp(delta) @ X is exact; generic increments are judged to first order (2^-30 a, float64)",
                       "asymmetric weights are outside the property (SPD) and are not generated",
                       "the accept/reject decision of LM is C08's: a final point equal to the base point is accepted here"]
    if ctx.replay:
        replay(ctx, json.load(open(ctx.replay))["case"])
        return
    design(ctx)
    table_replay(ctx)
    batch = Batch()
    f64, f32 = torch.float64, torch.float32
    T = L.TYPES
    for i in range(24 if q else 240):                    # general models
        g = gen_model(rng, T[i % 4], "mixed", maxd=2 if q else 3)
        steps_for(ctx, batch, g, f32 if i % 3 == 0 else f64, "gen%d" % i)
    for i in range(8 if q else 60):                      # frozen subsets, several parameters
        g = gen_model(rng, T[i % 4], "mixed", maxd=2, need=lambda g: g.cls()["frozen"])
        steps_for(ctx, batch, g, f64, "frozen%d" % i, lm_rej=rng.choice([1, 2]))
    for i in range(8 if q else 60):                      # same numel, different kinds (mis-split), two+ parameters
        g = gen_model(rng, T[i % 4], "proglin", maxd=2, allow_frozen=False,
                      need=lambda g: len({p["kind"] for p in g.params}) > 1)
        steps_for(ctx, batch, g, f64, "kinds%d" % i, lm_rej=1)
    for i in range(6 if q else 40):                      # several weight matrices per block, batch rank >= 2
        g = gen_model(rng, T[i % 4], "mixed", maxd=2, allow_frozen=False, weight="w", wcls=("suffix", "lead1", "full"),
                      bshapes=[(2, 3), (2, 2), (3, 2), (2, 1, 2)], need=lambda g: any(len(w["matsf"]) > 1 for w in g.wt))
        steps_for(ctx, batch, g, f64, "wbatch%d" % i, lm_rej=1)
    for i in range(4 if q else 40):                      # weight shapes with an inner extent 1
        g = gen_model(rng, T[(i + 1) % 4], "mixed", maxd=2, allow_frozen=False, weight="w", interior=True)
        steps_for(ctx, batch, g, f64, "interior%d" % i, lm_rej=1)
    for i in range(12 if q else 80):                     # correctors (user corrector, FastTriggs / Triggs with exact kernels)
        g = gen_model(rng, T[i % 4], "mixed", maxd=2, allow_frozen=i % 3 == 0, nblocks=2 if i % 2 else None)
        steps_for(ctx, batch, g, f64, "cor%d" % i, cor_mode=["mat", "mat", "ft", "ft", "tr", "tr"][i % 6], lm_rej=rng.choice([0, 2]))
    for i in range(10 if q else 80):                     # first-order retraction with generic increments
        g = gen_model(rng, T[i % 4], "mixed", maxd=2, need=lambda g: "G" in g.cls()["kinds"])
        for opt in ("GN", "LM"):
            cfg = dict(gn_cfg(rng, g)) if opt == "GN" else lm_cfg(rng, g, "float64", rej=0)
            cfg.update(script=[rand_delta(rng, g, big=False, generic=True)], scale=2.0 ** -30, first=30)
            ev, meta = run_step(ctx, g, opt, f64, cfg)
            batch.add(ev, meta, "first%d/%s" % (i, opt))
            ctx.cover(json.dumps(["first", opt, meta["cls"]["kinds"], g.ty]))
    emeas = [0, 0, 0]
    for i in range(12 if q else 120):                    # default solvers end to end (Euclidean / algebra parameters)
        g = gen_model(rng, T[i % 4], "mixed" if i % 2 else "lin", maxd=2, allow_G=False)
        dtype = f32 if i % 4 == 3 else f64
        for opt in ("GN", "LM"):
            cfg = gn_cfg(rng, g) if opt == "GN" else lm_cfg(rng, g, str(dtype).split(".")[1], rej=0)
            if opt == "LM":
                lam = rng.choice([0.5, 1.0, 2.0])
                # the damped matrix is symmetric positive definite: every built-in direct solver must solve it
                cfg.update(mx=2.0 ** 20, strategy=dict(kind="constant", damping=lam),
                           solver=["default", "chol_upper", "default", "pinv", "lstsq", "chol_upper"][i % 6])
            ev, meta = run_e2e(ctx, g, opt, dtype, cfg)
            batch.add(ev, meta, "e2e%d/%s%s" % (i, opt, "/" + cfg["solver"] if cfg.get("solver", "default") != "default" else ""))
            emeas = [max(a, b) for a, b in zip(emeas, meta.get("measures", [0, 0, 0]))]
            ctx.cover(json.dumps(["e2e", opt, meta["cls"]["kinds"], meta.get("rank_deficiency", -1) > 0, str(dtype)]))
    for i in range(6 if q else 40):                      # the default GN solver on ill-scaled full-rank systems
        dname = "float32" if i % 2 == 0 else "float64"
        ev, meta = run_e2e_scaled(ctx.seed * 1000 + i, dname)
        batch.add(ev, meta, "e2e_scaled%d" % i)
        ctx.cover(json.dumps(["e2e_scaled", dname, ev["n"], ev["m"]]))
    ctx.extra["e2e_max_ulps(normal_eq, null, lm_residual)"] = emeas
    ctx.extra["events_unjudged_code_overflow"] = batch.unjudged
    ctx.extra["events_recorded"] = batch.count
    ctx.extra["events_distinct"] = len(batch.traces)
    ctx.sample({"tag": batch.metas[0][0]["tag"], "event": batch.traces[0]["ev"][0]})
    par = 4
    verdicts = ctx.validate("NormalEqTrace", "NormalEqTrace.cfg", batch.traces, "c07",
                            chunk=max(1, (len(batch.traces) + par - 1) // par), parallel=par)
    ctx.traces += batch.count - len(batch.traces)
    judge(ctx, batch.traces, batch.metas, verdicts)


def selftest(ctx):
    import torch
    pypose()
    rng = ctx.rng
    for _ in range(50):
        g = gen_model(rng, "SE3", "mixed", maxd=2, allow_frozen=False, weight="w")
        if "G" in g.cls()["kinds"]:
            break
    cfg = lm_cfg(rng, g, "float64", rej=2)
    ev, meta = run_step(ctx, g, "LM", torch.float64, cfg)
    if len(ev["trials"]) < 2:
        raise MachineryError("selftest model did not produce a rejected trial")

    def mut(f):
        e = copy.deepcopy(ev)
        f(e)
        return {"cfg": {}, "ev": [e]}

    def m_a(e):
        e["trials"][-1]["A"][0][0][0] += 1

    def m_b(e):
        e["trials"][0]["b"][0][0] += 1

    def m_after(e):
        e["after"][0][0][0] += 1

    def m_drop(e):
        del e["trials"][0]

    def m_lam(e):
        e["trials"][1]["lam"] = [5, 0]
    traces = [mut(lambda e: None)] + [mut(m) for m in (m_a, m_b, m_after, m_drop, m_lam)]
    v = ctx.validate("NormalEqTrace", "NormalEqTrace.cfg", traces, "selftest")
    print("selftest verdicts:", v)
    assert v[0] == "ok" and all(x != "ok" for x in v[1:])
    return 0
