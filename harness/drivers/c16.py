"""C16 — IMU preintegration equals the documented recursion and is chunking-invariant (Mode S + E + R).
Specs: Imu.tla (design: symbolic fold, every chunking), ImuExact.tla (exact dyadic sub-model, zero angular rate),
ImuGen.tla (spec -> code table of all chunkings), ImuTrace.tla (verdicts on recorded executions)."""
import itertools
import json
import math
from fractions import Fraction

from vlib.core import MachineryError, pypose

CAP = 10 ** 9
EPS = {"f32": 2.0 ** -23, "f64": 2.0 ** -52}


# ---------------------------------------------------------------------------------------------- helpers
def _np():
    import numpy as np
    return np


def cap(x):
    if x != x or x == float("inf"):
        return CAP
    return int(min(CAP, math.ceil(x)))


def ulps(x, ref, eps, floor=1.0):
    """max |x - ref| in units of eps * max(floor, max |ref|); x, ref numpy arrays."""
    np = _np()
    x = np.asarray(x, dtype=np.float64)
    ref = np.asarray(ref, dtype=np.float64)
    if x.shape != ref.shape:
        return CAP
    if not (np.isfinite(x).all() and np.isfinite(ref).all()):
        return CAP
    scale = max(floor, float(np.abs(ref).max())) if ref.size else 1.0
    if scale == 0.0:
        scale = 1.0
    return cap(float(np.abs(x - ref).max()) / (eps * scale)) if x.size else 0


def quat2mat(q):
    """(…,4) (x, y, z, w) -> (…,3,3) rotation of the transformation (sign and norm of q are irrelevant)."""
    np = _np()
    q = np.asarray(q, dtype=np.longdouble)
    x, y, z, w = q[..., 0], q[..., 1], q[..., 2], q[..., 3]
    nn = x * x + y * y + z * z + w * w
    s = 2 / nn
    R = np.stack([np.stack([1 - s * (y * y + z * z), s * (x * y - z * w), s * (x * z + y * w)], -1),
                  np.stack([s * (x * y + z * w), 1 - s * (x * x + z * z), s * (y * z - x * w)], -1),
                  np.stack([s * (x * z - y * w), s * (y * z + x * w), 1 - s * (x * x + y * y)], -1)], -2)
    return R


def expm_so3(phi):
    """Rodrigues formula in extended precision; phi (…,3) -> (…,3,3). Written here, independent of pypose."""
    np = _np()
    phi = np.asarray(phi, dtype=np.longdouble)
    th2 = (phi * phi).sum(-1)
    th = np.sqrt(th2)
    small = th < 1e-4
    ths = np.where(small, 1, th)
    A = np.where(small, 1 - th2 / 6 + th2 * th2 / 120, np.sin(ths) / ths)
    Bc = np.where(small, 0.5 - th2 / 24 + th2 * th2 / 720, (1 - np.cos(ths)) / np.where(small, 1, th2))
    z = np.zeros_like(th)
    K = np.stack([np.stack([z, -phi[..., 2], phi[..., 1]], -1),
                  np.stack([phi[..., 2], z, -phi[..., 0]], -1),
                  np.stack([-phi[..., 1], phi[..., 0], z], -1)], -2)
    I = np.eye(3, dtype=np.longdouble)
    return I + A[..., None, None] * K + Bc[..., None, None] * (K @ K)


def recursion(R0, v0, p0, dt, gy, ac):
    """The documented recursion on the state, gravity 0 (a = measured acceleration):
         p <- p + v dt + 1/2 R a dt^2 ;  v <- v + R a dt ;  R <- R Exp(w dt)      (old R, old v on the right)
    numpy long double, frame by frame. dt (B,F,1), gy/ac (B,F,3). Returns rows R (B,F,3,3), v, p (B,F,3)."""
    np = _np()
    B, F = dt.shape[:2]
    R = np.broadcast_to(np.asarray(R0, dtype=np.longdouble), (B, 3, 3)).copy()
    v = np.broadcast_to(np.asarray(v0, dtype=np.longdouble), (B, 3)).copy()
    p = np.broadcast_to(np.asarray(p0, dtype=np.longdouble), (B, 3)).copy()
    dt = np.asarray(dt, dtype=np.longdouble)
    gy = np.asarray(gy, dtype=np.longdouble)
    ac = np.asarray(ac, dtype=np.longdouble)
    Rs, vs, ps = [], [], []
    for j in range(F):
        d = dt[:, j]
        Ra = (R @ ac[:, j, :, None])[..., 0]
        p = p + v * d + 0.5 * Ra * d * d
        v = v + Ra * d
        R = R @ expm_so3(gy[:, j] * d)
        Rs.append(R)
        vs.append(v)
        ps.append(p)
    return np.stack(Rs, 1), np.stack(vs, 1), np.stack(ps, 1)


def tnp(t):
    import torch
    t = t.tensor() if hasattr(t, "tensor") else t
    return t.detach().to(torch.float64).cpu().numpy()


def cov_measures(cov, eps):
    np = _np()
    C = np.asarray(cov, dtype=np.float64)
    if not np.isfinite(C).all():
        return CAP, CAP
    asym, neg = 0, 0
    for b in range(C.shape[0]):
        c = C[b]
        m = float(np.abs(c).max()) or 1.0
        asym = max(asym, cap(float(np.abs(c - c.T).max()) / (eps * m)))
        ev = np.linalg.eigvalsh((c + c.T) / 2)
        top = float(max(abs(ev[-1]), abs(ev[0]))) or 1.0
        neg = max(neg, cap(max(0.0, -float(ev[0])) / (eps * top)))
    return asym, neg


class Stream:
    """One random stream + constructor arguments."""

    def __init__(self, rng, seed, F, B, dk, gravity, known, init_random, vec_cov):
        import torch
        pp = pypose()
        self.F, self.B, self.dk, self.gravity, self.known = F, B, dk, gravity, known
        self.dtype = torch.float64 if dk == "f64" else torch.float32
        g = torch.Generator().manual_seed(seed)
        lo, hi = math.log(1e-4), 0.0
        self.dt = torch.exp(torch.rand(B, F, 1, generator=g, dtype=torch.float64) * (hi - lo) + lo).to(self.dtype)
        self.gs = rng.choice([0.0, 0.01, 1.0, 10.0])
        self.asc = rng.choice([0.1, 1.0, 20.0])
        self.gy = (torch.randn(B, F, 3, generator=g, dtype=torch.float64) * self.gs).to(self.dtype)
        self.ac = (torch.randn(B, F, 3, generator=g, dtype=torch.float64) * self.asc).to(self.dtype)
        q = torch.randn(B, F, 4, generator=g, dtype=torch.float64)
        self.rot = pp.SO3((q / q.norm(dim=-1, keepdim=True)).to(self.dtype)) if known else None
        if init_random:
            q0 = torch.randn(4, generator=g, dtype=torch.float64)
            self.q0 = (q0 / q0.norm()).to(self.dtype)
            self.p0 = torch.randn(3, generator=g, dtype=torch.float64).to(self.dtype)
            self.v0 = torch.randn(3, generator=g, dtype=torch.float64).to(self.dtype)
        else:
            self.q0 = torch.tensor([0, 0, 0, 1], dtype=self.dtype)
            self.p0 = torch.zeros(3, dtype=self.dtype)
            self.v0 = torch.zeros(3, dtype=self.dtype)
        self.vec_cov = vec_cov
        self.init_random = init_random

    def make(self, reset):
        import torch
        pp = pypose()
        kw = {}
        if self.vec_cov:
            kw = {"gyro_cov": torch.tensor([1e-4, 4e-4, 2.5e-5], dtype=self.dtype),
                  "acc_cov": torch.tensor([6.4e-3, 1e-2, 3e-3], dtype=self.dtype)}
        m = pp.module.IMUPreintegrator(self.p0.clone(), pp.SO3(self.q0.clone()), self.v0.clone(),
                                       gravity=self.gravity, reset=reset, **kw)
        return m.double() if self.dk == "f64" else m   # default buffers are float32 (not judged)

    def args(self, a, b, rank):
        """Inputs for frames a+1..b in the given rank: 3 = (B,F,H), 2 = (F,H), 1 = (H)."""
        def cut(x):
            x = x[:, a:b]
            if rank == 2:
                x = x[0]
            elif rank == 1:
                x = x[0, 0]
            return x
        rot = None
        if self.rot is not None:
            pp = pypose()
            rot = pp.SO3(cut(self.rot.tensor()))
        return cut(self.dt), cut(self.gy), cut(self.ac), rot

    def describe(self):
        return {"F": self.F, "B": self.B, "dtype": self.dk, "gravity": self.gravity, "known": self.known,
                "gyro_scale": self.gs, "acc_scale": self.asc, "init_random": self.init_random,
                "vec_cov": self.vec_cov}


def call(m, st, a, b, rank):
    dt, gy, ac, rot = st.args(a, b, rank)
    return m(dt, gy, ac, rot=rot) if rot is not None else m(dt, gy, ac)


def buffers(m):
    """The carried state through the public buffer names; None if not observable."""
    try:
        return tnp(m.rot).reshape(-1, 4), tnp(m.vel).reshape(-1, 3), tnp(m.pos).reshape(-1, 3)
    except Exception:
        return None


def run_num(ctx, seed, F, chunks, reset, B, dk, gravity, known, init_random=True, vec_cov=False, ranks=None,
            origin=None):
    """Feed one stream to ONE real integrator in the given chunks; per call compare with (i) a fresh integrator's
    one-shot call over the frames the spec says are folded, (ii) the sequential recursion (gravity 0)."""
    import random
    import torch
    np = _np()
    rng = random.Random(seed)
    st = Stream(rng, seed, F, B, dk, gravity, known, init_random, vec_cov)
    eps = EPS[dk]
    cfg = {"kind": "num", "F": F, "B": B, "reset": reset, "known": known, "g0": gravity == 0.0, "dtype": dk,
           "chunks": list(chunks), "ranks": [], "seed": seed, "stream": st.describe()}
    ev = []
    try:
        m = st.make(reset)
        m3 = st.make(reset) if B == 1 else None
        init = buffers(m)
    except Exception as ex:
        return {"cfg": cfg, "ev": [{"act": "raise", "where": "constructor", "msg": repr(ex)[:200]}]}
    R0 = quat2mat(tnp(st.q0))
    rec_full = None
    if gravity == 0.0 and not reset:
        rec_full = recursion(R0, tnp(st.v0), tnp(st.p0), tnp(st.dt), tnp(st.gy), tnp(st.ac))
    k = 0
    for ci, ln in enumerate(chunks):
        # frames folded into the rows of this call (by the spec's table if given, else Imu!Origin transcribed;
        # ImuTrace re-derives the range and rejects a wrong one)
        lo = (origin[ci] if origin is not None else (k if reset else 0)) + 1
        hi = k + ln
        adm = [r for r in (1, 2, 3) if (r != 1 or (ln == 1 and B == 1)) and (r != 2 or B == 1)]
        rank = ranks[ci] if ranks else rng.choice(adm)
        cfg["ranks"].append(rank)
        e = {"act": "call", "k0": k, "len": ln, "rank": rank, "lo": lo, "hi": hi}
        try:
            out = call(m, st, k, k + ln, rank)
        except Exception as ex:
            ev.append({"act": "raise", "where": "call", "k0": k, "len": ln, "rank": rank, "msg": repr(ex)[:200]})
            break
        try:
            ref = call(st.make(True), st, lo - 1, hi, 3)
        except Exception as ex:
            ev.append({"act": "raise", "where": "oneshot", "k0": lo - 1, "len": hi - lo + 1, "rank": 3,
                       "msg": repr(ex)[:200]})
            break
        o_rot, o_vel, o_pos, o_cov = tnp(out["rot"]), tnp(out["vel"]), tnp(out["pos"]), tnp(out["cov"])
        sl = slice(k - (lo - 1), hi - (lo - 1))
        r_rot, r_vel, r_pos, r_cov = tnp(ref["rot"])[:, sl], tnp(ref["vel"])[:, sl], tnp(ref["pos"])[:, sl], \
            tnp(ref["cov"])
        e.update({"shape_rot": list(o_rot.shape), "shape_vel": list(o_vel.shape), "shape_pos": list(o_pos.shape),
                  "shape_cov": list(o_cov.shape),
                  "finite": bool(all(np.isfinite(x).all() for x in (o_rot, o_vel, o_pos, o_cov)))})
        Ro = quat2mat(o_rot) if o_rot.shape[-1] == 4 else o_rot
        # conditioning of the inputs: Exp(fl(w dt)) moves by eps*|w dt|, a rotated term by eps*|a dt|
        phi = max(1.0, float(np.abs(tnp(st.gy)[:, lo - 1:hi] * tnp(st.dt)[:, lo - 1:hi]).max()))
        adt = max(1.0, float(np.abs(tnp(st.ac)[:, lo - 1:hi] * tnp(st.dt)[:, lo - 1:hi]).max()))
        e["one_rot"] = ulps(Ro, quat2mat(r_rot), eps, floor=phi) if o_rot.shape == r_rot.shape else CAP
        e["one_vel"] = ulps(o_vel, r_vel, eps, floor=adt)
        e["one_pos"] = ulps(o_pos, r_pos, eps)
        e["one_cov"] = ulps(o_cov, r_cov, eps, floor=0.0)
        if gravity == 0.0:
            if reset:
                rr = recursion(R0, tnp(st.v0), tnp(st.p0), tnp(st.dt)[:, k:hi], tnp(st.gy)[:, k:hi],
                               tnp(st.ac)[:, k:hi])
            else:
                rr = tuple(x[:, k:hi] for x in rec_full)
            e["rec_rot"] = ulps(Ro, rr[0], eps, floor=phi) if o_rot.shape[-1] == 4 else CAP
            e["rec_vel"] = ulps(o_vel, rr[1], eps, floor=adt)
            e["rec_pos"] = ulps(o_pos, rr[2], eps)
        else:
            e["rec_rot"] = e["rec_vel"] = e["rec_pos"] = -1
        e["asym"], e["neg"] = cov_measures(o_cov, eps) if o_cov.ndim == 3 else (CAP, CAP)
        bufs = buffers(m)
        e["buf_last"] = e["buf_init"] = -1
        if bufs is not None and init is not None:
            try:
                if reset:
                    e["buf_init"] = max(ulps(quat2mat(bufs[0]), quat2mat(init[0]), eps), ulps(bufs[1], init[1], eps),
                                        ulps(bufs[2], init[2], eps))
                else:
                    e["buf_last"] = max(ulps(quat2mat(bufs[0]), quat2mat(o_rot[:, -1]), eps),
                                        ulps(bufs[1], o_vel[:, -1], eps), ulps(bufs[2], o_pos[:, -1], eps))
            except Exception:
                pass
        ev.append(e)
        if lo == 1 and ci == 0:
            # the same frames on a DEFAULT-constructed integrator that is handed the initial state per call
            try:
                import pypose as _pp
                kw = {}
                if st.vec_cov:
                    kw = {"gyro_cov": torch.tensor([1e-4, 4e-4, 2.5e-5], dtype=st.dtype),
                          "acc_cov": torch.tensor([6.4e-3, 1e-2, 3e-3], dtype=st.dtype)}
                md = _pp.module.IMUPreintegrator(gravity=st.gravity, reset=True, **kw)
                md = md.double() if st.dk == "f64" else md
                a_dt, a_gy, a_ac, a_rot = st.args(0, hi, 3)
                ist = {"pos": st.p0.clone(), "rot": _pp.SO3(st.q0.clone()), "vel": st.v0.clone()}
                oi = md(a_dt, a_gy, a_ac, rot=a_rot, init_state=ist) if a_rot is not None else md(a_dt, a_gy, a_ac, init_state=ist)
                i_rot, i_vel, i_pos = tnp(oi["rot"]), tnp(oi["vel"]), tnp(oi["pos"])
                f_rot, f_vel, f_pos = tnp(ref["rot"]), tnp(ref["vel"]), tnp(ref["pos"])
                ev.append({"act": "initstate", "nfold": hi, "finite": bool(all(np.isfinite(x).all() for x in (i_rot, i_vel, i_pos))),
                           "d_rot": ulps(quat2mat(i_rot), quat2mat(f_rot), eps, floor=phi) if i_rot.shape == f_rot.shape else CAP,
                           "d_vel": ulps(i_vel, f_vel, eps, floor=adt) if i_vel.shape == f_vel.shape else CAP,
                           "d_pos": ulps(i_pos, f_pos, eps) if i_pos.shape == f_pos.shape else CAP})
            except Exception as ex:
                ev.append({"act": "raise", "where": "init_state", "k0": 0, "len": hi, "rank": 3, "msg": repr(ex)[:200]})
                break
        if m3 is not None and rank != 3:
            try:
                o3 = call(m3, st, k, k + ln, 3)
                ev.append({"act": "rank", "k0": k, "len": ln, "rank": rank, "nfold": hi - lo + 1,
                           "shape_rot": list(o_rot.shape), "shape_vel": list(o_vel.shape),
                           "shape_pos": list(o_pos.shape), "shape_cov": list(o_cov.shape),
                           "d_rot": ulps(Ro, quat2mat(tnp(o3["rot"])), eps), "d_vel": ulps(o_vel, tnp(o3["vel"]), eps),
                           "d_pos": ulps(o_pos, tnp(o3["pos"]), eps),
                           "d_cov": ulps(o_cov, tnp(o3["cov"]), eps, floor=0.0)})
            except Exception as ex:
                ev.append({"act": "raise", "where": "rank3", "k0": k, "len": ln, "rank": 3, "msg": repr(ex)[:200]})
                break
        elif m3 is not None:
            try:
                call(m3, st, k, k + ln, 3)
            except Exception:
                m3 = None
        k += ln
    else:
        ev.append({"act": "done", "k": k})
    return {"cfg": cfg, "ev": ev}


# ---------------------------------------------------------------------------------------------- exact lattice
def hurwitz24():
    units = []
    for s in (1.0, -1.0):
        for k in range(4):
            q = [0.0, 0.0, 0.0, 0.0]
            q[k] = s
            units.append(tuple(q))
    units += list(itertools.product((0.5, -0.5), repeat=4))
    return units


BADDY = [1 << 30, 0]   # a value that is not on the lattice (too many bits): never equal to an expected dyadic


def dy(x):
    """float -> normalised dyadic [m, e] = m * 2^-e with small integers."""
    x = float(x)
    if x != x or x in (float("inf"), float("-inf")):
        return BADDY
    f = Fraction(x)
    m, den = f.numerator, f.denominator
    e = den.bit_length() - 1
    if m == 0:
        return [0, 0]
    if abs(m) >= 1 << 30 or e > 40:
        return BADDY
    return [m, e]


def dyv(xs):
    return [dy(x) for x in xs]


def run_exact(ctx, seed, F, chunks, reset, B, dk, gravity, known):
    """Zero angular rate, dyadic inputs, Hurwitz rotations: every operation of the integrator is exact in IEEE
    arithmetic, so ImuTrace recomputes the rows from the logged integers and compares by equality."""
    import random
    import torch
    pp = pypose()
    rng = random.Random(seed)
    H = hurwitz24()
    dtype = torch.float64 if dk == "f64" else torch.float32
    q0 = rng.choice(H)
    p0 = [float(rng.randint(-2, 2)) for _ in range(3)]
    v0 = [rng.randint(-4, 4) / 2 for _ in range(3)]
    dts = [[rng.choice([1.0, 0.5, 0.25, 0.125, 2.0]) for _ in range(F)] for _ in range(B)]
    acs = [[[rng.randint(-12, 12) / 4 for _ in range(3)] for _ in range(F)] for _ in range(B)]
    rks = [[rng.choice(H) for _ in range(F)] for _ in range(B)]
    try:
        m = pp.module.IMUPreintegrator(torch.tensor(p0, dtype=dtype), pp.SO3(torch.tensor(q0, dtype=dtype)),
                                       torch.tensor(v0, dtype=dtype), gravity=gravity, reset=reset)
        if dk == "f64":
            m = m.double()
    except Exception as ex:
        return [{"cfg": {"kind": "exact", "seed": seed}, "ev": [{"act": "raise", "msg": repr(ex)[:200]}]}]
    dt = torch.tensor(dts, dtype=dtype).view(B, F, 1)
    ac = torch.tensor(acs, dtype=dtype).view(B, F, 3)
    gy = torch.zeros(B, F, 3, dtype=dtype)
    rot = pp.SO3(torch.tensor(rks, dtype=dtype).view(B, F, 4)) if known else None
    traces = [{"cfg": {"kind": "exact", "F": F, "B": B, "reset": reset, "known": known, "g": dy(gravity), "dtype": dk,
                       "init": {"q": dyv(q0), "v": dyv(v0), "p": dyv(p0)}, "chunks": list(chunks), "seed": seed,
                       "lane": b},
               "ev": []} for b in range(B)]
    k = 0
    for ln in chunks:
        a, b_ = k, k + ln
        try:
            out = m(dt[:, a:b_], gy[:, a:b_], ac[:, a:b_], rot=rot[:, a:b_]) if known else \
                m(dt[:, a:b_], gy[:, a:b_], ac[:, a:b_])
        except Exception as ex:
            for t in traces:
                t["ev"].append({"act": "raise", "k0": k, "len": ln, "msg": repr(ex)[:200]})
            return traces
        o_rot, o_vel, o_pos = tnp(out["rot"]), tnp(out["vel"]), tnp(out["pos"])
        bufs = buffers(m)
        for b in range(B):
            e = {"act": "xcall", "k0": k, "dt": dyv(dts[b][a:b_]), "acc": [dyv(x) for x in acs[b][a:b_]],
                 "rk": [dyv(x) for x in rks[b][a:b_]] if known else [],
                 "q": [dyv(x) for x in o_rot[b]], "v": [dyv(x) for x in o_vel[b]], "p": [dyv(x) for x in o_pos[b]]}
            if bufs is not None:
                def lane(x):
                    return x[b if x.shape[0] == B else 0]
                e["buf"] = {"q": dyv(lane(bufs[0])), "v": dyv(lane(bufs[1])), "p": dyv(lane(bufs[2]))}
            else:       # not observable: the expected value (judged vacuously)
                e["buf"] = traces[b]["cfg"]["init"] if reset else {"q": e["q"][-1], "v": e["v"][-1], "p": e["p"][-1]}
            traces[b]["ev"].append(e)
        k += ln
    for t in traces:
        t["ev"].append({"act": "done", "k": k})
    return traces


# ---------------------------------------------------------------------------------------------- plan
def compositions_sample(rng, F, nmax=None):
    """A random composition of F with a random number of parts."""
    if F == 1:
        return [1]
    parts = rng.choice([1, 2, 2, 3, 4, 6, min(F, 9), min(F, 17)])
    parts = max(1, min(parts, F))
    cuts = sorted(rng.sample(range(1, F), parts - 1))
    b = [0] + cuts + [F]
    return [y - x for x, y in zip(b, b[1:])]


def design(ctx):
    q = ctx.quick
    acts = ["Begin", "RotRound", "Integrate", "CovRound", "Finish"]
    ctx.tlc("Imu", "Imu_q.cfg" if q else "Imu_t.cfg", workers=4, coverage=q, need_actions=acts if q else ())
    ctx.tlc("ImuExact", "ImuExact_q.cfg" if q else "ImuExact_t.cfg", workers=4)
    for r in ctx.tlc_runs:
        if r["violated"]:
            ctx.violation("design/%s" % r["violated"][0], "%s violates %s" % (r["module"], r["violated"]))
    r = ctx.tlc("Imu", "Imu_wit.cfg", workers=2)
    if "NoFullStreamInChunks" not in r.violated:
        raise MachineryError("vacuity: witness NoFullStreamInChunks not reached")
    ctx.tlc_runs[-1]["violated"] = []
    ctx.tlc_runs[-1]["witness_reached"] = "NoFullStreamInChunks"


def table(ctx):
    out = ctx.work / "imu_table.json"
    res = ctx.tlc("ImuGen", "ImuGen_q.cfg" if ctx.quick else "ImuGen_t.cfg", env={"OUT_FILE": out}, workers=1)
    rows = json.loads(out.read_text())["rows"]
    n = res.printed("ROWS")
    if not n or n[0][1] != len(rows):
        raise MachineryError("ImuGen: ROWS line does not match the table (%s vs %d)" % (n, len(rows)))
    rows.sort(key=lambda r: (r["F"], r["reset"], r["chunks"]))
    return rows


GRAV = 9.81007


def gen_traces(ctx):
    rng = ctx.rng
    q = ctx.quick
    traces = []
    rows = table(ctx)
    ctx.extra["chunkings_enumerated_by_tlc"] = len(rows)
    seed = ctx.seed * 1000003
    # (1) spec -> code: every TLC-enumerated chunking, replayed on a real integrator
    for i, row in enumerate(rows):
        seed += 1
        B = 1 + (i % 4)
        dk = "f64" if (i // 4) % 2 == 0 else "f32"
        gravity = 0.0 if (i // 8) % 2 == 0 else GRAV
        known = (i // 16) % 2 == 1
        calls = row["calls"]
        ranks = []
        for j, c in enumerate(calls):
            adm = sorted(c["ranks1"] if B == 1 else c["ranksB"])
            ranks.append(adm[(i + j) % len(adm)])
            if c["scan"] != c["len"] + 1:
                ctx.violation("design/scan_length", "ImuGen tabulates scan length %s for len %s" % (c["scan"], c["len"]))
        traces.append(run_num(ctx, seed, row["F"], row["chunks"], row["reset"], B, dk, gravity, known,
                              init_random=(i % 3 != 0), vec_cov=(i % 5 == 0), ranks=ranks,
                              origin=[c["lo"] - 1 for c in calls]))
        ctx.evaluations += len(calls)
    # (2) sampled chunkings of long streams: every F in 1..40, then up to 200
    Fs = list(range(1, 41)) + [47, 63, 64, 65, 100, 127, 128, 129, 150, 199, 200]
    reps = 1 if q else 6
    for F in Fs:
        for rep in range(reps):
            for dk in ("f64", "f32"):
                seed += 1
                reset = rng.random() < 0.2
                traces.append(run_num(ctx, seed, F, compositions_sample(rng, F), reset, rng.randint(1, 4), dk,
                                      rng.choice([0.0, GRAV]), rng.random() < 0.4,
                                      init_random=rng.random() < 0.7, vec_cov=rng.random() < 0.3))
    if not q:
        for _ in range(120):
            seed += 1
            F = rng.randint(41, 200)
            traces.append(run_num(ctx, seed, F, compositions_sample(rng, F), rng.random() < 0.2, rng.randint(1, 4),
                                  rng.choice(["f64", "f32"]), rng.choice([0.0, GRAV]), rng.random() < 0.4,
                                  init_random=rng.random() < 0.7, vec_cov=rng.random() < 0.3))
    # (3) exact lattice
    for i in range(60 if q else 600):
        seed += 1
        F = 1 + (i % 8)
        traces += run_exact(ctx, seed, F, compositions_sample(rng, F), i % 5 == 4, 1 + (i % 3),
                            "f64" if i % 2 == 0 else "f32", [0.0, 8.0, 9.75][(i // 2) % 3], (i // 6) % 2 == 1)
    return traces


def key_of(tr, clause):
    c = tr["cfg"]
    return "%s/%s/%s/%s" % (c["kind"], clause, "reset" if c.get("reset") else "carry", c.get("dtype", "?"))


def judge(ctx, traces, verdicts):
    for tr, v in zip(traces, verdicts):
        c = tr["cfg"]
        if c["kind"] == "num":
            ctx.cover("num:F=%d:%s:B=%d:%s:reset=%s:g0=%s:known=%s" % (c["F"], c["chunks"], c["B"], c["dtype"],
                                                                      c["reset"], c["g0"], c["known"]))
        else:
            ctx.cover("exact:F=%s:%s:%s:reset=%s:known=%s:g=%s:q0=%s" % (c.get("F"), c.get("chunks"), c.get("dtype"),
                                                                       c.get("reset"), c.get("known"), c.get("g"),
                                                                       c.get("init", {}).get("q")))
        if v != "ok":
            clause, at = v.split("@")
            e = tr["ev"][int(at) - 1]
            small = {k: x for k, x in e.items() if k not in ("dt", "acc", "rk", "q", "v", "p")}
            ctx.violation(key_of(tr, clause),
                          "IMUPreintegrator %s stream F=%s chunks=%s B=%s reset=%s known=%s: clause %s at event %s: %s"
                          % (c["kind"], c.get("F"), c.get("chunks"), c.get("B"), c.get("reset"), c.get("known"),
                             clause, at, small),
                          {"trace": tr, "verdict": v})


def rerun(ctx, c):
    if c["kind"] == "num":
        s = c["stream"]
        return [run_num(ctx, c["seed"], c["F"], c["chunks"], c["reset"], c["B"], c["dtype"], s["gravity"], c["known"],
                        init_random=s["init_random"], vec_cov=s["vec_cov"],
                        ranks=c["ranks"] if len(c.get("ranks", [])) == len(c["chunks"]) else None)]
    g = Fraction(c["g"][0], 2 ** c["g"][1])
    return run_exact(ctx, c["seed"], c["F"], c["chunks"], c["reset"], c["B"], c["dtype"], float(g), c["known"])


def run(ctx):
    ctx.rule = [
        "TLC (Imu): symbolic integrator state machine, every chunking (composition) of every stream length F<=8 "
        "(quick) / F<=10 (thorough) x input rank x reset flag x known/integrated rotation: buffers and every output "
        "row equal the fold of the documented recursion, covariance equals the fold of C <- A C A^T + Q, each call "
        "scans len+1 elements (module Scan's invariants hold inside)",
        "TLC (ImuExact): zero-rate dyadic/Hurwitz lattice, chained preintegration+composition = recursion on the state",
        "spec->code: ImuGen tabulates all chunkings; each is replayed on a real integrator; per call: vs fresh one-shot "
        "call over the frames the spec prescribes, vs an independent long-double recursion (gravity 0), rank "
        "equivalence, buffers, covariance symmetric/PSD; sampled chunkings for every F in 1..40 and up to 200; "
        "verdicts by ImuTrace (tolerance 64 ulps per folded frame); exact lattice runs recomputed by TLC (equality); "
        "distinct = (kind, F, chunking, B, dtype, reset, gravity, known)"]
    ctx.assumptions = [
        "error measures are max-norm ulps of the dtype relative to max(1, |reference|) (rotation: max(1, largest |w dt|) "
        "of the folded frames, velocity: also the largest |a dt|, covariance: its largest entry), tolerance 64 ulps per "
        "folded frame (>= 7x what the repaired code measures)",
        "the recursion clause is judged with gravity 0 (a = measured acceleration) and, exactly, on the lattice with "
        "known / constant rotation and dyadic gravity (a = acc - R^-1 (0,0,g)); with non-zero gravity and integrated "
        "rotation only chunk invariance is judged (no oracle: the frame index of the rotation is not documented)",
        "the module is converted with .double() for float64 streams (default buffers are float32: not judged)"]
    design(ctx)
    if ctx.replay:
        case = json.load(open(ctx.replay))["case"]
        trs = rerun(ctx, case["trace"]["cfg"])
        judge(ctx, trs, ctx.validate("ImuTrace", "ImuTrace.cfg", trs, "replay"))
        return
    traces = gen_traces(ctx)
    nums = [t for t in traces if t["cfg"]["kind"] == "num"]
    ctx.sample({"cfg": nums[7]["cfg"], "ev": nums[7]["ev"][:2]})
    ctx.sample({"cfg": traces[-1]["cfg"], "ev": traces[-1]["ev"][:1]})
    ctx.extra["calls_replayed"] = sum(1 for t in traces for e in t["ev"] if e["act"] in ("call", "xcall"))
    verdicts = ctx.validate("ImuTrace", "ImuTrace.cfg", traces, "imu", chunk=1500)
    judge(ctx, traces, verdicts)


def selftest(ctx):
    """Binding demonstration: corrupted fields and a removed event are rejected by ImuTrace; TLC rejects the seeded
    design mutants (covariance scan with left=True as on the tree before the repair, predict composing DeltaR * R_i,
    rotation scan with left=True)."""
    good = run_num(ctx, 11, 7, [2, 1, 4], False, 1, "f64", 0.0, False, ranks=[2, 1, 3])
    for e in good["ev"]:          # judged values are set to the exact ones: the selftest does not depend on the tree
        if e["act"] == "raise":
            raise MachineryError("selftest run raised: %s" % e)
        for f in ("one_rot", "one_vel", "one_pos", "one_cov", "rec_rot", "rec_vel", "rec_pos", "asym", "neg",
                  "d_rot", "d_vel", "d_pos", "d_cov", "buf_last"):
            if f in e:
                e[f] = 0
    bad1 = json.loads(json.dumps(good))
    [e for e in bad1["ev"] if e["act"] == "call"][2]["one_pos"] = 64 * 7 + 1     # just above the tolerance
    bad2 = json.loads(json.dumps(good))
    del bad2["ev"][[i for i, e in enumerate(bad2["ev"]) if e["act"] == "call"][1]]   # a call is missing
    bad3 = json.loads(json.dumps(good))
    [e for e in bad3["ev"] if e["act"] == "call"][1]["lo"] = 3                   # the oracle folded the wrong frames
    xg = run_exact(ctx, 5, 5, [2, 3], False, 1, "f32", 8.0, True)[0]
    xb1 = json.loads(json.dumps(xg))
    xb1["ev"][1]["p"][2][1] = [xb1["ev"][1]["p"][2][1][0] + 2, xb1["ev"][1]["p"][2][1][1]]
    xb2 = json.loads(json.dumps(xg))
    del xb2["ev"][0]
    v = ctx.validate("ImuTrace", "ImuTrace.cfg", [good, bad1, bad2, bad3, xg, xb1, xb2], "selftest")
    print("selftest verdicts:", v)
    assert v[0] == "ok" and v[4] == "ok", v
    assert v[1].startswith("chunk_pos") and v[2].startswith("stream_position") and v[3].startswith("fold_origin"), v
    assert v[5].startswith("x_pos") and v[6].startswith("stream_position"), v
    for mname, inv in (("covleft", "BufferCovIsFold"), ("compose", "BufferIsFold"), ("rotleft", "BufferIsFold")):
        r = ctx.tlc("Imu", "Imu_mut_%s.cfg" % mname, workers=2)
        print("design mutant %s: violated %s" % (mname, r.violated))
        assert inv in r.violated, (mname, r.violated)
    return 0
