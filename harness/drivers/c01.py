"""C01 — Exp is the matrix exponential on so3, se3, rxso3, sim3 (Mode R with exact points).
Design: LieRegimes.tla (regimes + error model, every cell); verdicts: LieRegimesTrace.tla."""
import json
import math

from vlib.core import pypose
from vlib import lattice as L

PI = math.pi


def theta_classes(eps, q):
    c = [0.0, 1e-30, 1e-20, eps * (1 - 2 ** -8), eps, eps * (1 + 2 ** -8), 10 * eps, math.sqrt(eps) * 0.5, math.sqrt(eps),
         math.sqrt(eps) * 2, 1e-6 if eps < 1e-10 else 1e-3, 1e-4 if eps < 1e-10 else 1e-2, 1e-2, 0.1, 0.5, 1.0, 2.0, 3.0,
         PI - 1e-1, PI - 1e-3, PI - 1e-6, PI, PI + 1e-6, PI + 1e-2, 4.0, 2 * PI - 1e-6, 2 * PI, 2 * PI + 1e-6, 3 * PI, 5 * PI]
    # just below the places where a small-angle series is plausibly switched to the closed form (eps^(1/3), eps^(1/4),
    # eps^(1/6)): a truncated series is worst right below its switch-over
    c += [eps ** (1.0 / 3) * 0.9, eps ** 0.25 * 0.9, eps ** (1.0 / 6) * 0.9, eps ** (1.0 / 6) * 0.5]
    if not q:
        c += [10.0 ** k for k in range(-29, 0, 2)] + [PI - 10.0 ** -k for k in range(2, 13)] + [PI + 10.0 ** -k for k in range(2, 13, 2)]
        c += [eps ** (1.0 / 3) * 1.1, eps ** 0.25 * 1.1, eps ** (1.0 / 6) * 1.1, eps ** 0.2]
    return c


def sigma_classes(eps, q):
    base = [0.0, 1e-30, eps * (1 - 2 ** -8), eps * (1 + 2 ** -8), 10 * eps, 1e3 * eps, math.sqrt(eps), 100 * math.sqrt(eps),
            1e-4, 1e-2, 0.5, 1.0, 2.0, 8.0]
    if not q:
        base += [1e5 * eps, 1e7 * eps, 1e-3, 1e-1, 4.0]
    out = []
    for s in base:
        out.append(s)
        if s != 0.0:
            out.append(-s)
    return out


TRANS = [0.0, 1e-30, 1e-8, 1.0, 1e4]


def dexp(v):
    return -99 if v == 0 else int(math.floor(math.log10(abs(v))))


def rand_dir(rng, n=3):
    v = [rng.gauss(0, 1) for _ in range(n)]
    s = math.sqrt(sum(x * x for x in v))
    return [x / s for x in v]


def cells(ty, eps, q, rng):
    out = []
    th = theta_classes(eps, q)
    sg = sigma_classes(eps, q) if ty in ("RxSO3", "Sim3") else [0.0]
    tr = TRANS if ty in ("SE3", "Sim3") else [0.0]
    for t in th:
        for s in sg:
            for p in tr:
                out.append((t, s, p))
    return out


def measure(ctx, ty, dtype, per_cell):
    """Exp on every cell (batched: one call), errors against the 60-digit matrix exponential."""
    import torch
    import mpmath as mp
    from vlib import refsem as R
    pp = pypose()
    rng = ctx.rng
    eps_f = float(torch.finfo(dtype).eps)
    eps = mp.mpf(eps_f)
    dt = "f64" if dtype == torch.float64 else "f32"
    cs = cells(ty, eps_f, ctx.quick, rng)
    rows, meta = [], []
    for (t, s, p) in cs:
        for _ in range(per_cell):
            phi = [t * d for d in rand_dir(rng)]
            tau = [p * d for d in rand_dir(rng)]
            rows.append({"SO3": phi, "SE3": tau + phi, "RxSO3": phi + [s], "Sim3": tau + phi + [s]}[ty])
            meta.append((t, s, p))
    # any batch shape: fold the cells into a 2-d batch
    n = len(rows)
    cols = 7
    pad = (-n) % cols
    x = L.mkalg(ty, rows + [rows[0]] * pad, dtype)
    X = x.lview(-1, cols).Exp().lview(-1)
    # "any batch shape": the same rows folded into batches with an extent of 3 (the size of a coordinate axis); every
    # other row is taken from that evaluation
    pad3 = (-n) % 6
    x3 = L.mkalg(ty, rows + [rows[0]] * pad3, dtype)
    X3 = x3.lview(-1, 2, 3).Exp().lview(-1)
    Xt = X.tensor().clone()
    Xt[1:n:2] = X3.tensor()[1:n:2]
    X = pp.LieTensor(Xt, ltype=X.ltype)
    xs = x.tensor()
    off = {"SO3": 0, "SE3": 3, "RxSO3": 0, "Sim3": 3}[ty]
    ev = []
    for i in range(n):
        xi = xs[i].tolist()
        Xi = X.tensor()[i]
        # the classification uses the float values the code sees
        phi = xs[i][off:off + 3] if ty in ("SE3", "Sim3") else xs[i][0:3]
        th = float(torch.norm(phi, 2))
        sg = float(xs[i][-1]) if ty in ("RxSO3", "Sim3") else 0.0
        tn = float(torch.norm(xs[i][0:3], 2)) if ty in ("SE3", "Sim3") else 0.0
        fin = bool(torch.isfinite(Xi).all())
        e = {"chk": "exp", "ty": ty, "dt": dt, "eT": dexp(th), "eS": dexp(sg), "eP": dexp(tn),
             "gT": bool(th > eps_f), "gS": bool(abs(sg) > eps_f), "sT": bool(th < eps_f ** 0.25), "sS": bool(abs(sg) < eps_f ** 0.25), "finite": fin,
             "zero_in": all(v == 0 for v in xi), "x": xi, "cell": [meta[i][0], meta[i][1], meta[i][2]]}
        if fin:
            Mi = R.mat_of(ty, Xi.tolist())
            Mr = R.exp_ref(ty, xi)
            e["err_rot"] = R.block_err(Mi, Mr, range(3), range(3), eps)
            if ty in ("SE3", "Sim3"):
                if all(v == 0 for v in xi[0:3]):
                    e["err_trans"] = 0 if all(v == 0 for v in Xi[0:3].tolist()) else R.CAP
                else:
                    # relative to max(|t_ref|, |tau|): where V(phi, sigma) tau cancels (theta near 2 pi k, tau nearly
                    # orthogonal to the axis) the result is much smaller than the input and only the input scale is fair
                    e["err_trans"] = R.block_err(Mi, Mr, range(3), [3], eps, floor=max(abs(mp.mpf(v)) for v in xi[0:3]))
            else:
                e["err_trans"] = 0
            e["err_unit"] = R.unit_err(Xi[off:off + 4].tolist(), eps)
            ident = getattr(pp, "identity_" + ty)(dtype=dtype).tensor()
            e["identity_out"] = bool(torch.equal(Xi, ident))
        else:
            e.update({"err_rot": R.CAP, "err_trans": R.CAP, "err_unit": R.CAP, "identity_out": False})
        ev.append(e)
    return ev


def exact_points(ctx, ty, dtype):
    """Mode E: rotation-free, scale-free x gives exactly the translation element; validated by LieTrace."""
    import torch
    rng = ctx.rng
    ev = []
    if ty in ("SE3", "Sim3"):
        rows = [L.rand_alg(rng, ty, box=5, pure_trans=True) for _ in range(8)]
        x = L.mkalg(ty, rows, dtype)
        X = x.Exp()
        I = L.mk(ty, [L.rand_elem(rng, ty, tbox=0, sbox=0)[:0] or ([0.0] * 3 + [0.0, 0.0, 0.0, 1.0] + ([1.0] if ty == "Sim3" else []))] * 8, dtype)
        for i in range(8):
            ev.append({"op": "retr", "ty": ty, "x": L.dyvec(I.tensor()[i]), "a": L.dyvec(x.tensor()[i]),
                       "out": L.dyvec(X.tensor()[i]), "via": "Exp"})
    return ev


class _MiniCtx:
    def __init__(self, seed, quick):
        import random
        self.rng, self.quick, self.seed = random.Random(seed), quick, seed


def _worker(args):
    import torch
    ty, dts, seed, quick, per = args
    pypose()
    dtype = torch.float64 if dts == "f64" else torch.float32
    c = _MiniCtx(seed, quick)
    return measure(c, ty, dtype, per), exact_points(c, ty, dtype)


def band_key(e):
    return "eS=%d" % e["eS"]


def judge(ctx, traces, verdicts):
    for tr, v in zip(traces, verdicts):
        if v != "ok":
            clause, at = v.split("@")
            e = tr["ev"][int(at) - 1]
            if "chk" in e:
                key = "%s/%s/%s/%s/%s" % (e["chk"], e["ty"], e["dt"], clause, band_key(e))
                what = "%s %s %s cell theta~%.3g sigma~%.3g |tau|~%.3g: clause %s (err_rot=%s err_trans=%s err_unit=%s eps-units)" % (
                    e["chk"], e["ty"], e["dt"], e["cell"][0], e["cell"][1], e["cell"][2], clause,
                    e.get("err_rot"), e.get("err_trans"), e.get("err_unit"))
            else:
                key = "exact/%s/%s" % (e["ty"], clause)
                what = "exact point: %s" % json.dumps(e)[:400]
            ctx.violation(key, what, {"trace": {"cfg": tr["cfg"], "ev": [e]}, "spec": tr["cfg"]["spec"]})


def run(ctx):
    import torch
    pypose()
    q = ctx.quick
    ctx.rule = ["TLC (LieRegimes): every magnitude cell (type x dtype x theta exponent -30..1/zero x sigma exponent x side of eps): "
                "regimes total and exclusive (incl. the series regime of repair 2cfaa17), error model within tolerance in every cell; the pinned model (suffix 0) missed it exactly in the sim3 small-sigma band and the repaired model covers that band",
                "every cell (theta: 0, 1e-30.., eps-/eps/eps+, sqrt(eps)-/+, .., pi-1e-k, pi, pi+, 2pi-/+, 3pi, 5pi; sigma: 0, +-1e-30, "
                "+-eps-/+, .., +-8; |tau|: 0, 1e-30, 1e-8, 1, 1e4) instantiated with random directions, Exp evaluated in one batched "
                "call, error vs 60-digit expm per block; TLC judges tolerance and refinement of the model; distinct = cell x type x dtype"]
    ctx.assumptions = ["reference: mpmath expm (Taylor) at 60 digits of the 4x4 generator matrix",
                       "tolerances: rotation/scale block 256 eps, translation block 8 sqrt(eps), unit quaternion 8 eps (relative, max-norm per block)",
                       "between the sampled directions of a cell nothing is claimed; |sigma| > 8 not explored"]
    if ctx.replay:
        case = json.load(open(ctx.replay))["case"]
        tr = case["trace"]
        judge(ctx, [tr], ctx.validate(case["spec"], case["spec"] + ".cfg", [tr], "replay"))
        return
    ctx.tlc("LieRegimes", "LieRegimes.cfg", workers=4)
    for r in ctx.tlc_runs:
        if r["violated"]:
            ctx.violation("design/%s" % r["violated"][0], "LieRegimes violates %s" % r["violated"])
    traces, etr = [], []
    worst = {}
    import multiprocessing as mpc
    jobs = [(ty, dts, ctx.seed * 1000 + 17 * i + j, q, 1 if q else 6) for i, ty in enumerate(L.TYPES) for j, dts in enumerate(("f64", "f32"))]
    with mpc.get_context("fork").Pool(8) as pool:
        results = pool.map(_worker, jobs)
    for (ty, dts, _, _, _), (ev, xe) in zip(jobs, results):
        if True:
            for e in ev:
                ctx.cover("%s:%s:%s:%s:%s:%s:%s" % (ty, e["dt"], e["eT"], e["eS"], e["eP"], e["gT"], e["gS"]))
                k = "%s/%s" % (ty, e["dt"])
                w = worst.setdefault(k, {"rot": 0, "trans": 0, "unit": 0})
                w["rot"] = max(w["rot"], e["err_rot"])
                w["unit"] = max(w["unit"], e["err_unit"])
                w["trans"] = max(w["trans"], e["err_trans"])
            for i in range(0, len(ev), 1):
                traces.append({"cfg": {"spec": "LieRegimesTrace"}, "ev": ev[i:i + 1]})
            if xe:
                etr.append({"cfg": {"spec": "LieTrace", "ty": ty}, "ev": xe})
    ctx.extra["worst_err_eps_units"] = worst
    ctx.sample(traces[3]["ev"][0])
    ctx.sample(traces[-1]["ev"][0])
    judge(ctx, traces, ctx.validate("LieRegimesTrace", "LieRegimesTrace.cfg", traces, "exp", chunk=2500, parallel=8))
    judge(ctx, etr, ctx.validate("LieTrace", "LieTrace.cfg", etr, "expE"))


def selftest(ctx):
    import torch
    pypose()
    ev = measure(ctx, "SE3", torch.float64, 1)[:6]
    good = {"cfg": {}, "ev": ev}
    bad = json.loads(json.dumps(good))
    bad["ev"][2]["err_rot"] = 100000
    bad2 = json.loads(json.dumps(good))
    bad2["ev"][0]["finite"] = False
    v = ctx.validate("LieRegimesTrace", "LieRegimesTrace.cfg", [good, bad, bad2], "selftest")
    print("selftest verdicts:", v)
    assert v[0] == "ok" and v[1] != "ok" and v[2] != "ok"
    return 0
