"""C14 — LQR returns the feasible global minimiser of the LQ problem; MPC agrees (Mode S time indices + Mode E exact
rationals + Mode R float instances).
Specs: LQRTime.tla (+ LQRTimeTrace.tla), LQRExact.tla (+ LQRExactGen.tla, LQRExactTrace.tla)."""
import json
import time
from fractions import Fraction

from vlib.core import MachineryError, pypose
from drivers.c15 import DesignRuns, CAP

EPS = Fraction(1, 2 ** 52)


def ulps(err, scale):
    """integer error measure: ceil(err / (eps * scale)), capped"""
    if err == 0:
        return 0
    q = Fraction(err) / (EPS * Fraction(scale))
    n = q.numerator // q.denominator + (1 if q.numerator % q.denominator else 0)
    return min(CAP, int(n))


# ------------------------------------------------------------------------------------------ systems
def indexed_ltv(pp):
    class IndexedLTV(pp.module.LTV):       # the documented way of writing a time-varying system
        @property
        def A(self):
            return self._A[..., self._t, :, :]

        @property
        def B(self):
            return self._B[..., self._t, :, :]

        @property
        def C(self):
            return self._C[..., self._t, :, :]

        @property
        def D(self):
            return self._D[..., self._t, :, :]

        @property
        def c1(self):
            return None if self._c1 is None else self._c1[..., self._t, :]

        @property
        def c2(self):
            return None if self._c2 is None else self._c2[..., self._t, :]
    return IndexedLTV


def logging_class(base, log):
    """Subclass of a system class that records what the solver does to it (see LQRTimeTrace)."""
    class Logged(base):
        _incall = False
        _cur = None

        def __call__(self, *a, **k):
            ev = {"k": "call", "ts": int(self.systime), "targ": 0, "v": 0}
            log.append(ev)
            self._incall, self._cur = True, ev
            try:
                out = super().__call__(*a, **k)
            finally:
                self._incall = False
            ev["t"] = int(self.systime)
            return out

        def set_refpoint(self, state=None, input=None, t=None):
            ev = {"k": "ref", "targ": int(t) if t is not None else -1, "ts": -1, "v": 0}
            log.append(ev)
            r = super().set_refpoint(state=state, input=input, t=t)
            ev["t"] = int(self.systime)
            return r
    return Logged


def lin_event(log, ts, t):
    log.append({"k": "lin", "ts": int(ts), "targ": 0, "v": 0, "t": int(t)})


def make_time_system(cls, rng, T, log, dtype):
    """A small (n = 2, m = 1) integer system of class cls with time-dependent dynamics, logging its use."""
    import torch
    pp = pypose()
    n, m, K = 2, 1, 2 * T + 4
    A = [[[rng.randint(-1, 1) + (1 if i == j else 0) for j in range(n)] for i in range(n)] for _ in range(K)]
    Bm = [[[rng.randint(1, 2)] for _ in range(n)] for _ in range(K)]
    if cls == "LTI":
        Base = logging_class(pp.module.LTI, log)

        class Sys(Base):
            @property
            def A(self):
                if not self._incall:
                    lin_event(log, self._t, self._t)
                return self._A
        return Sys(torch.tensor([A[0]], dtype=dtype), torch.tensor([Bm[0]], dtype=dtype), torch.eye(n, dtype=dtype).unsqueeze(0),
                   torch.zeros(1, n, m, dtype=dtype))
    if cls == "LTV":
        Base = logging_class(indexed_ltv(pp), log)

        class Sys(Base):
            @property
            def A(self):
                if self._incall:
                    self._cur["ts"] = int(self._t)
                else:
                    lin_event(log, self._t, self._t)
                return self._A[..., self._t, :, :]
        return Sys(torch.tensor([A], dtype=dtype), torch.tensor([Bm], dtype=dtype), torch.eye(n, dtype=dtype).repeat(1, K, 1, 1),
                   torch.zeros(1, K, n, m, dtype=dtype))
    Base = logging_class(pp.module.NLS, log)
    A0, A1 = torch.tensor(A[0], dtype=dtype), torch.tensor(A[1], dtype=dtype) - torch.eye(n, dtype=dtype)
    B0 = torch.tensor(Bm[0], dtype=dtype)

    class Sys(Base):        # a linear time-varying system defined via NLS (as the Floquet example of the docs)
        def state_transition(self, state, input, t=None):
            tt = t.reshape(-1)[0]
            if self._incall:
                self._cur["ts"] = int(tt)
            else:
                lin_event(log, tt, self._t)
            tt = tt.to(state.dtype)
            return pp.bmv(A0 + tt * A1, state) + pp.bmv(B0 * (1 + tt), input)

        def observation(self, state, input, t=None):
            return state
    return Sys()


def time_traces(ctx, count):
    """Histories of solves / MPC calls interleaved with user calls on one logging system object."""
    import torch
    pp = pypose()
    rng = ctx.rng
    traces = []
    dtype = torch.float64
    for i in range(count):
        cls = ("LTI", "LTV", "NLS")[i % 3]
        T = rng.randint(1, 5)
        log = []
        sysobj = make_time_system(cls, rng, T, log, dtype)
        n, m = 2, 1
        Q = torch.eye(n + m, dtype=dtype).repeat(1, T, 1, 1)
        p = torch.tensor([[[rng.randint(-2, 2) for _ in range(n + m)] for _ in range(T)]], dtype=dtype)
        x0 = torch.tensor([[rng.randint(-2, 2) for _ in range(n)]], dtype=dtype)
        use_mpc = rng.random() < 0.3
        if use_mpc:
            mpc = pp.module.MPC(sysobj, Q, p, T, stepper=pp.utils.ReduceToBason(steps=rng.randint(1, 4)))
            lqrs = [mod for mod in mpc.modules() if isinstance(mod, pp.module.LQR)]
            if len(lqrs) != 1:
                raise MachineryError("cannot find the LQR module inside MPC")
            lqr = lqrs[0]
        else:
            lqr = pp.module.LQR(sysobj, Q, p, T)
        lqr.register_forward_pre_hook(lambda mod, inp: log.append({"k": "begin", "ts": -1, "targ": 0, "v": 0, "t": int(sysobj.systime)}))
        lqr.register_forward_hook(lambda mod, inp, out: log.append({"k": "end", "ts": -1, "targ": 0, "v": 0, "t": int(sysobj.systime)}))
        hist = []
        nsolve = 0
        try:
            for _ in range(rng.randint(2, 6)):
                r = rng.random()
                if r < 0.5 and nsolve < 4:
                    u = None if rng.random() < 0.5 else torch.tensor([[[rng.randint(-2, 2)] for _ in range(T)]], dtype=dtype)
                    if use_mpc:
                        k0 = sum(1 for e in log if e["k"] == "begin")
                        log.append({"k": "mpc_begin", "ts": -1, "targ": 0, "v": 0, "t": int(sysobj.systime)})
                        mpc(1, x0, u_init=u)
                        log.append({"k": "mpc_end", "ts": -1, "targ": 0, "v": sum(1 for e in log if e["k"] == "begin") - k0,
                                    "t": int(sysobj.systime)})
                        hist.append("mpc")
                    else:
                        lqr(x0, 1, u)
                        hist.append("solve")
                    nsolve += 1
                elif r < 0.7:
                    with torch.no_grad():
                        sysobj(x0[0] if cls != "NLS" else x0, torch.zeros(m, dtype=dtype) if cls != "NLS" else torch.zeros(1, m, dtype=dtype))
                    hist.append("fwd")
                else:
                    v = rng.randint(0, T + 2)
                    if rng.random() < 0.5:
                        sysobj.reset(v)
                    else:
                        sysobj.systime = v
                    log.append({"k": "user", "ts": -1, "targ": 0, "v": v, "t": int(sysobj.systime)})
                    hist.append("set%d" % v)
        except Exception as ex:
            log.append({"k": "raise", "ts": -1, "targ": 0, "v": 0, "t": 0, "msg": repr(ex)[:300]})
        if not any(e["k"] == "begin" for e in log):
            continue
        traces.append({"cfg": {"cls": cls, "T": T, "dev": False}, "ev": log, "hist": hist, "mpc": use_mpc,
                       "what": "%s T=%d %s history %s" % (cls, T, "MPC" if use_mpc else "LQR", hist)})
    return traces


# ------------------------------------------------------------------------------------------ exact instances
def inst_key(I):
    return (I["n"], I["m"], I["T"])


def family_instances(rng, quick):
    """The instance list handed to LQRExactGen: a deterministic sub-lattice of LQRExact's families plus random
    integer instances (n + m <= 3, T <= 3, PD cost)."""
    out = []

    def const(v, L):
        return [v for _ in range(L)]

    for L in (1, 2, 3):
        for a in ([-1], [2], [1]) if L == 1 else ([-1, 2, -1], [2, 2, 2], [2, -1, 2], [1, 2, -1]):
            a = (a * 3)[:L]
            for b in (const(1, L), list(range(1, L + 1))):
                for q in (const([[1, 0], [0, 1]], L), const([[2, 1], [1, 1]], L), [[[t, -1], [-1, 3]] for t in range(1, L + 1)]):
                    for c, pv, x in ((0, [0, 0], 1), (1, [1, -1], -2)):
                        out.append({"n": 1, "m": 1, "T": L, "A": [[[v]] for v in a], "B": [[[v]] for v in b],
                                    "c1": const([c], L), "Q": q, "p": const(pv, L), "x0": [x]})
    A2 = ([[1, 1], [0, 1]], [[0, 1], [-1, 1]], [[2, 0], [1, -1]])
    for L in (1, 2, 3):
        for a, a2 in ((0, 0), (1, 1), (0, 2), (2, 1)):
            As = [A2[a] if t % 2 == 0 else A2[a2] for t in range(L)]
            for b in ([[0], [1]], [[1], [1]]):
                for q in ([[1, 0, 0], [0, 1, 0], [0, 0, 1]], [[2, 0, 1], [0, 1, 0], [1, 0, 2]]):
                    for c, pv, x in (([0, 0], [0, 0, 0], [1, 0]), ([1, 0], [1, 0, -1], [1, -1])):
                        out.append({"n": 2, "m": 1, "T": L, "A": As, "B": const(b, L), "c1": const(c, L), "Q": const(q, L),
                                    "p": const(pv, L), "x0": x})
    # random integer instances, including two inputs
    for _ in range(40 if quick else 400):
        n, m = rng.choice([(1, 1), (2, 1), (1, 2), (1, 1), (2, 1)])
        L = rng.randint(1, 3) if n + m == 2 else rng.randint(1, 2)     # keeps TLC's 32-bit fractions in range
        lti = rng.random() < 0.4
        d = n + m

        def pdq():
            while True:
                M = [[0] * d for _ in range(d)]
                for i in range(d):
                    M[i][i] = rng.randint(1, 3)
                    for j in range(i):
                        M[i][j] = M[j][i] = rng.randint(-1, 1)
                m1 = M[0][0] > 0
                m2 = d < 2 or M[0][0] * M[1][1] - M[0][1] * M[1][0] > 0
                det3 = d < 3 or (M[0][0] * (M[1][1] * M[2][2] - M[1][2] * M[2][1]) - M[0][1] * (M[1][0] * M[2][2] - M[1][2] * M[2][0])
                                 + M[0][2] * (M[1][0] * M[2][1] - M[1][1] * M[2][0])) > 0
                if m1 and m2 and det3:
                    return M
        As = [[[rng.randint(-2, 2) for _ in range(n)] for _ in range(n)] for _ in range(L)]
        Bs = [[[rng.randint(-2, 2) for _ in range(m)] for _ in range(n)] for _ in range(L)]
        cs = [[rng.randint(-1, 1) for _ in range(n)] for _ in range(L)]
        if lti:
            As, Bs, cs = const(As[0], L), const(Bs[0], L), const(cs[0], L)
        out.append({"n": n, "m": m, "T": L, "A": As, "B": Bs, "c1": cs, "Q": [pdq() for _ in range(L)],
                    "p": [[rng.randint(-2, 2) for _ in range(d)] for _ in range(L)], "x0": [rng.randint(-2, 2) for _ in range(n)]})
    return out


def is_lti(I):
    return all(I["A"][t] == I["A"][0] and I["B"][t] == I["B"][0] and I["c1"][t] == I["c1"][0] for t in range(I["T"]))


def build_exact_system(group, as_lti, dtype, rng):
    """One (batched) LTI / LTV object for a group of instances with equal (n, m, T)."""
    import torch
    pp = pypose()
    I0 = group[0]
    n, m, T = I0["n"], I0["m"], I0["T"]
    if as_lti:
        A = torch.tensor([I["A"][0] for I in group], dtype=dtype)
        B = torch.tensor([I["B"][0] for I in group], dtype=dtype)
        c1 = torch.tensor([I["c1"][0] for I in group], dtype=dtype)
        Bn = len(group)
        return pp.module.LTI(A, B, torch.eye(n, dtype=dtype).repeat(Bn, 1, 1), torch.zeros(Bn, n, m, dtype=dtype), c1,
                             torch.zeros(Bn, n, dtype=dtype))
    K = 2 * T + 3

    def padded(name):
        rows = []
        for I in group:
            s = list(I[name])
            for k in range(K - T):      # times >= T: different data (a stale time index must not go unnoticed)
                base = I[name][k % T]
                s.append([[v + 1 + ((i + j + k) % 2) for j, v in enumerate(r)] for i, r in enumerate(base)] if isinstance(base[0], list)
                         else [v + 1 + (k % 2) for v in base])
            rows.append(s)
        return torch.tensor(rows, dtype=dtype)
    Bn = len(group)
    return indexed_ltv(pp)(padded("A"), padded("B"), torch.eye(n, dtype=dtype).repeat(Bn, K, 1, 1),
                           torch.zeros(Bn, K, n, m, dtype=dtype), padded("c1"), torch.zeros(Bn, K, n, dtype=dtype))


def measure_exact(I, row, x, u, cost):
    """integer ulp measures of one batch element's result against instance I and TLC's optimum row"""
    n, m, T = I["n"], I["m"], I["T"]
    F = Fraction
    ev = {"act": "exact", "ok": row["ok"], "zerograd": row["zerograd"], "nobetter": row["nobetter"],
          "shape": list(x.shape) == [T + 1, n] and list(u.shape) == [T, m] and cost.dim() == 0}
    if not ev["shape"] or not row["ok"]:
        ev.update({"x0": 0, "dyn": 0, "sum": 0, "xopt": 0, "uopt": 0, "copt": 0})
        return ev
    xs = [[F(float(v)) for v in r] for r in x]
    us = [[F(float(v)) for v in r] for r in u]
    ev["x0"] = max(ulps(abs(xs[0][i] - I["x0"][i]), 1) for i in range(n))
    dyn = 0
    tot, tabs = F(0), F(0)
    for t in range(T):
        for i in range(n):
            terms = [I["A"][t][i][j] * xs[t][j] for j in range(n)] + [I["B"][t][i][j] * us[t][j] for j in range(m)] + [F(I["c1"][t][i])]
            dyn = max(dyn, ulps(abs(xs[t + 1][i] - sum(terms)), max(1, sum(abs(v) for v in terms))))
        tau = xs[t] + us[t]
        for i in range(n + m):
            for j in range(n + m):
                v = F(1, 2) * I["Q"][t][i][j] * tau[i] * tau[j]
                tot += v
                tabs += abs(v)
            tot += I["p"][t][i] * tau[i]
            tabs += abs(I["p"][t][i] * tau[i])
    ev["dyn"] = dyn
    c = F(float(cost))
    ev["sum"] = ulps(abs(c - tot), max(1, tabs))
    xo = [[F(*q) for q in r] for r in row["x"]]
    uo = [[F(*q) for q in r] for r in row["u"]]
    sc = max([1] + [abs(v) for r in xo for v in r] + [abs(v) for r in uo for v in r])
    ev["xopt"] = max(ulps(abs(xs[t][i] - xo[t][i]), sc) for t in range(T + 1) for i in range(n))
    ev["uopt"] = max(ulps(abs(us[t][i] - uo[t][i]), sc) for t in range(T) for i in range(m))
    ev["copt"] = ulps(abs(c - F(*row["cost"])), max(1, tabs, abs(F(*row["cost"]))))
    return ev


def tabulate(ctx, insts):
    """LQRExactGen on a list of instances; an instance whose exact fractions overflow TLC's 32-bit integers is isolated by
    bisection and dropped (returned as None)."""
    n = getattr(ctx, "_gen_n", 0) + 1
    ctx._gen_n = n
    fin, fout = ctx.work / ("lq_instances%d.json" % n), ctx.work / ("lq_optima%d.json" % n)
    fin.write_text(json.dumps(insts))
    res = ctx.tlc("LQRExactGen", "LQRExactGen.cfg", env={"IN_FILE": fin, "OUT_FILE": fout}, workers=1, expect_ok=False)
    if res.ok:
        rows = json.loads(fout.read_text())
        if len(rows) != len(insts):
            raise MachineryError("LQRExactGen returned %d rows for %d instances" % (len(rows), len(insts)))
        return rows
    if "Overflow when computing" not in res.out:
        raise MachineryError("TLC failed on LQRExactGen (rc=%s):\n%s" % (res.rc, res.out[-2000:]))
    if len(insts) == 1:
        return [None]
    h = len(insts) // 2
    return tabulate(ctx, insts[:h]) + tabulate(ctx, insts[h:])


def exact_traces(ctx, quick):
    """spec -> code: TLC tabulates the optimum of every instance (LQRExactGen); the real LQR / MPC solve them on fresh
    and on used system objects, with and without nominal inputs, batched and unbatched."""
    import torch
    pp = pypose()
    rng = ctx.rng
    insts = family_instances(rng, quick)
    rows = []
    for c0 in range(0, len(insts), 120):
        rows += tabulate(ctx, insts[c0:c0 + 120])
    dropped = sum(1 for r in rows if r is None)
    insts = [I for I, r in zip(insts, rows) if r is not None]
    rows = [r for r in rows if r is not None]
    ctx.extra["exact_instances"] = len(insts)
    ctx.extra["exact_instances_dropped_tlc_int_overflow"] = dropped
    if dropped > len(rows) // 10:
        raise MachineryError("too many instances overflow TLC's 32-bit integers (%d)" % dropped)
    ctx.sample({"kind": "spec->code optimum", "instance": insts[len(insts) // 2], "optimum": rows[len(insts) // 2]})
    dtype = torch.float64
    traces = []
    # group instances by dimensions into batches of 1..3
    by = {}
    for i, I in enumerate(insts):
        by.setdefault(inst_key(I) + (is_lti(I),), []).append(i)
    groups = []
    for key, idx in sorted(by.items()):
        rng.shuffle(idx)
        k = 0
        while k < len(idx):
            b = rng.choice([1, 1, 2, 3])
            groups.append(idx[k:k + b])
            k += b
    for g in groups:
        group = [insts[i] for i in g]
        I0 = group[0]
        n, m, T = inst_key(I0)
        Bn = len(group)
        kinds = ["LTV"] + (["LTI"] if all(is_lti(I) for I in group) else [])
        for cls in kinds:
            Q = torch.tensor([I["Q"] for I in group], dtype=dtype)
            if all(all(q == I["Q"][0] for q in I["Q"]) for I in group):
                Q = Q[:, 0]          # the documented 3-D form of a time-constant cost: one (n+m) x (n+m) matrix per batch item
            p = torch.tensor([I["p"] for I in group], dtype=dtype)
            x0 = torch.tensor([I["x0"] for I in group], dtype=dtype)
            sysobj = build_exact_system(group, cls == "LTI", dtype, rng)
            lqr = pp.module.LQR(sysobj, Q, p, T)
            evs = [[] for _ in group]
            plan = ["none", rng.choice(["rand", "zeros"]), rng.choice(["user+rand", "user+prev", "user+none"])]
            prev_u = None
            tr_meta = {"cls": cls, "n": n, "m": m, "T": T, "batch": Bn, "plan": plan, "insts": g}
            for s, how in enumerate(plan):
                try:
                    if how.startswith("user"):
                        with torch.no_grad():
                            for _ in range(rng.randint(0, 2)):
                                sysobj(x0, torch.zeros(Bn, m, dtype=dtype))
                        if rng.random() < 0.5:
                            sysobj.reset(rng.randint(0, T + 2))
                    if how.endswith("rand"):
                        ut = torch.tensor([[[rng.randint(-3, 3) for _ in range(m)] for _ in range(T)] for _ in range(Bn)], dtype=dtype)
                    elif how.endswith("zeros"):
                        ut = torch.zeros(Bn, T, m, dtype=dtype)
                    elif how.endswith("prev") and prev_u is not None:
                        ut = prev_u.clone()
                    else:
                        ut = None
                    x, u, cost = lqr(x0, 1, ut)
                    prev_u = u.detach()
                    for b, I in enumerate(group):
                        ok_shape = x.dim() == 3 and u.dim() == 3 and cost.dim() == 1 and x.shape[0] == Bn
                        e = measure_exact(I, rows[g[b]], x[b], u[b], cost[b]) if ok_shape else \
                            dict(act="exact", ok=True, zerograd=True, nobetter=True, shape=False, x0=0, dyn=0, sum=0, xopt=0, uopt=0, copt=0)
                        e["how"] = how
                        evs[b].append(e)
                except Exception as ex:
                    for b in range(Bn):
                        evs[b].append({"act": "raise", "msg": repr(ex)[:300], "how": how})
                    break
            for b in range(Bn):
                traces.append({"cfg": tr_meta, "ev": evs[b], "b": b, "what": "exact %s n=%d m=%d T=%d batch=%d plan=%s" % (cls, n, m, T, Bn, plan)})
            ctx.cover("exact:%s:%s:%s" % (cls, g, plan))
        # MPC on the linear system returns the same optimum (single batch)
        if Bn == 1 and (quick is False or rng.random() < 0.5):
            I = group[0]
            cls = "LTI" if is_lti(I) and rng.random() < 0.5 else "LTV"
            Q = torch.tensor([I["Q"]], dtype=dtype)
            p = torch.tensor([I["p"]], dtype=dtype)
            x0 = torch.tensor([I["x0"]], dtype=dtype)
            sysobj = build_exact_system(group, cls == "LTI", dtype, rng)
            evs = []
            try:
                mpc = pp.module.MPC(sysobj, Q, p, T, stepper=pp.utils.ReduceToBason(steps=rng.randint(1, 4)))
                for s in range(2):
                    x, u, cost = mpc(1, x0, u_init=None if s == 0 else torch.tensor([[[rng.randint(-2, 2) for _ in range(m)] for _ in range(T)]], dtype=dtype))
                    e = measure_exact(I, rows[g[0]], x[0], u[0], cost[0])
                    e["how"] = "mpc"
                    evs.append(e)
            except Exception as ex:
                evs.append({"act": "raise", "msg": repr(ex)[:300], "how": "mpc"})
            traces.append({"cfg": {"cls": cls, "n": n, "m": m, "T": T, "batch": 1, "plan": ["mpc", "mpc"], "insts": g, "mpc": True},
                           "ev": evs, "b": 0, "what": "exact MPC on %s n=%d m=%d T=%d" % (cls, n, m, T)})
            ctx.cover("exactmpc:%s:%s" % (cls, g))
    return traces


# ------------------------------------------------------------------------------------------ Mode R: float instances
def big_traces(ctx, count):
    """Random float instances (n <= 6, m <= 3, T <= 20, batch <= 3, unstable A, cond(Q) up to 1e6) against the minimiser
    of the condensed quadratic J(u) = 1/2 u'Hu + g'u + c computed with mpmath at 60 digits."""
    import mpmath
    import torch
    pp = pypose()
    mp = mpmath.mp
    mp.dps = 60
    rng = ctx.rng
    dtype = torch.float64
    traces = []
    skipped = 0
    for i in range(count):
        torch.manual_seed(ctx.seed * 100003 + i)
        n, m = rng.randint(1, 6), rng.randint(1, 3)
        T = rng.choice([1, 2, 3, 5, 8, 12, 20])
        Bn = rng.randint(1, 3)
        if n == 1 and Bn > 1 and rng.random() < 0.7:
            n = 2               # (n = 1, batch > 1) is exercised by the exact instances
        cls = rng.choice(["LTI", "LTV"])
        K = T if cls == "LTI" else 2 * T + 2
        rho = rng.choice([0.5, 0.9, 1.0, 1.1, 1.25])
        A = torch.randn(Bn, K, n, n, dtype=dtype)
        A = A / torch.linalg.eigvals(A).abs().max(-1).values.clamp_min(1e-3)[..., None, None] * rho
        Bm = torch.randn(Bn, K, n, m, dtype=dtype)
        c1 = torch.randn(Bn, K, n, dtype=dtype) * rng.choice([0.0, 1.0])
        if cls == "LTI":
            A, Bm, c1 = A[:, :1].expand(-1, T, -1, -1), Bm[:, :1].expand(-1, T, -1, -1), c1[:, :1].expand(-1, T, -1)
        d = n + m
        kap = 10.0 ** rng.choice([0, 1, 3, 6])
        Qs = []
        for _ in range(Bn * T):
            U, _ = torch.linalg.qr(torch.randn(d, d, dtype=dtype))
            ev_ = torch.logspace(0, float(torch.log10(torch.tensor(kap))), d, dtype=dtype) if d > 1 else torch.ones(1, dtype=dtype)
            Qs.append(U @ torch.diag(ev_) @ U.T)
        Q = torch.stack(Qs).reshape(Bn, T, d, d)
        Q = (Q + Q.mT) / 2
        constQ = i % 3 == 1         # a time-constant cost handed over in the 3-D form (one matrix per batch item)
        if constQ:
            Q = Q[:, :1].expand(-1, T, -1, -1).contiguous()
        p = torch.randn(Bn, T, d, dtype=dtype)
        x0 = torch.randn(Bn, n, dtype=dtype)
        if cls == "LTI":
            sysobj = pp.module.LTI(A[:, 0].contiguous(), Bm[:, 0].contiguous(), torch.eye(n, dtype=dtype).repeat(Bn, 1, 1),
                                   torch.zeros(Bn, n, m, dtype=dtype), c1[:, 0].contiguous(), torch.zeros(Bn, n, dtype=dtype))
        else:
            sysobj = indexed_ltv(pp)(A, Bm, torch.eye(n, dtype=dtype).repeat(Bn, K, 1, 1), torch.zeros(Bn, K, n, m, dtype=dtype),
                                     c1, torch.zeros(Bn, K, n, dtype=dtype))
        lqr = pp.module.LQR(sysobj, Q[:, 0].contiguous() if constQ else Q, p, T)
        refs = [reference_optimum(mpmath, A[b], Bm[b], c1[b], Q[b], p[b], x0[b], n, m, T) for b in range(Bn)]
        if max(r["cond"] for r in refs) > 1e7:
            skipped += 1
            continue
        evs = [[] for _ in range(Bn)]
        meta = {"cls": cls, "n": n, "m": m, "T": T, "batch": Bn, "rho": rho, "condQ": kap, "seed": ctx.seed * 100003 + i}
        try:
            for s in range(2):
                ut = None if s == 0 else torch.randn(Bn, T, m, dtype=dtype)
                x, u, cost = lqr(x0, 1, ut)
                for b in range(Bn):
                    evs[b].append(measure_big(mpmath, refs[b], A[b], Bm[b], c1[b], Q[b], p[b], x0[b], x[b], u[b], cost[b], n, m, T, rng))
        except Exception as ex:
            for b in range(Bn):
                evs[b].append({"act": "raise", "msg": repr(ex)[:300]})
        for b in range(Bn):
            traces.append({"cfg": meta, "ev": evs[b], "b": b, "what": "float %s n=%d m=%d T=%d batch=%d rho=%s condQ=%g" % (cls, n, m, T, Bn, rho, kap)})
        ctx.cover("big:%d" % i)
    ctx.extra["float_instances_skipped_cond_gt_1e7"] = skipped
    return traces


def reference_optimum(mpmath, A, Bm, c1, Q, p, x0, n, m, T):
    """x_t = S_t u + s_t (affine in the stacked inputs); J(u) = 1/2 u'Hu + g'u + c; minimiser by LU at 60 digits."""
    mp = mpmath.mp
    M = mpmath.matrix
    N = T * m

    def mm(t):
        return M([[mp.mpf(float(v)) for v in r] for r in t.tolist()])

    def mv(t):
        return M([mp.mpf(float(v)) for v in t.tolist()])
    S = M(n, N)
    s = mv(x0)
    H = M(N, N)
    g = M(N, 1)
    for t in range(T):
        Qt, pt = mm(Q[t]), mv(p[t])
        E = M(n + m, N)          # tau_t = E u + e
        for i in range(n):
            for j in range(N):
                E[i, j] = S[i, j]
        for i in range(m):
            E[n + i, t * m + i] = 1
        e = M(n + m, 1)
        for i in range(n):
            e[i] = s[i]
        H += E.T * Qt * E
        g += E.T * (Qt * e + pt)
        At, Bt = mm(A[t]), mm(Bm[t])
        S2 = At * S
        for i in range(n):
            for j in range(m):
                S2[i, t * m + j] += Bt[i, j]
        s = At * s + mv(c1[t])
        S = S2
    uopt = mpmath.lu_solve(H, -g)
    Hf = [[float(H[i, j]) for j in range(N)] for i in range(N)]
    import torch
    ev = torch.linalg.eigvalsh(torch.tensor(Hf, dtype=torch.float64))
    cond = float(ev.max() / ev.min().clamp_min(1e-300))
    return {"u": uopt, "cond": max(1.0, cond)}


def measure_big(mpmath, ref, A, Bm, c1, Q, p, x0, x, u, cost, n, m, T, rng):
    mp = mpmath.mp
    F = mp.mpf
    eps = F(2) ** -52
    ev = {"act": "big", "shape": list(x.shape) == [T + 1, n] and list(u.shape) == [T, m] and cost.dim() == 0,
          "cond": min(10 ** 7, int(ref["cond"]) + 1)}
    if not ev["shape"]:
        ev.update({"x0": 0, "dyn": 0, "sum": 0, "uerr": 0, "xerr": 0, "cerr": 0, "worse": 0})
        return ev

    def roll(useq):
        """exact (60 digit) roll-out and cost of an input sequence"""
        xs = [[F(float(v)) for v in x0]]
        tot, tabs = F(0), F(0)
        for t in range(T):
            tau = xs[-1] + useq[t]
            for i in range(n + m):
                for j in range(n + m):
                    v = F(float(Q[t][i][j])) * tau[i] * tau[j] / 2
                    tot += v
                    tabs += abs(v)
                tot += F(float(p[t][i])) * tau[i]
                tabs += abs(F(float(p[t][i])) * tau[i])
            xs.append([sum(F(float(A[t][i][j])) * xs[-1][j] for j in range(n)) + sum(F(float(Bm[t][i][j])) * useq[t][j] for j in range(m))
                       + F(float(c1[t][i])) for i in range(n)])
        return xs, tot, tabs
    ug = [[F(float(v)) for v in r] for r in u]
    xg = [[F(float(v)) for v in r] for r in x]
    uo = [[ref["u"][t * m + j] for j in range(m)] for t in range(T)]
    xo, jo, jabs = roll(uo)
    ev["x0"] = 0 if all(xg[0][i] == F(float(x0[i])) for i in range(n)) else 1
    dyn = F(0)
    for t in range(T):
        for i in range(n):
            terms = [F(float(A[t][i][j])) * xg[t][j] for j in range(n)] + [F(float(Bm[t][i][j])) * ug[t][j] for j in range(m)] + [F(float(c1[t][i]))]
            dyn = max(dyn, abs(xg[t + 1][i] - sum(terms)) / (eps * max(F(1), sum(abs(v) for v in terms))))
    _, jg, jgabs = roll(ug)
    c = F(float(cost))
    sc = max([F(1)] + [abs(v) for r in xo for v in r] + [abs(v) for r in uo for v in r])

    def cap(v):
        return min(CAP, int(mpmath.ceil(v)))
    ev["dyn"] = cap(dyn)
    ev["sum"] = cap(abs(c - jg) / (eps * max(F(1), jgabs)))
    ev["uerr"] = cap(max(abs(ug[t][j] - uo[t][j]) for t in range(T) for j in range(m)) / (eps * sc))
    ev["xerr"] = cap(max(abs(xg[t][i] - xo[t][i]) for t in range(T + 1) for i in range(n)) / (eps * sc))
    ev["cerr"] = cap(abs(c - jo) / (eps * max(F(1), jabs)))
    worse = 0
    for _ in range(4):      # random perturbations of the returned inputs must not lower the exact cost
        h = F(2) ** -rng.choice([4, 10, 20])
        up = [[ug[t][j] + h * rng.choice([-1, 0, 1]) for j in range(m)] for t in range(T)]
        _, jp, jpabs = roll(up)
        if jp < jg - 64 * eps * ev["cond"] * max(F(1), jgabs):
            worse = 1
    ev["worse"] = worse
    return ev


# ------------------------------------------------------------------------------------------ MPC on a nonlinear system
def mpc_nonlinear_traces(ctx, count):
    """MPC on a (time-dependent) nonlinear system: the returned trajectory satisfies x_{i+1} = f(x_i, u_i, i) and the
    reported cost is the sum of the stage costs."""
    import mpmath
    import torch
    pp = pypose()
    mp = mpmath.mp
    mp.dps = 40
    rng = ctx.rng
    dtype = torch.float64
    traces = []
    for i in range(count):
        timedep = i % 2 == 0
        a, b, w = rng.choice([0.1, 0.2, 0.05]), rng.choice([0.5, 1.0]), (rng.choice([0.1, 0.3]) if timedep else 0.0)
        T = rng.randint(2, 5)

        class Pend(pp.module.NLS):
            def state_transition(self, state, input, t=None):
                tt = t.reshape(-1)[0].to(state.dtype)
                th, om = state[..., 0], state[..., 1]
                return torch.stack([th + a * om, om - a * torch.sin(th) + b * a * (1 + w * tt) * input[..., 0]], dim=-1)

            def observation(self, state, input, t=None):
                return state
        sysobj = Pend()
        Q = torch.eye(3, dtype=dtype).repeat(1, T, 1, 1)
        p = torch.tensor([[[rng.randint(-1, 1) * 0.5 for _ in range(3)] for _ in range(T)]], dtype=dtype)
        x0 = torch.tensor([[rng.choice([0.5, -1.0, 2.0]), rng.choice([0.0, 0.5])]], dtype=dtype)
        evs = []
        meta = {"cls": "NLS", "timedep": timedep, "T": T, "a": a, "b": b, "w": w}
        try:
            mpc = pp.module.MPC(sysobj, Q, p, T, stepper=pp.utils.ReduceToBason(steps=rng.randint(2, 6)))
            for s in range(2):
                x, u, cost = mpc(1, x0, u_init=None if s == 0 else torch.zeros(1, T, 1, dtype=dtype))
                F = mp.mpf
                eps = F(2) ** -52
                xg = [[F(float(v)) for v in r] for r in x[0]]
                ug = [[F(float(v)) for v in r] for r in u[0]]
                dyn = F(0)
                tot, tabs = F(0), F(0)
                for t in range(T):
                    f0 = xg[t][0] + F(a) * xg[t][1]
                    terms = [xg[t][1], -F(a) * mp.sin(xg[t][0]), F(b) * F(a) * (1 + F(w) * t) * ug[t][0]]
                    dyn = max(dyn, abs(xg[t + 1][0] - f0) / (eps * max(F(1), abs(xg[t][0]) + abs(F(a) * xg[t][1]))),
                              abs(xg[t + 1][1] - sum(terms)) / (eps * max(F(1), sum(abs(v) for v in terms))))
                    tau = xg[t] + ug[t]
                    for k in range(3):
                        tot += tau[k] * tau[k] / 2 + F(float(p[0][t][k])) * tau[k]
                        tabs += tau[k] * tau[k] / 2 + abs(F(float(p[0][t][k])) * tau[k])
                evs.append({"act": "mpcnl", "x0": 0 if all(xg[0][k] == F(float(x0[0][k])) for k in range(2)) else 1,
                            "dyn": min(CAP, int(mpmath.ceil(dyn))),
                            "sum": min(CAP, int(mpmath.ceil(abs(F(float(cost[0])) - tot) / (eps * max(F(1), tabs)))))})
        except Exception as ex:
            evs.append({"act": "raise", "msg": repr(ex)[:300]})
        traces.append({"cfg": meta, "ev": evs, "b": 0, "what": "MPC on nonlinear pendulum (time-dependent=%s) T=%d" % (timedep, T)})
        ctx.cover("mpcnl:%d" % i)
    return traces


# ------------------------------------------------------------------------------------------ judging
TKEEP = ("k", "ts", "targ", "v", "t")


def judge_time(ctx, traces, verdicts):
    bad = []
    for tr, v in zip(traces, verdicts):
        if v == "ok":
            continue
        clause, at = v.rsplit("@", 1)
        bad.append((tr, clause, int(at)))
    if not bad:
        return
    # classify: does the rejected execution follow the named deviation StaleStart (the known defect) exactly?
    dev = [{"cfg": dict(tr["cfg"], dev=True), "ev": [{k: e.get(k, 0) for k in TKEEP} for e in tr["ev"] if e["k"] != "raise"] or
            [{"k": "noop", "ts": -1, "targ": 0, "v": 0, "t": 0}]} for tr, _, _ in bad]
    dv = ctx.validate("LQRTimeTrace", "LQRTimeTrace.cfg", dev, "lqrtime_dev")
    for (tr, clause, at), d in zip(bad, dv):
        e = tr["ev"][at - 1]
        cls = tr["cfg"]["cls"]
        if e["k"] == "raise":
            key = "%s/raised" % cls
        else:
            key = "%s/%s" % (cls, clause)
        ctx.violation(key, "%s: LQRTimeTrace rejects event %d (%s): %s -- the stage evaluated the dynamics at time index %s. "
                      "The execution %s the named deviation StaleStart of LQRTime. events=%s"
                      % (tr["what"], at, json.dumps({k: e.get(k) for k in TKEEP}), clause, e.get("ts"),
                         "conforms to" if d == "ok" else "does NOT conform to (%s)" % d,
                         json.dumps([[x["k"], x.get("ts"), x.get("t")] for x in tr["ev"][:at]])[:700]),
                      {"mode": "time", "cfg": tr["cfg"], "hist": tr["hist"], "mpc": tr["mpc"], "ev": tr["ev"][:at]})


def judge_num(ctx, traces, verdicts):
    for tr, v in zip(traces, verdicts):
        if v == "ok":
            continue
        clause, at = v.rsplit("@", 1)
        at = int(at)
        e = tr["ev"][at - 1]
        cfg = tr["cfg"]
        if clause in ("instance_not_well_formed", "unknown_event"):
            raise MachineryError("harness produced a case outside the specification (%s): %s" % (v, json.dumps(cfg)[:300]))
        tag = "solve1" if at == 1 else "solve>1"
        if e["act"] == "raise" and cfg.get("n") == 1 and cfg.get("batch", 1) > 1:
            key = "%s/n=1,batch>1/raised" % cfg["cls"]
        elif cfg.get("mpc"):
            key = "MPC-%s/%s/%s" % (cfg["cls"], clause, tag)
        elif e["act"] == "mpcnl" or "timedep" in cfg:
            key = "MPC-NLS/%s/%s/%s" % ("time-dependent" if cfg["timedep"] else "time-free", clause, tag)
        else:
            key = "%s/%s/%s" % (cfg["cls"], clause, tag)
        ctx.violation(key, "%s, batch element %d: LQRExactTrace rejects solve %d: %s; measures=%s"
                      % (tr["what"], tr["b"], at, clause, json.dumps(e)[:500]),
                      {"mode": "num", "what": tr["what"], "cfg": cfg, "event": e, "solve": at})


DESIGN = [
    {"module": "LQRTime", "cfg": "LQRTime_doc.cfg", "workers": 2, "coverage": True,
     "need_actions": ["UserForward", "UserReset", "MpcBegin", "Begin", "RolloutCall", "BackwardRef", "BackwardLin", "ForwardCall", "End"]},
    {"module": "LQRTime", "cfg": "LQRTime_code.cfg", "workers": 1, "expect_violation": "StageUsesOwnIndex"},
    {"module": "LQRTime", "cfg": "LQRTime_codeLTV.cfg", "workers": 1, "expect_violation": "StageUsesOwnIndex"},
    {"module": "LQRExact", "cfg": "LQRExact_scalarL.cfg", "workers": 4},
    {"module": "LQRExact", "cfg": "LQRExact_twoL.cfg", "workers": 4},
]


def run(ctx):
    q = ctx.quick
    pypose()
    ctx.rule = ["TLC: LQRTime -- every history of <= 3 solves (plain or inside MPC.forward) interleaved with <= 3 user calls, "
                "T in 1..4, LTI/LTV/NLS: StageUsesOwnIndex (documented behaviour holds; the named deviation StaleStart = the "
                "unrepaired code is refuted with a counterexample); LQRExact -- value recursion / roll-out / cost over exact "
                "rationals on every instance of the scalar and two-state families: feasible, cost = sum, ZeroGradient, "
                "NoBetterNeighbour",
                "conformance: event logs {solve, pass, stage, time seen} of real LQR/MPC solves on logging LTI/LTV/NLS objects "
                "validated by LQRTimeTrace; integer instances solved by the real LQR/MPC (fresh and used objects, any nominal "
                "inputs, batches 1..3) judged in ulps against the fractions TLC computed; float instances up to n=6, T=20 "
                "against a 60-digit minimiser; MPC on a nonlinear system; a case is distinct by history / instance group"]
    ctx.assumptions = ["dt = 1 (LQR passes t*dt to set_refpoint; other dt are not judged)",
                       "float instances whose condensed Hessian has cond > 1e7 are not judged",
                       "MPC: single batch (documented restriction of the best-so-far comparison)"]
    if ctx.replay:
        return replay(ctx)
    design = DesignRuns(ctx, DESIGN)
    t0 = time.time()
    tt = time_traces(ctx, 150 if q else 1500)
    for t in tt[:2]:
        ctx.sample({"kind": "time trace", "what": t["what"], "ev": [[e["k"], e.get("ts"), e.get("t")] for e in t["ev"][:12]]})
    for t in tt:
        ctx.cover("time:%s:%d:%s:%s" % (t["cfg"]["cls"], t["cfg"]["T"], t["mpc"], ",".join(t["hist"])))
    tv = ctx.validate("LQRTimeTrace", "LQRTimeTrace.cfg",
                      [{"cfg": t["cfg"], "ev": [{k: e.get(k, 0) for k in TKEEP} for e in t["ev"]]} for t in tt], "lqrtime")
    judge_time(ctx, tt, tv)
    ctx.extra["time_traces_wall_s"] = round(time.time() - t0, 1)
    nt = exact_traces(ctx, q)
    nt += big_traces(ctx, 24 if q else 300)
    nt += mpc_nonlinear_traces(ctx, 6 if q else 40)
    nt = [t for t in nt if t["ev"]]
    for t in nt[:1] + nt[-1:]:
        ctx.sample({"kind": "result trace", "what": t["what"], "ev": t["ev"][:2]})
    nv = ctx.validate("LQRExactTrace", "LQRExactTrace.cfg", [{"cfg": {}, "ev": [{k: v for k, v in e.items() if k not in ("msg", "how")}
                                                                              for e in t["ev"]]} for t in nt], "lqrexact")
    judge_num(ctx, nt, nv)
    mx = {}
    for t in nt:
        for e in t["ev"]:
            for k in ("dyn", "sum", "xopt", "uopt", "copt"):
                if e.get("act") == "exact" and k in e:
                    mx["exact_" + k] = max(mx.get("exact_" + k, 0), e[k])
            if e.get("act") == "big":
                mx["big_uerr_over_cond_x1000"] = max(mx.get("big_uerr_over_cond_x1000", 0), 1000 * e["uerr"] // e["cond"])
                mx["big_dyn"] = max(mx.get("big_dyn", 0), e["dyn"])
    ctx.extra["max_measures"] = mx
    design.join()
    for res in ctx.tlc_runs:
        if res["violated"]:
            ctx.violation("design/%s" % res["violated"][0], "design model %s (%s) violates %s" % (res["module"], res["cfg"], res["violated"]))


def replay(ctx):
    """Re-run the recorded history / instance on the current tree."""
    import torch
    case = json.loads(open(ctx.replay).read())["case"]
    if case["mode"] == "time":
        # regenerate an equivalent history (same class, horizon, MPC flag and call pattern) on the current tree
        pp = pypose()
        cls, T = case["cfg"]["cls"], case["cfg"]["T"]
        log = []
        dtype = torch.float64
        sysobj = make_time_system(cls, ctx.rng, T, log, dtype)
        Q = torch.eye(3, dtype=dtype).repeat(1, T, 1, 1)
        p = torch.zeros(1, T, 3, dtype=dtype)
        x0 = torch.ones(1, 2, dtype=dtype)
        if case["mpc"]:
            mpc = pp.module.MPC(sysobj, Q, p, T, stepper=pp.utils.ReduceToBason(steps=3))
            lqr = [mod for mod in mpc.modules() if isinstance(mod, pp.module.LQR)][0]
        else:
            lqr = pp.module.LQR(sysobj, Q, p, T)
        lqr.register_forward_pre_hook(lambda mod, inp: log.append({"k": "begin", "ts": -1, "targ": 0, "v": 0, "t": int(sysobj.systime)}))
        lqr.register_forward_hook(lambda mod, inp, out: log.append({"k": "end", "ts": -1, "targ": 0, "v": 0, "t": int(sysobj.systime)}))
        try:
            for h in case["hist"]:
                if h == "solve":
                    lqr(x0, 1, None)
                elif h == "mpc":
                    k0 = sum(1 for e in log if e["k"] == "begin")
                    log.append({"k": "mpc_begin", "ts": -1, "targ": 0, "v": 0, "t": int(sysobj.systime)})
                    mpc(1, x0)
                    log.append({"k": "mpc_end", "ts": -1, "targ": 0, "v": sum(1 for e in log if e["k"] == "begin") - k0, "t": int(sysobj.systime)})
                elif h == "fwd":
                    with torch.no_grad():
                        sysobj(x0[0] if cls != "NLS" else x0, torch.zeros(1, dtype=dtype) if cls != "NLS" else torch.zeros(1, 1, dtype=dtype))
                else:
                    v = int(h[3:])
                    sysobj.reset(v)
                    log.append({"k": "user", "ts": -1, "targ": 0, "v": v, "t": int(sysobj.systime)})
        except Exception as ex:
            log.append({"k": "raise", "ts": -1, "targ": 0, "v": 0, "t": 0, "msg": repr(ex)[:300]})
        tr = {"cfg": case["cfg"], "ev": log, "hist": case["hist"], "mpc": case["mpc"], "what": "replayed history %s" % case["hist"]}
        v = ctx.validate("LQRTimeTrace", "LQRTimeTrace.cfg", [{"cfg": tr["cfg"], "ev": [{k: e.get(k, 0) for k in TKEEP} for e in log]}], "replay")
        judge_time(ctx, [tr], v)
        return
    # numeric cases are regenerated from the seed: run the numeric part of the check and keep the same key only
    want = json.loads(open(ctx.replay).read())["key"]
    ctx.rng.seed(json.loads(open(ctx.replay).read())["seed"])
    q = json.loads(open(ctx.replay).read())["tier"] == "quick"
    time_traces(ctx, 150 if q else 1500)            # consume the same random stream as run()
    nt = exact_traces(ctx, q)
    nt += big_traces(ctx, 24 if q else 300)
    nt += mpc_nonlinear_traces(ctx, 6 if q else 40)
    nt = [t for t in nt if t["ev"]]
    nv = ctx.validate("LQRExactTrace", "LQRExactTrace.cfg", [{"cfg": {}, "ev": [{k: v for k, v in e.items() if k not in ("msg", "how")}
                                                                              for e in t["ev"]]} for t in nt], "replay")
    judge_num(ctx, nt, nv)
    ctx.violations = [v for v in ctx.violations if v["key"] == want]


def selftest(ctx):
    """Binding demonstration: a corrupted field and a removed event must both be rejected (both trace specs)."""
    import torch
    pp = pypose()
    log = []
    dtype = torch.float64
    T = 3
    sysobj = make_time_system("LTV", ctx.rng, T, log, dtype)
    Q = torch.eye(3, dtype=dtype).repeat(1, T, 1, 1)
    p = torch.zeros(1, T, 3, dtype=dtype)
    lqr = pp.module.LQR(sysobj, Q, p, T)
    lqr.register_forward_pre_hook(lambda mod, inp: log.append({"k": "begin", "ts": -1, "targ": 0, "v": 0, "t": int(sysobj.systime)}))
    lqr.register_forward_hook(lambda mod, inp, out: log.append({"k": "end", "ts": -1, "targ": 0, "v": 0, "t": int(sysobj.systime)}))
    lqr(torch.ones(1, 2, dtype=dtype))          # one solve on a fresh object conforms on every tree
    good = {"cfg": {"cls": "LTV", "T": T, "dev": False}, "ev": [{k: e.get(k, 0) for k in TKEEP} for e in log]}
    bad1 = json.loads(json.dumps(good))
    i = [j for j, e in enumerate(bad1["ev"]) if e["k"] == "call"][-1]
    bad1["ev"][i]["ts"] += 1
    bad2 = json.loads(json.dumps(good))
    del bad2["ev"][[j for j, e in enumerate(bad2["ev"]) if e["k"] == "ref"][0]]
    v = ctx.validate("LQRTimeTrace", "LQRTimeTrace.cfg", [good, bad1, bad2], "selftest")
    print("selftest LQRTimeTrace verdicts:", v)
    assert v[0] == "ok" and v[1].startswith("forward/solve1@") and v[2] != "ok", v
    g = {"act": "exact", "ok": True, "zerograd": True, "nobetter": True, "shape": True, "x0": 0, "dyn": 1, "sum": 2, "xopt": 3, "uopt": 3, "copt": 1}
    w = ctx.validate("LQRExactTrace", "LQRExactTrace.cfg", [{"cfg": {}, "ev": [g, g]}, {"cfg": {}, "ev": [g, dict(g, uopt=10 ** 6)]},
                                                            {"cfg": {}, "ev": [dict(g, dyn=10 ** 5)]}], "selftest2")
    print("selftest LQRExactTrace verdicts:", w)
    assert w[0] == "ok" and w[1] == "u_optimal@2" and w[2] == "transition@1", w
    return 0
