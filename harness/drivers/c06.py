"""C06 — batching / broadcasting / views are transparent; pure ops never mutate inputs; patches are undone.

Specs: Broadcast.tla (lshape rule, index map, type table, handled functions; TLC over all 85 x 85 lshape pairs),
BroadcastGen.tla (spec -> torch: table of Bcast and index maps compared with torch itself), BroadcastTrace.tla
(code -> spec: every op on every lshape pair, items recomputed exactly through LieExact / LieTrace; shape-only
functions), Patching.tla + PatchingTrace.tla (retain_ltype / func.jacrev with faults), Purity.tla + PurityTrace.tla
(no public function without trailing underscore changes its tensor arguments)."""
import copy
import itertools
import json
import os
import zlib

from vlib.core import pypose, MachineryError
from vlib import lattice as L

WORKERS = int(os.environ.get("VERIF_WORKERS", "4"))
EXTENTS = (0, 1, 2, 3)
SHAPES = [()] + [s for n in (1, 2, 3) for s in itertools.product(EXTENTS, repeat=n)]
BINOPS = ["mul", "act3", "act4", "adj", "adjT", "retr", "add", "jinvp"]
UNOPS = ["inv", "exp", "log", "matrix", "rotation", "translation", "scale"]
COMBOS = [(ty, dt) for dt in ("f64", "f32") for ty in L.TYPES]


def numel(s):
    n = 1
    for v in s:
        n *= v
    return n


def unravel(k, s):
    idx = []
    for v in reversed(s):
        idx.append(k % v)
        k //= v
    return list(reversed(idx))


def tdtype(dt):
    import torch
    return torch.float64 if dt == "f64" else torch.float32


def ltname(x):
    """Name of the ltype of a result ("Tensor" for a plain tensor, "none" for a LieTensor without ltype).  The ltype
    is recognised by its class: copy.deepcopy of a plain LieTensor carries a *copy* of the type singleton, which
    behaves identically (observation recorded in notes/C06.md, outside the property)."""
    pp = pypose()
    if not isinstance(x, pp.LieTensor):
        return "Tensor"
    lt = getattr(x, "ltype", None)
    for n in ("SO3", "SE3", "RxSO3", "Sim3", "so3", "se3", "rxso3", "sim3"):
        if type(lt) is type(getattr(pp, n + "_type")):
            return n
    return "none"


# ====================================================================== part 1: broadcasting of the operations
def distinct(rng, n, gen, tries=40):
    """n items from gen(), pairwise distinct as long as the generator can still produce new ones."""
    seen, out = set(), []
    for _ in range(n):
        for _t in range(tries):
            v = gen()
            if tuple(v) not in seen:
                break
        seen.add(tuple(v))
        out.append(v)
    return out


def pure_trans_elem(rng, ty):
    t = [float(rng.randint(-3, 3)) for _ in range(3)]
    q = [0.0, 0.0, 0.0, 1.0]
    return {"SO3": q, "SE3": t + q, "RxSO3": q + [1.0], "Sim3": t + q + [1.0]}[ty]


def operands(rng, ty, dt, s1, s2, with_items=True):
    """Lattice-valued operand batches with pairwise distinct items (a wrong index map becomes visible)."""
    import torch
    pp = pypose()
    dtype = tdtype(dt)
    n1, n2 = numel(s1), numel(s2)
    g, a = L.GDIM[ty], L.ADIM[ty]

    def T(rows, n, d, shape):
        t = torch.tensor(rows, dtype=dtype).reshape(n, d) if n else torch.zeros(0, d, dtype=dtype)
        return t.reshape(tuple(shape) + (d,))
    if not with_items:          # values are not logged (empty result or refused pair): identity / zero items
        ident = {"SO3": [0.0, 0, 0, 1], "SE3": [0.0, 0, 0, 0, 0, 0, 1], "RxSO3": [0.0, 0, 0, 1, 1], "Sim3": [0.0, 0, 0, 0, 0, 0, 1, 1]}[ty]
        const = lambda row, n: [row] * n
        raw = {"X": (const(ident, n1), n1, g, s1), "XT": (const(ident, n1), n1, g, s1), "T1": (const([0.0] * a, n1), n1, a, s1),
               "Y": (const(ident, n2), n2, g, s2), "P3": (const([1.0, 2.0, 3.0], n2), n2, 3, s2),
               "P4": (const([1.0, 2.0, 3.0, 1.0], n2), n2, 4, s2), "A": (const([0.0] * a, n2), n2, a, s2),
               "T": (const([0.0] * a, n2), n2, a, s2)}
    else:
      raw = {
        "X": (distinct(rng, n1, lambda: L.rand_elem(rng, ty)), n1, g, s1),
        "XT": (distinct(rng, n1, lambda: pure_trans_elem(rng, ty)), n1, g, s1),
        "T1": (distinct(rng, n1, lambda: L.rand_alg(rng, ty, box=3, pure_trans=True)), n1, a, s1),
        "Y": (distinct(rng, n2, lambda: L.rand_elem(rng, ty)), n2, g, s2),
        "P3": (distinct(rng, n2, lambda: [float(rng.randint(-4, 4)) for _ in range(3)]), n2, 3, s2),
        "P4": (distinct(rng, n2, lambda: [float(rng.randint(-4, 4)) for _ in range(4)]), n2, 4, s2),
        "A": (distinct(rng, n2, lambda: L.rand_alg(rng, ty)), n2, a, s2),
        "T": (distinct(rng, n2, lambda: L.rand_alg(rng, ty, box=3, pure_trans=True)), n2, a, s2),
      }
    ten = {k: T(*v) for k, v in raw.items()}
    GT, AT = getattr(pp, ty + "_type"), getattr(pp, L.ALG[ty] + "_type")
    lie = {"X": pp.LieTensor(ten["X"], ltype=GT), "XT": pp.LieTensor(ten["XT"], ltype=GT),
           "Y": pp.LieTensor(ten["Y"], ltype=GT), "A": pp.LieTensor(ten["A"], ltype=AT),
           "T": pp.LieTensor(ten["T"], ltype=AT), "T1": pp.LieTensor(ten["T1"], ltype=AT),
           "P3": ten["P3"], "P4": ten["P4"]}
    cfg = {"ty": ty, "dt": dt, "s1": list(s1), "s2": list(s2)}
    for k in ("X", "XT", "Y", "P3", "P4", "A", "T"):
        cfg[k] = [L.dyvec(r) for r in ten[k].reshape(-1, ten[k].shape[-1])] if with_items else []
    return lie, ten, cfg


def call_op(pp, op, via, o, t):
    """One public call of a binary / unary LieTensor operation; `via` selects among equivalent spellings."""
    import torch
    X, XT, Y, A, T = o["X"], o["XT"], o["Y"], o["A"], o["T"]
    if op == "mul":
        return [lambda: X @ Y, lambda: X * Y, lambda: pp.Mul(X, Y), lambda: X.mul(Y), lambda: pp.mul(X, Y)][via % 5]()
    if op in ("act3", "act4"):
        P = o["P3"] if op == "act3" else o["P4"]
        return [lambda: X.Act(P), lambda: X @ P, lambda: X * P, lambda: pp.Act(X, P)][via % 4]()
    if op == "adj":
        return [lambda: X.Adj(A), lambda: pp.Adj(X, A), lambda: X.Adj(t["A"])][via % 3]()
    if op == "adjT":
        return [lambda: X.AdjT(A), lambda: pp.AdjT(X, A), lambda: X.AdjT(t["A"])][via % 3]()
    if op == "retr":
        return [lambda: X.Retr(T), lambda: pp.Retr(X, T)][via % 2]()
    if op == "add":
        pad = torch.cat([t["T"], torch.ones(t["T"].shape[:-1] + (2,), dtype=t["T"].dtype)], -1)
        return [lambda: X + t["T"], lambda: pp.add(X, t["T"]), lambda: X.add(pad), lambda: X + T][via % 4]()
    if op == "jinvp":
        return [lambda: XT.Jinvp(A), lambda: pp.Jinvp(XT, A), lambda: XT.Jinvp(t["A"])][via % 3]()
    if op == "inv":
        return [lambda: X.Inv(), lambda: pp.Inv(X)][via % 2]()
    if op == "exp":
        return [lambda: o["T1"].Exp(), lambda: pp.Exp(o["T1"])][via % 2]()
    if op == "log":
        return [lambda: XT.Log(), lambda: pp.Log(XT)][via % 2]()
    if op == "matrix":
        return [lambda: X.matrix(), lambda: pp.matrix(X)][via % 2]()
    if op == "rotation":
        return [lambda: X.rotation(), lambda: pp.rotation(X)][via % 2]()
    if op == "translation":
        return [lambda: X.translation(), lambda: pp.translation(X)][via % 2]()
    if op == "scale":
        return [lambda: X.scale(), lambda: pp.scale(X)][via % 2]()
    raise MachineryError("unknown op " + op)


def op_events(pp, op, via, o, t, expect_shape, ntail):
    """call event + item events of one operation.  expect_shape is only used to decide whether the items can be
    laid out (the verdict on the shape is the specification's)."""
    import warnings
    ev = {"act": "call", "op": op, "via": via, "raised": False, "exc": "", "shape": [], "ltype": "", "dt": "", "dev": ""}
    try:
        with warnings.catch_warnings():
            warnings.simplefilter("ignore")
            r = call_op(pp, op, via, o, t)
    except Exception as ex:  # noqa: BLE001 - any exception is "raised"
        ev["raised"], ev["exc"] = True, type(ex).__name__
        return [ev]
    ev["shape"] = list(r.shape)
    ev["ltype"] = ltname(r)
    ev["dt"] = {"torch.float64": "f64", "torch.float32": "f32"}.get(str(r.dtype), str(r.dtype))
    ev["dev"] = str(r.device)
    out = [ev]
    ls = list(r.shape[:len(r.shape) - ntail])
    if expect_shape is not None and ls == list(expect_shape) and r.numel() > 0:
        rows = r.detach().as_subclass(type(t["X"])).reshape(numel(ls), -1)
        for k in range(rows.shape[0]):
            out.append({"act": "item", "I": unravel(k, ls), "out": L.dyvec(rows[k])})
    return out


def ntail(op):
    return 2 if op == "matrix" else 1


def bcast_py(s1, s2):
    import torch
    try:
        return tuple(torch.broadcast_shapes(tuple(s1), tuple(s2)))
    except RuntimeError:
        return None


def binary_trace(ctx, s1, s2, ty, dt, via, ops=BINOPS):
    pp = pypose()
    o = bcast_py(s1, s2)
    lie, ten, cfg = operands(ctx.rng, ty, dt, s1, s2, with_items=o is not None and numel(o) > 0)
    cfg["kind"] = "bin"
    ev = []
    for j, op in enumerate(ops):
        ev += op_events(pp, op, via + j, lie, ten, o, ntail(op))
    ev.append({"act": "end"})
    return {"cfg": cfg, "ev": ev}


def unary_trace(ctx, s1, ty, dt, via):
    pp = pypose()
    lie, ten, cfg = operands(ctx.rng, ty, dt, s1, s1, with_items=numel(s1) > 0)
    cfg["kind"] = "un"
    cfg["T"] = [L.dyvec(r) for r in ten["T1"].reshape(-1, ten["T1"].shape[-1])] if numel(s1) > 0 else []
    ev = []
    for j, op in enumerate(UNOPS):
        ev += op_events(pp, op, via + j, lie, ten, s1, ntail(op))
    ev.append({"act": "end"})
    return {"cfg": cfg, "ev": ev}


def table_vs_torch(ctx):
    """spec -> torch: every row of BroadcastGen (Bcast, index maps) against torch.broadcast_shapes / expand."""
    import torch
    out = ctx.work / "bgen.json"
    ctx.tlc("BroadcastGen", "BroadcastGen.cfg", env={"OUT_FILE": str(out)}, workers=1)
    rows = json.load(open(out))["rows"]
    if len(rows) != len(SHAPES) ** 2:
        raise MachineryError("BroadcastGen wrote %d rows, expected %d" % (len(rows), len(SHAPES) ** 2))
    for r in rows:
        s1, s2 = tuple(r["s1"]), tuple(r["s2"])
        o = bcast_py(s1, s2)
        ctx.evaluations += 1
        if (o is not None) != r["ok"]:
            ctx.violation("spec_vs_torch/defined", "Bcast%s%s defined=%s but torch says %s" % (s1, s2, r["ok"], o), r)
            continue
        if o is None:
            continue
        if list(o) != list(r["o"]):
            ctx.violation("spec_vs_torch/shape", "Bcast%s%s=%s but torch gives %s" % (s1, s2, r["o"], o), r)
            continue
        if numel(o):
            for s, m in ((s1, r["m1"]), (s2, r["m2"])):
                want = torch.arange(numel(s)).reshape(s).expand(o).reshape(-1).tolist()
                if want != list(m):
                    ctx.violation("spec_vs_torch/index_map", "index map of %s into %s: spec %s torch %s" % (s, o, m, want), r)
    ctx.extra["bcast_table_rows"] = len(rows)


# ====================================================================== part 1b: shape-only torch functions
def shape_calls():
    """name -> list of (variant, base lshape, f(x, y, idx)) where x, y are two batches of the same lshape (both
    LieTensors or both plain tensors) and the callable uses only torch's own API.  Every variant keeps the last
    dimension unless noted (those are logged and left unjudged by the specification)."""
    import torch

    def full(ix, x):                      # index tensor covering whole items (for gather / scatter / take_along_dim)
        return ix.reshape(ix.shape + (1,)).expand(ix.shape + (x.shape[-1],))

    def setitem(x, y):
        z = x.clone()
        z[0] = y[1]
        return z

    def setitem_mask(x, y):
        z = x.clone()
        m = torch.zeros(x.shape[:-1], dtype=torch.bool)
        m.reshape(-1)[1::2] = True
        z[m] = y[m]
        return z

    def copy_(x, y):
        z = x.clone()
        return z.copy_(y)

    def index_copy_(x, y):
        z = x.clone()
        return z.index_copy_(0, torch.tensor([1, 0]), y)

    def index_put_(x, y):
        z = x.clone()
        return z.index_put_((torch.tensor([1, 0]), torch.tensor([2, 0])), y[0, :2])

    def take_items(x):                    # torch.take views the input as 1-D: pick whole items by element index
        d = x.shape[-1]
        items = torch.tensor([4, 0, 5])
        return torch.take(x, items.unsqueeze(-1) * d + torch.arange(d))

    def one_mask(x):
        m = torch.zeros(x.shape[:-1] + (1,), dtype=torch.bool)
        m[1, 2] = True
        return torch.masked_select(x, m)

    i23 = torch.tensor([[1, 0, 1], [0, 0, 1]])
    C = {
        "__getitem__": [("int", (2, 3), lambda x, y: x[1]), ("pair", (2, 3), lambda x, y: x[1, 2]),
                        ("slice", (2, 3), lambda x, y: x[:, 1:]), ("ellipsis", (2, 3), lambda x, y: x[..., 1, :]),
                        ("list", (2, 3), lambda x, y: x[[1, 0, 1]]), ("none", (2, 3), lambda x, y: x[None]),
                        ("mask", (2, 3), lambda x, y: x[torch.tensor([[True, False, True], [False, False, True]])]),
                        ("tensor_index", (2, 3), lambda x, y: x[torch.tensor([1, 1, 0]), torch.tensor([0, 2, 2])]),
                        ("empty_slice", (2, 3), lambda x, y: x[:, 3:]), ("scalar_batch", (), lambda x, y: x[...]),
                        ("step", (3,), lambda x, y: x[::2]), ("neg", (3,), lambda x, y: x[-1]),
                        ("lastdim_changed", (2, 3), lambda x, y: x[..., :2])],
        "__setitem__": [("row", (2, 3), setitem), ("mask", (2, 3), setitem_mask)],
        "cpu": [("", (2, 3), lambda x, y: x.cpu())],
        "float": [("", (2, 3), lambda x, y: x.float())],
        "double": [("", (2, 3), lambda x, y: x.double())],
        "to": [("dtype", (2, 3), lambda x, y: x.to(torch.float32)), ("device", (3,), lambda x, y: x.to("cpu")),
               ("other", (3,), lambda x, y: x.to(y.float())), ("copy", (), lambda x, y: x.to(torch.float64, copy=True))],
        "detach": [("", (2, 3), lambda x, y: x.detach()), ("scalar_batch", (), lambda x, y: x.detach())],
        "clone": [("", (2, 3), lambda x, y: x.clone()), ("fn", (3,), lambda x, y: torch.clone(x)),
                  ("empty", (0, 2), lambda x, y: x.clone()), ("scalar_batch", (), lambda x, y: x.clone())],
        "view": [("flat", (2, 3), lambda x, y: x.view(-1, x.shape[-1])), ("swap", (2, 3), lambda x, y: x.view(3, 2, x.shape[-1])),
                 ("scalar_batch", (), lambda x, y: x.view(1, 1, x.shape[-1])), ("empty", (0, 3), lambda x, y: x.view(3, 0, x.shape[-1]))],
        "view_as": [("", (2, 3), lambda x, y: x.view_as(y.reshape(3, 2, y.shape[-1])))],
        "squeeze": [("all", (1, 3, 1), lambda x, y: x.squeeze()), ("dim", (1, 3, 1), lambda x, y: x.squeeze(0)),
                    ("fn", (2, 1), lambda x, y: torch.squeeze(x, 1)), ("noop", (2, 3), lambda x, y: x.squeeze(-1))],
        "unsqueeze": [("front", (2, 3), lambda x, y: x.unsqueeze(0)), ("back", (2, 3), lambda x, y: x.unsqueeze(-2)),
                      ("scalar_batch", (), lambda x, y: x.unsqueeze(0)), ("lastdim_changed", (3,), lambda x, y: x.unsqueeze(-1))],
        "cat": [("dim0", (2, 3), lambda x, y: torch.cat([x, y], 0)), ("dim-2", (2, 3), lambda x, y: torch.cat([x, y, x], -2)),
                ("empty", (0, 3), lambda x, y: torch.cat([x, y], 0)), ("lastdim_changed", (2,), lambda x, y: torch.cat([x, y], -1))],
        "concat": [("dim1", (2, 3), lambda x, y: torch.concat([x, y], 1))],
        "stack": [("dim0", (2, 3), lambda x, y: torch.stack([x, y], 0)), ("dim-2", (2, 3), lambda x, y: torch.stack([x, y], -2)),
                  ("scalar_batch", (), lambda x, y: torch.stack([x, y, x])), ("lastdim_changed", (2,), lambda x, y: torch.stack([x, y], -1))],
        "split": [("size", (2, 3), lambda x, y: x.split(1, 0)), ("sections", (2, 3), lambda x, y: torch.split(x, [1, 2], 1))],
        "hsplit": [("", (2, 3), lambda x, y: torch.hsplit(x, 3))],
        "vsplit": [("", (2, 3), lambda x, y: torch.vsplit(x, 2))],
        "dsplit": [("", (2, 1, 2), lambda x, y: torch.dsplit(x, 2))],
        "tensor_split": [("", (3, 2), lambda x, y: torch.tensor_split(x, 2, 0)), ("idx", (3, 2), lambda x, y: x.tensor_split([1], 0))],
        "chunk": [("", (2, 3), lambda x, y: x.chunk(2, 1)), ("fn", (3,), lambda x, y: torch.chunk(x, 3, 0))],
        "column_stack": [("", (2, 3), lambda x, y: torch.column_stack([x, y]))],
        "dstack": [("", (2, 1, 2), lambda x, y: torch.dstack([x, y]))],
        "vstack": [("", (2, 3), lambda x, y: torch.vstack([x, y]))],
        "row_stack": [("", (2, 3), lambda x, y: torch.row_stack([x, y]))],
        "hstack": [("", (2, 3), lambda x, y: torch.hstack([x, y]))],
        "index_select": [("", (2, 3), lambda x, y: x.index_select(1, torch.tensor([2, 0, 2, 1]))),
                         ("fn", (3,), lambda x, y: torch.index_select(x, 0, torch.tensor([1])))],
        "masked_select": [("one_item", (2, 3), lambda x, y: one_mask(x))],
        "movedim": [("", (2, 3), lambda x, y: torch.movedim(x, 0, 1))],
        "moveaxis": [("", (2, 1, 3), lambda x, y: torch.moveaxis(x, 2, 0))],
        "narrow": [("", (2, 3), lambda x, y: x.narrow(1, 1, 2))],
        "permute": [("", (2, 3), lambda x, y: x.permute(1, 0, 2)), ("rank3", (2, 1, 3), lambda x, y: torch.permute(x, (2, 0, 1, 3))),
                    ("lastdim_changed", (2, 3), lambda x, y: x.permute(2, 0, 1))],
        "reshape": [("flat", (2, 3), lambda x, y: x.reshape(-1, x.shape[-1])), ("swap", (2, 3), lambda x, y: x.reshape(3, 2, x.shape[-1])),
                    ("noncontig", (2, 3), lambda x, y: x.transpose(0, 1).reshape(6, x.shape[-1])),
                    ("scalar_batch", (), lambda x, y: x.reshape(1, x.shape[-1])), ("empty", (2, 0), lambda x, y: x.reshape(0, x.shape[-1]))],
        "scatter": [("", (2, 3), lambda x, y: x.scatter(0, full(i23, x), y)), ("fn", (2, 3), lambda x, y: torch.scatter(x, 0, full(i23, x), y))],
        "scatter_add": [("", (2, 3), lambda x, y: x.scatter_add(0, full(i23, x), y))],
        "swapaxes": [("", (2, 3), lambda x, y: torch.swapaxes(x, 0, 1))],
        "swapdims": [("", (2, 3), lambda x, y: torch.swapdims(x, 0, 1))],
        "take": [("items", (2, 3), lambda x, y: take_items(x))],
        "take_along_dim": [("", (2, 3), lambda x, y: torch.take_along_dim(x, full(i23, x), 0))],
        "tile": [("", (2, 3), lambda x, y: x.tile((2, 1, 1))), ("fn", (3,), lambda x, y: torch.tile(x, (2, 1)))],
        "transpose": [("", (2, 3), lambda x, y: x.transpose(0, 1)), ("fn", (2, 1, 3), lambda x, y: torch.transpose(x, 0, 2)),
                      ("lastdim_changed", (2, 3), lambda x, y: x.transpose(-1, -2))],
        "unbind": [("", (2, 3), lambda x, y: x.unbind(0)), ("dim1", (2, 3), lambda x, y: torch.unbind(x, 1))],
        "gather": [("", (2, 3), lambda x, y: x.gather(0, full(i23, x))), ("fn", (2, 3), lambda x, y: torch.gather(x, 1, full(i23, x)))],
        "repeat": [("", (2, 3), lambda x, y: x.repeat(2, 1, 1)), ("scalar_batch", (), lambda x, y: x.repeat(3, 1)),
                   ("empty", (0,), lambda x, y: x.repeat(2, 1))],
        "expand": [("", (1, 3), lambda x, y: x.expand(2, 3, x.shape[-1])), ("lead", (3,), lambda x, y: x.expand(2, -1, -1)),
                   ("scalar_batch", (), lambda x, y: x.expand(2, 2, x.shape[-1])), ("to_empty", (1,), lambda x, y: x.expand(0, x.shape[-1]))],
        "expand_as": [("", (1, 3), lambda x, y: x.expand_as(torch.cat([y, y], 0)))],
        "index_copy": [("", (2, 3), lambda x, y: x.index_copy(0, torch.tensor([1, 0]), y))],
        "index_copy_": [("", (2, 3), index_copy_)],
        "select": [("", (2, 3), lambda x, y: x.select(0, 1)), ("fn", (2, 3), lambda x, y: torch.select(x, 1, 2))],
        "select_scatter": [("", (2, 3), lambda x, y: torch.select_scatter(x, y[0], 0, 1))],
        "index_put": [("", (2, 3), lambda x, y: x.index_put((torch.tensor([1, 0]), torch.tensor([2, 0])), y[0, :2]))],
        "index_put_": [("", (2, 3), index_put_)],
        "copy_": [("", (2, 3), copy_), ("broadcast", (2, 3), lambda x, y: copy_(x, y[:1]))],
        "lview": None, "new_empty": None, "Parameter": None, "deepcopy": None,     # handled separately below
        # functions outside the documented table: recorded, never judged
        "flatten": [("", (2, 3), lambda x, y: x.flatten(0, 1))],
        "flip": [("", (2, 3), lambda x, y: x.flip(0))],
        "roll": [("", (2, 3), lambda x, y: x.roll(1, 1))],
        "contiguous": [("", (2, 3), lambda x, y: x.transpose(0, 1).contiguous())],
        "unflatten": [("", (6,), lambda x, y: x.unflatten(0, (2, 3)))],
    }
    return C


GENERIC = [("clone", lambda x, y, sh: x.clone()), ("detach", lambda x, y, sh: x.detach()),
           ("to", lambda x, y, sh: x.to(x.dtype)), ("cpu", lambda x, y, sh: x.cpu()),
           ("double", lambda x, y, sh: x.double()), ("float", lambda x, y, sh: x.float()),
           ("unsqueeze", lambda x, y, sh: x.unsqueeze(0)), ("reshape", lambda x, y, sh: x.reshape(-1, x.shape[-1])),
           ("view", lambda x, y, sh: x.view(-1, x.shape[-1])), ("expand", lambda x, y, sh: x.expand((2,) + tuple(x.shape))),
           ("repeat", lambda x, y, sh: x.repeat((2,) + (1,) * x.dim())), ("tile", lambda x, y, sh: x.tile((2,) + (1,) * x.dim())),
           ("stack", lambda x, y, sh: __import__("torch").stack([x, y], 0)),
           ("__getitem__", lambda x, y, sh: x[None]), ("__getitem__", lambda x, y, sh: x[...]),
           ("permute", lambda x, y, sh: x.permute(tuple(reversed(range(x.dim() - 1))) + (x.dim() - 1,))),
           ("cat", lambda x, y, sh: __import__("torch").cat([x, y], 0) if x.dim() > 1 else x.clone())]
GENERIC_SHAPES = [(), (0,), (1,), (3,), (2, 0), (2, 3), (1, 2, 3), (3, 0, 2)]
LTYPES = ["SO3", "SE3", "RxSO3", "Sim3", "so3", "se3", "rxso3", "sim3"]


def labelled_batch(rng, lt, shape, dtype):
    """Two batches of lshape `shape` of ltype lt with pairwise distinct lattice items."""
    import torch
    pp = pypose()
    n = numel(shape)
    if lt in L.TYPES:
        gen, d = (lambda: L.rand_elem(rng, lt)), L.GDIM[lt]
    else:
        g = {v: k for k, v in L.ALG.items()}[lt]
        gen, d = (lambda: L.rand_alg(rng, g, box=4)), L.ADIM[g]
    rows = distinct(rng, 2 * n, gen)
    mk = lambda r: (torch.tensor(r, dtype=dtype).reshape(n, d) if n else torch.zeros(0, d, dtype=dtype)).reshape(tuple(shape) + (d,))
    ltype = getattr(pp, lt + "_type")
    x, y = mk(rows[:n]), mk(rows[n:])
    return pp.LieTensor(x, ltype=ltype), pp.LieTensor(y, ltype=ltype), d


def parts_of(r):
    import torch
    if isinstance(r, torch.Tensor):
        return [r]
    if isinstance(r, (tuple, list)) and all(isinstance(p, torch.Tensor) for p in r):
        return list(r)
    raise MachineryError("shape function returned %r" % type(r))


def shape_event(pp, labels, fn, variant, lt, d, x, y, f, inlib):
    """Apply f to the LieTensors and to the plain tensors; log both results as item labels."""
    import torch
    import warnings

    def lab(t):
        t = t.detach().as_subclass(torch.Tensor)
        rows = t.reshape(-1, t.shape[-1]) if t.dim() > 0 else t.reshape(1, 1)
        return [labels.setdefault((str(t.dtype),) + tuple(r), len(labels)) for r in rows.tolist()]

    def run(a, b):
        try:
            with warnings.catch_warnings():
                warnings.simplefilter("ignore")
                return parts_of(f(a, b)), ""
        except MachineryError:
            raise
        except Exception as ex:  # noqa: BLE001
            return None, type(ex).__name__
    x0, y0 = x.tensor().clone(), y.tensor().clone()
    ref, rexc = run(x0, y0)
    out, oexc = run(x, y)
    e = {"act": "shape", "fn": fn, "variant": variant, "inlib": bool(inlib), "ty": lt, "lshape": list(x.shape[:-1]),
         "raised": out is None, "rraised": ref is None, "exc": oexc or rexc,
         "lastdim": d, "is_lie": False, "oltype": "", "oshape": [], "rshape": [], "odt": "", "rdt": "", "out": [], "ref": []}
    if ref is not None:
        lds = {(p.shape[-1] if p.dim() else -1) for p in ref}
        e["lastdim"] = lds.pop() if len(lds) == 1 else -1
        e["rshape"] = [list(p.shape) for p in ref]
        e["rdt"] = str(ref[0].dtype)
        e["ref"] = [lab(p) for p in ref]
    if out is not None:
        e["is_lie"] = all(isinstance(p, pp.LieTensor) and hasattr(p, "ltype") for p in out)
        names = {ltname(p) for p in out}
        e["oltype"] = names.pop() if len(names) == 1 else "mixed"
        e["oshape"] = [list(p.shape) for p in out]
        e["odt"] = str(out[0].dtype)
        e["out"] = [lab(p) for p in out]
    return e


def shape_traces(ctx):
    import torch
    pp = pypose()
    lib = list(dict.fromkeys(pp.lietensor.lietensor.HANDLED_FUNCTIONS))
    calls = shape_calls()
    traces, uncovered = [], []
    for fn in lib:
        if calls.get(fn) is None and fn not in ("lview", "new_empty", "Parameter", "deepcopy"):
            uncovered.append(fn)
    dts = [torch.float64] if ctx.quick else [torch.float64, torch.float32]
    for lt in LTYPES:
        for dtype in dts:
            ev, labels, cache = [], {}, {}

            def base(shape):
                if shape not in cache:
                    cache[shape] = labelled_batch(ctx.rng, lt, shape, dtype)
                    for t in cache[shape][:2]:
                        for r in t.tensor().reshape(-1, t.shape[-1]).tolist():
                            labels.setdefault((str(dtype),) + tuple(r), len(labels))
                return cache[shape]
            for fn, variants in calls.items():
                for (variant, shape, f) in variants or []:
                    x, y, d = base(shape)
                    ev.append(shape_event(pp, labels, fn, variant, lt, d, x, y, f, fn in lib))
            for shape in GENERIC_SHAPES:
                x, y, d = base(shape)
                for fn, f in GENERIC:
                    ev.append(shape_event(pp, labels, fn, "generic%s" % (shape,), lt, d, x, y,
                                          lambda a, b, f=f, shape=shape: f(a, b, shape), fn in lib))
            # ltype propagation outside __torch_function__
            x, y, d = base((2, 3))
            ev.append(shape_event(pp, labels, "lview", "", lt, d, x, y,
                                  lambda a, b: a.lview(3, 2) if isinstance(a, pp.LieTensor) else a.view(3, 2, a.shape[-1]), True))
            ev.append(shape_event(pp, labels, "lview", "flat", lt, d, x, y,
                                  lambda a, b: a.lview(-1) if isinstance(a, pp.LieTensor) else a.view(-1, a.shape[-1]), True))
            ev.append(shape_event(pp, labels, "new_empty", "", lt, d, x, y, lambda a, b: a.new_empty((4, a.shape[-1])).zero_(), True))
            ev.append(shape_event(pp, labels, "Parameter", "", lt, d, x, y,
                                  lambda a, b: pp.Parameter(a) if isinstance(a, pp.LieTensor) else torch.nn.Parameter(a), True))
            ev.append(shape_event(pp, labels, "deepcopy", "", lt, d, x, y,
                                  lambda a, b: copy.deepcopy(pp.Parameter(a) if isinstance(a, pp.LieTensor) else torch.nn.Parameter(a)), True))
            ev.append(shape_event(pp, labels, "deepcopy", "lietensor", lt, d, x, y, lambda a, b: copy.deepcopy(a), True))
            for e in ev:
                ctx.cover("shape:%s:%s:%s" % (e["fn"], e["variant"], lt))
            for i in range(0, len(ev), 25):
                traces.append({"cfg": {"kind": "shape", "ty": lt, "dtype": str(dtype)}, "ev": ev[i:i + 25]})
    return traces, uncovered


# ====================================================================== part 2: patching of torch internals
class FaultA(ValueError):
    pass


class FaultB(RuntimeError):
    pass


class FaultC(BaseException):          # not an Exception: only a `finally` (or bare except) sees it
    pass


FAULTS = (FaultA, FaultB, FaultC)


class Patched:
    """Observer of the three attributes retain_ltype replaces; identities as small integers (0 = original)."""

    def __init__(self):
        import torch
        import torch._functorch.eager_transforms as et
        import torch._functorch.vmap as vm
        import torch.autograd.forward_ad as fa
        pypose()
        self.sites = [(fa, "make_dual"), (et, "_wrap_tensor_for_grad"), (vm, "_add_batch_dim")]
        self.orig = [getattr(m, n) for m, n in self.sites]
        for f in self.orig:
            if getattr(f, "__name__", "") == "wrapper" or "pypose" in (getattr(f, "__module__", "") or ""):
                raise MachineryError("torch internals are already patched when the check starts: %r" % f)
        self.keep = []                 # keeps every object seen alive so that ids are never reused
        self.num = {}

    def reset(self):
        self.keep, self.num = [], {}

    def restore(self):
        """Put the originals back (only the harness' own hygiene between independent runs; always logged first)."""
        for k, (m, n) in enumerate(self.sites):
            setattr(m, n, self.orig[k])

    def snap(self):
        out = []
        for k, (m, n) in enumerate(self.sites):
            f = getattr(m, n)
            if f is self.orig[k]:
                out.append(0)
                continue
            if id(f) not in self.num:
                self.keep.append(f)
                self.num[id(f)] = len(self.keep)
            out.append(self.num[id(f)])
        return out


def realise_script(pp, obs, script, fault_cls, info):
    """Run one script of PatchingGen with real nested contexts; returns the recorded events."""
    import torch
    import torch.autograd.forward_ad as fwAD
    obs.reset()
    ev = [{"act": "Pre", "b": obs.snap()}]
    pos = [0]
    pose0 = pp.SE3(torch.tensor([[1.0, 2.0, 3.0, 0.0, 0.0, 0.0, 1.0]], dtype=torch.float64))
    pts0 = torch.tensor([[1.0, -1.0, 2.0]], dtype=torch.float64)
    nstep = [0]

    def do_step(traced):
        nstep[0] += 1
        if traced is not None:
            r = traced[0].Inv().Act(traced[1])
            info["lt_inside"] += int(isinstance(traced[0], pp.LieTensor) and hasattr(traced[0], "ltype"))
            info["lt_inside_n"] += 1
            return r
        k = nstep[0] % 3
        if k == 0:
            with fwAD.dual_level():
                d = fwAD.make_dual(pose0, torch.ones_like(pose0.tensor()))
                ok = isinstance(d, pp.LieTensor) and hasattr(d, "ltype")
        elif k == 1:
            seen = []
            torch.func.vmap(lambda X: (seen.append(isinstance(X, pp.LieTensor) and hasattr(X, "ltype")), X.tensor().sum(-1))[1])(pose0)
            ok = bool(seen and seen[0])
        else:
            seen = []
            torch.func.grad(lambda X: (seen.append(isinstance(X, pp.LieTensor) and hasattr(X, "ltype")), X.tensor().sum())[1])(pose0)
            ok = bool(seen and seen[0])
        info["lt_inside"] += int(ok)
        info["lt_inside_n"] += 1

    def body(depth, traced):
        while True:
            a = script[pos[0]]
            if a["a"] == "Step":
                pos[0] += 1
                do_step(traced)
                ev.append({"act": "Step", "via": "", "b": obs.snap()})
            elif a["a"] == "Raise":
                pos[0] += 1
                ev.append({"act": "Raise", "via": "", "b": obs.snap()})
                raise fault_cls("scripted fault")
            elif a["a"] == "Enter":
                pos[0] += 1
                frame(depth + 1, a["via"], traced)
            elif a["a"] == "Exit":
                return
            else:
                raise MachineryError("script desynchronised at %d: %r" % (pos[0], a))

    def frame(depth, via, traced):
        raised = None
        try:
            if via == "with":
                with pp.retain_ltype():
                    ev.append({"act": "Enter", "via": via, "b": obs.snap()})
                    body(depth, traced)
            else:
                def f(pose, pts):
                    ev.append({"act": "Enter", "via": via, "b": obs.snap()})
                    info["lt_inside"] += int(isinstance(pose, pp.LieTensor) and hasattr(pose, "ltype"))
                    info["lt_inside_n"] += 1
                    body(depth, (pose, pts))
                    return pose.Act(pts)
                pp.func.jacrev(f)(pose0, pts0)
        except FAULTS as ex:
            raised = ex
        if pos[0] >= len(script) or script[pos[0]]["a"] != "Exit":
            raise MachineryError("script desynchronised after frame: %r" % (script[pos[0]:pos[0] + 1],))
        pos[0] += 1
        ev.append({"act": "Exit", "via": via, "raised": raised is not None, "b": obs.snap()})
        if pos[0] < len(script) and script[pos[0]]["a"] == "Catch":
            pos[0] += 1
            ev.append({"act": "Catch", "via": "", "b": obs.snap()})
            return
        if raised is not None:
            raise raised

    if script[0]["a"] != "Enter":
        raise MachineryError("script does not start with Enter")
    pos[0] = 1
    try:
        frame(1, script[0]["via"], None)
    except FAULTS:
        raise MachineryError("fault escaped the outermost context without a Catch in the script")
    if pos[0] != len(script):
        raise MachineryError("script not consumed: %d of %d" % (pos[0], len(script)))
    for e in ev:
        e.setdefault("raised", False)
    if obs.snap() != [0, 0, 0]:         # already recorded in the last event; keep the next script independent
        info["leaks"] = info.get("leaks", 0) + 1
        obs.restore()
    return ev


def opaque_runs(pp, obs):
    """func.jacrev calls that fail before / after the user function runs, and retain_ltype used as a decorator."""
    import torch
    obs.reset()
    pose = pp.SE3(torch.tensor([[1.0, 2.0, 3.0, 0.0, 0.0, 0.0, 1.0]], dtype=torch.float64))
    pts = torch.tensor([[1.0, -1.0, 2.0]], dtype=torch.float64)
    cases = [
        ("ok", lambda: pp.func.jacrev(lambda X, p: X.Act(p))(pose, pts)),
        ("argnums_out_of_range", lambda: pp.func.jacrev(lambda X, p: X.Act(p), argnums=5)(pose, pts)),
        ("non_tensor_output", lambda: pp.func.jacrev(lambda X, p: "not a tensor")(pose, pts)),
        ("aux_missing", lambda: pp.func.jacrev(lambda X, p: X.Act(p), has_aux=True)(pose, pts)),
        ("wrong_arity", lambda: pp.func.jacrev(lambda X: X.tensor())(pose, pts)),
        ("chunked", lambda: pp.func.jacrev(lambda X, p: X.Act(p), chunk_size=1)(pose, pts)),
        ("raise_in_chunked", lambda: pp.func.jacrev(lambda X, p: (_ for _ in ()).throw(FaultA("x")), chunk_size=1)(pose, pts)),
        ("decorator_ok", lambda: pp.retain_ltype()(lambda: 1)()),
        ("decorator_raise", lambda: pp.retain_ltype()(lambda: (_ for _ in ()).throw(FaultC("x")))()),
        ("generator_body_stopiteration", lambda: pp.retain_ltype()(lambda: next(iter(())))()),
    ]
    ev = [{"act": "Pre", "via": "", "raised": False, "b": obs.snap()}]
    for name, f in cases:
        raised = False
        try:
            f()
        except BaseException as ex:  # noqa: BLE001
            if isinstance(ex, (KeyboardInterrupt, SystemExit, MachineryError)):
                raise
            raised = True
        ev.append({"act": "Opaque", "via": name, "raised": raised, "b": obs.snap()})
    obs.restore()
    return ev


def patching_traces(ctx):
    pp = pypose()
    obs = Patched()
    out = ctx.work / "pgen.json"
    r = ctx.tlc("PatchingGen", "PatchingGen.cfg" if ctx.quick else "PatchingGen_t.cfg", env={"OUT_FILE": str(out)}, workers=1)
    scripts = json.load(open(out))["scripts"]
    n = r.printed("SCRIPTS")[0][1]
    if n != len(scripts) or n < 100:
        raise MachineryError("PatchingGen produced %d scripts, file has %d" % (n, len(scripts)))
    scripts.sort(key=lambda s: json.dumps(s))
    info = {"lt_inside": 0, "lt_inside_n": 0}
    traces = []
    for i, sc in enumerate(scripts):
        ev = realise_script(pp, obs, sc, FAULTS[i % 3], info)
        traces.append({"cfg": {"kind": "script", "fault": FAULTS[i % 3].__name__, "script": "".join(a["a"][0] + a["via"][:1] for a in sc)},
                       "ev": ev})
        ctx.cover("patch:" + traces[-1]["cfg"]["script"])
    traces.append({"cfg": {"kind": "opaque", "fault": "", "script": ""}, "ev": opaque_runs(pp, obs)})
    if info.get("leaks"):
        ctx.notes.append("%d script(s) left torch internals patched (restored by the harness before the next script)" % info["leaks"])
    ctx.extra["patching_scripts"] = len(scripts)
    ctx.extra["ltype_seen_inside_contexts"] = "%d of %d observations" % (info["lt_inside"], info["lt_inside_n"])
    return traces


# ====================================================================== part 3: purity (no argument is mutated)
def tensors_in(obj, out=None):
    """Every tensor reachable in (nested) positional / keyword arguments, in a deterministic order."""
    import torch
    out = [] if out is None else out
    if isinstance(obj, torch.Tensor):
        out.append(obj)
    elif isinstance(obj, (list, tuple)):
        for o in obj:
            tensors_in(o, out)
    elif isinstance(obj, dict):
        for k in sorted(obj, key=str):
            tensors_in(obj[k], out)
    return out


def fingerprint(t):
    import torch
    if t.layout in (torch.sparse_bsr, torch.sparse_csr):
        parts = [t.crow_indices(), t.col_indices(), t.values()]
    elif t.layout in (torch.sparse_bsc, torch.sparse_csc):
        parts = [t.ccol_indices(), t.row_indices(), t.values()]
    elif t.layout != torch.strided:
        parts = [t.to_dense()]
    else:
        parts = [t.detach().as_subclass(torch.Tensor)]
    raw = b"|".join(q.detach().contiguous().cpu().numpy().tobytes() for q in parts)
    return [zlib.crc32(raw) & 0x3FFFFFFF, list(t.shape), str(t.dtype)]


def clone_args(obj):
    import torch
    if isinstance(obj, torch.Tensor):
        return obj.clone()
    if isinstance(obj, tuple):
        return tuple(clone_args(o) for o in obj)
    if isinstance(obj, list):
        return [clone_args(o) for o in obj]
    if isinstance(obj, dict):
        return {k: clone_args(v) for k, v in obj.items()}
    return obj


def purity_event(name, f, args, kwargs=None, underscore=False):
    import warnings
    kwargs = kwargs or {}
    a, k = clone_args(tuple(args)), clone_args(kwargs)
    ts = tensors_in([a, k])
    pre = [fingerprint(t) for t in ts]
    raised, exc = False, ""
    try:
        with warnings.catch_warnings():
            warnings.simplefilter("ignore")
            f(*a, **k)
    except Exception as ex:  # noqa: BLE001
        raised, exc = True, "%s: %s" % (type(ex).__name__, str(ex)[:120])
    post = [fingerprint(t) for t in ts]
    return {"act": "call", "fn": name, "underscore": bool(underscore), "raised": raised, "exc": exc,
            "nargs": len(ts), "pre": pre, "post": post}


def purity_calls(ctx):
    """(name, callable, args, kwargs, underscore) for every public function / method / module call exercised."""
    import torch
    pp = pypose()
    torch.manual_seed(ctx.seed + 6)
    f64 = torch.float64
    C = []

    def add(name, f, *args, _u=False, **kwargs):
        C.append((name, f, args, kwargs, _u))
    for ty in L.TYPES:
        al = L.ALG[ty]
        X = getattr(pp, "randn_" + ty)(3, dtype=f64)
        Y = getattr(pp, "randn_" + ty)(3, dtype=f64)
        a = getattr(pp, "randn_" + al)(3, dtype=f64)
        p3, p4 = torch.randn(3, 3, dtype=f64), torch.randn(3, 4, dtype=f64)
        t = torch.randn(3, L.GDIM[ty], dtype=f64) * 0.1
        Xn = pp.LieTensor(X.tensor() * 1.5, ltype=X.ltype)            # quaternion part not normalised
        for nm, fn, args in [("Exp", pp.Exp, (a,)), ("Log", pp.Log, (X,)), ("Inv", pp.Inv, (X,)), ("Inv:alg", pp.Inv, (a,)),
                             ("Mul", pp.Mul, (X, Y)), ("Retr", pp.Retr, (X, a)), ("Act", pp.Act, (X, p3)), ("Act:4", pp.Act, (X, p4)),
                             ("Adj", pp.Adj, (X, a)), ("AdjT", pp.AdjT, (X, a)), ("Jinvp", pp.Jinvp, (X, a)),
                             ("add", pp.add, (X, t)), ("add:alg", pp.add, (a, t[..., :L.ADIM[ty]])), ("add:alpha", pp.add, (X, t, 0.5)),
                             ("mul", pp.mul, (X, Y)), ("mul:points", pp.mul, (X, p3)), ("mul:alg_scalar", pp.mul, (a, 2.0)),
                             ("mul:alg_tensor", pp.mul, (a, torch.rand(3, 1, dtype=f64))),
                             ("matrix", pp.matrix, (X,)), ("matrix:alg", pp.matrix, (a,)), ("rotation", pp.rotation, (X,)),
                             ("rotation:alg", pp.rotation, (a,)), ("translation", pp.translation, (X,)), ("scale", pp.scale, (X,)),
                             ("euler", pp.euler, (X,)), ("tensor", pp.tensor, (X,)), ("quat2unit", pp.quat2unit, (Xn,)),
                             ("quat2unit:unit", pp.quat2unit, (X,)), ("quat2unit:alg", pp.quat2unit, (a,)),
                             ("identity_like", pp.identity_like, (X,)), ("randn_like", pp.randn_like, (X,)),
                             ("is_lietensor", pp.is_lietensor, (X,)), ("is_SE3", pp.is_SE3, (X,)),
                             ("cumops", pp.cumops, (X, 0, lambda u, v: u @ v)), ("cummul", pp.cummul, (X, 0)),
                             ("cumprod", pp.cumprod, (X, 0)), ("cumprod:right", pp.cumprod, (X, 0, False)),
                             ("Parameter", pp.Parameter, (X,)), ("LieTensor", lambda d, lt=X.ltype: pp.LieTensor(d, ltype=lt), (X.tensor(),)),
                             (ty, getattr(pp, ty), (X.tensor(),)), (al, getattr(pp, al), (a.tensor(),)),
                             ("testing.assert_close", pp.testing.assert_close, (X, X.clone()))]:
            add("%s/%s" % (nm, ty), fn, *args)
        for nm, fn, args in [("add_", pp.add_, (X, t)), ("cumops_", pp.cumops_, (X, 0, lambda u, v: u @ v)),
                             ("cummul_", pp.cummul_, (X, 0)), ("cumprod_", pp.cumprod_, (X, 0)),
                             ("LieTensor.add_", lambda Z, d: Z.add_(d), (X, t))]:
            add("%s/%s" % (nm, ty), fn, *args, _u=True)
        M = {"Exp": lambda Z: Z.Exp(), "Log": lambda Z: Z.Log(), "Inv": lambda Z: Z.Inv(), "matrix": lambda Z: Z.matrix(),
             "rotation": lambda Z: Z.rotation(), "translation": lambda Z: Z.translation(), "scale": lambda Z: Z.scale(),
             "euler": lambda Z: Z.euler(), "tensor": lambda Z: Z.tensor(), "lview": lambda Z: Z.lview(-1),
             "cumprod": lambda Z: Z.cumprod(0), "cummul": lambda Z: Z.cummul(0), "cumops": lambda Z: Z.cumops(0, lambda u, v: u @ v)}
        for nm, fn in M.items():
            add("LieTensor.%s/%s" % (nm, ty), fn, a if nm == "Exp" else X)
        B = {"__matmul__": lambda Z, W: Z @ W, "__mul__": lambda Z, W: Z * W, "Act": lambda Z, W: Z.Act(W)}
        for nm, fn in B.items():
            add("LieTensor.%s/%s" % (nm, ty), fn, X, Y if nm != "Act" else p3)
            add("LieTensor.%s:points/%s" % (nm, ty), fn, X, p4)
        for nm, fn in {"Adj": lambda Z, W: Z.Adj(W), "AdjT": lambda Z, W: Z.AdjT(W), "Retr": lambda Z, W: Z.Retr(W),
                       "Jinvp": lambda Z, W: Z.Jinvp(W)}.items():
            add("LieTensor.%s/%s" % (nm, ty), fn, X, a)
        add("LieTensor.__add__/%s" % ty, lambda Z, W: Z + W, X, t)
        add("LieTensor.add/%s" % ty, lambda Z, W: Z.add(W, alpha=2), X, t)
        # converters
        mat = X.matrix()
        conv = {"SO3": pp.mat2SO3, "SE3": pp.mat2SE3, "RxSO3": pp.mat2RxSO3, "Sim3": pp.mat2Sim3}[ty]
        add("mat2%s/%s" % (ty, ty), conv, mat)
        add("mat2%s:nocheck/%s" % (ty, ty), conv, mat + 1e-3 * torch.randn_like(mat), check=False)
        add("from_matrix/%s" % ty, pp.from_matrix, mat, X.ltype)
        add("func.jacrev/%s" % ty, lambda Z, W: pp.func.jacrev(lambda U, V: U.Act(V))(Z, W), X, p3)
    so3, SO3 = pp.randn_so3(3, dtype=f64), pp.randn_SO3(3, dtype=f64)
    add("LieTensor.identity_/SO3", lambda Z: Z.identity_(), SO3, _u=True)
    add("Jr/so3", pp.Jr, so3)
    add("Jr/SO3", pp.Jr, SO3)
    add("LieTensor.Jr/so3", lambda Z: Z.Jr(), so3)
    add("euler2SO3", pp.euler2SO3, torch.randn(3, 3, dtype=f64))
    add("vec2skew", pp.vec2skew, torch.randn(3, 3, dtype=f64))
    add("pm", pp.pm, torch.randn(5, dtype=f64))
    add("hasnan", pp.hasnan, [torch.randn(3), [torch.randn(2), torch.tensor([float("nan")])]])
    add("geodesic_loss", pp.geodesic_loss, SO3, pp.randn_SO3(3, dtype=f64))
    add("module.GeodesicLoss", pp.module.GeodesicLoss(), SO3, pp.randn_SO3(3, dtype=f64))
    for nm in ("identity_SO3", "identity_so3", "identity_SE3", "identity_se3", "identity_Sim3", "identity_sim3",
               "identity_RxSO3", "identity_rxso3", "randn_SO3", "randn_so3", "randn_SE3", "randn_se3", "randn_Sim3",
               "randn_sim3", "randn_RxSO3", "randn_rxso3"):
        add(nm, getattr(pp, nm), 2)                # no tensor argument: trivially pure, listed for completeness
    # function / geometry / linalg / spline
    Mx, v, u = torch.randn(4, 3, 3, dtype=f64), torch.randn(4, 3, dtype=f64), torch.randn(4, 3, dtype=f64)
    add("bmv", pp.bmv, Mx, v)
    add("bvv", pp.bvv, u, v)
    add("bvmv", pp.bvmv, u, Mx, v)
    pts = torch.randn(12, 3, dtype=f64) + torch.tensor([0.0, 0.0, 5.0], dtype=f64)
    K = torch.tensor([[300.0, 0.0, 160.0], [0.0, 300.0, 120.0], [0.0, 0.0, 1.0]], dtype=f64)
    ext = pp.randn_SE3(dtype=f64, sigma=0.1)
    pix = pp.point2pixel(pts, K)
    add("cart2homo", pp.cart2homo, pts)
    add("homo2cart", pp.homo2cart, torch.randn(5, 4, dtype=f64) + 3)
    add("point2pixel", pp.point2pixel, pts, K)
    add("point2pixel:extrinsics", pp.point2pixel, pts, K, ext)
    add("pixel2point", pp.pixel2point, pix, pts[:, 2].clone(), K)
    add("reprojerr", pp.reprojerr, pts, pix, K, ext)
    add("reprojerr:norm", pp.reprojerr, pts, pix, K, ext, reduction="norm")
    add("knn", pp.knn, pts, pts[:5].clone(), k=2)
    add("knn:largest", pp.knn, pts, pts[:5].clone(), k=3, largest=True, sorted=False)
    tf = pp.randn_SE3(dtype=f64)
    add("svdtf", pp.svdtf, pts, tf.Act(pts))
    add("svdstf", pp.svdstf, pts, 2.0 * tf.Act(pts))
    add("svdstf:noscale", pp.svdstf, pts, tf.Act(pts), False)
    add("nbr_filter", pp.nbr_filter, pts, 2, 1.5)
    add("nbr_filter:mask", pp.nbr_filter, pts, 2, 1.5, return_mask=True)
    add("random_filter", pp.random_filter, pts, 5)
    add("voxel_filter", pp.voxel_filter, pts, [0.5, 0.5, 0.5])
    add("voxel_filter:random", pp.voxel_filter, pts, [0.5, 0.5, 0.5], random=True)
    add("knn_filter", pp.knn_filter, pts, 3)
    add("knn_filter:radius", pp.knn_filter, pts, 3, radius=2.0)
    add("chspline", pp.chspline, torch.randn(5, 3, dtype=f64), 0.25)
    add("bspline", pp.bspline, pp.randn_SE3(6, dtype=f64), 0.25)
    add("bspline:extrapolate", pp.bspline, pp.randn_SE3(6, dtype=f64), 0.25, True)
    # sparse
    try:
        from pypose.sparse.ops import bsr_bsc_matmul
        dense = torch.randn(4, 4, dtype=f64)
        bsr = dense.to_sparse_bsr((2, 2))
        bsc = dense.T.contiguous().to_sparse_bsc((2, 2))
        add("sparse.bsr_bsc_matmul", bsr_bsc_matmul, bsr, bsc)
    except Exception:  # noqa: BLE001
        pass
    # metric: timestamps are caller data
    n = 8
    st = torch.arange(n, dtype=f64) * 0.1 + 100.0
    rpose, epose = pp.randn_SE3(n, dtype=f64), pp.randn_SE3(n + 3, dtype=f64)
    est = torch.arange(n + 3, dtype=f64) * 0.1 + 100.0
    for mname, mf in (("metric.ape", pp.metric.ape), ("metric.rpe", pp.metric.rpe)):
        add(mname, mf, st, rpose, est, epose)
        add(mname + ":offset/est_longer", mf, st, rpose, est, epose, offset=0.004)
        add(mname + ":offset/ref_longer", mf, est, epose, st, rpose, offset=0.004)
        add(mname + ":offset/f32_stamps", mf, st.float(), rpose, est.float(), epose, offset=0.004)
        add(mname + ":align", mf, st, rpose, est, epose, align=True)
        add(mname + ":align_scale", mf, st, rpose, est, epose, align=True, scale=True)
        add(mname + ":rotation", mf, st, rpose, est, epose, etype="rotation")
        # every stamp matched one-to-one, in order (no gather of a subset inside): the estimate is still caller data
        epose_n = pp.randn_SE3(n, dtype=f64)
        for opt in ({}, {"align": True}, {"align": True, "scale": True}, {"etype": "rotation", "align": True}):
            tag = ":matched" + "".join("/%s" % k for k in opt)
            add(mname + tag, mf, st, rpose, st.clone(), epose_n, **opt)
            add(mname + tag + "/f32", mf, st.float(), pp.randn_SE3(n), st.float(), pp.randn_SE3(n), **opt)
    add("metric.ape:matched/origin", pp.metric.ape, st, rpose, st.clone(), pp.randn_SE3(n, dtype=f64), origin=True)
    add("metric.ape:origin", pp.metric.ape, st, rpose, est, epose, origin=True)
    add("metric.rpe:all_pairs", pp.metric.rpe, st, rpose, est, epose, all=True)
    # optim: kernels, correctors, solvers, functional, optimizers
    x = torch.rand(6, 1, dtype=f64) * 3
    for kn in ("Huber", "PseudoHuber", "Cauchy", "SoftLOne", "Arctan", "Tolerant", "Scale"):
        add("optim.kernel.%s" % kn, getattr(pp.optim.kernel, kn)(), x)
    R, J = torch.randn(5, 2, dtype=f64), torch.randn(10, 3, dtype=f64)
    add("optim.corrector.FastTriggs", pp.optim.corrector.FastTriggs(pp.optim.kernel.Huber()), R, J)
    add("optim.corrector.Triggs", pp.optim.corrector.Triggs(pp.optim.kernel.Cauchy()), R, J)
    Am = torch.randn(2, 4, 4, dtype=f64)
    Ap = Am @ Am.mT + 4 * torch.eye(4, dtype=f64)
    b = torch.randn(2, 4, 1, dtype=f64)
    add("optim.solver.PINV", pp.optim.solver.PINV(), Ap, b)
    add("optim.solver.LSTSQ", pp.optim.solver.LSTSQ(), Ap, b)
    add("optim.solver.Cholesky", pp.optim.solver.Cholesky(), Ap, b)
    add("optim.solver.CG", pp.optim.solver.CG(), Ap, b)
    add("optim.solver.CG:x0", pp.optim.solver.CG(), Ap, b, torch.zeros(2, 4, 1, dtype=f64))

    class PoseInv(torch.nn.Module):
        def __init__(self):
            super().__init__()
            self.pose = pp.Parameter(pp.randn_SE3(2, dtype=f64))

        def forward(self, inp):
            return (self.pose @ inp).Log().tensor()
    inp = pp.randn_SE3(2, dtype=f64)
    tgt = torch.zeros(2, 6, dtype=f64)
    wgt = torch.eye(6, dtype=f64).repeat(2, 1, 1)
    add("optim.functional.modjac", lambda i: pp.optim.functional.modjac(PoseInv(), input=i, flatten=True), inp)
    class Lin(torch.nn.Module):            # modjacrev / modjacfwd use torch.func directly (plain parameters)
        def __init__(self):
            super().__init__()
            self.w = torch.nn.Parameter(torch.randn(3, 3, dtype=f64))

        def forward(self, inp):
            return torch.tanh(inp @ self.w)
    add("optim.functional.modjacrev", lambda i: pp.optim.functional.modjacrev(Lin(), i), torch.randn(2, 3, dtype=f64))
    add("optim.functional.modjacfwd", lambda i: pp.optim.functional.modjacfwd(Lin(), i), torch.randn(2, 3, dtype=f64))
    add("optim.GN.step", lambda i, t_, w: pp.optim.GN(PoseInv()).step(i, t_, w), inp, tgt, wgt)
    add("optim.LM.step", lambda i, t_, w: pp.optim.LM(PoseInv()).step(i, t_, w), inp, tgt, wgt)
    add("optim.LM.step:kernel", lambda i, t_: pp.optim.LM(PoseInv(), kernel=pp.optim.kernel.Huber(),
                                                           corrector=pp.optim.corrector.FastTriggs(pp.optim.kernel.Huber())).step(i, t_), inp, tgt)
    # modules: "arguments" are the inputs of the call
    A_, B_ = torch.tensor([[0.9, 0.1], [0.0, 0.8]], dtype=f64), torch.tensor([[0.0], [1.0]], dtype=f64)
    C_, D_ = torch.eye(2, dtype=f64), torch.zeros(2, 1, dtype=f64)
    add("module.LTI", lambda s, i: pp.module.LTI(A_, B_, C_, D_)(s, i), torch.randn(2, dtype=f64), torch.randn(1, dtype=f64))
    add("module.LTI:constructor", lambda *m: pp.module.LTI(*m), A_, B_, C_, D_)

    class Sys(pp.module.NLS):
        def state_transition(self, state, input, t=None):
            return pp.bmv(A_, state) + pp.bmv(B_, input) + 0.1 * state * state

        def observation(self, state, input, t=None):
            return pp.bmv(C_, state) + pp.bmv(D_, input)
    add("module.NLS", lambda s, i: Sys()(s, i), torch.randn(2, dtype=f64), torch.randn(1, dtype=f64))
    xs, ys, us = torch.randn(2, dtype=f64), torch.randn(2, dtype=f64), torch.randn(1, dtype=f64)
    P0, Q0, R0 = torch.eye(2, dtype=f64), 0.1 * torch.eye(2, dtype=f64), 0.2 * torch.eye(2, dtype=f64)
    add("module.EKF", lambda *z: pp.module.EKF(Sys())(*z), xs, ys, us, P0, Q0, R0)
    add("module.UKF", lambda *z: pp.module.UKF(Sys())(*z), xs, ys, us, P0, Q0, R0)
    add("module.PF", lambda *z: pp.module.PF(Sys(), particles=50)(*z), xs, ys, us, P0, Q0, R0)
    T_ = 3
    Qc = torch.eye(3, dtype=f64).repeat(1, T_, 1, 1)
    pc = torch.randn(1, T_, 3, dtype=f64)
    x0 = torch.randn(1, 2, dtype=f64)
    lti = lambda: pp.module.LTI(A_[None], B_[None], C_[None], D_[None])
    add("module.LQR", lambda x_: pp.module.LQR(lti(), Qc, pc, T_)(x_), x0)
    add("module.LQR:u_traj", lambda x_, u_: pp.module.LQR(lti(), Qc, pc, T_)(x_, u_traj=u_), x0, torch.zeros(1, T_, 1, dtype=f64))
    add("module.LQR:constructor", lambda q_, p_: pp.module.LQR(lti(), q_, p_, T_), Qc, pc)
    add("module.MPC", lambda x_: pp.module.MPC(lti(), Qc, pc, T_, stepper=pp.utils.ReduceToBason(steps=2))(1, x_), x0)
    add("module.MPC:u_init", lambda x_, u_: pp.module.MPC(lti(), Qc, pc, T_, stepper=pp.utils.ReduceToBason(steps=2))(1, x_, u_init=u_),
        x0, torch.zeros(1, T_, 1, dtype=f64))
    F = 5
    dt, gy, ac = torch.full((1, F, 1), 0.01, dtype=f64), 0.1 * torch.randn(1, F, 3, dtype=f64), torch.randn(1, F, 3, dtype=f64)
    rot = pp.randn_SO3(1, F, dtype=f64)
    imu = lambda: pp.module.IMUPreintegrator(torch.zeros(3, dtype=f64), pp.identity_SO3(dtype=f64), torch.zeros(3, dtype=f64)).double()
    add("module.IMUPreintegrator", lambda *z: imu()(*z), dt, gy, ac)
    add("module.IMUPreintegrator:rot", lambda *z: imu()(*z), dt, gy, ac, rot)
    add("module.IMUPreintegrator:init_state", lambda d_, g_, a_, s_: imu()(d_, g_, a_, init_state=s_), dt, gy, ac,
        {"pos": torch.randn(1, 3, dtype=f64), "rot": pp.randn_SO3(1, dtype=f64), "vel": torch.randn(1, 3, dtype=f64)})
    add("module.IMUPreintegrator:cov", lambda d_, g_, a_, gc, acv: imu()(d_, g_, a_, gyro_cov=gc, acc_cov=acv), dt, gy, ac,
        torch.tensor([1e-4, 2e-4, 3e-4], dtype=f64), torch.tensor([1e-3, 2e-3, 3e-3], dtype=f64))
    add("module.IMUPreintegrator:constructor", lambda p_, r_, v_: pp.module.IMUPreintegrator(p_, r_, v_), torch.randn(3, dtype=f64),
        pp.randn_SO3(dtype=f64), torch.randn(3, dtype=f64))
    src = torch.randn(1, 30, 3, dtype=f64)
    small = pp.randn_SE3(1, dtype=f64, sigma=0.05)
    add("module.ICP", lambda s_, t_: pp.module.ICP(stepper=pp.utils.ReduceToBason(steps=3))(s_, t_), src, small.unsqueeze(-2).Act(src))
    add("module.ICP:init", lambda s_, t_, i_: pp.module.ICP(stepper=pp.utils.ReduceToBason(steps=3))(s_, t_, init=i_), src,
        small.unsqueeze(-2).Act(src), pp.identity_SE3(1, dtype=f64))
    obj = torch.randn(1, 10, 3, dtype=f64)
    cam = pp.SE3(torch.tensor([[0.1, -0.2, 6.0, 0.0, 0.0, 0.0, 1.0]], dtype=f64))
    img = pp.point2pixel(obj, K, cam)
    add("module.EPnP", lambda o_, i_, k_: pp.module.EPnP()(o_, i_, k_), obj, img, K)
    add("module.EPnP:norefine", lambda o_, i_, k_: pp.module.EPnP(refine=False)(o_, i_, k_), obj, img, K)
    return C


def public_api():
    """Names of the public callables of the pypose namespaces (for the coverage report)."""
    import inspect
    import types
    pp = pypose()
    names = set()
    mods = [("", pp), ("func.", pp.func), ("metric.", pp.metric), ("module.", pp.module), ("optim.", pp.optim),
            ("optim.kernel.", pp.optim.kernel), ("optim.corrector.", pp.optim.corrector), ("optim.solver.", pp.optim.solver),
            ("optim.functional.", pp.optim.functional), ("testing.", pp.testing)]
    for pre, m in mods:
        for n in dir(m):
            o = getattr(m, n)
            if n.startswith("_") or isinstance(o, types.ModuleType) or not callable(o):
                continue
            if not (getattr(o, "__module__", "") or "").startswith("pypose") and not hasattr(o, "func"):
                continue
            names.add(pre + n)
    return names


def purity_traces(ctx):
    calls = purity_calls(ctx)
    ev = []
    for name, f, args, kwargs, u in calls:
        e = purity_event(name, f, args, kwargs, u)
        ev.append(e)
        ctx.cover("pure:" + name)
    traces = [{"cfg": {"kind": "purity"}, "ev": [e]} for e in ev]
    exercised = {e["fn"].split("/")[0].split(":")[0] for e in ev}
    api = public_api()
    missing = sorted(n for n in api if not n.endswith("_type") and not n.endswith("partial")
                     and not any(x == n or x.startswith(n + ".") or x == "LieTensor." + n for x in exercised))
    ctx.extra["purity_calls"] = len(ev)
    ctx.extra["purity_calls_that_raised"] = sorted(e["fn"] + " (" + e["exc"] + ")" for e in ev if e["raised"])
    ctx.extra["purity_public_names_not_exercised"] = missing
    return traces


# ====================================================================== orchestration
def pair_class(s1, s2):
    o = bcast_py(s1, s2)
    if o is None:
        return "unbroadcastable"
    if len(s1) == 0 and len(s2) == 0:
        return "scalar_batch"
    if numel(o) == 0:
        return "empty_result"
    if len(s1) == 0 or len(s2) == 0:
        return "scalar_with_batch"
    if tuple(s1) == tuple(s2):
        return "equal_lshapes"
    if len(s1) != len(s2):
        return "rank_mismatch"
    return "ones_expanded"


def op_at(tr, at):
    """The operation an event of a bin/un trace belongs to."""
    op = ""
    for e in tr["ev"][:at]:
        if e["act"] == "call":
            op = e["op"]
    return op


def judge_bcast(ctx, traces, verdicts):
    for tr, v in zip(traces, verdicts):
        if v == "ok":
            continue
        clause, at = v.split("@")
        at = int(at)
        c = tr["cfg"]
        e = tr["ev"][at - 1]
        if c["kind"] == "shape":
            ctx.violation("shape/%s/%s" % (e["fn"], clause),
                          "%s(%s) on a %s LieTensor of lshape %s: clause %s; event=%s"
                          % (e["fn"], e["variant"], e["ty"], e["lshape"], clause, json.dumps(e)[:500]),
                          {"part": "shape", "fn": e["fn"]})
            continue
        op = op_at(tr, at)
        cls = pair_class(c["s1"], c["s2"]) if c["kind"] == "bin" else \
            ("scalar_batch" if not c["s1"] else "empty_batch" if numel(c["s1"]) == 0 else "batch")
        ctx.violation("op/%s/%s/%s/%s" % (op, c["ty"], clause, cls),
                      "%s %s %s on lshapes %s x %s: clause %s at event %d: %s"
                      % (c["dt"], c["ty"], op, c["s1"], c["s2"], clause, at, json.dumps(e)[:400]),
                      {"part": c["kind"], "s1": c["s1"], "s2": c["s2"], "ty": c["ty"], "dt": c["dt"]})


def judge_patching(ctx, traces, verdicts):
    for tr, v in zip(traces, verdicts):
        if v == "ok":
            continue
        clause, at = v.split("@")
        e = tr["ev"][int(at) - 1]
        ctx.violation("patching/%s/%s/%s" % (clause, e.get("via") or e["act"], "raised" if e.get("raised") else "normal"),
                      "retain_ltype / func.jacrev run %s (fault %s): clause %s at event %s: %s"
                      % (tr["cfg"]["script"] or tr["cfg"]["kind"], tr["cfg"]["fault"], clause, at, json.dumps(tr["ev"])[:700]),
                      {"part": "patching", "trace": tr})


def judge_purity(ctx, traces, verdicts):
    for tr, v in zip(traces, verdicts):
        if v == "ok":
            continue
        clause, _at = v.split("@")
        e = tr["ev"][0]
        arg = clause.rsplit("_", 1)[-1]
        ctx.violation("purity/%s/arg%s" % (e["fn"].split("/")[0], arg),
                      "%s changed tensor argument #%s (of %d tensor arguments, in call order): before %s after %s"
                      % (e["fn"], arg, e["nargs"], e["pre"], e["post"]), {"part": "purity", "fn": e["fn"]})


def design_runs(ctx):
    q = ctx.quick
    ctx.tlc("Broadcast", "Broadcast_q.cfg" if q else "Broadcast_t.cfg", workers=WORKERS, timeout=3600)
    if not q:
        ctx.tlc("Broadcast", "Broadcast_assoc.cfg", workers=WORKERS, timeout=3600)
    ctx.tlc("Patching", "Patching_q.cfg" if q else "Patching_t.cfg", workers=WORKERS, coverage=True,
            need_actions=())
    ctx.tlc("Purity", "Purity_q.cfg", workers=WORKERS)
    for r in ctx.tlc_runs:
        if r["violated"]:
            ctx.violation("design/%s/%s" % (r["cfg"], r["violated"][0]), "%s violates %s" % (r["module"], r["violated"]))
    # the mutant without try/finally must be rejected by the design invariant (guards against a vacuous invariant)
    m = ctx.tlc("Patching", "Patching_mut_nofinally.cfg", workers=1)
    if "RestoredWhenQuiescent" not in m.violated:
        raise MachineryError("Patching_mut_nofinally.cfg does not violate RestoredWhenQuiescent: the invariant is vacuous")
    ctx.tlc_runs[-1]["violated"] = []
    ctx.tlc_runs[-1]["expected_violation"] = "RestoredWhenQuiescent"


def bcast_traces(ctx):
    """Every pair of the 85 lshapes: all binary ops (every broadcastable pair with items, every other pair must raise),
    and all unary ops over the 85 lshapes."""
    traces = []
    k = 0
    combos = COMBOS[:1] + COMBOS[1:]
    for i, s1 in enumerate(SHAPES):
        for j, s2 in enumerate(SHAPES):
            todo = [combos[(i * 3 + j) % 8]] if ctx.quick else combos
            if bcast_py(s1, s2) is None and not ctx.quick:
                todo = [combos[(i * 3 + j) % 8], combos[(i * 3 + j + 3) % 8]]
            for ty, dt in todo:
                k += 1
                ops = BINOPS
                if ctx.quick and bcast_py(s1, s2) is None:      # quick: 3 rotating ops per refused pair (thorough: all 8)
                    ops = [BINOPS[(k + d) % 8] for d in (0, 3, 6)]
                traces.append(binary_trace(ctx, s1, s2, ty, dt, k, ops))
                ctx.cover("bin:%s:%s:%s:%s" % (s1, s2, ty, dt))
    for i, s1 in enumerate(SHAPES):
        for n, (ty, dt) in enumerate(COMBOS):
            if ctx.quick and (n + i) % 2:
                continue
            k += 1
            traces.append(unary_trace(ctx, s1, ty, dt, k))
            ctx.cover("un:%s:%s:%s" % (s1, ty, dt))
    return traces


def replay(ctx):
    case = json.load(open(ctx.replay))["case"]
    part = case["part"]
    if part in ("bin", "un"):
        trs = []
        for via in range(6):
            if part == "bin":
                trs.append(binary_trace(ctx, tuple(case["s1"]), tuple(case["s2"]), case["ty"], case["dt"], via))
            else:
                trs.append(unary_trace(ctx, tuple(case["s1"]), case["ty"], case["dt"], via))
        judge_bcast(ctx, trs, ctx.validate("BroadcastTrace", "BroadcastTrace.cfg", trs, "replay"))
    elif part == "shape":
        trs, _ = shape_traces(ctx)
        trs = [{"cfg": t["cfg"], "ev": [e for e in t["ev"] if e["fn"] == case["fn"]]} for t in trs]
        trs = [t for t in trs if t["ev"]]
        judge_bcast(ctx, trs, ctx.validate("BroadcastTrace", "BroadcastTrace.cfg", trs, "replay"))
    elif part == "purity":
        trs = []
        for name, f, args, kwargs, u in purity_calls(ctx):
            if name == case["fn"]:
                trs.append({"cfg": {"kind": "purity"}, "ev": [purity_event(name, f, args, kwargs, u)]})
        if not trs:
            raise MachineryError("no purity call named %s" % case["fn"])
        judge_purity(ctx, trs, ctx.validate("PurityTrace", "PurityTrace.cfg", trs, "replay"))
    elif part == "patching":
        pp = pypose()
        tr = case["trace"]
        if tr["cfg"]["kind"] == "opaque":
            trs = [{"cfg": tr["cfg"], "ev": opaque_runs(pp, Patched())}]
        else:      # rebuild the script from the recorded events and run it again on the current tree
            sc = [{"a": e["act"], "via": e.get("via", "")} for e in tr["ev"] if e["act"] != "Pre"]
            fc = {f.__name__: f for f in FAULTS}[tr["cfg"]["fault"]]
            trs = [{"cfg": tr["cfg"], "ev": realise_script(pp, Patched(), sc, fc, {"lt_inside": 0, "lt_inside_n": 0})}]
        judge_patching(ctx, trs, ctx.validate("PatchingTrace", "PatchingTrace_t.cfg", trs, "replay"))
    else:
        raise MachineryError("unknown replay part %r" % part)


def run(ctx):
    pypose()
    ctx.rule = [
        "TLC (Broadcast): all 85x85 pairs of lshapes of rank<=3, extents {0,1,2,3}: Bcast defined iff the torch rule, symmetric, "
        "idempotent, unit <<>>, least common expansion, zero extents, index map total/balanced, flatten-unflatten scheme = index map; "
        "thorough: rank<=4 (116 281 pairs) and associativity over 85^3 triples",
        "spec->torch (BroadcastGen): 7 225 rows (Bcast, index maps) compared with torch.broadcast_shapes / expand",
        "code->spec (BroadcastTrace): every lshape pair x {mul, act3, act4, adj, adjT, retr, add, jinvp} and every lshape x "
        "{inv, exp, log, matrix, rotation, translation, scale} on lattice batches with distinct items: lshape, ltype, last "
        "dimension, dtype, device, raise iff unbroadcastable; every output item recomputed exactly by TLC from the operand "
        "items selected by the spec's index map; shape-only functions vs the same function on the plain tensor",
        "Patching: TLC on the model (depth<=2, faults at every point; mutant without finally rejected); every complete script "
        "of the model realised with real nested retain_ltype / func.jacrev and validated on `is`-identities",
        "Purity: every exercised public call on cloned arguments, fingerprints before/after compared by TLC",
        "distinct = (lshape pair, type, dtype) / (lshape, type, dtype) / (function, variant, ltype) / script / call name"]
    ctx.assumptions = [
        "IEEE arithmetic is exact on the lattice (Hurwitz units, small integers, 2^k); outputs within 64 eps are snapped",
        "CPU only (no CUDA device): 'cuda' and device transfers are not exercised",
        "add(X, a) whose broadcast lshape differs from X's lshape may raise (it is implemented through add_): not judged",
        "functions outside the documented handled-function table (flatten, flip, roll, ...) are recorded, not judged",
        "argument fingerprints are CRC-32 of the raw bytes + shape + dtype (collision probability 2^-30 per argument)"]
    if ctx.replay:
        replay(ctx)
        return
    if not os.environ.get("VERIF_SKIP_DESIGN"):
        design_runs(ctx)
    parts = set(os.environ.get("VERIF_C06_PARTS", "table,ops,shape,patch,purity").split(","))   # development only
    if "table" in parts:
        table_vs_torch(ctx)
    # part 1
    bt = bcast_traces(ctx) if "ops" in parts else []
    st, uncovered = shape_traces(ctx) if "shape" in parts else ([], [])
    ctx.extra["handled_functions_not_exercised"] = uncovered
    ctx.extra["bcast_traces"] = len(bt)
    ctx.extra["bcast_events"] = sum(len(t["ev"]) for t in bt)
    ctx.extra["add_raised_when_result_lshape_differs"] = sum(
        1 for t in bt for e in t["ev"] if e["act"] == "call" and e["op"] == "add" and e["raised"]
        and bcast_py(t["cfg"]["s1"], t["cfg"]["s2"]) is not None)
    ctx.extra["shape_events"] = sum(len(t["ev"]) for t in st)
    ctx.extra["shape_functions_recorded_not_judged"] = sorted({e["fn"] for t in st for e in t["ev"] if not e["inlib"]})
    for t in bt:
        if numel(t["cfg"]["s1"]) * numel(t["cfg"]["s2"]) > 1 and len(t["ev"]) > 12:
            ctx.sample({"cfg": {k: t["cfg"][k] for k in ("kind", "ty", "dt", "s1", "s2")}, "ev": t["ev"][:3]}, cap=2)
            break
    if st:
        ctx.sample(st[0]["ev"][0], cap=3)
    if bt + st:
        verdicts = ctx.validate("BroadcastTrace", "BroadcastTrace.cfg", bt + st, "bcast", chunk=1000, workers=WORKERS)
        judge_bcast(ctx, bt + st, verdicts)
    # part 2
    if "patch" in parts:
        pt = patching_traces(ctx)
        ctx.sample({"cfg": pt[7]["cfg"], "ev": pt[7]["ev"][:4]}, cap=4)
        judge_patching(ctx, pt, ctx.validate("PatchingTrace", "PatchingTrace.cfg" if ctx.quick else "PatchingTrace_t.cfg", pt,
                                             "patch", chunk=4000, workers=1))
    # part 3
    if "purity" in parts:
        ut = purity_traces(ctx)
        ctx.sample(ut[0]["ev"][0], cap=5)
        judge_purity(ctx, ut, ctx.validate("PurityTrace", "PurityTrace.cfg", ut, "purity", chunk=4000, workers=1))


def selftest(ctx):
    """Binding demonstration: corrupted fields and deleted events must be rejected."""
    pp = pypose()
    good = binary_trace(ctx, (2, 1), (3,), "SE3", "f64", 0)
    bad1 = json.loads(json.dumps(good))          # one output coordinate off by one
    it = [i for i, e in enumerate(bad1["ev"]) if e["act"] == "item"][4]
    bad1["ev"][it]["out"][0] = [bad1["ev"][it]["out"][0][0] + 1, bad1["ev"][it]["out"][0][1]]
    bad2 = json.loads(json.dumps(good))          # one item event deleted
    del bad2["ev"][it]
    bad3 = json.loads(json.dumps(good))          # two operand items swapped: the index map no longer explains the items
    bad3["cfg"]["X"][0], bad3["cfg"]["X"][1] = bad3["cfg"]["X"][1], bad3["cfg"]["X"][0]
    bad4 = json.loads(json.dumps(good))          # wrong result lshape
    bad4["ev"][0]["shape"] = [3, 2, 7]
    un = unary_trace(ctx, (0, 2), "Sim3", "f32", 0)
    bad5 = json.loads(json.dumps(un))            # empty batch with the wrong last dimension
    bad5["ev"][0]["shape"] = [0, 2, 7]
    st, _ = shape_traces(ctx)
    sg = st[0]
    bad6 = json.loads(json.dumps(sg))
    bad6["ev"][0]["is_lie"] = False
    bad7 = json.loads(json.dumps(sg))
    bad7["ev"][1]["out"] = [[9999]]
    v = ctx.validate("BroadcastTrace", "BroadcastTrace.cfg", [good, bad1, bad2, bad3, bad4, un, bad5, sg, bad6, bad7], "selftest")
    print("selftest BroadcastTrace:", v)
    assert v[0] == "ok" and v[5] == "ok" and v[7] == "ok" and all(x != "ok" for x in (v[1], v[2], v[3], v[4], v[6], v[8], v[9])), v
    obs = Patched()
    sc = [{"a": "Enter", "via": "with"}, {"a": "Enter", "via": "jacrev"}, {"a": "Raise", "via": ""}, {"a": "Exit", "via": "jacrev"},
          {"a": "Exit", "via": "with"}, {"a": "Catch", "via": ""}]
    gp = {"cfg": {"kind": "script", "fault": "FaultC", "script": "selftest"},
          "ev": realise_script(pp, obs, sc, FaultC, {"lt_inside": 0, "lt_inside_n": 0})}
    bp1 = json.loads(json.dumps(gp))             # an attribute still wrapped after the last Exit
    bp1["ev"][-2]["b"] = [0, 5, 0]
    bp2 = json.loads(json.dumps(gp))             # the inner Exit deleted
    del bp2["ev"][4]
    v2 = ctx.validate("PatchingTrace", "PatchingTrace.cfg", [gp, bp1, bp2], "selftest2")
    print("selftest PatchingTrace:", v2)
    assert v2[0] == "ok" and v2[1] != "ok" and v2[2] != "ok", v2
    import torch
    x = torch.randn(3, dtype=torch.float64)
    gu = {"cfg": {"kind": "purity"}, "ev": [purity_event("pm", pp.pm, (x,))]}
    bu = {"cfg": {"kind": "purity"}, "ev": [purity_event("selftest_inplace", lambda t: t.add_(1.0), (x,))]}
    bu2 = json.loads(json.dumps(gu))
    del bu2["ev"][0]["post"][0]
    v3 = ctx.validate("PurityTrace", "PurityTrace.cfg", [gu, bu, bu2], "selftest3")
    print("selftest PurityTrace:", v3)
    assert v3[0] == "ok" and v3[1] != "ok" and v3[2] != "ok", v3
    return 0
