"""C03 — group laws, matrix homomorphism, point action, validity over histories (Mode E + S).
Design: LieGroupMC.tla over LieExact.tla; conformance: LieTrace.tla."""
import glob
import json

from vlib.core import MachineryError, pypose
from vlib import lattice as L


def stateless_events(ctx, ty, dtype, n):
    """Batched real operations on lattice elements -> one event per item."""
    import torch
    pp = pypose()
    rng = ctx.rng
    xs = [L.rand_elem(rng, ty) for _ in range(n)]
    ys = [L.rand_elem(rng, ty) for _ in range(n)]
    # make sure every ordered pair of a few fixed quaternions occurs (incl. q, -q, identity)
    X, Y = L.mk(ty, xs, dtype), L.mk(ty, ys, dtype)
    p3 = torch.tensor([[float(rng.randint(-3, 3)) for _ in range(3)] for _ in range(n)], dtype=dtype)
    p4 = torch.tensor([[float(rng.randint(-3, 3)) for _ in range(3)] + [float(rng.choice([0, 0, 1, 1, -1, 2]))]
                       for _ in range(n)], dtype=dtype)
    ev = []
    Z = X @ Y
    Z2 = X * Y
    # every public spelling of the product / inverse / action (function forms and methods)
    forms = {"pp.Mul": lambda: pp.Mul(X, Y), "pp.mul": lambda: pp.mul(X, Y), ".mul": lambda: X.mul(Y)}
    iforms = {"pp.Inv": lambda: pp.Inv(X), "pp.Act": lambda: pp.Act(X, p3)}
    Xi = X.Inv()
    A3 = X.Act(p3)
    A3b = X @ p3
    A4 = X.Act(p4)
    Mx = X.matrix()
    R = X.rotation()
    T = X.translation()
    S = X.scale()
    for i in range(n):
        x, y = L.dyvec(X.tensor()[i]), L.dyvec(Y.tensor()[i])
        ev.append({"op": "mul", "ty": ty, "x": x, "y": y, "out": L.dyvec(Z.tensor()[i]), "via": "@"})
        if i % 3 == 0:
            ev.append({"op": "mul", "ty": ty, "x": x, "y": y, "out": L.dyvec(Z2.tensor()[i]), "via": "*"})
        ev.append({"op": "inv", "ty": ty, "x": x, "out": L.dyvec(Xi.tensor()[i])})
        ev.append({"op": "act3", "ty": ty, "x": x, "p": L.dyvec(p3[i]), "out": L.dyvec(A3[i])})
        if i % 3 == 1:
            ev.append({"op": "act3", "ty": ty, "x": x, "p": L.dyvec(p3[i]), "out": L.dyvec(A3b[i]), "via": "@"})
        ev.append({"op": "act4", "ty": ty, "x": x, "p": L.dyvec(p4[i]), "out": L.dyvec(A4[i])})
        ev.append({"op": "matrix", "ty": ty, "x": x, "out": L.dyvec(Mx[i])})
        ev.append({"op": "rotation", "ty": ty, "x": x, "out": L.dyvec(R.tensor()[i])})
        ev.append({"op": "translation", "ty": ty, "x": x, "out": L.dyvec(T[i])})
        ev.append({"op": "scale", "ty": ty, "x": x, "out": L.dyvec(S[i])})
    for name, f in forms.items():
        try:
            Zf = f()
        except Exception as ex:
            ev.append({"op": "raise", "ty": ty, "what": ("%s: %r" % (name, ex))[:200]})
            continue
        for i in range(0, n, 4):
            ev.append({"op": "mul", "ty": ty, "x": L.dyvec(X.tensor()[i]), "y": L.dyvec(Y.tensor()[i]),
                       "out": L.dyvec(Zf.tensor()[i]), "via": name})
    for name, f in iforms.items():
        try:
            Zf = f()
        except Exception as ex:
            ev.append({"op": "raise", "ty": ty, "what": ("%s: %r" % (name, ex))[:200]})
            continue
        for i in range(0, n, 4):
            if name == "pp.Inv":
                ev.append({"op": "inv", "ty": ty, "x": L.dyvec(X.tensor()[i]), "out": L.dyvec(Zf.tensor()[i]), "via": name})
            else:
                ev.append({"op": "act3", "ty": ty, "x": L.dyvec(X.tensor()[i]), "p": L.dyvec(p3[i]), "out": L.dyvec(Zf[i]), "via": name})
    ident = getattr(pp, "identity_" + ty)(2, dtype=dtype)
    ev.append({"op": "identity", "ty": ty, "x": L.dyvec(ident.tensor()[0]), "out": L.dyvec(ident.tensor()[1])})
    # ---- operands that went through copy / serialisation: still the same elements of the same group
    import copy
    import io
    import pickle

    def through(how, Z_):
        if how == "deepcopy":
            return copy.deepcopy(Z_)
        if how == "pickle":
            return pickle.loads(pickle.dumps(Z_))
        if how == "save_load":
            buf = io.BytesIO()
            torch.save(Z_, buf)
            buf.seek(0)
            return torch.load(buf, weights_only=False)
        if how == "parameter":
            return pp.Parameter(Z_.clone())
        return Z_.clone().detach()
    for k, how in enumerate(("deepcopy", "pickle", "save_load", "parameter", "clone")):
        i = k % n
        x, y = L.dyvec(X.tensor()[i]), L.dyvec(Y.tensor()[i])
        for side in ("right", "left", "both"):
            try:
                Xc = through(how, X[i]) if side in ("left", "both") else X[i]
                Yc = through(how, Y[i]) if side in ("right", "both") else Y[i]
                with torch.no_grad():
                    out = {"mul": L.dyvec((Xc @ Yc).tensor()), "inv": L.dyvec(Xc.Inv().tensor()),
                           "act3": L.dyvec(Xc.Act(p3[i]))}
            except Exception as ex:
                ev.append({"op": "raise", "ty": ty, "what": "%s operand through %s: %r" % (side, how, ex)[:200]})
                continue
            ev.append({"op": "mul", "ty": ty, "x": x, "y": y, "out": out["mul"], "via": how + "/" + side})
            if side != "right":
                ev.append({"op": "inv", "ty": ty, "x": x, "out": out["inv"], "via": how})
                ev.append({"op": "act3", "ty": ty, "x": x, "p": L.dyvec(p3[i]), "out": out["act3"], "via": how})
    if not (isinstance(Z, pp.LieTensor) and Z.ltype == X.ltype and Z.dtype == dtype and
            isinstance(Xi, pp.LieTensor) and Xi.ltype == X.ltype and R.ltype == pp.SO3_type):
        raise MachineryError("unexpected result types from %s ops" % ty)
    return ev


def extreme_scale_events(ctx, ty, dtype):
    """Scales far below / above the machine epsilon are still positive scales: Inv stays a two-sided inverse and the action
    of Inv(X) undoes the action of X (numeric: the dyadic codec of the exact events does not reach 2^+-60).
    Judged by LieNumTrace (chk inv_extreme: error in eps units)."""
    import torch
    pp = pypose()
    rng = ctx.rng
    eps = float(torch.finfo(dtype).eps)
    dt = "f64" if dtype == torch.float64 else "f32"
    ev = []
    for k in (-60, -40, -30, 30, 40, 60):
        q4 = list(rng.choice(L.U24))
        t = [float(rng.randint(-3, 3)) for _ in range(3)]
        row = q4 + [2.0 ** k] if ty == "RxSO3" else t + q4 + [2.0 ** k]
        X = L.mk(ty, [row], dtype)
        e = {"chk": "inv_extreme", "ty": ty, "dt": dt, "err": 10 ** 9, "finite": False, "allow": 0,
             "cell": {"scale_exp": k}, "x": row, "a": []}
        try:
            Xi = X.Inv()
            I4 = torch.eye(4, dtype=dtype)
            p = torch.tensor([[1.0, -2.0, 3.0]], dtype=dtype)
            back = Xi.Act(X.Act(p))
            # the translation of Inv X is -(1/s) R^T t: cancellations of that size are inherent (condition of the problem),
            # so matrix / action errors are relative to the largest translation involved; the scale product is not
            ti = float(Xi.translation().abs().max()) if ty == "Sim3" else 0.0
            sc = max(1.0, max(abs(v) for v in t), ti)
            vals = [((X @ Xi).matrix()[0] - I4) / sc, ((Xi @ X).matrix()[0] - I4) / sc, (back - p) / 3.0 / sc,
                    (Xi.scale().reshape(-1) * X.scale().reshape(-1) - 1).reshape(1, 1)]
            e["finite"] = all(bool(torch.isfinite(v).all()) for v in vals)
            if e["finite"]:
                e["err"] = int(min(10 ** 9, max(float(v.abs().max()) for v in vals) / eps + 0.999))
        except Exception as ex:
            e["cell"]["raised"] = repr(ex)[:120]
        ev.append(e)
    return ev


def exhaustive_pairs(ctx, ty, dtype):
    """All 24 x 24 quaternion pairs (with random translations / scales) through @."""
    rng = ctx.rng
    xs, ys = [], []
    off = {"SO3": 0, "SE3": 3, "RxSO3": 0, "Sim3": 3}[ty]
    for a in L.U24:
        for b in L.U24:
            x, y = L.rand_elem(rng, ty), L.rand_elem(rng, ty)
            x[off:off + 4] = list(a)
            y[off:off + 4] = list(b)
            xs.append(x)
            ys.append(y)
    X, Y = L.mk(ty, xs, dtype), L.mk(ty, ys, dtype)
    Z = X @ Y
    return [{"op": "mul", "ty": ty, "x": L.dyvec(X.tensor()[i]), "y": L.dyvec(Y.tensor()[i]),
             "out": L.dyvec(Z.tensor()[i])} for i in range(len(xs))]


def elem_from_tla(ty, rec):
    t = [L.tla_dy(v) for v in rec["t"]]
    q = [L.tla_dy(v) for v in rec["q"]]
    s = [L.tla_dy(rec["s"])]
    return {"SO3": q, "SE3": t + q, "RxSO3": q + s, "Sim3": t + q + s}[ty]


def replay_behaviours(ctx, ty, dtype, num, depth):
    """spec -> code: behaviours of LieGroupMC generated by `tlc -simulate`, stepped through one real
    LieTensor; the real element and matrix after every action become a trace validated by LieTrace
    (which recomputes X and the ghost matrix) and are also compared with the states TLC printed."""
    import torch
    pp = pypose()
    d = ctx.work / ("sim_%s" % ty)
    d.mkdir(exist_ok=True)
    ctx.tlc("LieGroupMC", "LieGroupMC_sim_%s.cfg" % ty, workers=1,
            simulate="file=%s/tr,num=%d" % (d, num), extra=["-depth", str(depth), "-seed", str(ctx.seed + 11)])
    traces = []
    for f in sorted(glob.glob(str(d / "tr_*"))):
        states = L.parse_behaviour(f)
        X = getattr(pp, "identity_" + ty)(dtype=dtype)
        ev = []
        for stt in states[1:]:
            la = stt["last"]
            if la["a"] in ("mulr", "mull"):
                g = L.mk(ty, elem_from_tla(ty, la["g"]), dtype)
                X = X @ g if la["a"] == "mulr" else g @ X
                e = {"op": "h" + la["a"], "g": L.dyvec(g.tensor())}
            elif la["a"] == "inv":
                X = X.Inv()
                e = {"op": "hinv"}
            else:
                t = [L.tla_dy(v) for v in la["t"]]
                a = {"SE3": t + [0.0] * 3, "Sim3": t + [0.0] * 4}[ty]
                av = L.mkalg(ty, a, dtype)
                X = X.clone()
                if len(ev) % 2 == 0:
                    X = X.Retr(av)
                else:
                    X.add_(av)          # in-place update, same meaning
                e = {"op": "hretr", "a": L.dyvec(av.tensor())}
            e["out"] = L.dyvec(X.tensor())
            e["mat"] = L.dyvec(X.matrix())
            # direct comparison with the state TLC printed (spec -> code)
            want = elem_from_tla(ty, stt["X"])
            got = X.tensor().tolist()
            off = {"SO3": 0, "SE3": 3, "RxSO3": 0, "Sim3": 3}[ty]
            same = all(abs(a - b) == 0 for a, b in zip(got[:off] + got[off + 4:], want[:off] + want[off + 4:])) and \
                (got[off:off + 4] == want[off:off + 4] or got[off:off + 4] == [-v for v in want[off:off + 4]])
            ctx.evaluations += 1
            if not same:
                ctx.violation("history/%s/%s/spec_state" % (ty, la["a"]),
                              "spec->code: after %s the real %s element %s differs from LieGroupMC state %s"
                              % (la["a"], ty, got, want), {"file": f})
            ev.append(e)
        if ev:
            traces.append({"cfg": {"ty": ty, "dtype": str(dtype), "kind": "history"}, "ev": ev})
    return traces


def drift_events(ctx, ty, dtype, n, every, step=0.05):
    """Long mixed histories on generic float elements; unit-norm deviation logged in eps units.
    step: magnitude of the retraction increments (tiny steps are what an optimiser takes near convergence)."""
    import torch
    pp = pypose()
    torch.manual_seed(ctx.seed + 5)
    eps = float(torch.finfo(dtype).eps)
    X = getattr(pp, "randn_" + ty)(dtype=dtype)
    ev = []
    off = {"SO3": 0, "SE3": 3, "RxSO3": 0, "Sim3": 3}[ty]
    gens = getattr(pp, "randn_" + ty)(16, sigma=0.3, dtype=dtype)
    algs = getattr(pp, "randn_" + L.ALG[ty])(16, sigma=1.0, dtype=dtype)
    algs = pp.LieTensor(algs.tensor() * step * torch.logspace(-1, 1, 16, dtype=dtype).unsqueeze(-1), ltype=algs.ltype)
    for k in range(1, n + 1):
        r = ctx.rng.random()
        small = step < 0.01
        if r < (0.1 if small else 0.4):
            X = X @ gens[k % 16]
        elif r < (0.2 if small else 0.7):
            X = gens[(k * 7) % 16] @ X
        elif r < (0.25 if small else 0.8):
            X = X.Inv()
        elif r < (0.6 if small else 0.9):
            X = X.Retr(algs[k % 16])
        else:
            X = X.clone()
            X.add_(algs[(k * 3) % 16])
        if k % every == 0 or k == n:
            q = X.tensor()[off:off + 4].double()
            dev = abs(float(q.norm()) - 1.0) / eps
            s = float(X.scale()) if ty in ("RxSO3", "Sim3") else 1.0
            fin = bool(torch.isfinite(X.tensor()).all())
            ev.append({"op": "drift", "ty": ty, "n": k, "dev": int(min(dev, 10 ** 9)), "spos": bool(s > 0), "finite": fin})
    return {"cfg": {"ty": ty, "dtype": str(dtype), "kind": "drift"}, "ev": ev}


def constructor_events(ctx):
    """randn_* / identity_* / *_like for the eight types (growth: Constructors.tla)."""
    import torch
    pp = pypose()
    rng = ctx.rng
    ev = []
    types8 = ["SO3", "SE3", "RxSO3", "Sim3", "so3", "se3", "rxso3", "sim3"]
    gdim = {"SO3": 4, "SE3": 7, "RxSO3": 5, "Sim3": 8}
    for ty in types8:
        for lsize in ([], [0], [1], [3], [2, 3], [2, 0], [1, 2, 2]):
            for fn in ("randn", "identity", "randn_like", "identity_like"):
                dt = rng.choice([None, torch.float64, torch.float32])
                rg = rng.random() < 0.3
                sig = rng.choice(["default", "float", "zero", "tuple"]) if fn.startswith("randn") else "na"
                kw = {}
                if dt is not None:
                    kw["dtype"] = dt
                if rg:
                    kw["requires_grad"] = True
                if sig == "float":
                    kw["sigma"] = 0.3
                elif sig == "zero":
                    kw["sigma"] = 0.0
                elif sig == "tuple":
                    kw["sigma"] = {"SO3": 0.2, "so3": 0.2, "SE3": (0.5, 0.2), "se3": (0.5, 0.2), "RxSO3": (0.2, 0.1),
                                   "rxso3": (0.2, 0.1), "Sim3": (0.5, 0.2, 0.1), "sim3": (0.5, 0.2, 0.1)}[ty]
                e = {"fn": fn, "ty": ty, "lsize": lsize, "want_dtype": str(dt or torch.get_default_dtype()),
                     "want_req": rg, "sigma_zero": sig == "zero", "raised": False}
                try:
                    if fn == "randn":
                        X = getattr(pp, "randn_" + ty)(*lsize, **kw)
                    elif fn == "identity":
                        kw.pop("sigma", None)
                        X = getattr(pp, "identity_" + ty)(*lsize, **kw)
                    else:
                        # documented: the size and ltype come from the prototype, the dtype from the keyword
                        # (global default when omitted) -- NOT from the prototype
                        proto = getattr(pp, "identity_" + ty)(*lsize, dtype=torch.float64)
                        X = pp.randn_like(proto, **kw) if fn == "randn_like" else \
                            pp.identity_like(proto, **{k: v for k, v in kw.items() if k != "sigma"})
                except Exception as ex:
                    e.update({"raised": True, "msg": repr(ex)[:160], "shape": [], "ltype": "", "dtype": "", "req": False,
                              "finite": False, "is_identity": False, "unit_err": 0, "spos": False})
                    ev.append(e)
                    continue
                t = X.tensor()
                ident = getattr(pp, "identity_" + ty)(dtype=t.dtype).tensor()
                e.update({"shape": list(X.shape), "ltype": [k for k in types8 if X.ltype == getattr(pp, k + "_type")][0] if isinstance(X, pp.LieTensor) else "Tensor",
                          "dtype": str(X.dtype), "req": bool(X.requires_grad), "finite": bool(torch.isfinite(t).all()),
                          "is_identity": bool((t == ident).all()), "unit_err": 0, "spos": True})
                if ty in gdim and t.numel() > 0:
                    off = 3 if ty in ("SE3", "Sim3") else 0
                    q = t[..., off:off + 4].double()
                    e["unit_err"] = int(min(10 ** 9, float(((q.norm(dim=-1) - 1).abs().max()) / float(torch.finfo(t.dtype).eps))))
                    if ty in ("RxSO3", "Sim3"):
                        e["spos"] = bool((t[..., -1] > 0).all())
                ev.append(e)
    return ev


def judge(ctx, traces, verdicts):
    for tr, v in zip(traces, verdicts):
        if v != "ok":
            clause, at = v.split("@")
            e = tr["ev"][int(at) - 1]
            ty = e.get("ty", tr["cfg"].get("ty"))
            ctx.violation("%s/%s/%s" % (tr["cfg"]["kind"], ty, clause),
                          "%s %s event %s rejected by LieTrace: clause %s; event=%s"
                          % (tr["cfg"].get("dtype"), ty, at, clause, json.dumps(e)[:600]),
                          {"trace": {"cfg": tr["cfg"], "ev": [e] if tr["cfg"]["kind"] == "stateless" else tr["ev"][:int(at)]}})


def run(ctx):
    import torch
    pypose()
    q = ctx.quick
    ctx.rule = ["TLC: every element of the lattice box (24 Hurwitz units x integer translations x 2^k scales) reached by "
                "histories of @ / Inv / Retr from a generating set; 14 invariants (homomorphism via ghost matrix, blocks, "
                "two-sided inverse, neutral identity, action = matrix, composition, associativity, Adj laws)",
                "conformance: real @, *, Inv, Act (3/4-vectors), matrix, rotation, translation, scale, identity on lattice "
                "batches, every result recomputed by TLC from LieExact and compared exactly (quaternion modulo sign); "
                "tlc -simulate behaviours replayed on a real LieTensor; distinct = distinct (op, ty, inputs)"]
    ctx.assumptions = ["IEEE arithmetic is exact on the lattice (float32 and float64); off-lattice outputs within 64 eps are snapped",
                       "generic (non-lattice) elements are only checked for validity drift (unit norm within 8 n eps, positive scale)"]
    if ctx.replay:
        case = json.load(open(ctx.replay))["case"]
        tr = case["trace"]
        if case.get("spec") == "Constructors":
            v = ctx.validate("Constructors", "Constructors.cfg", [tr], "replay")[0]
            if v != "ok":
                ctx.violation("constructors/replayed/%s" % v.split("@")[0], "recorded constructor event still rejected", {"trace": tr, "spec": "Constructors"})
            return
        judge(ctx, [tr], ctx.validate("LieTrace", "LieTrace.cfg", [tr], "replay"))
        ctx.notes.append("replay re-validates the recorded events; re-run the check to regenerate them from the current tree")
        return
    for ty in L.TYPES:
        ctx.tlc("LieGroupMC", "LieGroupMC_%s%s.cfg" % (ty, "" if q else "_t"), workers=16, timeout=7200)
    for r in ctx.tlc_runs:
        if r["violated"]:
            ctx.violation("design/%s/%s" % (r["cfg"], r["violated"][0]), "LieGroupMC violates %s" % r["violated"])
    traces = []
    for ty in L.TYPES:
        for dtype in (torch.float64, torch.float32):
            ev = stateless_events(ctx, ty, dtype, 40 if q else 400)
            if not q or (ty, dtype) in (("SO3", torch.float64), ("Sim3", torch.float32)):
                ev += exhaustive_pairs(ctx, ty, dtype)
            for e in ev:
                ctx.cover("%s:%s:%s:%s:%s" % (e["op"], ty, e.get("x"), e.get("y"), e.get("p")))
            # batch events into traces of 50 (verdict names the first failing event of a trace)
            for i in range(0, len(ev), 50):
                traces.append({"cfg": {"ty": ty, "dtype": str(dtype), "kind": "stateless"}, "ev": ev[i:i + 50]})
            traces += replay_behaviours(ctx, ty, dtype, 6 if q else 60, 40 if q else 120)
            traces.append(drift_events(ctx, ty, dtype, 2000 if q else 10000, 250))
            tiny = 1e-6 if dtype == torch.float64 else 1e-3
            traces.append(drift_events(ctx, ty, dtype, 2000 if q else 10000, 250, step=tiny))
            # steps around the small-angle switch-overs (eps^(1/4), eps^(1/6)): a biased series there drifts linearly
            mid = 1e-3 if dtype == torch.float64 else 2e-2
            traces.append(drift_events(ctx, ty, dtype, 2000 if q else 10000, 250, step=mid))
    ntr = [{"cfg": {"ty": ty, "kind": "extreme_scale"}, "ev": extreme_scale_events(ctx, ty, dtype)}
           for ty in ("RxSO3", "Sim3") for dtype in (torch.float64, torch.float32)]
    for tr, v in zip(ntr, ctx.validate("LieNumTrace", "LieNumTrace.cfg", ntr, "num")):
        if v != "ok":
            clause, at = v.split("@")
            e = tr["ev"][int(at) - 1]
            ctx.violation("extreme_scale/%s/%s" % (tr["cfg"]["ty"], clause),
                          "%s %s with scale 2^%d: Inv is not a two-sided inverse (error %s eps)" % (e["dt"], e["ty"], e["cell"]["scale_exp"], e["err"]),
                          {"trace": tr, "spec": "LieNumTrace"})
    ctx.sample(traces[0]["ev"][0])
    ctx.sample([t for t in traces if t["cfg"]["kind"] == "history"][0]["ev"][0])
    ctx.sample([t for t in traces if t["cfg"]["kind"] == "drift"][0]["ev"][-1])
    ctx.extra["events"] = sum(len(t["ev"]) for t in traces)
    verdicts = ctx.validate("LieTrace", "LieTrace.cfg", traces, "lie", chunk=400, workers=1)
    judge(ctx, traces, verdicts)
    # growth beyond the property: typing of the constructors (identity constructors are part of the statement)
    cev = constructor_events(ctx)
    ctr = [{"cfg": {"kind": "constructors"}, "ev": cev[i:i + 28]} for i in range(0, len(cev), 28)]
    for tr, v in zip(ctr, ctx.validate("Constructors", "Constructors.cfg", ctr, "ctor", chunk=400)):
        for e in tr["ev"]:
            ctx.cover("ctor:%s:%s:%s" % (e["fn"], e["ty"], e["lsize"]))
        if v != "ok":
            clause, at = v.split("@")
            e = tr["ev"][int(at) - 1]
            ctx.violation("constructors/%s/%s/%s" % (e["fn"], e["ty"], clause),
                          "%s_%s(*%s): clause %s (%s)" % (e["fn"], e["ty"], e["lsize"], clause, {k: e[k] for k in e if k not in ("fn", "ty", "lsize")}),
                          {"trace": {"cfg": {"kind": "constructors", "ty": e["ty"]}, "ev": [e]}, "spec": "Constructors"})
    ctx.extra["constructor_calls"] = len(cev)


def selftest(ctx):
    import torch
    pypose()
    ev = stateless_events(ctx, "SE3", torch.float64, 3)
    good = {"cfg": {"ty": "SE3", "kind": "stateless"}, "ev": ev}
    bad1 = json.loads(json.dumps(good))
    bad1["ev"][0]["out"][0] = [bad1["ev"][0]["out"][0][0] + 1, bad1["ev"][0]["out"][0][1]]
    hist = replay_behaviours(ctx, "SE3", torch.float64, 1, 8)[0]
    bad2 = json.loads(json.dumps(hist))
    del bad2["ev"][2]
    v = ctx.validate("LieTrace", "LieTrace.cfg", [good, bad1, hist, bad2], "selftest")
    print("selftest verdicts:", v)
    assert v[0] == "ok" and v[1] != "ok" and v[2] == "ok" and v[3] != "ok", v
    return 0
