"""C19 -- splines interpolate and are equivariant; APE/RPE are alignment-invariant (Mode E + R).

Specs: Spline.tla / Assoc.tla (design, exhaustive on small lattices), SplineTrace.tla / AssocTrace.tla
(recorded calls of the real code), SplineGen.tla / AssocGen.tla (tables replayed on the real code).

Every trace is made by a `make_*` function from a small JSON-able parameter record (stored in
cfg["params"]), so a violation is replayed by calling the same function again on the current tree.
"""
import itertools
import json
import math
import os
import random
from fractions import Fraction as F

from vlib.core import MachineryError, pypose

CAP = 10 ** 9
SNAP = 64          # lattice snapping: within SNAP * eps * max(1, |v|) of a lattice value (DESIGN.md section 6)


# ------------------------------------------------------------------------------------------- numbers
def _torch():
    pypose()
    import torch
    return torch


def dt_of(name):
    torch = _torch()
    return {"f64": torch.float64, "f32": torch.float32}[name]


def eps_of(name):
    return 2.0 ** -52 if name == "f64" else 2.0 ** -23


def snap(x, den, eps):
    """Nearest lattice numerator of x over den and whether x is off the lattice."""
    x = float(x)
    if not math.isfinite(x):
        return 0, True
    fx = F(x) * den
    n = round(fx)
    off = abs(F(x) - F(n, den)) > F(SNAP * eps) * max(1, abs(F(x)))
    if abs(n) >= 2 ** 30:
        return 0, True
    return int(n), bool(off)


def snap_frac(x, eps, maxden=512):
    """x as a fraction [num, den] with a small denominator, and whether it is one."""
    x = float(x)
    if not math.isfinite(x):
        return [0, 1], True
    f = F(x).limit_denominator(maxden)
    off = abs(F(x) - f) > F(SNAP * eps) * max(1, abs(F(x)))
    if abs(f.numerator) >= 2 ** 30:
        return [0, 1], True
    return [int(f.numerator), int(f.denominator)], bool(off)


def ulps(err, scale, eps):
    err = float(err)
    if not math.isfinite(err):
        return CAP
    return int(min(CAP, math.ceil(err / (eps * max(1.0, float(scale))))))


def mant_exp(x):
    """x = M / 2^E with 2^52 <= M < 2^53."""
    m, e = math.frexp(x)
    M = int(m * 2 ** 53)
    if not (0 < x < 1) or F(M, 2 ** (53 - e)) != F(x):
        raise MachineryError("interval %r is not a normal float in (0,1)" % x)
    return M, 53 - e


def limbs(M):
    return [(M >> (15 * i)) & 0x7FFF for i in range(6)]


def pose_dist(a, b, eps):
    """Distance of two SE3 LieTensors as transformations, in ulps: translation relative to
    max(1, |t|), quaternion modulo sign."""
    torch = _torch()
    a = a.tensor() if hasattr(a, "tensor") else a
    b = b.tensor() if hasattr(b, "tensor") else b
    if a.shape != b.shape:
        return CAP
    ta, tb, qa, qb = a[..., :3], b[..., :3], a[..., 3:], b[..., 3:]
    sgn = torch.sign((qa * qb).sum(-1, keepdim=True))
    sgn[sgn == 0] = 1
    scale = max(1.0, float(ta.abs().max()), float(tb.abs().max()))
    return max(ulps((ta - tb).abs().max(), scale, eps), ulps((qa - sgn * qb).abs().max(), 1.0, eps))


def hurwitz24():
    units = []
    for s in (1.0, -1.0):
        for k in range(4):
            q = [0.0, 0.0, 0.0, 0.0]
            q[k] = s
            units.append(q)
    for signs in itertools.product((0.5, -0.5), repeat=4):
        units.append(list(signs))
    return units


def cube24():
    mats = []
    for perm in itertools.permutations(range(3)):
        for sg in itertools.product((1, -1), repeat=3):
            M = [[0] * 3 for _ in range(3)]
            for r in range(3):
                M[r][perm[r]] = sg[r]
            det = (M[0][0] * (M[1][1] * M[2][2] - M[1][2] * M[2][1]) - M[0][1] * (M[1][0] * M[2][2] - M[1][2] * M[2][0])
                   + M[0][2] * (M[1][0] * M[2][1] - M[1][1] * M[2][0]))
            if det == 1:
                mats.append(M)
    return mats


def with_nev(cfg, ev):
    cfg = dict(cfg)
    cfg["nev"] = len(ev)
    return {"cfg": cfg, "ev": ev}


def raised(cfg, ex):
    return with_nev(cfg, [{"act": "raise", "msg": repr(ex)[:200]}])


# ------------------------------------------------------------------------------------------- chspline, lattice
def int_points(rng, shape, line, pmax=8):
    """Nested lists of integers of the given shape (batch..., N, dim); lines are a + b*i per coordinate."""
    if len(shape) == 2:
        N, dim = shape
        if line:
            a = [rng.randint(-pmax // 2, pmax // 2) for _ in range(dim)]
            b = [rng.randint(-2, 2) for _ in range(dim)]
            return [[a[c] + b[c] * i for c in range(dim)] for i in range(N)]
        return [[rng.randint(-pmax, pmax) for _ in range(dim)] for _ in range(N)]
    return [int_points(rng, shape[1:], line, pmax) for _ in range(shape[0])]


def flat_batch(x, nb):
    """(batch..., N, C) nested list -> list of (N, C) elements in row-major batch order."""
    if nb == 0:
        return [x]
    for _ in range(nb - 1):
        x = [e for sub in x for e in sub]
    return x


def pick_elems(rng, elems, maxb):
    """At most maxb batch elements (first, last, random ones) as (index, element)."""
    idx = list(range(len(elems)))
    if len(idx) > maxb:
        idx = sorted(list(dict.fromkeys([0, len(idx) - 1] + rng.sample(idx, maxb)))[:maxb])
    return [(b, elems[b]) for b in idx]


def make_ch(P):
    """chspline on integer points with interval 2^-m; one trace per batch element."""
    torch = _torch()
    pp = pypose()
    rng = random.Random(P["seed"])
    N, m, dim, batch, dn = P["N"], P["m"], P["dim"], P["batch"], P["dtype"]
    eps = eps_of(dn)
    pts = P.get("pts") or int_points(rng, list(batch) + [N, dim], P.get("line", False))
    x = torch.tensor(pts, dtype=dt_of(dn))
    den = 2 * 8 ** m
    elems = flat_batch(pts, len(batch))
    base = {"kind": "ch", "N": N, "m": m, "dtype": dn, "ext": False}
    try:
        out = pp.chspline(x, 2.0 ** -m)
    except Exception as ex:
        return [raised(dict(base, p=elems[0], params=P, b=0), ex)]
    traces = []
    batch_ok = list(out.shape[:-2]) == list(batch) and out.dim() == len(batch) + 2
    o = out.reshape(-1, out.shape[-2], out.shape[-1]) if batch_ok else out.reshape(1, -1, out.shape[-1])
    for b, p in pick_elems(rng, elems, P.get("maxb", 3)):
        ob = o[min(b, o.shape[0] - 1)]
        ev = [{"act": "shape", "count": int(ob.shape[0]), "dim": int(ob.shape[1]), "batch": bool(batch_ok)}]
        for s in range(min(int(ob.shape[0]), 4000)):
            sn = [snap(v, den, eps) for v in ob[s].tolist()]
            ev.append({"act": "row", "s": s, "v": [a for a, _ in sn], "off": any(f for _, f in sn)})
        ev.append({"act": "end"})
        traces.append(with_nev(dict(base, p=p, params=P, b=b), ev))
    return traces


def make_cnt(P):
    """Sample count of chspline / bspline for an arbitrary float interval."""
    torch = _torch()
    pp = pypose()
    iv = float.fromhex(P["iv"])
    M, E = mant_exp(iv)
    torch.manual_seed(P["seed"])
    cfg = {"kind": "cnt", "fn": P["fn"], "N": P["N"], "mant": limbs(M), "exp": E, "ext": bool(P.get("ext", False)),
           "dtype": P["dtype"], "params": P}
    try:
        if P["fn"] == "chspline":
            out = pp.chspline(torch.randn(P["N"], 2, dtype=dt_of(P["dtype"])), iv)
        else:
            out = pp.bspline(pp.randn_SE3(P["N"], dtype=dt_of(P["dtype"])), iv, bool(P.get("ext", False)))
    except Exception as ex:
        return [raised(cfg, ex)]
    return [with_nev(cfg, [{"act": "count", "count": int(out.shape[-2])}])]


def make_chR(P):
    """chspline on real points and arbitrary intervals: knots and straight lines, in ulps."""
    torch = _torch()
    pp = pypose()
    iv = float.fromhex(P["iv"])
    dn = P["dtype"]
    eps, dt = eps_of(dn), dt_of(dn)
    torch.manual_seed(P["seed"])
    N, dim, batch = P["N"], P["dim"], list(P["batch"])
    cfg = {"kind": "chR", "N": N, "dim": dim, "batch": batch, "dtype": dn, "params": P}
    ev = []
    try:
        pts = torch.randn(batch + [N, dim], dtype=dt) * P.get("scale", 1.0)
        keep = pts.clone()
        out = pp.chspline(pts, iv)
        cnt = out.shape[-2]
        if (cnt - 1) % (N - 1) != 0 or list(out.shape[:-2]) != batch:
            ev.append({"act": "knots", "ulps": CAP, "why": "shape %s" % list(out.shape)})
        else:
            k = (cnt - 1) // (N - 1)
            ev.append({"act": "knots", "ulps": ulps((out[..., ::k, :] - keep).abs().max(), keep.abs().max(), eps)})
        a = torch.randn(batch + [1, dim], dtype=dt)
        b = torch.randn(batch + [1, dim], dtype=dt)
        line = a + b * torch.arange(N, dtype=dt).view(-1, 1)
        out = pp.chspline(line.clone(), iv)
        cnt = out.shape[-2]
        if (cnt - 1) % (N - 1) != 0:
            ev.append({"act": "line", "ulps": CAP, "why": "shape %s" % list(out.shape)})
        else:
            k = (cnt - 1) // (N - 1)
            # exact sample times i + r * interval on the float's rational value
            worst = F(0)
            fa, fb = a.reshape(-1, dim).tolist(), b.reshape(-1, dim).tolist()
            fo = out.reshape(-1, cnt, dim).tolist()
            scale = max(1.0, float(line.abs().max()))
            fiv = F(iv)
            for bi in range(len(fa)):
                for s in range(cnt):
                    t = F(s // k) + (s % k) * fiv
                    for c in range(dim):
                        w = F(fa[bi][c]) + F(fb[bi][c]) * t
                        worst = max(worst, abs(F(fo[bi][s][c]) - w))
            ev.append({"act": "line", "ulps": ulps(float(worst), scale, eps)})
    except Exception as ex:
        return [raised(cfg, ex)]
    return [with_nev(cfg, ev)]


# ------------------------------------------------------------------------------------------- bspline
def make_bsx(P):
    """bspline on pure translations with integer coordinates, interval 2^-m; one trace per batch element."""
    torch = _torch()
    pp = pypose()
    rng = random.Random(P["seed"])
    N, m, ext, batch, dn = P["N"], P["m"], bool(P["ext"]), P["batch"], P["dtype"]
    eps = eps_of(dn)
    pts = P.get("pts") or int_points(rng, list(batch) + [N, 3], P.get("line", False), pmax=5)
    t = torch.tensor(pts, dtype=dt_of(dn))
    q = torch.zeros(t.shape[:-1] + (4,), dtype=dt_of(dn))
    q[..., 3] = 1
    data = pp.SE3(torch.cat([t, q], -1))
    den = 6 * 8 ** m
    elems = flat_batch(pts, len(batch))
    base = {"kind": "bsx", "N": N, "m": m, "dtype": dn, "ext": ext}
    try:
        out = pp.bspline(data, 2.0 ** -m, ext).tensor()
    except Exception as ex:
        return [raised(dict(base, p=elems[0], params=P, b=0), ex)]
    batch_ok = list(out.shape[:-2]) == list(batch) and out.dim() == len(batch) + 2
    o = out.reshape(-1, out.shape[-2], out.shape[-1]) if batch_ok else out.reshape(1, -1, out.shape[-1])
    traces = []
    for b, p in pick_elems(rng, elems, P.get("maxb", 3)):
        ob = o[min(b, o.shape[0] - 1)]
        ev = [{"act": "shape", "count": int(ob.shape[0]), "dim": int(ob.shape[1]), "batch": bool(batch_ok)}]
        for s in range(min(int(ob.shape[0]), 4000)):
            row = ob[s].tolist()
            sn = [snap(v, den, eps) for v in row[:3]]
            qq = row[3:7]
            sg = -1.0 if len(qq) == 4 and qq[3] < 0 else 1.0
            rot_id = len(qq) == 4 and all(abs(sg * qq[i] - (1.0 if i == 3 else 0.0)) <= SNAP * eps for i in range(4))
            ev.append({"act": "row", "s": s, "v": [a for a, _ in sn], "off": any(f for _, f in sn),
                       "rot_id": bool(rot_id)})
        ev.append({"act": "end"})
        traces.append(with_nev(dict(base, p=p, params=P, b=b), ev))
    return traces


def scaled_SE3(pp, torch, shape, dt, tscale, sigma):
    x = pp.randn_SE3(*shape, sigma=sigma, dtype=dt).tensor()
    return pp.SE3(torch.cat([x[..., :3] * tscale, x[..., 3:]], -1))


def make_bsR(P):
    """bspline on general SE3 poses: continuity across segments, constant twist, left-equivariance, end poses."""
    torch = _torch()
    pp = pypose()
    iv = float.fromhex(P["iv"])
    dn = P["dtype"]
    eps, dt = eps_of(dn), dt_of(dn)
    torch.manual_seed(P["seed"])
    rng = random.Random(P["seed"])
    N, batch = P["N"], list(P["batch"])
    cfg = {"kind": "bsR", "N": N, "batch": batch, "dtype": dn, "params": P}
    ev = []
    try:
        data = scaled_SE3(pp, torch, batch + [N], dt, P.get("tscale", 1.0), P.get("sigma", 1.0))
        # --- left-equivariance under a lattice pose and under a random pose, both extrapolate settings
        H = hurwitz24()
        for ext in ((False, True) if N >= 4 else (True,)):
            out = pp.bspline(data, iv, ext)
            for lattice in (True, False):
                if lattice:
                    G = pp.SE3(torch.tensor([float(rng.randint(-3, 3)) for _ in range(3)] + rng.choice(H), dtype=dt))
                else:
                    G = scaled_SE3(pp, torch, [1], dt, 2.0, 1.0)[0]
                lhs = pp.bspline(G @ data, iv, ext)
                ev.append({"act": "equiv", "ulps": pose_dist(lhs, G @ out, eps), "ext": ext, "lattice": lattice})
            if ext:
                ev.append({"act": "ends", "first": pose_dist(out[..., 0, :], data[..., 0, :], eps),
                           "last": pose_dist(out[..., -1, :], data[..., -1, :], eps)})
        if N >= 4:
            out = pp.bspline(data, iv, False)
            cnt = out.shape[-2]
            # --- continuity: the end pose of the spline through poses j..j+3 (segment j at u = 1)
            #     is the first sample of segment j+1 of the full spline (u = 0)
            if (cnt - 1) % (N - 3) != 0:
                ev.append({"act": "cont", "j": 0, "ulps": CAP, "why": "shape %s" % list(out.shape)})
            else:
                k = (cnt - 1) // (N - 3)
                js = list(range(N - 4))
                if len(js) > 8:
                    js = sorted(set([0, N - 5] + rng.sample(js, 6)))
                for j in js:
                    left = pp.bspline(data[..., j:j + 4, :], iv, False)[..., -1, :]
                    ev.append({"act": "cont", "j": j, "ulps": pose_dist(left, out[..., (j + 1) * k, :], eps)})
            # --- constant twist  T_i = T0 @ Exp(i xi): sample r of segment j is T0 @ Exp((j + 1 + r*interval) xi)
            ang = P.get("angle", 0.3)
            w = torch.randn(batch + [1, 3], dtype=dt)
            w = w / w.norm(dim=-1, keepdim=True) * ang
            v = torch.randn(batch + [1, 3], dtype=dt) * P.get("vscale", 0.5)
            xi = pp.se3(torch.cat([v, w], -1))
            T0 = scaled_SE3(pp, torch, batch + [1], dt, 1.0, 1.0)
            ts = torch.arange(N, dtype=dt).view(-1, 1)
            tw = T0 @ pp.se3(xi.tensor() * ts).Exp()
            out = pp.bspline(tw, iv, False)
            cnt = out.shape[-2]
            if (cnt - 1) % (N - 3) != 0:
                ev.append({"act": "twist", "ulps": CAP, "why": "shape %s" % list(out.shape)})
            else:
                k = (cnt - 1) // (N - 3)
                tt = [float(F(j + 1) + r * F(iv)) for j in range(N - 3) for r in range(k)] + [float(N - 2)]
                tt = torch.tensor(tt, dtype=dt).view(-1, 1)
                want = T0 @ pp.se3(xi.tensor() * tt).Exp()
                ev.append({"act": "twist", "ulps": pose_dist(out, want, eps)})
    except Exception as ex:
        return [raised(cfg, ex)]
    return [with_nev(cfg, ev)]


# ------------------------------------------------------------------------------------------- association, pairing
def metric_mod():
    pypose()
    import importlib
    try:
        return importlib.import_module("pypose.metric.ape_rpe")
    except Exception as ex:   # pragma: no cover
        raise MachineryError("cannot import pypose.metric.ape_rpe: %r" % ex)


def call_match(s1, s2, d, off=0):
    torch = _torch()
    mm = metric_mod()
    a, b = mm.matching_time_indices(torch.tensor(s1, dtype=torch.float64), torch.tensor(s2, dtype=torch.float64),
                                    max_diff=float(d), offset_2=float(off))
    return [int(x) for x in a], [int(x) for x in b]


def make_match(P):
    cfg = {"kind": "match", "s1": P["s1"], "s2": P["s2"], "d": P["d"], "off": P.get("off", 0), "params": P}
    try:
        a, b = call_match(P["s1"], P["s2"], P["d"], P.get("off", 0))
    except Exception as ex:
        return [raised(cfg, ex)]
    return [with_nev(cfg, [{"act": "match", "a": a, "b": b}])]


def line_traj(cd, dtype=None):
    """SE3 poses on the x axis at the given integer path lengths (identity rotations)."""
    torch = _torch()
    pp = pypose()
    x = torch.zeros(len(cd), 7, dtype=torch.float64)
    x[:, 0] = torch.tensor([float(c) for c in cd], dtype=torch.float64)
    x[:, 6] = 1
    return pp.SE3(x)


def call_pairs(mode, n, dl, all_, cd=None, tol=0):
    mm = metric_mod()
    if mode == "frame":
        traj = mm.StampedSE3(None, line_traj(list(range(n))))
        a, b = mm.pair_id(traj, delta=float(dl), associate="frame", all=all_)
    else:
        rtol = tol / dl
        if float(dl) * rtol != float(tol):
            return None
        traj = mm.StampedSE3(None, line_traj(cd))
        a, b = mm.pair_id(traj, delta=float(dl), associate="distance", rtol=rtol, all=all_)
    return [int(x) for x in a], [int(x) for x in b]


def make_pairs(P):
    cfg = {"kind": "pairs", "mode": P["mode"], "n": P.get("n", 0), "dl": P["dl"], "all": bool(P["all"]),
           "cd": P.get("cd", [0]), "tol": P.get("tol", 0), "params": P}
    try:
        r = call_pairs(P["mode"], P.get("n", 0), P["dl"], bool(P["all"]), P.get("cd"), P.get("tol", 0))
    except Exception as ex:
        return [raised(cfg, ex)]
    if r is None:
        return []
    return [with_nev(cfg, [{"act": "pairs", "a": r[0], "b": r[1]}])]


# ------------------------------------------------------------------------------------------- ape / rpe exact pipeline
PYTH = [(1, 0, 0), (0, 1, 0), (0, 0, 1), (1, 2, 2), (2, 1, 2), (2, 2, 1), (3, 4, 0), (0, 3, 4), (4, 0, 3), (2, 3, 6)]


def make_apex(P):
    """ape / rpe (translation error) on integer trajectories: everything is recomputed by TLC from the inputs."""
    torch = _torch()
    pp = pypose()
    rng = random.Random(P["seed"])
    d, nf, metric = P["d"], P["nf"], P["metric"]
    period = 4 * d
    need = 1 if metric == "ape" else P["dl"] + 1
    if nf < need:
        raise MachineryError("apex: %d frames cannot give %d associated poses" % (nf, need))
    for attempt in range(50):
        keep = P.get("keep", 0.85) if attempt < 40 else 1.0
        R = [f for f in range(nf) if rng.random() < keep]
        E = [f for f in range(nf) if rng.random() < keep]
        if R and E and len(set(R) & set(E)) >= need:
            break
    else:
        raise MachineryError("apex: no admissible frame subsets")
    rs = [period * f for f in R]
    es = [period * f + rng.randint(-(d - 1), d - 1) for f in E]
    pos = [[0, 0, 0]]
    for _ in range(nf - 1):
        pos.append([pos[-1][c] + rng.randint(-2, 2) for c in range(3)])
    u = rng.choice(PYTH)
    u = [x * rng.choice((1, -1)) for x in u]
    coef = [rng.randint(-2, 2) for _ in range(nf)]
    if P.get("identical"):
        coef = [0] * nf
    rp = [pos[f] for f in R]
    ep = [[pos[f][c] + coef[f] * u[c] for c in range(3)] for f in E]
    q = rng.choice(hurwitz24())
    rpose = pp.SE3(torch.tensor([[float(v) for v in p] + q for p in rp], dtype=torch.float64))
    epose = pp.SE3(torch.tensor([[float(v) for v in p] + q for p in ep], dtype=torch.float64))
    rst = torch.tensor([float(v) for v in rs], dtype=torch.float64)
    est = torch.tensor([float(v) for v in es], dtype=torch.float64)
    cfg = {"kind": "apex", "metric": metric, "rs": rs, "es": es, "d": d, "rp": rp, "ep": ep,
           "dl": P.get("dl", 1), "all": bool(P.get("all", False)), "params": P}
    eps = eps_of("f64")
    try:
        if metric == "ape":
            res = pp.metric.ape(rst.clone(), rpose, est.clone(), epose, etype="translation", diff=float(d), thresh=0.0)
        else:
            res = pp.metric.rpe(rst.clone(), rpose, est.clone(), epose, etype="translation", diff=float(d), thresh=0.0,
                                delta=float(P["dl"]), all=bool(P["all"]), rpair=bool(P.get("rpair", False)))
    except Exception as ex:
        return [raised(cfg, ex)]
    e = {"act": "stats"}
    off = False
    for key, val in (("Max", res["Max"]), ("Min", res["Min"]), ("Mean", res["Mean"]), ("SSE", res["SSE"]),
                     ("RMSE2", float(res["RMSE"]) ** 2)):
        fr, o = snap_frac(float(val), eps)
        e[key] = fr
        off = off or o
    e["off"] = off
    return [with_nev(cfg, [e])]


# ------------------------------------------------------------------------------------------- geodesic loss
def make_geo(P):
    """geodesic_loss on rotations of the cube; outputs in units of pi/6 and residual ulps."""
    torch = _torch()
    pp = pypose()
    rng = random.Random(P["seed"])
    C = cube24()
    dn, red, lt = P["dtype"], P["red"], P["ltype"]
    dt, eps = dt_of(dn), eps_of(dn)
    ia, ib = P["ia"], P["ib"]
    n = len(ia)

    def build(ids):
        Rm = torch.tensor([C[i] for i in ids], dtype=torch.float64)
        q = pp.mat2SO3(Rm).tensor()
        sg = torch.tensor([[rng.choice((1.0, -1.0))] for _ in ids], dtype=torch.float64)
        q = (q * sg).to(dt)
        t = torch.tensor([[float(rng.randint(-3, 3)) for _ in range(3)] for _ in ids], dtype=dt)
        s = torch.tensor([[rng.choice((0.5, 1.0, 2.0))] for _ in ids], dtype=dt)
        if lt == "SO3":
            return pp.SO3(q)
        if lt == "SE3":
            return pp.SE3(torch.cat([t, q], -1))
        if lt == "RxSO3":
            return pp.RxSO3(torch.cat([q, s], -1))
        if lt == "Sim3":
            return pp.Sim3(torch.cat([t, q, s], -1))
        if lt == "so3":
            return pp.SO3(q).Log()
        if lt == "se3":
            return pp.SE3(torch.cat([t, q], -1)).Log()
        raise MachineryError("ltype %s" % lt)

    cfg = {"kind": "geo", "red": red, "ltype": lt, "dtype": dn, "module": bool(P.get("module", False)), "params": P}
    ev = []
    try:
        x, y = build(ia), build(ib)
        if red != "none" and n >= 4 and n % 2 == 0:
            # the reductions are over ALL batch items whatever the batch shape: a 2 x n/2 batch of the same items
            x = pp.LieTensor(x.tensor().reshape(2, n // 2, -1), ltype=x.ltype)
            y = pp.LieTensor(y.tensor().reshape(2, n // 2, -1), ltype=y.ltype)
        for (u, v, ra, rb) in ((x, y, ia, ib), (y, x, ib, ia)):      # both argument orders
            if P.get("module"):
                out = pp.module.GeodesicLoss(reduction=red)(u, v)
            else:
                out = pp.geodesic_loss(u, v, reduction=red)
            vals = out.reshape(-1).tolist() if red == "none" else [float(out) * (n if red == "mean" else 1)]
            if red == "none" and list(out.shape) != [n]:
                ev.append({"act": "raise", "msg": "output shape %s for batch %d" % (list(out.shape), n)})
                continue
            u6, res = [], 0
            for val in vals:
                k = round(val / (math.pi / 6)) if math.isfinite(val) else -1
                u6.append(int(k))
                res = max(res, ulps(abs(val - k * math.pi / 6), abs(val), eps) if math.isfinite(val) else CAP)
            ev.append({"act": "geo", "ra": [C[i] for i in ra], "rb": [C[i] for i in rb], "u6": u6, "res": res})
    except Exception as ex:
        return [raised(cfg, ex)]
    return [with_nev(cfg, ev)]


def make_geoR(P):
    """geodesic_loss on general rotations: against the angle 2 atan2(|v|, |w|) of the relative quaternion
    (computed here with an explicit Hamilton product in float64), symmetry and range, in ulps."""
    torch = _torch()
    pp = pypose()
    rng = random.Random(P["seed"])
    torch.manual_seed(P["seed"])
    dn, lt, n = P["dtype"], P["ltype"], P["n"]
    dt, eps = dt_of(dn), eps_of(dn)
    cfg = {"kind": "geo", "red": "none", "ltype": lt, "dtype": dn, "regime": P["regime"], "params": P}
    try:
        qx = pp.randn_SO3(n, sigma=2.0, dtype=torch.float64).tensor()
        if P["regime"] == "generic":
            qy = pp.randn_SO3(n, sigma=2.0, dtype=torch.float64).tensor()
        else:
            ang = {"tiny": 10.0 ** -rng.randint(3, 6), "small": 10.0 ** -rng.randint(1, 2),
                   "nearpi": math.pi - 10.0 ** -rng.randint(1, 5), "pi": math.pi}[P["regime"]]
            ax = torch.randn(n, 3, dtype=torch.float64)
            ax = ax / ax.norm(dim=-1, keepdim=True)
            dq = pp.so3(ax * ang).Exp()
            qy = (dq @ pp.SO3(qx)).tensor()
        sg = torch.tensor([[rng.choice((1.0, -1.0))] for _ in range(n)], dtype=torch.float64)
        qx, qy = qx.to(dt), (qy * sg).to(dt)
        t = torch.randn(n, 3, dtype=dt)
        sc = torch.rand(n, 1, dtype=dt) + 0.5

        def build(q, which):
            if lt == "SO3":
                return pp.SO3(q)
            if lt == "SE3":
                return pp.SE3(torch.cat([t * which, q], -1))
            if lt == "RxSO3":
                return pp.RxSO3(torch.cat([q, sc * which], -1))
            return pp.Sim3(torch.cat([t * which, q, sc * which], -1))

        x, y = build(qx, 1.0), build(qy, 2.0)
        g1 = pp.geodesic_loss(x, y, reduction="none").to(torch.float64)
        g2 = pp.geodesic_loss(y, x, reduction="none").to(torch.float64)
        # reference: relative quaternion a * conj(b) after normalising the (rounded) inputs, in float64
        a = qx.to(torch.float64)
        b = qy.to(torch.float64)
        a = a / a.norm(dim=-1, keepdim=True)
        b = b / b.norm(dim=-1, keepdim=True)
        av, aw, bv, bw = a[:, :3], a[:, 3:], -b[:, :3], b[:, 3:]
        rv = aw * bv + bw * av + torch.cross(av, bv, dim=-1)
        rw = aw * bw - (av * bv).sum(-1, keepdim=True)
        ref = 2 * torch.atan2(rv.norm(dim=-1), rw.abs().squeeze(-1))
        over = torch.clamp(torch.maximum(g1, g2) - math.pi, min=0).max()
        under = torch.clamp(-torch.minimum(g1, g2), min=0).max()
        ev = [{"act": "geoR", "ulps": ulps(max(float((g1 - ref).abs().max()), float((g2 - ref).abs().max())), 1.0, eps),
               "sym": ulps(float((g1 - g2).abs().max()), 1.0, eps),
               "range": ulps(max(float(over), float(under)), 1.0, eps),
               "shape": list(g1.shape) == [n]}]
    except Exception as ex:
        return [raised(cfg, ex)]
    return [with_nev(cfg, ev)]


# ------------------------------------------------------------------------------------------- ape / rpe measured clauses
STAT_KEYS = ("Max", "Min", "Mean", "Median", "RMSE", "SSE", "STD")


def unit_of(etype):
    return 180.0 / math.pi if etype == "degree" else 1.0


def order_event(res, etype, eps, what):
    sc = max(1.0, float(res["Max"]) / unit_of(etype)) * unit_of(etype)
    mx, rm, me, mn = (float(res[k]) for k in ("Max", "RMSE", "Mean", "Min"))
    d = [ulps(max(0.0, rm - mx), sc, eps) if rm > mx else 0,
         ulps(max(0.0, me - rm), sc, eps) if me > rm else 0,
         ulps(max(0.0, mn - me), sc, eps) if mn > me else 0,
         ulps(max(0.0, -mn), unit_of(etype), eps) if mn < 0 else 0]
    if any(not math.isfinite(v) for v in (mx, rm, me, mn)):
        d = [CAP] * 4
    return {"act": "order", "d": d, "of": what}


def well_spread(torch, t, planar=False):
    """The translations span space (or their plane) well enough for a well-conditioned alignment."""
    c = t - t.mean(0, keepdim=True)
    sv = torch.linalg.svdvals(c)
    return bool(sv[1] > 0.25 * sv[0]) and (planar or t.shape[0] < 4 or bool(sv[2] > 0.05 * sv[0]))


def make_met(P):
    """Measured clauses on general trajectories (float64): zero on identical trajectories, rpe left-invariance,
    ape invariance under rigid / similarity transforms with align(/scale), ordering of the statistics."""
    torch = _torch()
    pp = pypose()
    rng = random.Random(P["seed"])
    n, etype = P["n"], P["etype"]
    dt, eps = torch.float64, eps_of("f64")
    unit = unit_of(etype)
    cfg = {"kind": "met", "metric": P["metric"], "n": n, "etype": etype, "params": P}
    ev = []
    try:
        k = 0
        while True:
            torch.manual_seed(P["seed"] * 131 + k)
            r = scaled_SE3(pp, torch, [n], dt, 1.0, 1.0)
            t = torch.cumsum(torch.randn(n, 3, dtype=dt), 0) * (3.0 / math.sqrt(n)) + torch.randn(1, 3, dtype=dt)
            if P.get("planar"):
                t[:, 2] = 0.0
            r = pp.SE3(torch.cat([t, r.tensor()[:, 3:]], -1))
            k += 1
            if well_spread(torch, t, bool(P.get("planar"))) or k > 50:
                break
        nz = pp.randn_se3(n, sigma=P.get("noise", 0.05), dtype=dt).tensor()
        e = r @ pp.se3(nz).Exp()
        if P.get("planar"):         # the estimate stays in the plane of the reference: exactly coplanar clouds
            te = r.translation() + torch.cat([nz[:, :2], torch.zeros(n, 1, dtype=dt)], -1)
            e = pp.SE3(torch.cat([te, e.tensor()[:, 3:]], -1))
        rst = torch.arange(n, dtype=dt) * 0.1 + 100.0
        est = rst + (torch.rand(n, dtype=dt) - 0.5) * 0.008        # jitter below the threshold 0.01
        if P.get("drop"):           # the estimate misses some poses: association selects the common ones
            keepn = max(3, 2 * P.get("dl", 1) + 2, int(n * 0.7))
            idx = sorted(rng.sample(range(n), min(n, keepn)))
            e, est = e[idx], est[idx]
            r_same = r[idx]
        else:
            r_same = r
        if P.get("extra") and not P.get("drop"):
            # the estimate is sampled more densely than the reference: additional poses half-way between the reference
            # stamps (farther than the association threshold from any of them) - the estimate is the LONGER trajectory
            m = n - 1
            xs = scaled_SE3(pp, torch, [m], dt, 3.0, 1.0)
            sx = rst[:-1] + 0.05
            order = torch.argsort(torch.cat([est, sx]))
            e = pp.SE3(torch.cat([e.tensor(), xs.tensor()])[order])
            r_same = pp.SE3(torch.cat([r_same.tensor(), xs.tensor()])[order])
            est = torch.cat([est, sx])[order]
        G = scaled_SE3(pp, torch, [1], dt, 3.0, 1.0)[0]
        kw = dict(etype=etype, diff=0.01, thresh=0.0)

        def ape(rr, ee, **k2):
            return pp.metric.ape(rst.clone(), rr.clone(), est.clone(), ee.clone(), **dict(kw, **k2))

        def rpe(rr, ee, **k2):
            return pp.metric.rpe(rst.clone(), rr.clone(), est.clone(), ee.clone(), **dict(kw, **k2))

        def diff_ulps(a, b):
            sc = max(1.0, float(a["Max"]) / unit) * unit
            return max(ulps(abs(float(a[kk]) - float(b[kk])), sc, eps) for kk in ("Max", "Min", "Mean", "RMSE"))

        def zero_ulps(z):
            vals = [float(z[kk]) for kk in STAT_KEYS if not math.isnan(float(z[kk]))]
            return max(ulps(abs(v), unit, eps) for v in vals)

        # float32 poses (pypose's default dtype) with float64 timestamps of Unix-epoch size: stamps must keep their
        # own precision whatever the dtype of the poses, otherwise every pose is associated with the same stamp
        eps32 = eps_of("f32")
        rst_e = rst + 1311868063.0
        est_e = est + 1311868063.0
        r32, rs32 = pp.SE3(r.tensor().float()), pp.SE3(r_same.tensor().float())

        def zero_ulps32(z):
            vals = [float(z[kk]) for kk in STAT_KEYS if not math.isnan(float(z[kk]))]
            return max(ulps(abs(v), unit, eps32) for v in vals)
        if P["metric"] == "ape":
            ev.append({"act": "zero", "ulps": zero_ulps32(pp.metric.ape(rst_e.clone(), r32.clone(), est_e.clone(), rs32.clone(), **kw)),
                       "align": False, "scale": False})
        else:
            ev.append({"act": "zero", "ulps": zero_ulps32(pp.metric.rpe(rst_e.clone(), r32.clone(), est_e.clone(), rs32.clone(),
                                                                        **dict(kw, delta=float(P.get("dl", 1)), all=bool(P.get("all", False)),
                                                                               rpair=bool(P.get("rpair", False))))),
                       "pairing": "frame"})
        if P["metric"] == "ape":
            for al, sc in ((False, False), (True, False), (True, True)):
                if al and n < 3:
                    continue
                ev.append({"act": "zero", "ulps": zero_ulps(ape(r, r_same, align=al, scale=sc)), "align": al,
                           "scale": sc})
            base = ape(r, e)
            ev.append(order_event(base, etype, eps, "ape"))
            if n >= 3:
                for sc in (False, True):
                    s = rng.choice([0.5, 2.0, 1.7, 0.8]) if sc else 1.0
                    S = pp.Sim3(torch.cat([G.tensor(), torch.tensor([s], dtype=dt)], -1))
                    es = pp.Sim3(torch.cat([e.tensor(), torch.ones(e.shape[0], 1, dtype=dt)], -1))
                    e2 = pp.SE3((S @ es).tensor()[..., :7])
                    a = ape(r, e, align=True, scale=sc)
                    b = ape(r, e2, align=True, scale=sc)
                    ev.append({"act": "inv", "what": "ape_similarity_invariance" if sc else "ape_rigid_invariance",
                               "ulps": diff_ulps(a, b)})
                    ev.append(order_event(a, etype, eps, "ape align"))
                    ev.append(order_event(b, etype, eps, "ape align transformed"))
        else:
            dl, al = P.get("dl", 1), bool(P.get("all", False))
            pk = dict(delta=float(dl), all=al, rpair=bool(P.get("rpair", False)))
            ev.append({"act": "zero", "ulps": zero_ulps(rpe(r, r_same, **pk)), "pairing": "frame"})
            if P.get("dist"):
                try:
                    z = rpe(r, r_same, associate="distance", delta=P["dist"], rtol=0.5, all=al)
                except AssertionError:
                    z = None        # no pose pair at that path distance: an input the statement does not cover
                if z is not None:
                    ev.append({"act": "zero", "ulps": zero_ulps(z), "pairing": "distance"})
            a = rpe(r, e, **pk)
            b = rpe(r, G @ e, **pk)
            c = rpe(G @ r, e, **pk)
            ev.append({"act": "inv", "what": "rpe_left_invariance_estimate", "ulps": diff_ulps(a, b)})
            ev.append({"act": "inv", "what": "rpe_left_invariance_reference", "ulps": diff_ulps(a, c)})
            for x, w in ((a, "rpe"), (b, "rpe left est"), (c, "rpe left ref")):
                ev.append(order_event(x, etype, eps, w))
            if P.get("dist"):
                # the same invariance under distance pairing (pairs chosen by path length, which a fixed left factor
                # does not change); both the stride and the all-pairs selection, pairing on either trajectory
                for al2 in (False, True):
                    for rp in (False, True):
                        dk = dict(associate="distance", delta=P["dist"], rtol=0.5, all=al2, rpair=rp)
                        try:
                            a2, b2, c2 = rpe(r, e, **dk), rpe(r, G @ e, **dk), rpe(G @ r, e, **dk)
                        except AssertionError:
                            continue    # no pose pair at that path distance
                        ev.append({"act": "inv", "what": "rpe_left_invariance_estimate", "ulps": diff_ulps(a2, b2)})
                        ev.append({"act": "inv", "what": "rpe_left_invariance_reference", "ulps": diff_ulps(a2, c2)})
    except Exception as ex:
        return [raised(cfg, ex)]
    return [with_nev(cfg, ev)]


MAKERS = {"ch": make_ch, "cnt": make_cnt, "chR": make_chR, "bsx": make_bsx, "bsR": make_bsR, "match": make_match,
          "pairs": make_pairs, "apex": make_apex, "geo": make_geo, "geoR": make_geoR, "met": make_met}
SPLINE_KINDS = ("ch", "cnt", "chR", "bsx", "bsR")


# ------------------------------------------------------------------------------------------- test plans
DECIMALS = [0.1, 0.2, 0.3, 0.4, 0.5, 0.6, 0.7, 0.8, 0.9, 0.05, 0.15, 0.25, 0.35, 0.45, 0.01, 0.02, 0.04, 0.125,
            0.0625, 0.33, 0.34, 0.66, 0.67, 0.99, 0.999, 0.11, 0.13, 0.17, 0.19, 0.21, 0.51, 0.49, 0.26, 0.24,
            1 / 3, 2 / 3, 1 / 6, 1 / 7, 1 / 9, 1 / 11, 1 / 12, 1 / 13, 3 / 7, 0.008, 0.0125]


def batches(rng):
    return rng.choice([[], [], [1], [2], [3], [2, 2], [1, 3], [2, 1, 2]])


def plan(ctx):
    """List of (kind, params) for the tier; deterministic in ctx.seed."""
    q = ctx.quick
    rng = ctx.rng
    jobs = []
    sd = lambda: rng.randint(1, 2 ** 30)
    # --- chspline on the lattice: every N small, sampled N up to 60, dims 1..6, batch shapes, both dtypes
    for N in (list(range(2, 9)) if q else list(range(2, 21))) + [rng.randint(9, 60) for _ in range(3 if q else 20)]:
        for m in ((1, 2, 3) if q else (1, 2, 3, 4, 5)):
            for dn in ("f64", "f32"):
                if (m * 3 + 6 > 22 and dn == "f32") or (N > 20 and m > 2):
                    continue
                jobs.append(("ch", {"N": N, "m": m, "dim": rng.randint(1, 6), "batch": batches(rng), "dtype": dn,
                                    "line": rng.random() < 0.3, "seed": sd()}))
    # --- sample counts: decimal intervals, boundary floats around 1/n, random floats
    ivs = list(DECIMALS)
    for nn in range(2, 40 if q else 128):
        x = 1.0 / nn
        ivs += [x, math.nextafter(x, 0.0), math.nextafter(x, 1.0)]
    ivs += [rng.uniform(1 / 200, 0.999) for _ in range(40 if q else 600)]
    for iv in ivs:
        if not (1 / 250 < iv < 1.0):
            continue
        for fn in (("chspline", "bspline") if (not q or rng.random() < 0.5) else ("chspline",)):
            ext = rng.random() < 0.5
            N = rng.randint(2, 60) if (fn == "chspline" or ext) else rng.randint(4, 60)
            jobs.append(("cnt", {"fn": fn, "N": N, "iv": float(iv).hex(), "ext": ext,
                                 "dtype": rng.choice(["f64", "f32"]), "seed": sd()}))
    # --- chspline on real points
    for _ in range(60 if q else 800):
        jobs.append(("chR", {"N": rng.randint(2, 60), "dim": rng.randint(1, 6), "batch": batches(rng),
                             "iv": float(rng.choice(DECIMALS[:41])).hex(), "dtype": rng.choice(["f64", "f32"]),
                             "scale": rng.choice([1.0, 10.0, 0.01]), "seed": sd()}))
    # --- bspline on integer translations
    for _ in range(40 if q else 500):
        ext = rng.random() < 0.5
        jobs.append(("bsx", {"N": rng.randint(2, 7) if ext else rng.randint(4, 9), "m": rng.randint(1, 3), "ext": ext,
                             "batch": batches(rng), "dtype": rng.choice(["f64", "f32"]), "line": rng.random() < 0.3,
                             "seed": sd()}))
    # --- bspline on general poses
    for i in range(40 if q else 500):
        N = rng.choice([2, 3, 4, 4, 5, 6, 7, 8, 10, 12]) if i % 8 else rng.randint(13, 60)
        jobs.append(("bsR", {"N": N, "iv": float(rng.choice(DECIMALS[:21])).hex(), "batch": batches(rng),
                             "dtype": rng.choice(["f64", "f32"]), "tscale": rng.choice([1.0, 5.0]),
                             "sigma": rng.choice([0.2, 1.0]), "angle": rng.choice([0.1, 0.3, 0.8]),
                             "vscale": rng.choice([0.2, 1.0]), "seed": sd()}))
    # --- association on integer timestamps: jitter model and arbitrary ascending lists
    for _ in range(300 if q else 4000):
        d = rng.randint(1, 6)
        if rng.random() < 0.7:
            per = rng.randint(4 * d - 2, 6 * d) if d > 1 else rng.randint(2, 6)
            nf = rng.randint(1, 12 if q else 60)
            t0 = rng.randint(0, 1000)
            f1 = [f for f in range(nf) if rng.random() < 0.8] or [0]
            f2 = [f for f in range(nf) if rng.random() < 0.8] or [0]
            s1 = [t0 + per * f for f in f1]
            s2 = [t0 + per * f + rng.randint(-(d - 1), d - 1) for f in f2]
            off = rng.choice([0, 0, 0, 7, -5])
            s2 = [v - off for v in s2]
        else:
            s1 = sorted(rng.sample(range(0, 60), rng.randint(1, 8)))
            s2 = sorted(rng.sample(range(0, 60), rng.randint(1, 8)))
            off = 0
        jobs.append(("match", {"s1": s1, "s2": s2, "d": d, "off": off}))
    # --- pairing
    for _ in range(60 if q else 600):
        if rng.random() < 0.5:
            jobs.append(("pairs", {"mode": "frame", "n": rng.randint(1, 40 if q else 200), "dl": rng.randint(1, 7),
                                   "all": rng.random() < 0.5}))
        else:
            n = rng.randint(2, 12 if q else 40)
            cd = [0]
            for _ in range(n - 1):
                cd.append(cd[-1] + rng.randint(1, 3))
            jobs.append(("pairs", {"mode": "dist", "n": n, "dl": rng.choice([1, 2, 4]), "all": rng.random() < 0.5,
                                   "cd": cd, "tol": rng.choice([0, 1])}))
    # --- ape / rpe exact pipeline
    for i in range(120 if q else 1500):
        metric = "ape" if i % 2 == 0 else "rpe"
        jobs.append(("apex", {"metric": metric, "d": rng.randint(1, 4), "nf": rng.randint(5, 14 if q else 60),
                              "dl": rng.randint(1, 3), "all": rng.random() < 0.5, "rpair": rng.random() < 0.5,
                              "identical": rng.random() < 0.15, "keep": rng.choice([0.7, 0.85, 1.0]), "seed": sd()}))
    # --- geodesic loss: every ordered pair (576) under 'none', random batches under mean / sum
    lts = ["SO3", "SE3", "RxSO3", "Sim3", "so3", "se3"]
    for a in range(24):
        jobs.append(("geo", {"ia": [a] * 24, "ib": list(range(24)), "red": "none", "ltype": lts[a % 4],
                             "dtype": "f64" if a % 2 == 0 else "f32", "module": a % 3 == 0, "seed": sd()}))
    for _ in range(40 if q else 400):
        n = rng.randint(1, 8)
        jobs.append(("geo", {"ia": [rng.randrange(24) for _ in range(n)], "ib": [rng.randrange(24) for _ in range(n)],
                             "red": rng.choice(["none", "mean", "sum"]), "ltype": rng.choice(lts),
                             "dtype": rng.choice(["f64", "f32"]), "module": rng.random() < 0.5, "seed": sd()}))
    for i in range(40 if q else 600):
        jobs.append(("geoR", {"n": rng.randint(1, 16), "ltype": lts[i % 4], "dtype": rng.choice(["f64", "f32"]),
                              "regime": ["generic", "generic", "tiny", "small", "nearpi", "pi"][i % 6], "seed": sd()}))
    # --- measured ape / rpe clauses
    etypes = ["translation", "rotation", "pose", "radian", "degree"]
    for i in range(60 if q else 800):
        n = rng.randint(3, 30 if q else 200)
        metric = "ape" if i % 2 == 0 else "rpe"
        dl = rng.randint(1, 3)
        if metric == "rpe" and n < 2 * dl + 2:
            n = 2 * dl + 2
        jobs.append(("met", {"metric": metric, "n": n, "etype": etypes[(i // 2) % 5], "dl": dl,
                             "all": rng.random() < 0.5, "rpair": rng.random() < 0.5,
                             "dist": rng.choice([0, 0.5, 1.0]), "noise": rng.choice([0.02, 0.1]),
                             "planar": rng.random() < 0.25, "drop": rng.random() < 0.3, "extra": i % 4 == 0 or (i % 4 == 1 and rng.random() < 0.5),
                             "seed": sd()}))
    return jobs


# ------------------------------------------------------------------------------------------- judging
def cls_of(tr):
    c = tr["cfg"]
    k = c["kind"]
    if k in ("ch", "bsx"):
        return "%s:N=%d:m=%d:%s:%s:dim=%d" % (k, c["N"], c["m"], c["dtype"], "ext" if c.get("ext") else "noext",
                                               len(c["p"][0]))
    if k == "cnt":
        return "cnt:%s:%s:%s" % (c["fn"], c["params"]["iv"], c["N"])
    if k == "chR":
        return "chR:N=%d:dim=%d:%s:%s:%s" % (c["N"], c["dim"], c["batch"], c["dtype"], c["params"]["iv"])
    if k == "bsR":
        return "bsR:N=%d:%s:%s:%s" % (c["N"], c["batch"], c["dtype"], c["params"]["iv"])
    if k == "match":
        return "match:%s:%s:%d:%d" % (c["s1"], c["s2"], c["d"], c["off"])
    if k == "pairs":
        return "pairs:%s:%s:%d:%s:%s:%s" % (c["mode"], c["n"], c["dl"], c["all"], c["cd"], c["tol"])
    if k == "apex":
        return "apex:%s:%s" % (c["metric"], c["params"]["seed"])
    if k == "geo" and "regime" in c:
        return "geoR:%s:%s:%s:%d" % (c["regime"], c["ltype"], c["dtype"], c["params"]["n"])
    if k == "geo":
        return "geo:%s:%s:%s:%s:%s" % (c["red"], c["ltype"], c["dtype"], c["params"]["ia"], c["params"]["ib"])
    return "met:%s:%s:%d:%s" % (c["metric"], c["etype"], c["n"], c["params"]["seed"])


def key_of(tr, clause):
    c = tr["cfg"]
    k = c["kind"]
    if k in ("ch", "chR"):
        return "chspline/%s/%s" % (clause, c["dtype"])
    if k in ("bsx", "bsR"):
        return "bspline/%s/%s" % (clause, c["dtype"])
    if k == "cnt":
        return "%s/%s" % (c["fn"], clause)
    if k == "match":
        return "matching_time_indices/%s" % clause
    if k == "pairs":
        return "pair_id/%s/%s" % (c["mode"], clause)
    if k == "apex":
        return "%s/exact/%s" % (c["metric"], clause)
    if k == "geo":
        return "geodesic_loss/%s/%s/%s" % (clause, c["ltype"], c["red"])
    return "%s/%s/%s" % (c["metric"], clause, c["etype"])


def judge(ctx, traces, verdicts):
    for tr, v in zip(traces, verdicts):
        ctx.cover(cls_of(tr))
        if v == "ok":
            continue
        clause, at = v.split("@")
        e = tr["ev"][int(at) - 1]
        if clause.startswith("harness_") or clause in ("unknown_event", "unknown_mode"):
            raise MachineryError("harness produced an unjudgeable trace: %s at event %s of %s" % (clause, at, tr["cfg"]))
        small = {k: v2 for k, v2 in tr["cfg"].items() if k != "params"}
        ctx.violation(key_of(tr, clause), "%s: clause %s at event %s: event=%s cfg=%s"
                      % (tr["cfg"]["kind"], clause, at, json.dumps(e)[:300], json.dumps(small)[:400]),
                      {"kind": "geoR" if "regime" in tr["cfg"] else tr["cfg"]["kind"], "params": tr["cfg"]["params"],
                       "verdict": v, "event": e})


def validate_all(ctx, traces, name):
    sp = [t for t in traces if t["cfg"]["kind"] in SPLINE_KINDS]
    ac = [t for t in traces if t["cfg"]["kind"] not in SPLINE_KINDS]
    if sp:
        judge(ctx, sp, ctx.validate("SplineTrace", "SplineTrace.cfg", sp, name + "_spline", chunk=1500))
    if ac:
        judge(ctx, ac, ctx.validate("AssocTrace", "AssocTrace.cfg", ac, name + "_assoc", chunk=3000))


# ------------------------------------------------------------------------------------------- spec -> code
def table_replay(ctx):
    """Run the real code on every row of the tables TLC wrote and compare."""
    q = ctx.quick
    out = ctx.work / "assoc_table.json"
    ctx.tlc("AssocGen", "AssocGen.cfg" if q else "AssocGen_t.cfg", env={"OUT_FILE": out}, workers=2)
    tab = json.loads(out.read_text())
    for r in tab["match"]:
        a, b = call_match(r["s1"], r["s2"], r["d"])
        ctx.evaluations += 1
        if [list(p) for p in zip(a, b)] != [list(p) for p in r["pairs"]]:
            ctx.violation("matching_time_indices/table", "spec->code: matching_time_indices(%s, %s, max_diff=%d) returned "
                          "%s, Assoc!AssocPairs gives %s" % (r["s1"], r["s2"], r["d"], list(zip(a, b)), r["pairs"]),
                          {"kind": "match", "params": {"s1": r["s1"], "s2": r["s2"], "d": r["d"], "off": 0}})
    ctx.cover("table:match:%d" % len(tab["match"]))
    for r in tab["frame"]:
        a, b = call_pairs("frame", r["n"], r["dl"], r["all"])
        ctx.evaluations += 1
        ctx.cover("table:frame:%d:%d:%s" % (r["n"], r["dl"], r["all"]))
        if [list(p) for p in zip(a, b)] != [list(p) for p in r["pairs"]]:
            ctx.violation("pair_id/frame/table_%s" % ("all" if r["all"] else "stride"),
                          "spec->code: pair_id(n=%d, delta=%d, all=%s) returned %s, Assoc!FramePairs gives %s"
                          % (r["n"], r["dl"], r["all"], list(zip(a, b)), r["pairs"]),
                          {"kind": "pairs", "params": {"mode": "frame", "n": r["n"], "dl": r["dl"], "all": r["all"]}})
    for r in tab["dist"]:
        if r["tol"] == 0:
            got = call_pairs("dist", len(r["cd"]), r["dl"], False, r["cd"], 0)
            ctx.evaluations += 1
            if [list(p) for p in zip(*got)] != [list(p) for p in r["stride"]]:
                ctx.violation("pair_id/dist/table_stride", "spec->code: pair_id(distance, path=%s, delta=%d) returned %s, "
                              "Assoc!DistStridePairs gives %s" % (r["cd"], r["dl"], list(zip(*got)), r["stride"]),
                              {"kind": "pairs", "params": {"mode": "dist", "n": len(r["cd"]), "dl": r["dl"], "all": False,
                                                           "cd": r["cd"], "tol": 0}})
        got = call_pairs("dist", len(r["cd"]), r["dl"], True, r["cd"], r["tol"])
        if got is None:
            continue
        ctx.evaluations += 1
        pairs = set(zip(*got))
        uniq = {tuple(p) for p in r["allpairs"]}
        firsts_u = {p[0] for p in uniq}
        bad = sorted(set(got[0])) != sorted(r["allfirst"]) or any(p[0] in firsts_u and p not in uniq for p in pairs)
        if bad:
            ctx.violation("pair_id/dist/table_all", "spec->code: pair_id(distance, all, path=%s, delta=%d, tol=%d) returned "
                          "%s; Assoc gives firsts %s and unique partners %s"
                          % (r["cd"], r["dl"], r["tol"], sorted(pairs), r["allfirst"], r["allpairs"]),
                          {"kind": "pairs", "params": {"mode": "dist", "n": len(r["cd"]), "dl": r["dl"], "all": True,
                                                       "cd": r["cd"], "tol": r["tol"]}})
    ctx.cover("table:dist:%d" % len(tab["dist"]))
    # splines
    torch = _torch()
    pp = pypose()
    out = ctx.work / "spline_table.json"
    ctx.tlc("SplineGen", "SplineGen.cfg" if q else "SplineGen_t.cfg", env={"OUT_FILE": out}, workers=2)
    tab = json.loads(out.read_text())
    for dn in ("f64", "f32"):
        eps, dt = eps_of(dn), dt_of(dn)
        for r in tab["ch"]:
            o = pp.chspline(torch.tensor(r["p"], dtype=dt).view(-1, 1), 2.0 ** -r["m"]).view(-1).tolist()
            got = [snap(v, 2 * 8 ** r["m"], eps) for v in o]
            ctx.evaluations += 1
            if [g for g, _ in got] != r["out"] or any(f for _, f in got):
                ctx.violation("chspline/table/%s" % dn, "spec->code: chspline(%s, 2^-%d) gives numerators %s, Spline!ChVal %s"
                              % (r["p"], r["m"], got, r["out"]),
                              {"kind": "ch", "params": {"N": len(r["p"]), "m": r["m"], "dim": 1, "batch": [], "dtype": dn,
                                                        "pts": [[v] for v in r["p"]], "seed": 0}})
        for r in tab["bs"]:
            x = torch.zeros(len(r["p"]), 7, dtype=dt)
            x[:, 1] = torch.tensor(r["p"], dtype=dt)
            x[:, 6] = 1
            o = pp.bspline(pp.SE3(x), 2.0 ** -r["m"], r["ext"]).tensor()[:, 1].tolist()
            got = [snap(v, 6 * 8 ** r["m"], eps) for v in o]
            ctx.evaluations += 1
            if [g for g, _ in got] != r["out"] or any(f for _, f in got):
                ctx.violation("bspline/table/%s" % dn, "spec->code: bspline(y=%s, 2^-%d, extrapolate=%s) gives numerators "
                              "%s, Spline!BsVal %s" % (r["p"], r["m"], r["ext"], got, r["out"]),
                              {"kind": "bsx", "params": {"N": len(r["p"]), "m": r["m"], "ext": r["ext"], "batch": [],
                                                         "dtype": dn, "pts": [[0, v, 0] for v in r["p"]], "seed": 0}})
    ctx.cover("table:ch:%d" % len(tab["ch"]))
    ctx.cover("table:bs:%d" % len(tab["bs"]))


# ------------------------------------------------------------------------------------------- entry points
def design_runs(ctx):
    q = ctx.quick
    if os.environ.get("VERIF_SKIP_DESIGN"):            # development only (mutant runs): conformance part alone
        ctx.notes.append("design runs skipped (VERIF_SKIP_DESIGN)")
        return
    w = int(os.environ.get("VERIF_WORKERS", "16"))     # the machine is shared during development
    ctx.tlc("Spline", "Spline_q.cfg" if q else "Spline_t.cfg", workers=w, coverage=q, need_actions=["Emit"] if q else ())
    ctx.tlc("Spline", "Spline_live.cfg", workers=min(w, 4))
    ctx.tlc("Assoc", "Assoc_q.cfg" if q else "Assoc_t.cfg", workers=w, coverage=q, need_actions=["Step"] if q else ())
    ctx.tlc("Assoc", "Assoc_live.cfg", workers=min(w, 4))
    for r in ctx.tlc_runs:
        if r["violated"]:
            ctx.violation("design/%s/%s" % (r["module"], r["violated"][0]),
                          "%s design model (%s) violates %s" % (r["module"], r["cfg"], r["violated"]))


def run(ctx):
    ctx.rule = [
        "TLC (Spline): Hermite formula with finite-difference tangents over integers for every point sequence in "
        "-2..2 (N<=4; thorough -3..3, N<=5) and interval 2^-m: interpolation at knots, segment independence, exact "
        "lines, (N-1)K+1 samples; cumulative B-spline basis: C2 continuity identities, unit speed, continuity / line "
        "reproduction / extrapolated ends / translation equivariance on integer translations; multiples-of-interval "
        "count vs ceil and vs the big-number operator used for 53-bit floats",
        "TLC (Assoc): nearest-stamp association under a threshold for all ascending stamp lists (sound, complete, "
        "monotone, injective / tie-free / symmetric under 2d-separation), frame pairing all/stride, distance pairing "
        "all/restart, Max>=RMSE>=Mean>=Min>=0 as integer inequalities, angle table on the 576 pairs of cube rotations",
        "conformance code->spec: every recorded call is one trace; TLC recomputes Hermite / B-spline numerators, sample "
        "counts from the float's mantissa, associations, pair ids, ape/rpe statistics and angle units from raw integer "
        "inputs; measured clauses are judged by TLC on integer ulps.  spec->code: tables of AssocGen / SplineGen "
        "replayed on the real functions.  distinct = (kind, shape/dtype/interval/input class)"]
    ctx.assumptions = [
        "IEEE arithmetic is exact on the chosen lattices (integer points, dyadic intervals); outputs within 64 eps of a "
        "lattice value are snapped before the exact comparison",
        "sample counts are judged on the exact rational value of the float interval; when a one-ulp larger interval has "
        "a different number of multiples in [0,1) (interval within an ulp of 1/n) both counts are accepted",
        "association is compared exactly only for stamp lists whose consecutive stamps are >= 2*max_diff apart "
        "(jitter below the threshold, as the property quantifies); otherwise only the threshold is judged",
        "measured clauses use pypose's own Exp/@/Act for the reference side (decided by C01/C03) and tolerances "
        ">= 4x the error of the unchanged tree; ape/rpe offsets are not exercised (C06), timestamps are cloned"]
    design_runs(ctx)
    if ctx.replay:
        case = json.load(open(ctx.replay))["case"]
        if not case or "kind" not in case:
            return
        traces = MAKERS[case["kind"]](case["params"])
        validate_all(ctx, traces, "replay")
        return
    table_replay(ctx)
    jobs = plan(ctx)
    traces = []
    for kind, P in jobs:
        traces += MAKERS[kind](P)
    seen = set()
    for t in traces:
        k = t["cfg"]["kind"]
        if k not in seen and len(t["ev"]) <= 12:
            seen.add(k)
            ctx.sample({"cfg": {a: b for a, b in t["cfg"].items() if a != "params"}, "ev": t["ev"][:4]})
    ctx.samples = ctx.samples[:10]
    ctx.extra["traces_by_kind"] = {k: sum(1 for t in traces if t["cfg"]["kind"] == k) for k in MAKERS if k != "geoR"}
    worst = {}
    for t in traces:
        for e in t["ev"]:
            for f in ("ulps", "res", "first", "last", "sym", "range"):
                if f in e and isinstance(e[f], int):
                    kk = "%s/%s%s" % (t["cfg"]["kind"], e["act"], "" if f in ("ulps", "res") else "_" + f)
                    worst[kk] = max(worst.get(kk, 0), e[f])
            if e["act"] == "order":
                worst["met/order"] = max(worst.get("met/order", 0), max(e["d"]))
    ctx.extra["measured_max_ulps"] = worst
    validate_all(ctx, traces, "c19")


def selftest(ctx):
    """Binding demonstration: a corrupted field and a removed event must both be rejected."""
    good = make_ch({"N": 4, "m": 2, "dim": 2, "batch": [], "dtype": "f64", "seed": 5})[0]
    bad1 = json.loads(json.dumps(good))
    bad1["ev"][6]["v"][0] += 1
    bad2 = json.loads(json.dumps(good))
    del bad2["ev"][6]
    bad3 = json.loads(json.dumps(good))
    del bad3["ev"][-1]
    v = ctx.validate("SplineTrace", "SplineTrace.cfg", [good, bad1, bad2, bad3], "selftest_spline")
    print("selftest spline verdicts:", v)
    assert v[0] == "ok" and all(x != "ok" for x in v[1:]), v
    g2 = make_match({"s1": [0, 10, 20, 30], "s2": [1, 9, 31, 40], "d": 3, "off": 0})[0]
    b1 = json.loads(json.dumps(g2))
    b1["ev"][0]["b"][1] = 2
    g3 = make_apex({"metric": "rpe", "d": 2, "nf": 8, "dl": 1, "all": True, "rpair": False, "keep": 1.0, "seed": 3})[0]
    b2 = json.loads(json.dumps(g3))
    b2["ev"][0]["Mean"][0] += 1
    b3 = json.loads(json.dumps(g3))
    b3["ev"] = b3["ev"] + b3["ev"]          # event count no longer what the harness recorded
    g4 = make_geo({"ia": [0, 1, 5], "ib": [3, 3, 7], "red": "none", "ltype": "SO3", "dtype": "f64", "seed": 1})[0]
    b4 = json.loads(json.dumps(g4))
    b4["ev"][0]["u6"][1] = 3 if b4["ev"][0]["u6"][1] != 3 else 4
    b5 = json.loads(json.dumps(g4))
    del b5["ev"][1]
    v = ctx.validate("AssocTrace", "AssocTrace.cfg", [g2, b1, g3, b2, b3, g4, b4, b5], "selftest_assoc")
    print("selftest assoc verdicts:", v)
    assert v[0] == "ok" and v[2] == "ok" and v[5] == "ok", v
    assert all(v[i] != "ok" for i in (1, 3, 4, 6, 7)), v
    return 0
