"""Shared machinery: check context, TLC runner, trace batching, evidence, known findings.

Exit protocol (bin/check): 0 = property held on everything explored (known findings are
printed as KNOWN-FINDING lines), 1 = violation (VIOLATION property=<id> replay=<path>),
2 = machinery failure (never reported as a violation).
"""
import fnmatch
import json
import os
import random
import re
import shutil
import subprocess
import sys
import time
from pathlib import Path

VERIF = Path(__file__).resolve().parents[2]
SPEC = VERIF / "spec"
WORK = VERIF / ".work"
REPO = Path(os.environ.get("VERIF_REPO", "/repo"))
TLA_JAR = "/opt/veriftools/tla/tla2tools.jar"
TLA_DEPS = "/opt/veriftools/tla/CommunityModules-deps.jar"
GUARD = "PYPOSE_VERIF"


class MachineryError(Exception):
    """Something in the checking machinery (not the code under test) went wrong."""


class TLCResult:
    def __init__(self, rc, out, wall):
        self.rc, self.out, self.wall = rc, out, wall
        m = re.search(r"(\d+) states generated, (\d+) distinct states found", out)
        self.generated = int(m.group(1)) if m else 0
        self.distinct = int(m.group(2)) if m else 0
        m = re.search(r"depth of the complete state graph search is (\d+)", out)
        self.depth = int(m.group(1)) if m else 0
        self.violated = re.findall(r"Invariant (\S+) is violated", out)
        self.violated += re.findall(r"Action property (\S+) is violated", out)
        if "Temporal properties were violated" in out:
            self.violated.append("<temporal>")
        self.ok = rc == 0 and "No error has been found" in out or \
            (rc == 0 and "Finished in" in out and not self.violated and "Error:" not in out)

    def printed(self, tag):
        """All tuples PrintT'ed as <<"tag", ...>> (single line each)."""
        res = []
        for line in self.out.splitlines():
            line = line.strip()
            if line.startswith('<<"%s"' % tag):
                res.append(parse_tla_value(line))
        return res

    def coverage(self):
        """Per-action distinct/total counts from -coverage output."""
        cov = {}
        for m in re.finditer(r"<(\w+) line \d+, col \d+ to line \d+, col \d+ of module (\w+)(?: \([\d ]+\))?>: (\d+):(\d+)",
                             self.out):
            cov[m.group(1)] = (int(m.group(3)), int(m.group(4)))
        return cov


def parse_tla_value(s):
    """Parse a printed TLA+ value made of tuples, strings, ints, booleans, records, sets."""
    pos = 0

    def ws():
        nonlocal pos
        while pos < len(s) and s[pos] in " \n\t":
            pos += 1

    def val():
        nonlocal pos
        ws()
        if s.startswith("<<", pos):
            pos += 2
            items = []
            ws()
            if s.startswith(">>", pos):
                pos += 2
                return items
            while True:
                items.append(val())
                ws()
                if s.startswith(">>", pos):
                    pos += 2
                    return items
                if s[pos] != ",":
                    raise ValueError("bad tuple at %d in %r" % (pos, s))
                pos += 1
        if s[pos] == "{":
            pos += 1
            items = []
            ws()
            if s[pos] == "}":
                pos += 1
                return items
            while True:
                items.append(val())
                ws()
                if s[pos] == "}":
                    pos += 1
                    return items
                pos += 1
        if s[pos] == "[":
            pos += 1
            rec = {}
            while True:
                ws()
                m = re.match(r"(\w+)\s*\|->", s[pos:])
                if not m:
                    raise ValueError("bad record at %d in %r" % (pos, s))
                pos += m.end()
                rec[m.group(1)] = val()
                ws()
                if s[pos] == "]":
                    pos += 1
                    return rec
                pos += 1
        if s[pos] == '"':
            end = pos + 1
            while s[end] != '"':
                end += 2 if s[end] == "\\" else 1
            r = s[pos + 1:end]
            pos = end + 1
            return r.replace('\\"', '"').replace("\\\\", "\\")
        m = re.match(r"-?\d+", s[pos:])
        if m:
            pos += m.end()
            return int(m.group(0))
        m = re.match(r"TRUE|FALSE", s[pos:])
        if m:
            pos += m.end()
            return m.group(0) == "TRUE"
        m = re.match(r"\w+", s[pos:])
        if m:
            pos += m.end()
            return m.group(0)
        raise ValueError("cannot parse at %d in %r" % (pos, s))

    return val()


def run_tlc(module, cfg, metadir, env=None, workers=16, extra=(), timeout=3600, deque=False,
            simulate=None, heap=None):
    """Run TLC on SPEC/<module>.tla with SPEC/<cfg>; cwd is the spec dir."""
    metadir = Path(metadir)
    if metadir.exists():
        shutil.rmtree(metadir, ignore_errors=True)
    metadir.mkdir(parents=True, exist_ok=True)
    cmd = ["java", "-XX:+UseParallelGC"]
    if heap:
        cmd.append("-Xmx%s" % heap)
    if deque:
        cmd.append("-Dtlc2.tool.queue.IStateQueue=StateDeque")
    cmd += ["-cp", TLA_JAR + ":" + TLA_DEPS, "tlc2.TLC", "-workers", str(workers),
            "-metadir", str(metadir), "-noGenerateSpecTE", "-config", cfg]
    if simulate:
        cmd += ["-simulate", simulate]
    cmd += list(extra) + [module + ".tla"]
    e = dict(os.environ)
    e.pop("JAVA_TOOL_OPTIONS", None)
    if env:
        e.update({k: str(v) for k, v in env.items()})
    t0 = time.time()
    try:
        p = subprocess.run(cmd, cwd=str(SPEC), env=e, stdout=subprocess.PIPE, stderr=subprocess.STDOUT,
                           text=True, timeout=timeout)
    except subprocess.TimeoutExpired as ex:
        raise MachineryError("TLC timed out after %ss: %s %s" % (timeout, module, cfg)) from ex
    res = TLCResult(p.returncode, p.stdout, time.time() - t0)
    res.cmd = " ".join(cmd)
    shutil.rmtree(metadir, ignore_errors=True)
    return res


def run_apalache(module, init, inv, length, outdir, timeout=600):
    """apalache-mc check --init --inv --length on SPEC/<module>.tla; returns (outcome, text) with outcome in
    {"NoError", "Error", "ToolFailure"}."""
    outdir = Path(outdir)
    outdir.mkdir(parents=True, exist_ok=True)
    cmd = ["apalache-mc", "check", "--init=%s" % init, "--inv=%s" % inv, "--length=%d" % length,
           "--out-dir=%s" % outdir, module + ".tla"]
    try:
        p = subprocess.run(cmd, cwd=str(SPEC), stdout=subprocess.PIPE, stderr=subprocess.STDOUT, text=True, timeout=timeout)
    except (subprocess.TimeoutExpired, FileNotFoundError) as ex:
        return "ToolFailure", repr(ex)
    finally:
        shutil.rmtree(outdir, ignore_errors=True)
    out = p.stdout
    if "The outcome is: NoError" in out and "EXITCODE: OK" in out:
        return "NoError", out
    if "The outcome is: Error" in out or "violat" in out.lower():
        return "Error", out
    return "ToolFailure", out


class Ctx:
    def __init__(self, pid, tier, seed, replay=None):
        self.pid, self.tier, self.seed, self.replay = pid, tier, seed, replay
        self.quick = tier == "quick"
        self.work = WORK / pid
        if os.environ.get("VERIF_REPO", "/repo") != "/repo":
            # a scratch tree (seeded change / refactoring): its own work directory, so that several can run side by side
            self.work = WORK / ("%s.scratch%d" % (pid, os.getpid()))
        if self.work.exists():
            shutil.rmtree(self.work, ignore_errors=True)
        self.work.mkdir(parents=True, exist_ok=True)
        self.replay_dir = WORK / "replay" / pid
        self.replay_dir.mkdir(parents=True, exist_ok=True)
        self.rng = random.Random(seed)
        self.t0 = time.time()
        self.states = 0
        self.transitions = 0
        self.traces = 0
        self.evaluations = 0
        self.nontrivial = set()
        self.samples = []
        self.tlc_runs = []
        self.violations = []
        self.known = []
        self.notes = []
        self.assumptions = []
        self.rule = []
        self.level = "model_checking"
        self.extra = {}
        self._n = 0
        self.findings = load_findings()

    # ------------------------------------------------------------------ TLC design runs
    def tlc(self, module, cfg, env=None, workers=16, extra=(), expect_ok=True, timeout=3600,
            coverage=False, simulate=None, need_actions=(), heap=None):
        self._n += 1
        extra = list(extra)
        if coverage:
            extra += ["-coverage", "1"]
        res = run_tlc(module, cfg, self.work / ("tlc%d" % self._n), env=env, workers=workers,
                      extra=extra, timeout=timeout, simulate=simulate, heap=heap)
        self.states += res.distinct
        self.transitions += res.generated
        run = {"module": module, "cfg": cfg, "distinct_states": res.distinct,
               "states_generated": res.generated, "depth": res.depth, "wall_s": round(res.wall, 2),
               "violated": res.violated}
        if coverage:
            cov = res.coverage()
            run["action_coverage"] = {k: v[1] for k, v in cov.items()}
            for a in need_actions:
                if cov.get(a, (0, 0))[1] == 0:
                    raise MachineryError("vacuity: action %s of %s never taken" % (a, module))
        self.tlc_runs.append(run)
        if expect_ok and not res.ok and not res.violated:
            (self.work / "tlc_fail.log").write_text(res.out)
            raise MachineryError("TLC failed on %s/%s (rc=%s):\n%s" % (module, cfg, res.rc, res.out[-3000:]))
        return res

    def tlc_many(self, jobs, parallel=4):
        """Run several design configs concurrently. jobs: list of dicts of ctx.tlc keyword arguments
        (module, cfg, ...). Returns the results in order."""
        from concurrent.futures import ThreadPoolExecutor
        import threading
        lock = threading.Lock()

        def one(job):
            with lock:
                self._n += 1
                n = self._n
            job = dict(job)
            extra = list(job.pop("extra", ()))
            coverage = job.pop("coverage", False)
            need = job.pop("need_actions", ())
            expect_ok = job.pop("expect_ok", True)
            if coverage:
                extra += ["-coverage", "1"]
            res = run_tlc(job.pop("module"), job.pop("cfg"), self.work / ("tlc%d" % n), extra=extra, **job)
            return res, coverage, need, expect_ok

        with ThreadPoolExecutor(max_workers=parallel) as ex:
            outs = list(ex.map(one, jobs))
        results = []
        for job, (res, coverage, need, expect_ok) in zip(jobs, outs):
            self.states += res.distinct
            self.transitions += res.generated
            run = {"module": job["module"], "cfg": job["cfg"], "distinct_states": res.distinct,
                   "states_generated": res.generated, "depth": res.depth, "wall_s": round(res.wall, 2),
                   "violated": res.violated}
            if coverage:
                cov = res.coverage()
                run["action_coverage"] = {k: v[1] for k, v in cov.items()}
                for a in need:
                    if cov.get(a, (0, 0))[1] == 0:
                        raise MachineryError("vacuity: action %s of %s never taken" % (a, job["module"]))
            self.tlc_runs.append(run)
            if expect_ok and not res.ok and not res.violated:
                (self.work / "tlc_fail.log").write_text(res.out)
                raise MachineryError("TLC failed on %s/%s (rc=%s):\n%s" % (job["module"], job["cfg"], res.rc, res.out[-3000:]))
            results.append(res)
        return results

    # ------------------------------------------------------------------ batched trace validation
    def validate(self, module, cfg, traces, name, env=None, chunk=2000, timeout=3600, workers=1, parallel=1):
        """Validate traces (list of JSON-able records, each with >=1 event under 'ev') against
        SPEC/<module>.tla. Returns list of verdict strings aligned with traces. Chunks may be
        validated by several TLC processes at once (parallel)."""
        from concurrent.futures import ThreadPoolExecutor
        verdicts = [None] * len(traces)
        for t in traces:
            if not t.get("ev"):
                raise MachineryError("empty trace handed to validator %s" % module)
        jobs = []
        for c0 in range(0, len(traces), chunk):
            self._n += 1
            jobs.append((c0, traces[c0:c0 + chunk], self._n))

        def one(job):
            c0, part, n = job
            tf = self.work / ("%s_%d.json" % (name, n))
            tf.write_text(json.dumps(part))
            e = {"TRACE_FILE": str(tf)}
            if env:
                e.update(env)
            return run_tlc(module, cfg, self.work / ("tlc%d" % n), env=e, workers=workers, timeout=timeout), tf

        with ThreadPoolExecutor(max_workers=max(1, parallel)) as ex:
            outs = list(ex.map(one, jobs))
        for (c0, part, n), (res, tf) in zip(jobs, outs):
            self.states += res.distinct
            self.transitions += res.generated
            self.tlc_runs.append({"module": module, "cfg": cfg, "traces": len(part),
                                  "distinct_states": res.distinct, "wall_s": round(res.wall, 2),
                                  "violated": res.violated})
            if res.violated:
                # a design invariant / action property failed along a recorded execution
                (self.work / ("%s_%d.tlcout" % (name, n))).write_text(res.out)
                raise MachineryError("invariant %s violated while validating traces with %s; "
                                     "trace specs must be total (see %s)" % (res.violated, module, tf))
            if not res.ok and not res.violated and any(m in res.out for m in (
                    "TLC was evaluating the nested", "Evaluating assumption", "Attempted to ")):
                # TLC could not even EVALUATE the spec on a recorded event (a logged value of the wrong shape or type):
                # such an execution is not a behaviour of the specification.  Find the trace(s) by bisection and give
                # them the verdict "uninterpretable@1"; everything else in the chunk is still judged normally.
                self._bisect = getattr(self, "_bisect", 0) + 1
                if len(part) == 1 or self._bisect > 120:
                    for i in range(len(part)):
                        verdicts[c0 + i] = "uninterpretable@1"
                    (self.work / ("%s_%d.tlcout" % (name, n))).write_text(res.out)
                else:
                    h = len(part) // 2
                    sub = self.validate(module, cfg, part[:h], name, env=env, chunk=len(part), timeout=timeout, workers=workers) + \
                        self.validate(module, cfg, part[h:], name, env=env, chunk=len(part), timeout=timeout, workers=workers)
                    for i, v in enumerate(sub):
                        verdicts[c0 + i] = v
                continue
            if not res.ok:
                (self.work / "tlc_fail.log").write_text(res.out)
                raise MachineryError("TLC failed validating %s (rc=%s):\n%s" % (module, res.rc, res.out[-3000:]))
            got = 0
            for v in res.printed("VERDICT"):
                verdicts[c0 + v[1] - 1] = v[2]
                got += 1
            if got != len(part):
                (self.work / "tlc_fail.log").write_text(res.out)
                raise MachineryError("expected %d verdicts from %s, got %d" % (len(part), module, got))
            self.traces += len(part)
        return verdicts

    # ------------------------------------------------------------------ bookkeeping
    def sample(self, s, cap=6):
        if len(self.samples) < cap:
            self.samples.append(s)

    def cover(self, key):
        self.nontrivial.add(key if isinstance(key, str) else json.dumps(key, sort_keys=True))

    def violation(self, key, what, case=None):
        """Report a violation. key identifies the failing cell / input class / history shape."""
        for f in self.findings.get("findings", []):
            if f["property"] == self.pid and fnmatch.fnmatchcase(key, f["key"]):
                if f["key"] not in [k["key"] for k in self.known]:
                    self.known.append({"key": f["key"], "what": f["what"], "instances": 0})
                for k in self.known:
                    if k["key"] == f["key"]:
                        k["instances"] += 1
                return False
        for v in self.violations:
            if v["key"] == key:
                v["instances"] += 1
                return True
        path = self.replay_dir / ("%s.json" % re.sub(r"[^A-Za-z0-9_.-]+", "_", key)[:100])
        path.write_text(json.dumps({"property": self.pid, "key": key, "what": what, "case": case,
                                    "seed": self.seed, "tier": self.tier}, indent=1, default=str))
        self.violations.append({"key": key, "what": what, "replay": str(path), "instances": 1})
        return True

    def finish(self):
        wall = time.time() - self.t0
        cov = {
            "states": self.states, "transitions": self.transitions,
            "traces_validated_against_impl": self.traces,
            "evaluations": self.evaluations + self.traces,
            "distinct_nontrivial": len(self.nontrivial),
            "rule": " | ".join(self.rule) if self.rule else "see DESIGN.md",
            "samples": self.samples if self.samples else ["<none>"],
            "tlc_runs": self.tlc_runs,
            "known_findings_hit": self.known,
            "notes": self.notes,
        }
        cov.update(self.extra)
        ev = {"property_id": self.pid, "tier": self.tier, "seed": self.seed, "level": self.level,
              "coverage": cov, "assumptions": self.assumptions, "wall_s": round(wall, 2),
              "violations": sum(v["instances"] for v in self.violations)}
        # evidence describes runs against /repo itself; runs against a scratch copy (VERIF_REPO) go elsewhere
        evdir = VERIF / "evidence" if (REPO.resolve() == Path("/repo") and not self.replay) else WORK / "scratch_evidence"
        evdir.mkdir(parents=True, exist_ok=True)
        (evdir / (self.pid + ".json")).write_text(json.dumps(ev, indent=1, default=str) + "\n")
        for k in self.known:
            print("KNOWN-FINDING: property=%s %s [%s; %d instance(s) this run]" %
                  (self.pid, k["what"], k["key"], k["instances"]))
        for v in self.violations:
            print("VIOLATION property=%s replay=%s" % (self.pid, v["replay"]))
            print("  key=%s (%d instance(s)): %s" % (v["key"], v["instances"], v["what"]))
        print("%s %s: states=%d transitions=%d traces=%d evals=%d nontrivial=%d violations=%d wall=%.1fs" %
              (self.pid, self.tier, self.states, self.transitions, self.traces, cov["evaluations"],
               len(self.nontrivial), sum(v["instances"] for v in self.violations), wall))
        if ".scratch" in self.work.name:
            shutil.rmtree(self.work, ignore_errors=True)       # scratch work directories are not kept (replay files are)
        return 1 if self.violations else 0


def load_findings():
    p = VERIF / "known_findings.json"
    if p.exists():
        return json.loads(p.read_text())
    return {"findings": [], "fixed": []}


_pp = None


def pypose():
    """Import pypose from the repository's current working tree (VERIF_REPO, default /repo)."""
    global _pp
    if _pp is None:
        import warnings
        warnings.filterwarnings("ignore")
        os.environ.setdefault(GUARD, "1")
        sys.path.insert(0, str(REPO))
        import io
        import contextlib
        with contextlib.redirect_stderr(io.StringIO()):
            import torch
            import pypose as pp
        if not Path(pp.__file__).resolve().is_relative_to(REPO.resolve()):
            raise MachineryError("pypose imported from %s, not %s" % (pp.__file__, REPO))
        torch.set_num_threads(1)
        _pp = pp
    return _pp
