"""Reference semantics in 60-digit arithmetic (mpmath): the DEFINING expressions of the Lie-group
operations (matrix exponential / logarithm of generator matrices), independent of pypose's formulas.
Used by Mode-R checks: errors are measured here and logged as integers; TLC judges them."""
import mpmath as mp

mp.mp.dps = 60
ADIM = {"SO3": 3, "SE3": 6, "RxSO3": 4, "Sim3": 7}
CAP = 10 ** 9


def split_alg(ty, a):
    a = [mp.mpf(float(v)) if not isinstance(v, mp.mpf) else v for v in a]
    z = [mp.mpf(0)] * 3
    if ty == "SO3":
        return z, a[0:3], mp.mpf(0)
    if ty == "SE3":
        return a[0:3], a[3:6], mp.mpf(0)
    if ty == "RxSO3":
        return z, a[0:3], a[3]
    return a[0:3], a[3:6], a[6]


def join_alg(ty, tau, phi, sigma):
    return {"SO3": list(phi), "SE3": list(tau) + list(phi), "RxSO3": list(phi) + [sigma],
            "Sim3": list(tau) + list(phi) + [sigma]}[ty]


def skew(v):
    return mp.matrix([[0, -v[2], v[1]], [v[2], 0, -v[0]], [-v[1], v[0], 0]])


def hat4(ty, a):
    tau, phi, sigma = split_alg(ty, a)
    M = mp.zeros(4)
    K = skew(phi)
    for i in range(3):
        for j in range(3):
            M[i, j] = K[i, j] + (sigma if i == j else 0)
        M[i, 3] = tau[i]
    return M


def vee4(ty, M):
    tau = [M[0, 3], M[1, 3], M[2, 3]]
    phi = [(M[2, 1] - M[1, 2]) / 2, (M[0, 2] - M[2, 0]) / 2, (M[1, 0] - M[0, 1]) / 2]
    sigma = (M[0, 0] + M[1, 1] + M[2, 2]) / 3
    return join_alg(ty, tau, phi, sigma)


def exp_ref(ty, a):
    """4x4 matrix exponential of the generator of a (the definition of Exp)."""
    return mp.expm(hat4(ty, a), method="taylor")


def split_grp(ty, x):
    x = [mp.mpf(float(v)) for v in x]
    z = [mp.mpf(0)] * 3
    if ty == "SO3":
        return z, x[0:4], mp.mpf(1)
    if ty == "SE3":
        return x[0:3], x[3:7], mp.mpf(1)
    if ty == "RxSO3":
        return z, x[0:4], x[4]
    return x[0:3], x[3:7], x[7]


def rot_of_quat(q, normalize=True):
    x, y, z, w = q
    n2 = x * x + y * y + z * z + w * w
    if normalize:
        s = 2 / n2
    else:
        s = mp.mpf(2)
    return mp.matrix([[1 - s * (y * y + z * z), s * (x * y - z * w), s * (x * z + y * w)],
                      [s * (x * y + z * w), 1 - s * (x * x + z * z), s * (y * z - x * w)],
                      [s * (x * z - y * w), s * (y * z + x * w), 1 - s * (x * x + y * y)]])


def mat_of(ty, x):
    """4x4 matrix [[s R, t], [0, 1]] of a group element given by its float coordinates."""
    t, q, s = split_grp(ty, x)
    R = rot_of_quat(q)
    M = mp.eye(4)
    for i in range(3):
        for j in range(3):
            M[i, j] = s * R[i, j]
        M[i, 3] = t[i]
    return M


def log_ref(ty, M):
    """Principal logarithm of a group matrix, as algebra coordinates."""
    L = mp.logm(M)
    L = L.apply(mp.re)
    return vee4(ty, L)


def maxabs(M):
    return max(abs(M[i, j]) for i in range(M.rows) for j in range(M.cols))


def block_err(Mi, Mr, rows, cols, eps, floor=None):
    """max |Mi - Mr| over a block relative to max |Mr| over that block, in units of eps (int, capped)."""
    d = max(abs(Mi[i, j] - Mr[i, j]) for i in rows for j in cols)
    n = max(abs(Mr[i, j]) for i in rows for j in cols)
    if floor is not None:
        n = max(n, floor)
    if n == 0:
        return 0 if d == 0 else CAP
    return int(min(mp.ceil(d / n / eps), CAP))


def vec_err(vi, vr, eps, floor=None):
    d = max(abs(mp.mpf(float(a)) - b) for a, b in zip(vi, vr))
    n = max(abs(b) for b in vr)
    if floor is not None:
        n = max(n, floor)
    if n == 0:
        return 0 if d == 0 else CAP
    return int(min(mp.ceil(d / n / eps), CAP))


def unit_err(q, eps):
    n = mp.sqrt(sum(mp.mpf(float(v)) ** 2 for v in q))
    return int(min(mp.ceil(abs(n - 1) / eps), CAP))


def mat_eq_err(A, B, eps):
    """relative difference of two 4x4 matrices in eps units"""
    d = maxabs(A - B)
    n = max(maxabs(A), maxabs(B), mp.mpf(1))
    return int(min(mp.ceil(d / n / eps), CAP))


def jlinv_fd(ty, x, p, h=None):
    """d/dh Log(Exp(h p) X) at h = 0 by central differences in 60-digit arithmetic: the definition of Jinvp."""
    h = h or mp.mpf(10) ** -20
    M = mat_of(ty, x)
    Hp = hat4(ty, p)
    Lp = log_ref(ty, mp.expm(h * Hp, method="taylor") * M)
    Lm = log_ref(ty, mp.expm(-h * Hp, method="taylor") * M)
    return [(a - b) / (2 * h) for a, b in zip(Lp, Lm)]


def jlinv_fd_mat(ty, M, p, h=None):
    """As jlinv_fd, for a group element given by its 4x4 matrix."""
    h = h or mp.mpf(10) ** -20
    Hp = hat4(ty, p)
    Lp = log_ref(ty, mp.expm(h * Hp, method="taylor") * M)
    Lm = log_ref(ty, mp.expm(-h * Hp, method="taylor") * M)
    return [(a - b) / (2 * h) for a, b in zip(Lp, Lm)]


def jr_fd(x):
    """Right Jacobian of so3 at x: columns d/dh Log(Exp(x)^-1 Exp(x + h e_j)) at h = 0."""
    h = mp.mpf(10) ** -20
    E0 = exp_ref("SO3", x)
    E0i = E0 ** -1
    cols = []
    xs = [mp.mpf(float(v)) for v in x]
    for j in range(3):
        xp = list(xs)
        xm = list(xs)
        xp[j] += h
        xm[j] -= h
        Lp = log_ref("SO3", E0i * exp_ref("SO3", xp))
        Lm = log_ref("SO3", E0i * exp_ref("SO3", xm))
        cols.append([(a - b) / (2 * h) for a, b in zip(Lp, Lm)])
    return mp.matrix([[cols[j][i] for j in range(3)] for i in range(3)])


def ad_norm6(ty, xi):
    """|ad(xi)|_F^6 for sim3-type truncation allowances (ad built from the 4x4 generator by commutators)."""
    n = ADIM[ty]
    H = hat4(ty, xi)
    cols = []
    for j in range(n):
        e = [0] * n
        e[j] = 1
        E = hat4(ty, e)
        cols.append(vee4(ty, H * E - E * H))
    f2 = sum(abs(c) ** 2 for col in cols for c in col)
    return f2 ** 3
