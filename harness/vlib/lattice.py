"""Exact lattice shared by the Lie-group drivers: Hurwitz unit quaternions, integer translations,
power-of-two scales; float <-> dyadic [m, e] (= m * 2^-e, normal form) conversion; TLC behaviour parsing."""
import itertools
import math
import re
from fractions import Fraction

from .core import parse_tla_value, pypose

SENTINEL = [999999937, 0]      # encodes "not a lattice value" (never equals an expected value)
GDIM = {"SO3": 4, "SE3": 7, "RxSO3": 5, "Sim3": 8}
ADIM = {"SO3": 3, "SE3": 6, "RxSO3": 4, "Sim3": 7}
ALG = {"SO3": "so3", "SE3": "se3", "RxSO3": "rxso3", "Sim3": "sim3"}
TYPES = ["SO3", "SE3", "RxSO3", "Sim3"]


def dy(x, eps=2.0 ** -52):
    """Exact dyadic code of a float; values a few ulps off a 2^-12 grid point are snapped (DESIGN §6)."""
    x = float(x)
    if not math.isfinite(x):
        return SENTINEL
    fr = Fraction(x)
    m, den = fr.numerator, fr.denominator
    e = den.bit_length() - 1
    if abs(m) < (1 << 30) and e <= 24:
        return [m, e]
    snapped = round(x * 4096) / 4096
    if abs(x - snapped) <= 64 * eps * max(1.0, abs(x)):
        return dy(snapped) if snapped != x else SENTINEL
    return SENTINEL


def dyvec(t, eps=None):
    import torch
    if eps is None:
        eps = float(torch.finfo(t.dtype).eps) if t.is_floating_point() else 2.0 ** -52
    return [dy(v, eps) for v in t.detach().reshape(-1).tolist()]


def undy(d):
    return d[0] / float(1 << d[1])


def units24():
    u = []
    for k in range(4):
        for s in (1.0, -1.0):
            q = [0.0] * 4
            q[k] = s
            u.append(tuple(q))
    for sg in itertools.product((0.5, -0.5), repeat=4):
        u.append(sg)
    return u


U24 = units24()


def rand_elem(rng, ty, tbox=3, sbox=2):
    q = list(rng.choice(U24))
    t = [float(rng.randint(-tbox, tbox)) for _ in range(3)]
    s = [2.0 ** rng.randint(-sbox, sbox)]
    return {"SO3": q, "SE3": t + q, "RxSO3": q + s, "Sim3": t + q + s}[ty]


def rand_alg(rng, ty, box=2, pure_trans=False, pad=0):
    tau = [float(rng.randint(-box, box)) for _ in range(3)]
    phi = [0.0] * 3 if pure_trans else [float(rng.randint(-box, box)) for _ in range(3)]
    sg = [0.0] if pure_trans else [float(rng.randint(-1, 1))]
    v = {"SO3": phi, "SE3": tau + phi, "RxSO3": phi + sg, "Sim3": tau + phi + sg}[ty]
    return v + [float(rng.randint(-3, 3)) for _ in range(pad)]


def mk(ty, rows, dtype):
    import torch
    pp = pypose()
    return pp.LieTensor(torch.tensor(rows, dtype=dtype), ltype=getattr(pp, ty + "_type"))


def mkalg(ty, rows, dtype):
    import torch
    pp = pypose()
    return pp.LieTensor(torch.tensor(rows, dtype=dtype), ltype=getattr(pp, ALG[ty] + "_type"))


# ---------------------------------------------------------------- TLC -simulate behaviour files
def parse_behaviour(path):
    """Parse one file written by `tlc -simulate file=...`: list of {var: value} per state."""
    txt = open(path).read()
    states = []
    for m in re.finditer(r"STATE_\d+ ==\s*\n(.*?)(?=\n\s*\n|\Z)", txt, re.S):
        body = m.group(1)
        st = {}
        # conjuncts "/\ var = value" possibly spanning lines
        parts = re.split(r"\n?\s*/\\ (?=\w+ = )", "\n" + body)
        for p in parts:
            p = p.strip()
            if not p:
                continue
            p = re.sub(r"^/\\\s*", "", p)
            k, v = p.split(" = ", 1)
            st[k.strip()] = parse_tla_value(" ".join(v.split()))
        states.append(st)
    return states


def tla_dy(v):
    """A dyadic value as parsed from TLC output (<<m, e>>) -> float."""
    return v[0] / float(1 << v[1])
