#!/venv/bin/python
"""splitdiff.py file.diff outdir : write one patch per hunk (file header + hunk) as outdir/NN.diff"""
import re
import sys
from pathlib import Path
src, out = sys.argv[1], Path(sys.argv[2])
out.mkdir(parents=True, exist_ok=True)
lines = open(src).read().splitlines(keepends=True)
hdr, n, cur = [], 0, None
res = []
i = 0
while i < len(lines):
    ln = lines[i]
    if ln.startswith("--- "):
        hdr = [ln, lines[i + 1]]
        i += 2
        continue
    if ln.startswith("@@"):
        cur = [ln]
        res.append((list(hdr), cur))
    elif cur is not None:
        cur.append(ln)
    i += 1
for k, (h, c) in enumerate(res):
    (out / ("%02d.diff" % k)).write_text("".join(h + c))
print(len(res), "hunks")
