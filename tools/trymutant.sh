#!/bin/sh
# trymutant.sh <PID> <patch.diff> <demo.py> [tier]   : confirm a seeded change and run our check against it.
# Uses a throw-away worktree of /repo under /tmp/mutcheck (removed afterwards). Nothing is committed anywhere.
set -u
export OMP_NUM_THREADS=2 MKL_NUM_THREADS=2
PID=$1; PATCH=$(readlink -f "$2"); DEMO=$(readlink -f "$3"); TIER=${4:-quick}
W=/tmp/mutcheck/$PID.$$
mkdir -p /tmp/mutcheck
git -C /repo worktree add -q --detach "$W" HEAD || exit 2
cd "$W"
cp "$DEMO" "$W/_demo.py"; DEMO="$W/_demo.py"
echo "--- demo on clean tree (expect 0)"
PYTHONPATH=$W timeout 300 /venv/bin/python "$DEMO" >/tmp/mutcheck/demo_clean.$$ 2>&1; echo "exit=$?"
git apply --exclude=_demo.py "$PATCH" || { echo "PATCH DOES NOT APPLY"; git -C /repo worktree remove --force "$W"; exit 2; }
echo "--- demo with change (expect non-zero)"
PYTHONPATH=$W timeout 300 /venv/bin/python "$DEMO" >/tmp/mutcheck/demo_mut.$$ 2>&1; echo "exit=$?"; tail -3 /tmp/mutcheck/demo_mut.$$
echo "--- existing tests with change"
# (some tests use unseeded random data and fail once in a while on the unchanged tree too, e.g. test_optim_anybatch:
#  a failing run is repeated up to twice and the last outcome is reported)
for attempt in 1 2 3; do
  /venv/bin/python -m pytest -q -p no:cacheprovider --timeout=900 -k "not test_aperpe and not test_icp_broadcasting1 and not test_icp_broadcasting2 and not test_icp_laserscan_data and not test_epnp_highdim and not test_epnp_nonbatch and not test_epnp_random" > /tmp/mutcheck/tests.$$ 2>&1
  grep -q " failed" /tmp/mutcheck/tests.$$ || break
  grep "^FAILED" /tmp/mutcheck/tests.$$ | head -3 | sed "s/^/   attempt $attempt: /"
done
tail -3 /tmp/mutcheck/tests.$$
echo "--- our check ($TIER) against the changed tree"
cd /verif
VERIF_REPO=$W bin/check "$PID" --tier "$TIER" > /tmp/mutcheck/check.$$ 2>&1; RC=$?
grep -E "VIOLATION|key=|KNOWN|MACHINERY" /tmp/mutcheck/check.$$ | cut -c1-300 | head -12
tail -1 /tmp/mutcheck/check.$$ | cut -c1-200
echo "check exit=$RC"
git -C /repo worktree remove --force "$W"
rm -f /tmp/mutcheck/*.$$
exit 0
