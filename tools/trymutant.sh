#!/bin/sh
# trymutant.sh <PID> <patch.diff> <demo.py> [tier]   : confirm a seeded change and run our check against it.
# Uses a throw-away worktree of /repo under /tmp/mutcheck (removed afterwards). Nothing is committed anywhere.
set -u
export OMP_NUM_THREADS=2 MKL_NUM_THREADS=2
PID=$1; PATCH=$(readlink -f "$2"); DEMO=$(readlink -f "$3"); TIER=${4:-quick}
W=/tmp/mutcheck/$PID.$$
mkdir -p /tmp/mutcheck
git -C /repo worktree add -q --detach "$W" HEAD || exit 2
cd "$W"
cp "$DEMO" "$W/_demo.py"; DEMO="$W/_demo.py"
echo "--- demo on clean tree (expect 0)"
PYTHONPATH=$W timeout 300 /venv/bin/python "$DEMO" >/tmp/mutcheck/demo_clean.$$ 2>&1; echo "exit=$?"
git apply --exclude=_demo.py "$PATCH" || { echo "PATCH DOES NOT APPLY"; git -C /repo worktree remove --force "$W"; exit 2; }
echo "--- demo with change (expect non-zero)"
PYTHONPATH=$W timeout 300 /venv/bin/python "$DEMO" >/tmp/mutcheck/demo_mut.$$ 2>&1; echo "exit=$?"; tail -3 /tmp/mutcheck/demo_mut.$$
echo "--- existing tests with change"
/venv/bin/python -m pytest -q -p no:cacheprovider --timeout=900 -k "not test_aperpe and not test_icp_broadcasting1 and not test_icp_broadcasting2 and not test_icp_laserscan_data and not test_epnp_highdim and not test_epnp_nonbatch and not test_epnp_random" 2>&1 | tail -3
echo "--- our check ($TIER) against the changed tree"
cd /verif
VERIF_REPO=$W bin/check "$PID" --tier "$TIER" > /tmp/mutcheck/check.$$ 2>&1; RC=$?
grep -E "VIOLATION|key=|KNOWN|MACHINERY" /tmp/mutcheck/check.$$ | cut -c1-300 | head -12
tail -1 /tmp/mutcheck/check.$$ | cut -c1-200
echo "check exit=$RC"
git -C /repo worktree remove --force "$W"
rm -f /tmp/mutcheck/*.$$
exit 0
