#!/venv/bin/python
"""runrefactors.py PID [PID...] : behaviour-preserving refactorings from /tmp/ref/PID (refN.diff + refdemoN.py) are applied to
a fresh worktree; the demo must pass with and without, the existing tests must pass, and our check must NOT raise an alarm.
Kept under /verif/refactors/PID-N/ (ref.diff, refdemo.py, REFNOTES.md, meta.json)."""
import json
import os
import re
import shutil
import subprocess
import sys
from pathlib import Path

V = Path(__file__).resolve().parents[1]
for pid in sys.argv[1:]:
    src = Path(os.environ.get("REF_DIR", "/tmp/ref")) / pid
    for n in (1, 2, 3):
        patch, demo = src / ("ref%d.diff" % n), src / ("refdemo%d.py" % n)
        if not patch.exists() or not demo.exists():
            continue
        out = subprocess.run([str(V / "tools" / "trymutant.sh"), pid, str(patch), str(demo), "quick"],
                             capture_output=True, text=True).stdout
        ex = re.findall(r"^exit=(\d+)", out, re.M)
        tests = re.search(r"(\d+) passed.*", out)
        failed = re.search(r"(\d+) failed", out)
        rc = re.search(r"check exit=(\d+)", out)
        keys = re.findall(r"key=(\S+)", out)
        valid = len(ex) >= 2 and ex[0] == "0" and ex[1] == "0" and tests and not failed
        res = {"property": pid, "n": n, "demo_clean_exit": ex[0] if ex else None, "demo_refactored_exit": ex[1] if len(ex) > 1 else None,
               "existing_tests": tests.group(0) if tests else "?", "tests_failed": failed.group(0) if failed else None,
               "check_exit": int(rc.group(1)) if rc else None, "alarm_keys": keys[:10], "valid_refactoring": bool(valid),
               "false_alarm": bool(valid and rc and rc.group(1) != "0")}
        print(json.dumps(res))
        # first free (or identical) slot under refactors/
        k = 1
        while True:
            d = V / "refactors" / ("%s-%d" % (pid, k))
            if not d.exists() or (d / "ref.diff").read_text() == patch.read_text():
                break
            k += 1
        if valid:
            d.mkdir(parents=True, exist_ok=True)
            shutil.copy(patch, d / "ref.diff")
            shutil.copy(demo, d / "refdemo.py")
            if (src / "REFNOTES.md").exists():
                shutil.copy(src / "REFNOTES.md", d / "REFNOTES.md")
            (d / "meta.json").write_text(json.dumps({"property": pid, "kind": "behaviour-preserving refactoring",
                                                     "ran": ["tools/trymutant.sh %s ref.diff refdemo.py quick" % pid], "result": res}, indent=1) + "\n")
        (V / ".work" / "mutlogs").mkdir(parents=True, exist_ok=True)
        (V / ".work" / "mutlogs" / ("ref-%s-%d.log" % (pid, n))).write_text(out)
