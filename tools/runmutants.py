#!/venv/bin/python
"""runmutants.py PID [PID...] : confirm the seeded changes in /tmp/mut/PID (patchN.diff + demoN.py) with
tools/trymutant.sh, keep confirmed ones under /verif/seeded/PID-N/ (patch.diff, demo.py, NOTES.md, meta.json)."""
import json
import os
import re
import shutil
import subprocess
import sys
from pathlib import Path

V = Path(__file__).resolve().parents[1]
tier = "quick"
for pid in sys.argv[1:]:
    src = Path(os.environ.get("MUT_DIR", "/tmp/mut")) / pid
    for n in (1, 2, 3, 4):
        patch, demo = src / ("patch%d.diff" % n), src / ("demo%d.py" % n)
        if not patch.exists() or not demo.exists():
            continue
        out = subprocess.run([str(V / "tools" / "trymutant.sh"), pid, str(patch), str(demo), tier],
                             capture_output=True, text=True).stdout
        ex = re.findall(r"^exit=(\d+)", out, re.M)
        tests = re.search(r"(\d+) passed.*", out)
        failed = re.search(r"(\d+) failed", out)
        rc = re.search(r"check exit=(\d+)", out)
        keys = re.findall(r"key=(\S+)", out)
        confirmed = len(ex) >= 2 and ex[0] == "0" and ex[1] != "0" and tests and not failed
        res = {"property": pid, "n": n, "demo_clean_exit": ex[0] if ex else None, "demo_changed_exit": ex[1] if len(ex) > 1 else None,
               "existing_tests": tests.group(0) if tests else "?", "tests_failed": failed.group(0) if failed else None,
               "check_exit": int(rc.group(1)) if rc else None, "violation_keys": keys[:10], "confirmed": bool(confirmed),
               "caught": bool(rc and rc.group(1) == "1")}
        print(json.dumps(res))
        # first free (or identical) slot under seeded/
        k = 1
        while True:
            d = V / "seeded" / ("%s-%d" % (pid, k))
            if not d.exists() or (d / "patch.diff").read_text() == patch.read_text():
                break
            k += 1
        res["slot"] = d.name
        if confirmed:
            d.mkdir(parents=True, exist_ok=True)
            shutil.copy(patch, d / "patch.diff")
            shutil.copy(demo, d / "demo.py")
            if (src / "NOTES.md").exists():
                shutil.copy(src / "NOTES.md", d / "NOTES.md")
            meta = {"property": pid, "breaks": "see NOTES.md (change %d)" % n,
                    "needs_to_manifest": "see NOTES.md (change %d)" % n,
                    "ran": ["tools/trymutant.sh %s patch.diff demo.py %s  (fresh worktree of /repo HEAD: demo on clean tree, "
                            "apply patch, demo again, existing test suite, VERIF_REPO=<worktree> bin/check %s)" % (pid, tier, pid)],
                    "result": res}
            if (d / "meta.json").exists():
                old = json.loads((d / "meta.json").read_text())
                for key in ("summary", "breaks", "needs_to_manifest"):
                    if key in old and not str(old[key]).startswith("see NOTES"):
                        meta[key] = old[key]
            (d / "meta.json").write_text(json.dumps(meta, indent=1) + "\n")
        (V / ".work" / "mutlogs").mkdir(parents=True, exist_ok=True)
        (V / ".work" / "mutlogs" / ("%s.log" % d.name)).write_text(out)
