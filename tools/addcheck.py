#!/venv/bin/python
"""addcheck.py CNN : take the ```python CHECKS["CNN"] = dict(...)``` block from notes/CNN.md into tools/mkmanifest.py"""
import re
import sys
from pathlib import Path
V = Path(__file__).resolve().parents[1]
pid = sys.argv[1]
txt = (V / "notes" / (pid + ".md")).read_text()
m = re.search(r"```python\s*\n(CHECKS\[\"%s\"\] = dict\(.*?\))\s*```" % pid, txt, re.S)
assert m, "no CHECKS block in notes"
block = m.group(1)
ns = {"CHECKS": {}}
exec(block, ns)
assert set(ns["CHECKS"][pid]) >= {"cat", "ref", "technique", "text", "note"}
p = V / "tools" / "mkmanifest.py"
s = p.read_text()
if 'CHECKS["%s"]' % pid in s:
    s = re.sub(r'CHECKS\["%s"\] = dict\(.*?\n\)\n\n' % pid, "", s, flags=re.S)
s = s.replace("REASON_TODO =", block + "\n\nREASON_TODO =")
p.write_text(s)
print("added", pid)
