#!/venv/bin/python
"""recheck_seeded.py [PID ...] [-j N] : re-run the registered quick check against every kept seeded change
(/verif/seeded/<PID>-<n>/patch.diff) and every kept refactoring (/verif/refactors/<PID>-<n>/ref.diff) in throw-away
worktrees of /repo HEAD.  A seeded change must make the check exit 1, a refactoring must leave it at 0.
Patches that no longer apply to HEAD (the code they touch was repaired since) are reported and skipped.
Nothing is written under /verif/seeded or /verif/refactors; the result table goes to stdout."""
import os
import subprocess
import sys
from concurrent.futures import ThreadPoolExecutor
from pathlib import Path

V = Path(__file__).resolve().parents[1]
args = sys.argv[1:]
jobs_n = 5
if "-j" in args:
    i = args.index("-j")
    jobs_n = int(args[i + 1])
    del args[i:i + 2]
pids = [a.upper() for a in args] or ["C%02d" % k for k in range(1, 21)]


def one_pid(pid):
    out = []
    items = [(d, d / "patch.diff", 1) for d in sorted((V / "seeded").glob(pid + "-*"))] + \
            [(d, d / "ref.diff", 0) for d in sorted((V / "refactors").glob(pid + "-*"))]
    for d, patch, want in items:
        if not patch.exists():
            continue
        w = "/tmp/recheck/%s.%d" % (d.name, os.getpid())
        os.makedirs("/tmp/recheck", exist_ok=True)
        subprocess.run(["git", "-C", "/repo", "worktree", "add", "-q", "--detach", w, "HEAD"], check=True)
        try:
            ap = subprocess.run(["git", "-C", w, "apply", str(patch)], capture_output=True, text=True)
            if ap.returncode != 0:
                out.append((d.name, patch.name, "SKIP (does not apply to HEAD)"))
                continue
            r = subprocess.run([str(V / "bin" / "check"), pid, "--tier", "quick"], cwd=str(V), capture_output=True, text=True,
                               env=dict(os.environ, VERIF_REPO=w, OMP_NUM_THREADS="2"))
            ok = r.returncode == want
            out.append((d.name, patch.name, ("ok" if ok else "UNEXPECTED") + " exit=%d (want %d)" % (r.returncode, want)))
        finally:
            subprocess.run(["git", "-C", "/repo", "worktree", "remove", "--force", w])
    return out


with ThreadPoolExecutor(max_workers=jobs_n) as ex:
    for res in ex.map(one_pid, pids):
        for name, what, verdict in res:
            print("%-8s %-10s %s" % (name, what, verdict), flush=True)
