#!/bin/sh
# Offline setup: nothing to build. Verifies the tools the checks need are present.
set -e
cd "$(dirname "$0")/.."
mkdir -p .work evidence
test -f /opt/veriftools/tla/tla2tools.jar
/venv/bin/python -c "import torch, mpmath, numpy" 
java -version >/dev/null 2>&1
tla-sany spec/Controllers.tla >/dev/null
echo setup ok
