#!/venv/bin/python
"""Regenerates DESIGN.md §0.6 from seeded/*/meta.json and seeded/STRENGTHENED.md."""
import json
import re
from pathlib import Path
V = Path(__file__).resolve().parents[1]
rows = []
for d in sorted((V / "seeded").glob("C*-*")):
    m = json.loads((d / "meta.json").read_text())
    r = m["result"]
    patch = (d / "patch.diff").read_text()
    files = sorted(set(re.findall(r"^\+\+\+ b/(\S+)", patch, re.M)))
    desc = m.get("summary") or m["breaks"]
    rows.append("| %s | %s | %s | %s | %s |" % (d.name, ", ".join(f.replace("pypose/", "") for f in files), desc,
                                             "**caught**" if r["caught"] else "missed",
                                             ", ".join("`%s`" % k for k in r["violation_keys"][:3]) or "-"))
table = ("| id | files changed | what it breaks / what it needs to manifest | quick check | violation keys reported |\n"
         "|---|---|---|---|---|\n" + "\n".join(rows))
p = V / "DESIGN.md"
s = p.read_text()
start = s.index("### 0.6 Seeded changes and which checks catch them")
end = s.index("---------------------------------------------------------------------------------------------------", start)
intro = ("### 0.6 Seeded changes and which checks catch them\n\n"
         "Independent sub-agents, given only the text of one property and a scratch worktree (nothing from /verif), each proposed\n"
         "changes to pypose that break the property while the package imports and the existing suite passes, with a demonstration\n"
         "program. Each change was confirmed in a fresh worktree with `tools/trymutant.sh` (demo passes on the clean tree, fails with\n"
         "the change; existing tests pass) and the registered quick check was run against it (`VERIF_REPO=<worktree>`). Kept under\n"
         "`seeded/<id>/` (patch.diff, demo.py, NOTES.md, meta.json); `tools/runmutants.py` re-runs them. Where a change was first\n"
         "missed, the check was strengthened (listed after the table) and the run repeated; the table shows the final state.\n"
         "Seven rounds were run with different emphasis (the prompts are `tools/PROMPT_MUTANT*.txt`); `tools/recheck_seeded.py`\n"
         "re-runs every kept change (must be reported) and every kept refactoring of section 0.7 (must stay quiet) against the current checks -\n"
         "its last full run: every change that still applies to the repaired tree is reported, every refactoring is quiet.\n\n")
extra = (V / "seeded" / "STRENGTHENED.md").read_text() if (V / "seeded" / "STRENGTHENED.md").exists() else ""
p.write_text(s[:start] + intro + table + "\n\n" + extra + "\n" + s[end:])
print(len(rows), "rows")
