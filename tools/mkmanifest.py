#!/venv/bin/python
"""Regenerates MANIFEST.json from the table below (single source of truth)."""
import json
import subprocess
from pathlib import Path

V = Path(__file__).resolve().parents[1]
ALL = ["C%02d" % i for i in range(1, 21)]

CHECKS = {
    "C20": dict(
        cat="model_checking", ref="DESIGN.md §5 C20",
        technique="TLA+ spec Controllers.tla model-checked by TLC (all histories); trace validation of real "
                  "StopOnPlateau/ReduceToBason/optimize/MPC/ICP executions (ControllersTrace.tla) and replay of "
                  "every tabulated spec transition (ControllersGen.tla) on the real objects",
        text="TLC explores every history of the abstract alphabet (4 decrease classes x rejected/below-tol) for "
             "steps 1..6 x patience 1..4 (history kept to length 5/7, implementation-shaped state to length 12) and "
             "checks the statement-level invariant cont = no documented cause occurred, StaysStopped, "
             "ResetRestoresInitial, LoopBounded, loop termination under fairness. Conformance both ways: every "
             "transition of the spec is replayed on real objects; every abstract history of length 3/4 plus random "
             "long/batched integer-loss runs and the real driver loops are validated event by event by TLC.",
        note="Trusted: TLC, the integer encoding of losses (exact in float32/64), the harness' attribute reads "
             "(steps, patience_count, continual()). MPC/ICP loops are validated with opaque steps (float losses are "
             "not classified). loss<=0 in the relative test is unspecified and not generated."),
}

CHECKS["C12"] = dict(
    cat="model_checking", ref="DESIGN.md §5 C12",
    technique="TLA+ spec Scan.tla (log-step scan over the interval monoid) model-checked by TLC for every L; "
              "trace validation (ScanTrace.tla) of real cumops/cumprod/cummul executions observed at the monoid product",
    text="TLC checks, for every length L (1..512 quick, 1..4096 thorough), that the round-by-round doubling scan "
         "with simultaneous update yields the ordered fold at every position in ceil(log2 L) rounds (closed-form "
         "invariant, never an ill-ordered product). The real functions are run over the same monoid for every L, "
         "every dim of rank<=4 tensors, both orders, in-place and out-of-place; every product invocation (stride, "
         "row count, operand order, first/last operand rows) and the final array are validated by TLC against the "
         "spec's closed form; lattice LieTensors of all four types are compared exactly with the item-by-item fold.",
    note="Trusted: TLC; the interval monoid as representative of associative non-commutative operations; for "
         "LieTensors the library's own binary product (decided by C03) and exactness of IEEE arithmetic on the lattice.")

CHECKS["C09"] = dict(
    cat="model_checking", ref="DESIGN.md §5 C09",
    technique="TLA+ spec Kernels.tla (FastTriggs/Triggs/per-group selection and Huber over exact rationals) model-checked "
              "by TLC on every enumerated instance; trace validation (KernelsTrace.tla) of the values returned by the real "
              "correctors, GN/LM steps and kernels; spec->code table (KernelsGen.tla) of both identity sides",
    text="TLC checks on every instance of a rational lattice (shapes N<=2, d<=3, P<=3; rho' in rational squares; rho'' "
         ">0/=0/<0 with rational alpha; 118k states quick, 2.9M thorough) that FastTriggs, Triggs and any per-group mixture "
         "satisfy J'^T R' = sum rho' J_i^T R_i, that Triggs gives the full robust Hessian on rows with rho''>0, R_i!=0 and "
         "equals FastTriggs elsewhere, that alpha is the documented root, and Huber's two-piece form with continuity of "
         "value and slope, monotonicity and rejection of negative input. The real FastTriggs/Triggs are run on user "
         "polynomial kernels engineered so that all outputs are exact dyadics (d=1..6, ten batch shapes, zero residuals, "
         "rho''>0/=0/<0, float64/float32) and TLC evaluates both sides of both identities on the RETURNED values; real "
         "GN/LM steps are observed at the solver (per-group kernel/corrector selection, reported loss, descent direction); "
         "Huber is validated exactly on perfect squares incl. the threshold; the seven kernels are compared with 50-digit "
         "closed forms on a grid (a/|b|<=50) and TLC judges the integer errors, finiteness, zero at zero, monotonicity and "
         "negative-input rejection; TLC-tabulated identity sides for irrational-root instances are replayed on the code.",
    note="Trusted: TLC; exactness of IEEE arithmetic on the chosen dyadic lattice (outputs within 64 eps are snapped); "
         "mpmath for the closed forms, with the error unit eps x largest intermediate of the documented formula "
         "(tolerances are constants of Kernels.tla). Not judged: which root alpha is taken, rho'=0 with rho''>0, weights, "
         "sparse LM. Found and repaired (notes/C09.fix.diff): Triggs drops R in the rho''>0 branch; Triggs raises for "
         "kernels with constant rho' (Scale, linear); Scale accepts negative input.")

CHECKS["C03"] = dict(
    cat="model_checking", ref="DESIGN.md §5 C03",
    technique="TLA+ specs LieExact.tla/LieGroupMC.tla (exact dyadic semantics of the four groups, ghost matrix) "
              "model-checked by TLC over the Hurwitz/integer/2^k lattice; trace validation (LieTrace.tla) of real "
              "LieTensor results, exact; tlc -simulate behaviours replayed on a real LieTensor",
    text="TLC reaches every element of the lattice box (24 Hurwitz unit quaternions x integer translations x 2^k "
         "scales) of each group type by histories of @ (left/right), Inv and Retr from a generating set and checks "
         "in every state: matrix() homomorphism (ghost matrix kept by matrix products only), blocks = rotation/"
         "translation/scale, unit quaternion and positive scale, two-sided inverse, neutral identity, Act on 3- and "
         "4-vectors (incl. w=0) equals the matrix action and composes, associativity. The real @, *, Inv, Act, "
         "matrix, rotation, translation, scale and identity constructors are run on lattice batches (float32 and "
         "float64) and TLC recomputes every result from the specification and compares exactly (quaternion modulo "
         "sign); behaviours generated by TLC are stepped through one real LieTensor (Retr and add_ alternating) with "
         "the element and its matrix compared after every action; 2 000-10 000-step mixed histories on generic "
         "floats are checked for unit-norm drift <= 8 n eps and positive scale.",
    note="Trusted: TLC, exactness of IEEE arithmetic on the lattice (values within 64 eps of the 2^-12 grid are "
         "snapped). Generic (irrational) elements are only checked for validity drift here; their accuracy is the "
         "business of C01/C02/C05.")

CHECKS["C18"] = dict(
    cat="model_checking", ref="DESIGN.md §5 C18",
    technique="TLA+ specs PointCloud.tla (set-theoretic definitions of knn/nbr_filter/knn_filter/voxel_filter/"
              "random_filter + implementation-shaped operators; every ordering of every small cloud, every call) and "
              "Camera.tla (pinhole model over exact rationals) model-checked by TLC; spec->code table (PointCloudGen.tla) "
              "replayed on the real functions; code->spec trace validation (PointCloudTrace.tla, CameraTrace.tla) of "
              "recorded integer inputs/outputs",
    text="TLC explores every cloud of <=3 (quick) / <=4 (thorough) points on a 3x3 grid (and a 1-D grid) with a feature "
         "channel, in every ordering (reached by adjacent swaps, so outliers occupy every array position), and every public "
         "call with every k, n, radius, voxel size and norm 1/2/inf; invariants: the implementation-shaped operators equal "
         "the brute-force definitions (order statistics by counting, nearest sets as subsets, voxel classes), the linear "
         "certificate used on recorded runs is sound and complete, knn_filter(radius) = nbr_filter's selection of "
         "knn_filter(), and every result is permutation-equivariant; a config with the defective gather must be rejected. "
         "Camera: projection/back-projection mutually inverse, reprojerr zero exactly on produced pixels, homo/cart round "
         "trip, over integer points x quarter-valued intrinsics x 24 lattice extrinsics. Conformance both ways: TLC "
         "tabulates the expected result of every call on every enumerated ordering and the real functions are compared "
         "exactly; ~1000 (quick) recorded runs on integer clouds of 1..300 points, 1..6 dims, feature channels, float32/64, "
         "batched shapes, outliers at every position, each also in a permuted ordering, are judged event by event by TLC "
         "(indices, masks, kept rows, squared distances, means/centroids as fractions).",
    note="Trusted: TLC; exactness of IEEE arithmetic on small integers and snapping of sqrt/mean/projection results to the "
         "integer / bounded-denominator lattice within 64 eps. Ties are not judged for index claims; closed-ball radius; "
         "knn_filter(radius) neighbours taken from the whole cloud; pinhole intrinsics without skew, non-zero depth, "
         "lattice extrinsics; output order of voxel_filter and the choices of the random functions are not judged. "
         "Found: knn_filter(radius) index-space defect, voxel_filter(random=True) raising on 1-point clouds, pixel2point "
         "mis-broadcasting batched intrinsics (patch: notes/C18.fix.diff).")

CHECKS["C15"] = dict(
    cat="model_checking", ref="DESIGN.md §5 C15",
    technique="TLA+ spec SysTime.tla (time counter + polynomial NLS with symbolic differentiation) model-checked by TLC; "
              "every tabulated spec transition (SysTimeGen.tla) replayed on real LTI/LTV/NLS objects; trace validation "
              "(SysTimeTrace.tla) of random call sequences, exact integer LTI/LTV outputs, polynomial linearisations, "
              "bmv/bvv/bvmv and mpmath-referenced trigonometric programs",
    text="TLC explores every call sequence of length <= 6 over {Forward, Reset(v), SetSystime(v), SetRefpoint(args)} for "
         "LTI/LTV/NLS (history kept: time = fold of the history, +1 per call, outputs at the pre-increment index; rich "
         "alphabet: all 27 optional-argument patterns of NLS.set_refpoint) and checks LinAtRef (matrices read = symbolic "
         "Jacobians at the reference point, affine model reproduces f,g there, whatever happened since), SecondOrder and "
         "the exact Taylor remainder over the scalar polynomial grammar (1 860 / 7 320 programs x reference points). "
         "Conformance both ways: every row of the tabulated spec (all call sequences of length <= 3/4 up to state "
         "equivalence) is executed on real objects with exact comparison of systime, outputs and A..c2; random integer "
         "LTI/LTV (batched/unbatched) and random polynomial NLS call sequences, bmv/bvv/bvmv with broadcast batch "
         "shapes, and trigonometric programs (integer ulp measures vs mpmath) are validated event by event by TLC.",
    note="Trusted: TLC; exactness of IEEE arithmetic on small integers; mpmath (200 bit) for the Mode-R clause. "
         "LTV.set_refpoint() without t and set_refpoint with missing state/input before any call are unspecified and "
         "not generated; systems are called through __call__.")

CHECKS["C14"] = dict(
    cat="model_checking", ref="DESIGN.md §5 C14",
    technique="TLA+ specs LQRTime.tla (order of system calls of LQR/MPC and the time index each stage sees) and LQRExact.tla "
              "(value recursion, roll-out, cost over exact rationals) model-checked by TLC; trace validation of logged real "
              "solves (LQRTimeTrace.tla); optima tabulated by TLC (LQRExactGen.tla) and real LQR/MPC results judged in ulps "
              "(LQRExactTrace.tla); float instances against a 60-digit minimiser",
    text="TLC explores every history of <= 3 solves (plain or inside MPC.forward) interleaved with <= 3 user calls for T in 1..4 "
         "and LTI/LTV/NLS and checks StageUsesOwnIndex (stage i of every pass evaluates the dynamics at time i); the named "
         "deviation StaleStart (the unrepaired code) is refuted with a counterexample. On 3 048 integer instances (scalar and "
         "two-state, LTI and LTV, horizons 1..3) TLC checks that the value recursion's solution is feasible, costs the sum, has "
         "zero gradient in every input and no better lattice neighbour. Conformance: event logs {solve, pass, stage, time seen} "
         "of real LQR/MPC solves on logging LTI/LTV/NLS objects (any starting counter, repeated solves, any nominal inputs) are "
         "validated by TLC; real LQR/MPC results on integer instances (batches 1..3, fresh and used objects) are compared in "
         "ulps with the fractions TLC computed (starts at x_init, transition at every step, cost = sum, optimum); float "
         "instances up to n=6, T=20, cond(Q)=1e6 against a 60-digit minimiser; MPC on a nonlinear system for feasibility and "
         "cost consistency.",
    note="Trusted: TLC, Python Fraction / mpmath arithmetic of the harness, the logging subclasses' reads of systime. dt = 1 only; "
         "float instances with cond(H) > 1e7 and integer instances overflowing TLC's 32-bit fractions are skipped and counted; "
         "optimality beyond the enumerated instances is sampled, not proved.")

CHECKS["C19"] = dict(
    cat="model_checking", ref="DESIGN.md §5 C19",
    technique="TLA+ specs Spline.tla (Hermite/finite-difference formula, cumulative B-spline basis, exact count of "
              "interval multiples) and Assoc.tla (timestamp association, frame/distance pairing, statistics ordering, "
              "angle table of the 24 cube rotations) model-checked by TLC; trace validation of real chspline/bspline/"
              "matching_time_indices/pair_id/ape/rpe/geodesic_loss calls (SplineTrace.tla, AssocTrace.tla) and replay "
              "of TLC-written tables (SplineGen.tla, AssocGen.tla) on the real functions",
    text="TLC checks exhaustively on integer lattices (points -2..2 / -3..3, N<=4/5, intervals 2^-1..2^-4; stamps 0..8/11, "
         "lists <=3/<=5, thresholds 1..4): chspline interpolates at integer times, is segment-independent at knots, "
         "reproduces lines (and parabolas on interior segments) exactly and returns (N-1)K+1 samples with K the exact "
         "number of interval multiples in [0,1); the cumulative B-spline basis is C2 across segments, has unit speed, "
         "reproduces constant velocity at time j+1+u, is translation-equivariant and hits the end poses with "
         "extrapolate; nearest-stamp association is sound/complete/monotone and, for 2d-separated lists, injective, "
         "tie-free and symmetric; frame and distance pairing equal their set definitions; Max>=RMSE>=Mean>=Min>=0; the "
         "trace->angle table on all 576 rotation pairs. Conformance: every recorded call is validated by TLC from raw "
         "integers (Hermite and B-spline numerators for N<=60, dims 1..6, batches, float32/64; sample counts from the "
         "float interval's 53-bit mantissa; association, pair ids and ape/rpe translation statistics on integer "
         "trajectories with jittered stamps; geodesic_loss in units of pi/6 for six tensor types and three reductions); "
         "bspline continuity/constant-twist/left-equivariance/end poses, ape/rpe zero on identical trajectories, rpe "
         "left-invariance, ape rigid/similarity invariance with align(/scale) and the statistics ordering on general "
         "inputs are judged by TLC on integer ulp distances (tolerances >= 4x the unchanged tree). 17 code mutants "
         "caught, 7 behaviour-preserving refactors pass.",
    note="Trusted: TLC; exactness of IEEE arithmetic on the lattices (outputs snapped within 64 eps); for the measured "
         "clauses the harness' distance computation and pypose's Exp/@ on the reference side (C01/C03). Association is "
         "judged exactly only for stamp lists with gaps >= 2*max_diff (otherwise only the threshold); sample counts for "
         "intervals within one ulp below 1/n accept both n and n+1; offset, nposes, origin are not exercised "
         "(offset mutation is C06).")

CHECKS["C05"] = dict(
    cat="model_checking", ref="DESIGN.md §5 C05",
    technique="TLA+ specs LieExact.tla/LieGroupMC.tla (Adj/AdjT defined by conjugation of generator matrices; laws "
              "model-checked by TLC on the lattice); exact trace validation (LieTrace.tla) of real Adj/AdjT/Retr/+/add_; "
              "numeric trace validation (LieNumTrace.tla) of the Exp-form identities, Jinvp and Jr against 60-digit references",
    text="TLC checks in every lattice element of every group type that Adj(X,a) defined by Mat(X) hat(a) Mat(X)^-1 is a "
         "generator, that AdjT is its inverse and equals Adj of the inverse, that Adj composes, and the two Exp-form "
         "identities for pure translations. Real Adj, AdjT, Retr, X + a, pp.add and add_ (increments padded with extra "
         "components) are run on lattice batches and TLC recomputes each result exactly; algebra + vector is checked to be "
         "plain addition. On generic floats over magnitude cells (rotation 0..3, translation 0..30, log-scale -0.5..1.5; "
         "float32/64) the harness measures X@Exp(a) vs Exp(Adj)@X, Exp(a)@X vs X@Exp(AdjT), Retr vs Exp(a)@X vs + vs add_, "
         "Adj/AdjT vs conjugation of generators, Jinvp vs the finite-difference definition of d Log(Exp(h p) X)/dh and Jr "
         "vs d Log(Exp(x)^-1 Exp(x+d)) in 60-digit arithmetic, and TLC judges the integer errors against the spec's tolerances "
         "(1024 eps for the identities, 4 sqrt(eps) for Jinvp/Jr, Sim3 Jinvp with the documented truncation allowance).",
    note="Trusted: TLC, mpmath expm/logm at 60 digits, exactness of IEEE arithmetic on the lattice. Log-scales with "
         "0<|sigma|<1e-3 are left to C01 (known sim3 small-sigma band). Between sampled directions of a cell nothing is claimed.")

REASON_TODO = "check not built yet in this session (planned, see DESIGN.md §5); nothing is claimed for it"


def main():
    checks = []
    for pid in ALL:
        if pid not in CHECKS:
            continue
        c = CHECKS[pid]
        checks.append({
            "property_id": pid,
            "quick_cmd": "bin/check %s --tier quick" % pid,
            "thorough_cmd": "bin/check %s --tier thorough" % pid,
            "evidence_file": "/verif/evidence/%s.json" % pid,
            "replay_cmd_template": "bin/check %s --replay {path}" % pid,
            "engine": "tlc+harness",
            "level_claimed": {"category": c["cat"], "text": c["text"], "design_ref": c["ref"]},
            "level_note": c["note"],
            "technique": c["technique"],
        })
    na = [{"property_id": p, "reason": CHECKS.get(p, {}).get("na", REASON_TODO)} for p in ALL if p not in CHECKS]
    try:
        commits = subprocess.run(["git", "-C", "/repo", "log", "--format=%h %s", "--grep=^hook:"],
                                 capture_output=True, text=True).stdout.strip().splitlines()
    except Exception:
        commits = []
    man = {
        "version": 1,
        "setup_cmd": "tools/setup.sh",
        "hooks": {
            "guard": "PYPOSE_VERIF",
            "enable": "no source hooks are needed: checks import pypose from /repo's working tree "
                      "(VERIF_REPO overrides) in a fresh interpreter and observe it through public extension "
                      "points; PYPOSE_VERIF=1 is exported by the harness and reserved",
            "baseline_off_cmd": "cd /repo && env -u PYPOSE_VERIF /venv/bin/python -m pytest -ra -q -p no:cacheprovider "
                                "--timeout=900 --continue-on-collection-errors",
            "source_commits": commits,
            "add_only": True,
        },
        "engines": [{"name": "tlc+harness", "path": "bin/check",
                     "serves_properties": sorted(CHECKS),
                     "kind_free_text": "TLA+ specifications in spec/ checked by TLC 1.8; Python harness in harness/ "
                                       "records traces from pypose and replays spec behaviours into it"}],
        "checks": checks,
        "not_applicable": na,
        "notes": "Every check: exit 0 held / 1 violation / 2 machinery failure. known_findings.json lists genuine "
                 "defects (findings) and repaired ones (fixed). See DESIGN.md.",
    }
    (V / "MANIFEST.json").write_text(json.dumps(man, indent=1) + "\n")
    print("MANIFEST.json: %d checks, %d not_applicable" % (len(checks), len(na)))


if __name__ == "__main__":
    main()
