#!/venv/bin/python
"""Regenerates MANIFEST.json from the table below (single source of truth)."""
import json
import subprocess
from pathlib import Path

V = Path(__file__).resolve().parents[1]
ALL = ["C%02d" % i for i in range(1, 21)]

CHECKS = {
    "C20": dict(
        cat="model_checking", ref="DESIGN.md §5 C20",
        technique="TLA+ spec Controllers.tla model-checked by TLC (all histories); trace validation of real "
                  "StopOnPlateau/ReduceToBason/optimize/MPC/ICP executions (ControllersTrace.tla) and replay of "
                  "every tabulated spec transition (ControllersGen.tla) on the real objects",
        text="TLC explores every history of the abstract alphabet (4 decrease classes x rejected/below-tol) for "
             "steps 1..6 x patience 1..4 (history kept to length 5/7, implementation-shaped state to length 12) and "
             "checks the statement-level invariant cont = no documented cause occurred, StaysStopped, "
             "ResetRestoresInitial, LoopBounded, loop termination under fairness. Conformance both ways: every "
             "transition of the spec is replayed on real objects; every abstract history of length 3/4 plus random "
             "long/batched integer-loss runs and the real driver loops are validated event by event by TLC.",
        note="Trusted: TLC, the integer encoding of losses (exact in float32/64), the harness' attribute reads "
             "(steps, patience_count, continual()). MPC/ICP loops are validated with opaque steps (float losses are "
             "not classified). loss<=0 in the relative test is unspecified and not generated."),
}

CHECKS["C12"] = dict(
    cat="model_checking", ref="DESIGN.md §5 C12",
    technique="TLA+ spec Scan.tla (log-step scan over the interval monoid) model-checked by TLC for every L; "
              "trace validation (ScanTrace.tla) of real cumops/cumprod/cummul executions observed at the monoid product",
    text="TLC checks, for every length L (1..512 quick, 1..4096 thorough), that the round-by-round doubling scan "
         "with simultaneous update yields the ordered fold at every position in ceil(log2 L) rounds (closed-form "
         "invariant, never an ill-ordered product). The real functions are run over the same monoid for every L, "
         "every dim of rank<=4 tensors, both orders, in-place and out-of-place; every product invocation (stride, "
         "row count, operand order, first/last operand rows) and the final array are validated by TLC against the "
         "spec's closed form; lattice LieTensors of all four types are compared exactly with the item-by-item fold.",
    note="Trusted: TLC; the interval monoid as representative of associative non-commutative operations; for "
         "LieTensors the library's own binary product (decided by C03) and exactness of IEEE arithmetic on the lattice.")

CHECKS["C09"] = dict(
    cat="model_checking", ref="DESIGN.md §5 C09",
    technique="TLA+ spec Kernels.tla (FastTriggs/Triggs/per-group selection and Huber over exact rationals) model-checked "
              "by TLC on every enumerated instance; trace validation (KernelsTrace.tla) of the values returned by the real "
              "correctors, GN/LM steps and kernels; spec->code table (KernelsGen.tla) of both identity sides",
    text="TLC checks on every instance of a rational lattice (shapes N<=2, d<=3, P<=3; rho' in rational squares; rho'' "
         ">0/=0/<0 with rational alpha; 118k states quick, 2.9M thorough) that FastTriggs, Triggs and any per-group mixture "
         "satisfy J'^T R' = sum rho' J_i^T R_i, that Triggs gives the full robust Hessian on rows with rho''>0, R_i!=0 and "
         "equals FastTriggs elsewhere, that alpha is the documented root, and Huber's two-piece form with continuity of "
         "value and slope, monotonicity and rejection of negative input. The real FastTriggs/Triggs are run on user "
         "polynomial kernels engineered so that all outputs are exact dyadics (d=1..6, ten batch shapes, zero residuals, "
         "rho''>0/=0/<0, float64/float32) and TLC evaluates both sides of both identities on the RETURNED values; real "
         "GN/LM steps are observed at the solver (per-group kernel/corrector selection, reported loss, descent direction); "
         "Huber is validated exactly on perfect squares incl. the threshold; the seven kernels are compared with 50-digit "
         "closed forms on a grid (a/|b|<=50) and TLC judges the integer errors, finiteness, zero at zero, monotonicity and "
         "negative-input rejection; TLC-tabulated identity sides for irrational-root instances are replayed on the code.",
    note="Trusted: TLC; exactness of IEEE arithmetic on the chosen dyadic lattice (outputs within 64 eps are snapped); "
         "mpmath for the closed forms, with the error unit eps x largest intermediate of the documented formula "
         "(tolerances are constants of Kernels.tla). Not judged: which root alpha is taken, rho'=0 with rho''>0, weights, "
         "sparse LM. Found and repaired (notes/C09.fix.diff): Triggs drops R in the rho''>0 branch; Triggs raises for "
         "kernels with constant rho' (Scale, linear); Scale accepts negative input.")

CHECKS["C03"] = dict(
    cat="model_checking", ref="DESIGN.md §5 C03",
    technique="TLA+ specs LieExact.tla/LieGroupMC.tla (exact dyadic semantics of the four groups, ghost matrix) "
              "model-checked by TLC over the Hurwitz/integer/2^k lattice; trace validation (LieTrace.tla) of real "
              "LieTensor results, exact; tlc -simulate behaviours replayed on a real LieTensor",
    text="TLC reaches every element of the lattice box (24 Hurwitz unit quaternions x integer translations x 2^k "
         "scales) of each group type by histories of @ (left/right), Inv and Retr from a generating set and checks "
         "in every state: matrix() homomorphism (ghost matrix kept by matrix products only), blocks = rotation/"
         "translation/scale, unit quaternion and positive scale, two-sided inverse, neutral identity, Act on 3- and "
         "4-vectors (incl. w=0) equals the matrix action and composes, associativity. The real @, *, Inv, Act, "
         "matrix, rotation, translation, scale and identity constructors are run on lattice batches (float32 and "
         "float64) and TLC recomputes every result from the specification and compares exactly (quaternion modulo "
         "sign); behaviours generated by TLC are stepped through one real LieTensor (Retr and add_ alternating) with "
         "the element and its matrix compared after every action; 2 000-10 000-step mixed histories on generic "
         "floats are checked for unit-norm drift <= 8 n eps and positive scale.",
    note="Trusted: TLC, exactness of IEEE arithmetic on the lattice (values within 64 eps of the 2^-12 grid are "
         "snapped). Generic (irrational) elements are only checked for validity drift here; their accuracy is the "
         "business of C01/C02/C05.")

CHECKS["C18"] = dict(
    cat="model_checking", ref="DESIGN.md §5 C18",
    technique="TLA+ specs PointCloud.tla (set-theoretic definitions of knn/nbr_filter/knn_filter/voxel_filter/"
              "random_filter + implementation-shaped operators; every ordering of every small cloud, every call) and "
              "Camera.tla (pinhole model over exact rationals) model-checked by TLC; spec->code table (PointCloudGen.tla) "
              "replayed on the real functions; code->spec trace validation (PointCloudTrace.tla, CameraTrace.tla) of "
              "recorded integer inputs/outputs",
    text="TLC explores every cloud of <=3 (quick) / <=4 (thorough) points on a 3x3 grid (and a 1-D grid) with a feature "
         "channel, in every ordering (reached by adjacent swaps, so outliers occupy every array position), and every public "
         "call with every k, n, radius, voxel size and norm 1/2/inf; invariants: the implementation-shaped operators equal "
         "the brute-force definitions (order statistics by counting, nearest sets as subsets, voxel classes), the linear "
         "certificate used on recorded runs is sound and complete, knn_filter(radius) = nbr_filter's selection of "
         "knn_filter(), and every result is permutation-equivariant; a config with the defective gather must be rejected. "
         "Camera: projection/back-projection mutually inverse, reprojerr zero exactly on produced pixels, homo/cart round "
         "trip, over integer points x quarter-valued intrinsics x 24 lattice extrinsics. Conformance both ways: TLC "
         "tabulates the expected result of every call on every enumerated ordering and the real functions are compared "
         "exactly; ~1000 (quick) recorded runs on integer clouds of 1..300 points, 1..6 dims, feature channels, float32/64, "
         "batched shapes, outliers at every position, each also in a permuted ordering, are judged event by event by TLC "
         "(indices, masks, kept rows, squared distances, means/centroids as fractions).",
    note="Trusted: TLC; exactness of IEEE arithmetic on small integers and snapping of sqrt/mean/projection results to the "
         "integer / bounded-denominator lattice within 64 eps. Ties are not judged for index claims; closed-ball radius; "
         "knn_filter(radius) neighbours taken from the whole cloud; pinhole intrinsics without skew, non-zero depth, "
         "lattice extrinsics; output order of voxel_filter and the choices of the random functions are not judged. "
         "Found: knn_filter(radius) index-space defect, voxel_filter(random=True) raising on 1-point clouds, pixel2point "
         "mis-broadcasting batched intrinsics (patch: notes/C18.fix.diff).")

CHECKS["C15"] = dict(
    cat="model_checking", ref="DESIGN.md §5 C15",
    technique="TLA+ spec SysTime.tla (time counter + polynomial NLS with symbolic differentiation) model-checked by TLC; "
              "every tabulated spec transition (SysTimeGen.tla) replayed on real LTI/LTV/NLS objects; trace validation "
              "(SysTimeTrace.tla) of random call sequences, exact integer LTI/LTV outputs, polynomial linearisations, "
              "bmv/bvv/bvmv and mpmath-referenced trigonometric programs",
    text="TLC explores every call sequence of length <= 6 over {Forward, Reset(v), SetSystime(v), SetRefpoint(args)} for "
         "LTI/LTV/NLS (history kept: time = fold of the history, +1 per call, outputs at the pre-increment index; rich "
         "alphabet: all 27 optional-argument patterns of NLS.set_refpoint) and checks LinAtRef (matrices read = symbolic "
         "Jacobians at the reference point, affine model reproduces f,g there, whatever happened since), SecondOrder and "
         "the exact Taylor remainder over the scalar polynomial grammar (1 860 / 7 320 programs x reference points). "
         "Conformance both ways: every row of the tabulated spec (all call sequences of length <= 3/4 up to state "
         "equivalence) is executed on real objects with exact comparison of systime, outputs and A..c2; random integer "
         "LTI/LTV (batched/unbatched) and random polynomial NLS call sequences, bmv/bvv/bvmv with broadcast batch "
         "shapes, and trigonometric programs (integer ulp measures vs mpmath) are validated event by event by TLC.",
    note="Trusted: TLC; exactness of IEEE arithmetic on small integers; mpmath (200 bit) for the Mode-R clause. "
         "LTV.set_refpoint() without t and set_refpoint with missing state/input before any call are unspecified and "
         "not generated; systems are called through __call__.")

CHECKS["C14"] = dict(
    cat="model_checking", ref="DESIGN.md §5 C14",
    technique="TLA+ specs LQRTime.tla (order of system calls of LQR/MPC and the time index each stage sees) and LQRExact.tla "
              "(value recursion, roll-out, cost over exact rationals) model-checked by TLC; trace validation of logged real "
              "solves (LQRTimeTrace.tla); optima tabulated by TLC (LQRExactGen.tla) and real LQR/MPC results judged in ulps "
              "(LQRExactTrace.tla); float instances against a 60-digit minimiser",
    text="TLC explores every history of <= 3 solves (plain or inside MPC.forward) interleaved with <= 3 user calls for T in 1..4 "
         "and LTI/LTV/NLS and checks StageUsesOwnIndex (stage i of every pass evaluates the dynamics at time i); the named "
         "deviation StaleStart (the unrepaired code) is refuted with a counterexample. On 3 048 integer instances (scalar and "
         "two-state, LTI and LTV, horizons 1..3) TLC checks that the value recursion's solution is feasible, costs the sum, has "
         "zero gradient in every input and no better lattice neighbour. Conformance: event logs {solve, pass, stage, time seen} "
         "of real LQR/MPC solves on logging LTI/LTV/NLS objects (any starting counter, repeated solves, any nominal inputs) are "
         "validated by TLC; real LQR/MPC results on integer instances (batches 1..3, fresh and used objects) are compared in "
         "ulps with the fractions TLC computed (starts at x_init, transition at every step, cost = sum, optimum); float "
         "instances up to n=6, T=20, cond(Q)=1e6 against a 60-digit minimiser; MPC on a nonlinear system for feasibility and "
         "cost consistency.",
    note="Trusted: TLC, Python Fraction / mpmath arithmetic of the harness, the logging subclasses' reads of systime. dt = 1 only; "
         "float instances with cond(H) > 1e7 and integer instances overflowing TLC's 32-bit fractions are skipped and counted; "
         "optimality beyond the enumerated instances is sampled, not proved.")

CHECKS["C19"] = dict(
    cat="model_checking", ref="DESIGN.md §5 C19",
    technique="TLA+ specs Spline.tla (Hermite/finite-difference formula, cumulative B-spline basis, exact count of "
              "interval multiples) and Assoc.tla (timestamp association, frame/distance pairing, statistics ordering, "
              "angle table of the 24 cube rotations) model-checked by TLC; trace validation of real chspline/bspline/"
              "matching_time_indices/pair_id/ape/rpe/geodesic_loss calls (SplineTrace.tla, AssocTrace.tla) and replay "
              "of TLC-written tables (SplineGen.tla, AssocGen.tla) on the real functions",
    text="TLC checks exhaustively on integer lattices (points -2..2 / -3..3, N<=4/5, intervals 2^-1..2^-4; stamps 0..8/11, "
         "lists <=3/<=5, thresholds 1..4): chspline interpolates at integer times, is segment-independent at knots, "
         "reproduces lines (and parabolas on interior segments) exactly and returns (N-1)K+1 samples with K the exact "
         "number of interval multiples in [0,1); the cumulative B-spline basis is C2 across segments, has unit speed, "
         "reproduces constant velocity at time j+1+u, is translation-equivariant and hits the end poses with "
         "extrapolate; nearest-stamp association is sound/complete/monotone and, for 2d-separated lists, injective, "
         "tie-free and symmetric; frame and distance pairing equal their set definitions; Max>=RMSE>=Mean>=Min>=0; the "
         "trace->angle table on all 576 rotation pairs. Conformance: every recorded call is validated by TLC from raw "
         "integers (Hermite and B-spline numerators for N<=60, dims 1..6, batches, float32/64; sample counts from the "
         "float interval's 53-bit mantissa; association, pair ids and ape/rpe translation statistics on integer "
         "trajectories with jittered stamps; geodesic_loss in units of pi/6 for six tensor types and three reductions); "
         "bspline continuity/constant-twist/left-equivariance/end poses, ape/rpe zero on identical trajectories, rpe "
         "left-invariance, ape rigid/similarity invariance with align(/scale) and the statistics ordering on general "
         "inputs are judged by TLC on integer ulp distances (tolerances >= 4x the unchanged tree). 17 code mutants "
         "caught, 7 behaviour-preserving refactors pass.",
    note="Trusted: TLC; exactness of IEEE arithmetic on the lattices (outputs snapped within 64 eps); for the measured "
         "clauses the harness' distance computation and pypose's Exp/@ on the reference side (C01/C03). Association is "
         "judged exactly only for stamp lists with gaps >= 2*max_diff (otherwise only the threshold); sample counts for "
         "intervals within one ulp below 1/n accept both n and n+1; offset, nposes, origin are not exercised "
         "(offset mutation is C06).")

CHECKS["C05"] = dict(
    cat="model_checking", ref="DESIGN.md §5 C05",
    technique="TLA+ specs LieExact.tla/LieGroupMC.tla (Adj/AdjT defined by conjugation of generator matrices; laws "
              "model-checked by TLC on the lattice); exact trace validation (LieTrace.tla) of real Adj/AdjT/Retr/+/add_; "
              "numeric trace validation (LieNumTrace.tla) of the Exp-form identities, Jinvp and Jr against 60-digit references",
    text="TLC checks in every lattice element of every group type that Adj(X,a) defined by Mat(X) hat(a) Mat(X)^-1 is a "
         "generator, that AdjT is its inverse and equals Adj of the inverse, that Adj composes, and the two Exp-form "
         "identities for pure translations. Real Adj, AdjT, Retr, X + a, pp.add and add_ (increments padded with extra "
         "components) are run on lattice batches and TLC recomputes each result exactly; algebra + vector is checked to be "
         "plain addition. On generic floats over magnitude cells (rotation 0..3, translation 0..30, log-scale -0.5..1.5; "
         "float32/64) the harness measures X@Exp(a) vs Exp(Adj)@X, Exp(a)@X vs X@Exp(AdjT), Retr vs Exp(a)@X vs + vs add_, "
         "Adj/AdjT vs conjugation of generators, Jinvp vs the finite-difference definition of d Log(Exp(h p) X)/dh and Jr "
         "vs d Log(Exp(x)^-1 Exp(x+d)) in 60-digit arithmetic, and TLC judges the integer errors against the spec's tolerances "
         "(1024 eps for the identities, 4 sqrt(eps) for Jinvp/Jr, Sim3 Jinvp with the documented truncation allowance).",
    note="Trusted: TLC, mpmath expm/logm at 60 digits, exactness of IEEE arithmetic on the lattice. Log-scales with "
         "0<|sigma|<1e-3 are left to C01 (known sim3 small-sigma band). Between sampled directions of a cell nothing is claimed.")

CHECKS["C16"] = dict(
    cat="model_checking", ref="DESIGN.md §5 C16",
    technique="TLA+ spec Imu.tla (symbolic integrator state machine over words/formal sums, instantiating Scan.tla for both "
              "per-call scans) and ImuExact.tla (exact dyadic/Hurwitz sub-model) model-checked by TLC; spec->code table of "
              "all chunkings (ImuGen.tla) replayed on real integrators; trace validation (ImuTrace.tla) with integer ulp "
              "measures and exact recomputation on the lattice",
    text="TLC enumerates every chunking (composition) of every stream length F<=8 (quick, 42.6k states) / F<=12 (thorough, "
         "901k states) x input rank (H)/(F,H)/(B,F,H) x reset flag x known/integrated rotation of a symbolic integrator "
         "structured like forward (rank normalisation, scan rounds on len+1 rotation elements, integrate, predict, scan "
         "rounds on the len+1 transition matrices, buffer update) and checks in every state that buffers and every output "
         "row equal the fold of the documented recursion, the covariance equals the fold of C<-ACA^T+Q, and Scan's "
         "invariants hold for every scan length; an exact dyadic sub-model (zero rate, Hurwitz rotations, dyadic gravity) "
         "shows chained preintegration+composition = recursion on the state for all streams of a lattice box. Binding: "
         "all 2^(F-1) chunkings for F<=8/10 tabulated by TLC plus sampled chunkings for every F in 1..40 and up to 200 are "
         "replayed on real integrators (B=1..4, float32/64, zero/non-zero gravity, known/integrated rotation, random "
         "initial state); per call TLC judges ulp distances to a fresh one-shot call over the frames the spec prescribes, "
         "to an independent long-double recursion (gravity 0), rank equivalence, buffers, covariance symmetry/PSD "
         "(64 ulps per folded frame); lattice runs are recomputed by TLC from logged integers and compared by equality.",
    note="Found: propagate_cov multiplies the transition matrices in the wrong order (cumprod left=True), so the carried "
         "covariance depends on the chunking (keys num/chunk_cov/carry/f32|f64; one-argument repair in notes/C16.fix.diff; "
         "TLC reproduces it as design mutant CovLeft=TRUE). Not decided: recursion clause with non-zero gravity and "
         "integrated rotation (no documented frame index; chunk invariance only), covariance values (only symmetry/PSD "
         "and chunk invariance), init_state argument, prop_cov=False, per-call toggling of reset. Docstring/code "
         "discrepancies (R_j = DeltaR*R_i order, +g*dt terms, DeltaR_ik index in A) are recorded, not judged.",
)

CHECKS["C13"] = dict(
    cat="model_checking", ref="DESIGN.md §5 C13",
    technique="TLA+ spec Kalman.tla (KF, EKF-as-documented, UKF-as-documented with factor data, PSD/Loewner predicates "
              "over exact rationals; KalmanResample.tla index law) model-checked by TLC on enumerated integer systems; "
              "KalmanGen.tla tabulates exact posteriors and re-seeded runs (spec->code); KalmanTrace.tla recomputes the "
              "posterior and judges integer ulp distances of real EKF/UKF/PF executions (code->spec)",
    text="TLC checks on every integer system of a lattice (n,p<=2, every A with entries -1..1, non-diagonal factors of "
         "P and P-, n+k in {1,2,3,5} quick / 1..6 thorough, mean/nonlinear families, re-seeded runs) that UKF = KF and "
         "EKF = KF, that EKF on polynomial systems is the Kalman recursion of the linearisation at the prior mean with "
         "the innovation at the predicted state, that posteriors are symmetric PSD and <= the prior in the Loewner order, "
         "and the resampling index law on every small weight vector. Every tabulated instance and run (quick 1113 rows + "
         "60 runs of 5 steps; thorough runs up to 50 steps) is executed on real EKF and UKF objects (NLS subclasses) and "
         "the returned mean/covariance are judged by TLC against its own fractions (<= 65536 eps units; repaired tree "
         "<= 187). Random SPD data (dims 1..6, 6 orders of magnitude, linear and nonlinear) give symmetry/PSD measures "
         "for EKF, UKF(k>=0), PF and a distance to a 60-digit Kalman recursion; PF estimates are held to a 7-sigma band "
         "around the exact mean of the documented particle model for N = 1e3..1e6; resample_particles is compared with "
         "the index law.",
    note="Trusted: TLC; exactness of integer inputs in float64; the harness' Fraction/mpmath distance computations "
         "(dims > 2 use a harness-computed 60-digit reference, Mode R); the closed-form PF estimator variance (floats; "
         "statistical clause, fixed seeds). Instances with det(C P- C' + R) > 20000 are skipped (32-bit TLC). UKF on "
         "nonlinear systems is judged for symmetry/PSD only. Found and repaired: EKF innovation point, UKF rows vs "
         "columns, UKF mixed sigma sets, PF likelihood at the pre-transition particle (notes/C13.fix.diff).")

CHECKS["C10"] = dict(
    cat="model_checking", ref="DESIGN.md §5 C10",
    technique="TLA+ specs Solvers.tla (Cholesky PD/raise by leading minors and adj(A)b/det(A), Decell pseudo-inverse with "
              "least-squares/min-norm predicates, exact-rational CG loop) and BsrMerge.tla (two-pointer merge-join of "
              "bsr_bsc_matmul) model-checked by TLC; spec->code tables (SolversGen, BsrMergeGen) run through the real "
              "Cholesky/PINV/LSTSQ/CG/bsr_bsc_matmul; every recorded call judged by TLC (SolversTrace, BsrMergeTrace)",
    text="TLC checks on every symmetric integer matrix of order<=3 (entries -2..2) that the leading-minor classification "
         "is positive definiteness and that adj(A)b/det(A) solves; on every m x n matrix (m,n<=3, entries -1..1, all ranks) "
         "that pinv(A)b satisfies the normal equations and is orthogonal to the null space; that the exact-rational "
         "transcription of CG.forward (stopping rule, guess, preconditioner, b=0 shortcut, maxiter=10n) terminates within n "
         "updates with zero residual and returns adj(A)b/det(A) on every enumerated SPD instance; and that the merge-join "
         "of bsr_bsc_matmul visits exactly {(i,j,k): A_ik and B_kj present} with k2 inside its column slice and consistent "
         "scatter indices for every pattern pair on 2x3.3x2 (quick) up to 3x3.3x3 and 2x4.4x2 block grids. Conformance both "
         "ways: every tabulated matrix goes through the real batched solvers (must raise iff the spec says not PD; ulp "
         "distance to the exact fractions otherwise), real BSR/BSC tensors are built from the spec's index arrays and the "
         "product compared exactly with the sum over the spec's visited list and with the dense product computed by TLC; "
         "CG runs (dense/CSR/COO/BSR, guess, preconditioner, scaled systems) are judged on |b-Ax|<=tol|b|, b=0 -> 0 and "
         "convergence within the exact-CG iteration count; orders 4..40, batch shapes and condition numbers to 1e8 are "
         "sampled against exact rational references.",
    note="Trusted: TLC; the harness' exact Fraction arithmetic for ulp distances/residuals (the expected fractions are "
         "re-derived by TLC in every event); torch tensor construction/to_dense. Rounding ties of Cholesky (exact zero pivot "
         "reached through inexact square roots) are recorded, not judged; unsupported layout pairs may fail loudly; LSTSQ on "
         "rank-deficient input is judged on the normal equations only; orders 4..40 are sampled (Mode R), not exhaustive. "
         "Finds on the unchanged tree: Cholesky ignores the factorisation status (keys cholesky/nonpd_not_raised/*, "
         "big/chol/nonpd_not_raised/indefinite); repair in notes/C10.fix.diff.")

CHECKS["C11"] = dict(
    cat="model_checking", ref="DESIGN.md §5 C11",
    technique="TLA+ spec Convert.tla (branch table of the matrix->quaternion extraction, scale extraction, check=True tolerance "
              "classes, Euler composition over exact dyadics) model-checked by TLC; trace validation (ConvertTrace.tla) of real "
              "mat2*/from_matrix/euler2SO3/euler results, exact on the lattice and in integer ulps near pi",
    text="TLA+ design Convert.tla (exact dyadics): mat2SO3's mask table and masked sums transcribed from the code; TLC: table total/"
         "exclusive, all four branches on the 12 tetrahedral rotations, exact round trip Rot(FromMatrix(M)) = M on them and numerator "
         "round trip on all 24 cube rotations, from_matrix x 4 types x 3 layouts x integer translations x scales 2^k (det = s^3), "
         "rejection of scaled rotations / reflections, check=True classes proved from a polynomial model of R + 10^-k E against "
         "rtol = atol = 10^-E, Euler composition / inverse / round trip on quarter turns. Binding ConvertTrace.tla: Mode E on the "
         "lattice through the real mat2*/from_matrix/matrix()/euler()/euler2SO3 (TLC recomputes from the logged input), Mode R "
         "(angles pi -+ 1e-k about coordinate/diagonal/random axes in every branch region, scales 1e-3..1e3, batch shapes, Euler "
         "round trip up to twice the gimbal eps, rejection classes) judged by TLC from integer eps measures against 60-digit references.",
    note="quick 64 s (19.7 k design states, 397 traces / 5.9 k events), thorough 6 min (115 k states, 2 k traces / 38 k events). "
         "Finds: mat2Sim3 / mat2RxSO3 raise RuntimeError on valid inputs for batch shapes like (2,3) (zeros(shape[:-2]) vs s of shape "
         "(*,1)); repair in notes/C11.fix.diff (zeros_like). Unjudged: perturbations within two decades of the tolerance, the "
         "gimbal band |sin pitch| >= 1 - 4e-4, empty batches.")

CHECKS["C17"] = dict(
    cat="exploration", ref="DESIGN.md §5 C17",
    technique="TLA+ spec Align.tla (exact moments, SSR and ranking of the 24 cube-rotation candidates of rigid / similarity "
              "alignment on integer clouds; properness; reflection lemma) model-checked by TLC over enumerated clouds x "
              "lattice transforms x noise; trace validation (AlignTrace.tla) of what the real svdtf/svdstf/ICP/EPnP returned; "
              "spec->code table (AlignGen.tla); independent Kabsch/Umeyama for random instances",
    text="TLC explores every enumerated integer cloud of 3..6 points (generic, planar, collinear, minimal, duplicated; 553 "
         "quick / 4 794 thorough) under every lattice transform (12 Hurwitz rotations x integer translation x scale 2^k) and "
         "integer noise pattern (108k states quick, 3.5M thorough) and checks: exact correspondences give SSR 0 with the true "
         "translation and scale as the candidate's optimum, uniquely unless the cloud is collinear; the closed forms equal the "
         "definition residual by residual; the best candidate is bounded by the noise energy; negating a best reflection yields "
         "the worst proper candidate (the unrepaired design is refuted by a required counterexample); all candidates are proper. "
         "The real svdtf and svdstf are run on lattice clouds of every class (float64/float32, three batch shapes, exact and "
         "noisy) and TLC recomputes targets, class, moments and candidate ranking and judges properness, SSR(result) <= best "
         "candidate SSR (necessary for optimality) and exact reproduction modulo quaternion sign; a TLC-written table of bounds "
         "(4.9k / 25k rows) is replayed through both functions; random clouds of 3..200 points (noise 0..0.5, all of SO(3), "
         "scales 0.1..10) are judged against an independent numpy Kabsch/Umeyama in eps units; ICP is judged on mean squared "
         "closest-point distance before/after and on recovery of exact perturbations inside a constructed basin; EPnP on exact "
         "projections of 6..100 points with and without refinement.",
    note="Level exploration: optimality over SO(3) is decided through necessary conditions (finite exact candidate set, "
         "independent float64 solver), not proved. Trusted: TLC; numpy's SVD in the independent solver; LieTensor.Act (C03) to "
         "apply a result; IEEE exactness on the lattice. Found: svdtf negates the whole matrix when det = -1 (fix in "
         "notes/C17.fix.diff).")

CHECKS["C06"] = dict(
    cat="model_checking", ref="DESIGN.md §5 C06",
    technique="TLA+ specs Broadcast.tla (lshape broadcasting from the torch rule, index map, result-type table, handled-function "
              "table), Patching.tla (retain_ltype / func.jacrev as Enter/Step/Raise/Exit/Catch over the three patched torch "
              "attributes) and Purity.tla model-checked by TLC; trace validation of real calls (BroadcastTrace.tla on top of "
              "LieExact/LieTrace, PatchingTrace.tla, PurityTrace.tla); spec->code tables (BroadcastGen.tla vs torch itself, "
              "PatchingGen.tla scripts realised with real nested contexts and faults)",
    text="TLC checks on all 85x85 lshape pairs of rank<=3 with extents {0,1,2,3} (thorough: rank<=4, 116k pairs, and 614k triples) that "
         "Bcast is defined iff the documented torch rule allows it, symmetric, idempotent, has unit <<>>, is the least common expansion, "
         "propagates zero extents, that the index map is total and balanced and that the expand/flatten/kernel/unflatten scheme realises "
         "it; the table is compared row by row with torch.broadcast_shapes/expand. Every pair x {mul, act3, act4, adj, adjT, retr, add, "
         "jinvp} and every lshape x {inv, exp, log, matrix, rotation, translation, scale} is run on lattice batches with distinct items "
         "(4 types, float32/64, equivalent spellings rotated): TLC decides raise-iff-unbroadcastable, lshape, ltype, last dimension, "
         "dtype, device and recomputes every output item exactly from the operand items chosen by the spec's index map; "
         "the documented shape-only functions (+ new_empty, Parameter, deepcopy, lview) on 8 ltypes are compared with the same function "
         "on the plain tensor (ltype kept, identical items). Patching: in every reachable quiescent state of the model (depth<=3, faults "
         "at every point) the three torch attributes are the originals (the no-finally mutant is rejected); all 464/7718 complete scripts "
         "of the model are executed with real nested retain_ltype/func.jacrev and three fault classes, and TLC validates the recorded "
         "`is`-identities (every Exit restores what its Enter found; originals when quiescent; exceptions propagate). Purity: 412 public "
         "calls (functions, methods, converters, geometry, splines, metric with offsets, kernels/correctors/solvers, optimizers, module "
         "forwards) on cloned arguments with byte fingerprints before/after compared by TLC. Found and repaired: quat2unit, ape/rpe "
         "offset and CG initial-guess mutation. 11 code mutants caught, 3 behaviour-preserving refactors pass.",
    note="Trusted: TLC; LieExact/LieTrace for item values; exactness of IEEE arithmetic on the lattice (outputs snapped within 64 eps); "
         "CRC-32+shape+dtype fingerprints; CPU only. Not judged: add() when the broadcast lshape differs from the first operand's "
         "(raises), functions outside the documented handled table, calls that change the last dimension, the stray module attribute "
         "left by nested retain_ltype.")

CHECKS["C04"] = dict(
    cat="model_checking", ref="DESIGN.md §5 C04",
    technique="TLA+ specs LieRing.tla/LieJac.tla (the group formulas over dual numbers on dyadics: value and exact directional "
              "derivative) with design checks LieJacMC.tla; exact trace validation (LieJacTrace.tla) of Jacobians recorded from six "
              "autograd entry points on random well-typed programs",
    text="TLC checks for every lattice element of every group type that the ring-generic transcription of the group formulas agrees "
         "with LieExact and that the documented per-operator left-perturbation Jacobians (d(XY)/dX = I, d(XY)/dY = Adj X, dInv = "
         "-Adj(X^-1), dAct/dX = [I, -[Xp]x, Xp], dAct/dp = sR, dAdj/dX by commutator, dAdj/da = Adj X, dAdjT/da = Adj X^-1, Exp/Log "
         "first order) equal the dual-number derivation. Random well-typed programs (depth <= 4 quick, 6 thorough) over mul, inv, "
         "act3, act4, adj, adjT, retr, exp, log, matrix with shared inputs are differentiated by torch.autograd.grad with every unit "
         "cotangent, .backward(), autograd.functional.jacobian (plain and vectorized), pp.func.jacrev and pp.optim.functional.modjac "
         "on lattice inputs (float32/64); TLC recomputes value and Jacobian of each program from the logged inputs with dual numbers "
         "and compares exactly, including the zero slot of group gradients and finiteness at identity / zero.",
    note="Trusted: TLC; exactness of IEEE arithmetic on the lattice. Exact fragment: Exp/Log/Retr nodes where their series are "
         "finite (zero rotation and log-scale part). Generic Exp/Log/Jinvp evaluation points are decided numerically by C05 "
         "(Jinvp, Jr) and the Mode-R part; group-valued program outputs are not generated (no property-defined Jacobian).")

CHECKS["C01"] = dict(
    cat="model_checking", ref="DESIGN.md §5 C01",
    technique="TLA+ spec LieRegimes.tla (regime masks of so3_Exp/so3_Jl/rxso3_Ws and a first-order error model per regime) "
              "model-checked by TLC over every magnitude cell; trace validation (LieRegimesTrace.tla) of per-cell errors of the "
              "real Exp measured against the 60-digit matrix exponential; exact points via LieTrace.tla",
    text="TLC enumerates every cell (4 types x 2 dtypes x theta/sigma decimal exponents -30..1 or zero x side of the eps switch) and "
         "checks that the code's regime conditions are total and exclusive, continuity of the model across the theta switch, and "
         "that the error model meets the stated tolerance everywhere except the sim3 band eps < |sigma| << 1 (design-level "
         "finding). Every cell of the property's quantifier (theta: 0, 1e-30.., eps-/eps/eps+, sqrt(eps)-/+, O(1), pi-1e-k, pi, "
         "pi+, 2pi-/+, 3pi, 5pi; sigma: 0, +-1e-30, +-eps-/+, .., +-8; |tau| 0..1e4; float32/64; folded into a 2-d batch) is "
         "instantiated with random directions; the harness measures rotation/scale-block, translation-block and unit-norm "
         "errors against mpmath expm and TLC judges them against 256 eps / 8 sqrt(eps) / 8 eps and against the model "
         "(+3 decades); Exp(0) = identity exactly; rotation-free arguments exactly via LieTrace.",
    note="Trusted: TLC; mpmath expm at 60 digits; the harness' integer error measures (max-norm relative per block). Nothing is "
         "claimed between the sampled directions of a cell or for |sigma| > 8. Known finding (listed): sim3 translation block in "
         "the band eps < |sigma| <= ~1e-10 (f64) / ~1e-5 (f32).")

CHECKS["C02"] = dict(
    cat="model_checking", ref="DESIGN.md §5 C02",
    technique="TLA+ spec LieRegimes.tla model-checked by TLC; trace validation (LieRegimesTrace.tla: LogClause, LogExpClause) of "
              "per-cell measurements of the real Log/Exp/Inv relations in 60-digit arithmetic",
    text="Every group cell (angle 0, 1e-30, 2eps-/+, .., pi-1e-k for k<=15, pi; both quaternion hemispheres; scales e^sigma over "
         "the sigma classes of C01 up to e^+-8; |t| 0..1e4; 4 types; float32/64) is built from exact unit quaternions; TLC judges "
         "Exp(Log X) = X per block (256 eps / 8 sqrt(eps)), |rot(Log X)| <= pi(1 + 4 eps), Log(identity) = 0 exactly, and - away "
         "from pi (angle <= pi - 1e-6) - Log(-q) = Log(q) and Log(Inv X) = -Log X; Log(Exp x) = x for all algebra cells with "
         "angle below pi; on the Hurwitz units Log(-q) = Log(q) bitwise.",
    note="Trusted: TLC; mpmath for building cells and measuring; the log-scale slot is judged absolutely (relative to "
         "max(1,|sigma|)) because s = e^sigma cannot carry |sigma| < eps. Known finding (listed): sim3 translation relations in "
         "the small-sigma band of C01.")

CHECKS["C08"] = dict(
    cat="model_checking", ref="DESIGN.md §5 C08",
    technique="TLA+ spec LMStep.tla (implementation-shaped LevenbergMarquardt.step / GaussNewton.step over several calls, "
              "the three damping strategies in exponent arithmetic) model-checked by TLC; code->spec trace validation "
              "(LMStepTrace.tla) of real LM/GN executions observed through a user solver and a user strategy subclass; "
              "spec->code table of call scripts (LMStepGen.tla) replayed on the real LM",
    text="TLC explores every behaviour of LM x {Constant, Adaptive, TrustRegion} x reject 0..4 (thorough 0..6) x 4 (5) "
         "step() calls x every environment choice per trial (solver ok|raise, loss better|equal|worse, quality class), and "
         "GN, and checks ReturnedLossIsTrueLoss, NotWorseUnlessExhausted, RejectedTrialRestores, SolverRaiseRestores, "
         "TrialsBounded, DampingMoves (documented rule per strategy), DampingWithinBounds, GNReturnsNewRecordsPrevious, "
         "termination; six seeded design mutants must be rejected. Real optimizers are run (i) on integer polynomial "
         "models with a scripted integer solver (first k trials worse for k = 0..reject+1, reject 0..16, the solver "
         "raising at every j-th solve, random scripts over up to 30 calls; TLC itself computes the true loss of every "
         "logged parameter vector, the predicted decrease, the quality class and the expected damping exponents) and "
         "(ii) with the real Cholesky/PINV solvers (true, poisoned, zero, raising) on Rosenbrock, saturating, exponential, "
         "Himmelblau and SE3 models from far starts with tiny damping (genuine rejections; ranks and integer ulp "
         "distances); every tabulated call script of the specification is replayed on the real LM from every strategy "
         "state and compared after every action.",
    note="Trusted: TLC; IEEE exactness on small integers / powers of two; the harness' loss recomputation (fsum of squared "
         "residuals of the user's model, Huber closed form) in float runs. Not judged: equal-loss ties, x/0 ratios, "
         "non-finite runs, weights, non-power-of-two hyper-parameters.")

CHECKS["C07"] = dict(
    cat="model_checking", ref="DESIGN.md §5 C07",
    technique="TLA+ spec NormalEq.tla (exact dyadic transcription of the documented GN / LM systems: stacking, weight "
              "broadcasting and block-diagonal expansion, corrector, (WJ, -WR), A_0 = clamp_diag(J'WJ), A_k = A_(k-1) + "
              "lambda_k diag(A_(k-1)), b = -J'WR, column layouts, split of delta, update kinds; true Jacobian by dual numbers "
              "from LieJac) model-checked by TLC (NormalEqMC); spec->code table (NormalEqGen) replayed on the real optimizers; "
              "real GN/LM executions with a recording solver / strategy / corrector judged by TLC (NormalEqTrace)",
    text="TLC checks for every model shape (1-3 parameters of kinds Euclidean/algebra/group, batched, every frozen subset, 1-2 "
         "residual blocks, every broadcastable weight shape) that tangent columns and residual rows partition the system, that "
         "the four column layouts project onto the tangent coordinates, that delta is split as a partition, and that the "
         "block-diagonal weight equals an independent recursive definition of broadcasting; for every small integer system "
         "that A_k has the closed-form diagonal clamp(H_ii) prod(1+lambda_j), untouched off-diagonal, is symmetric, that b and "
         "H are minus half the gradient and half the Hessian of the weighted quadratic model, that a consistent GN system is "
         "solved by its delta and a solution of the normal form minimises |W(J delta + R)|; that the rotation-free retraction is "
         "the left translation and differs to first order from addition. Conformance: every tabulated system is replayed on "
         "the real LM (all trials of a call, rejections forced by the solver) and GN and compared exactly; on random lattice "
         "models (c04 programs and integer linear maps, float32/float64, vectorize on/off, weights as constructor/step "
         "argument, correctors incl. FastTriggs and Triggs with exact polynomial kernels) TLC recomputes residuals, the true Jacobian, W, "
         "A_k, b from the model description and compares them with what the solver received after projecting the padding "
         "columns, validates the parameter points the model is evaluated at (group: Exp(delta)@X exactly; generic delta to "
         "first order; frozen untouched), and judges the default PINV / Cholesky steps through integer ulp measures of the "
         "normal equations, null-space orthogonality and A_1 delta = b.",
    note="Trusted: TLC; LieJac/LieRing (C04); the driver's dyadic codec and its exact-Fraction measures for the default "
         "solvers (the systems they are computed from are re-derived by TLC). Asymmetric weights (outside SPD), generic "
         "kernels (C09), the sparse backend, generic (non first-order) retractions and the accept/reject decision are not decided "
         "here. Finds on the unchanged tree: any requires_grad=False parameter makes GN/LM raise and, once the columns are "
         "dropped, the split pairs slices with the wrong parameters (keys frozen/*/*/raised, frozen/step/*/trial_point); weights "
         "with an inner batch extent 1 are tiled instead of broadcast (keys w=interior1/step/*); repair in notes/C07.fix.diff.")

REASON_TODO = "check not built yet in this session (planned, see DESIGN.md §5); nothing is claimed for it"


def main():
    checks = []
    for pid in ALL:
        if pid not in CHECKS:
            continue
        c = CHECKS[pid]
        checks.append({
            "property_id": pid,
            "quick_cmd": "bin/check %s --tier quick" % pid,
            "thorough_cmd": "bin/check %s --tier thorough" % pid,
            "evidence_file": "/verif/evidence/%s.json" % pid,
            "replay_cmd_template": "bin/check %s --replay {path}" % pid,
            "engine": "tlc+harness",
            "level_claimed": {"category": c["cat"], "text": c["text"], "design_ref": c["ref"]},
            "level_note": c["note"],
            "technique": c["technique"],
        })
    na = [{"property_id": p, "reason": CHECKS.get(p, {}).get("na", REASON_TODO)} for p in ALL if p not in CHECKS]
    try:
        commits = subprocess.run(["git", "-C", "/repo", "log", "--format=%h %s", "--grep=^hook:"],
                                 capture_output=True, text=True).stdout.strip().splitlines()
    except Exception:
        commits = []
    man = {
        "version": 1,
        "setup_cmd": "tools/setup.sh",
        "hooks": {
            "guard": "PYPOSE_VERIF",
            "enable": "no source hooks are needed: checks import pypose from /repo's working tree "
                      "(VERIF_REPO overrides) in a fresh interpreter and observe it through public extension "
                      "points; PYPOSE_VERIF=1 is exported by the harness and reserved",
            "baseline_off_cmd": "cd /repo && env -u PYPOSE_VERIF /venv/bin/python -m pytest -ra -q -p no:cacheprovider "
                                "--timeout=900 --continue-on-collection-errors",
            "source_commits": commits,
            "add_only": True,
        },
        "engines": [{"name": "tlc+harness", "path": "bin/check",
                     "serves_properties": sorted(CHECKS),
                     "kind_free_text": "TLA+ specifications in spec/ checked by TLC 1.8; Python harness in harness/ "
                                       "records traces from pypose and replays spec behaviours into it"}],
        "checks": checks,
        "not_applicable": na,
        "notes": "Every check: exit 0 held / 1 violation / 2 machinery failure. known_findings.json lists genuine "
                 "defects (findings) and repaired ones (fixed). See DESIGN.md.",
    }
    (V / "MANIFEST.json").write_text(json.dumps(man, indent=1) + "\n")
    print("MANIFEST.json: %d checks, %d not_applicable" % (len(checks), len(na)))


if __name__ == "__main__":
    main()
