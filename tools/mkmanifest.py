#!/venv/bin/python
"""Regenerates MANIFEST.json from the table below (single source of truth)."""
import json
import subprocess
from pathlib import Path

V = Path(__file__).resolve().parents[1]
ALL = ["C%02d" % i for i in range(1, 21)]

CHECKS = {
    "C20": dict(
        cat="model_checking", ref="DESIGN.md §5 C20",
        technique="TLA+ spec Controllers.tla model-checked by TLC (all histories); trace validation of real "
                  "StopOnPlateau/ReduceToBason/optimize/MPC/ICP executions (ControllersTrace.tla) and replay of "
                  "every tabulated spec transition (ControllersGen.tla) on the real objects",
        text="TLC explores every history of the abstract alphabet (4 decrease classes x rejected/below-tol) for "
             "steps 1..6 x patience 1..4 (history kept to length 5/7, implementation-shaped state to length 12) and "
             "checks the statement-level invariant cont = no documented cause occurred, StaysStopped, "
             "ResetRestoresInitial, LoopBounded, loop termination under fairness. Conformance both ways: every "
             "transition of the spec is replayed on real objects; every abstract history of length 3/4 plus random "
             "long/batched integer-loss runs and the real driver loops are validated event by event by TLC.",
        note="Trusted: TLC, the integer encoding of losses (exact in float32/64), the harness' attribute reads "
             "(steps, patience_count, continual()). MPC/ICP loops are validated with opaque steps (float losses are "
             "not classified). loss<=0 in the relative test is unspecified and not generated."),
}

CHECKS["C12"] = dict(
    cat="model_checking", ref="DESIGN.md §5 C12",
    technique="TLA+ spec Scan.tla (log-step scan over the interval monoid) model-checked by TLC for every L; "
              "trace validation (ScanTrace.tla) of real cumops/cumprod/cummul executions observed at the monoid product",
    text="TLC checks, for every length L (1..512 quick, 1..4096 thorough), that the round-by-round doubling scan "
         "with simultaneous update yields the ordered fold at every position in ceil(log2 L) rounds (closed-form "
         "invariant, never an ill-ordered product). The real functions are run over the same monoid for every L, "
         "every dim of rank<=4 tensors, both orders, in-place and out-of-place; every product invocation (stride, "
         "row count, operand order, first/last operand rows) and the final array are validated by TLC against the "
         "spec's closed form; lattice LieTensors of all four types are compared exactly with the item-by-item fold.",
    note="Trusted: TLC; the interval monoid as representative of associative non-commutative operations; for "
         "LieTensors the library's own binary product (decided by C03) and exactness of IEEE arithmetic on the lattice.")

REASON_TODO = "check not built yet in this session (planned, see DESIGN.md §5); nothing is claimed for it"


def main():
    checks = []
    for pid in ALL:
        if pid not in CHECKS:
            continue
        c = CHECKS[pid]
        checks.append({
            "property_id": pid,
            "quick_cmd": "bin/check %s --tier quick" % pid,
            "thorough_cmd": "bin/check %s --tier thorough" % pid,
            "evidence_file": "/verif/evidence/%s.json" % pid,
            "replay_cmd_template": "bin/check %s --replay {path}" % pid,
            "engine": "tlc+harness",
            "level_claimed": {"category": c["cat"], "text": c["text"], "design_ref": c["ref"]},
            "level_note": c["note"],
            "technique": c["technique"],
        })
    na = [{"property_id": p, "reason": CHECKS.get(p, {}).get("na", REASON_TODO)} for p in ALL if p not in CHECKS]
    try:
        commits = subprocess.run(["git", "-C", "/repo", "log", "--format=%h %s", "--grep=^hook:"],
                                 capture_output=True, text=True).stdout.strip().splitlines()
    except Exception:
        commits = []
    man = {
        "version": 1,
        "setup_cmd": "tools/setup.sh",
        "hooks": {
            "guard": "PYPOSE_VERIF",
            "enable": "no source hooks are needed: checks import pypose from /repo's working tree "
                      "(VERIF_REPO overrides) in a fresh interpreter and observe it through public extension "
                      "points; PYPOSE_VERIF=1 is exported by the harness and reserved",
            "baseline_off_cmd": "cd /repo && env -u PYPOSE_VERIF /venv/bin/python -m pytest -ra -q -p no:cacheprovider "
                                "--timeout=900 --continue-on-collection-errors",
            "source_commits": commits,
            "add_only": True,
        },
        "engines": [{"name": "tlc+harness", "path": "bin/check",
                     "serves_properties": sorted(CHECKS),
                     "kind_free_text": "TLA+ specifications in spec/ checked by TLC 1.8; Python harness in harness/ "
                                       "records traces from pypose and replays spec behaviours into it"}],
        "checks": checks,
        "not_applicable": na,
        "notes": "Every check: exit 0 held / 1 violation / 2 machinery failure. known_findings.json lists genuine "
                 "defects (findings) and repaired ones (fixed). See DESIGN.md.",
    }
    (V / "MANIFEST.json").write_text(json.dumps(man, indent=1) + "\n")
    print("MANIFEST.json: %d checks, %d not_applicable" % (len(checks), len(na)))


if __name__ == "__main__":
    main()
