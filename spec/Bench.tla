---- MODULE Bench ----
EXTENDS LieJac, IOUtils
X1 == <<D(1),D(2),D(0), DHalf,DHalf,DHalf,DHalf>>
In(k) == [op |-> "in", k |-> k]
RECURSIVE Chain(_)
Chain(d) == IF d = 0 THEN In(1) ELSE [op |-> "mul", a |-> Chain(d-1), b |-> In(1)]
RECURSIVE AdjChain(_)
AdjChain(d) == IF d = 0 THEN In(2) ELSE [op |-> "adj", a |-> [op |-> "inv", a |-> In(1)], b |-> AdjChain(d-1)]
Prog(d) == [op |-> "tensor", a |-> AdjChain(d)]
T(d) == Value("SE3", Prog(d), <<"G","A">>, <<X1, <<D(1),D(0),D(2),D(1),D(1),D(0)>>>>)
ASSUME PrintT(<<"d", atoi(IOEnv.DEPTH), T(atoi(IOEnv.DEPTH))>>)
VARIABLE x
Init == x = 0
Next == UNCHANGED x
Spec == Init /\ [][Next]_x
====
