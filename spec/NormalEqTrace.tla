------------------------------ MODULE NormalEqTrace ------------------------------
(* Judges executions of the REAL pypose.optim.GaussNewton / LevenbergMarquardt against      *)
(* NormalEq.  The driver describes a lattice model (programs + inputs + weights), gives the  *)
(* real optimizer a recording solver (public extension point) and logs what the solver was   *)
(* handed and what the model's parameters were when the model was evaluated afterwards.      *)
(* TLC recomputes R, the true Jacobian (dual numbers), the weight expansion and the          *)
(* documented systems exactly and compares.  Events are independent of any state, so every   *)
(* verdict is computed at constant level (see LieJacTrace) and the behaviour is trivial.     *)
(*                                                                                          *)
(* events (all carry  m  = model description,  opt \in {"GN","LM"},  out \in {"ok","raise"}) *)
(*  step   one optimizer.step() with a scripted recording solver:                            *)
(*           layout, mn, mx (LM clamps), trials = <<[lam, A, b, dx, seen]>> one per solver    *)
(*           call (lam = damping in force, A/b = what the solver received, dx = what it        *)
(*           returned, seen = distinct parameter snapshots taken by the model's forward        *)
(*           between this and the next solver call), after = parameters when step() returned  *)
(*  first  one step with the tiny increment 2^-sc a: chg = (after - before) 2^sc per element  *)
(*  e2e    one step with the DEFAULT solver (GN: PINV, LM: Cholesky); the system (A, b) is     *)
(*         recorded on a twin model, the parameter change is reported through integer          *)
(*         measures (units of eps * scale) computed in exact rational arithmetic from (A, b)   *)
EXTENDS NormalEq, Json, IOUtils

Traces == JsonDeserialize(IOEnv.TRACE_FILE)

VARIABLES tid, l, verdict

TolUlps == 256       \* default-solver measures (unit: eps * norm-wise scale); the correct code measures <= 8

Tag(c, k) == c \o ".k" \o ToString(k)

\* ---------------------------------------------------------------- system of one solver call
ShapeBad(t, w, square) ==
  \/ Len(t.A) = 0 \/ Len(t.b) # Len(t.A)
  \/ \E r \in 1..Len(t.A) : Len(t.A[r]) # w
  \/ (square /\ Len(t.A) # w)
  \/ Len(t.dx) # w

GNSys(e, t, L, keep, drop) ==
  IF ShapeBad(t, Width(e.m, e.layout), FALSE) THEN "system_shape"
  ELSE IF ~DecoupledRect(t.A, drop) THEN (IF LayoutAll(e.layout) THEN "frozen_coupled" ELSE "padding_coupled")
  ELSE Only({ IF got.N # want.N THEN "gn_normal_matrix" ELSE IF got.g # want.g THEN "gn_normal_rhs" ELSE "ok" :
              got \in {NormalForm(SubCols(t.A, keep), t.b)},
              want \in {Only({NormalForm(s.A, s.b) : s \in {GNSystem(L)}})} })

LMSys(e, t, A, b, keep, drop) ==
  IF ShapeBad(t, Width(e.m, e.layout), TRUE) THEN "system_shape"
  ELSE IF ~DecoupledSquare(t.A, t.b, drop) THEN (IF LayoutAll(e.layout) THEN "frozen_coupled" ELSE "padding_coupled")
  ELSE Only({ IF \E i, j \in 1..Len(A) : i # j /\ got[i][j] # A[i][j] THEN "lm_matrix_offdiag"
              ELSE IF \E i \in 1..Len(A) : got[i][i] # A[i][i] THEN "lm_matrix_diag"
              ELSE IF SubVec(t.b, keep) # b THEN "lm_rhs" ELSE "ok" :
              got \in {SubMat(t.A, keep)} })

\* ---------------------------------------------------------------- parameter change of one trial
TrialUpdate(e, t, keep, drop) ==
  Only({ IF \E c \in drop : t.dx[c] # DZero THEN "machinery_delta_padding"
         ELSE IF ~DeltaExact(e.m, d) THEN "machinery_delta_inexact"
         ELSE IF Len(t.seen) = 0 THEN "trial_point_not_evaluated"
         ELSE IF \E i \in 1..Len(t.seen) : ~(UpdateOK(e.m, d, t.seen[i]) \/ Unchanged(e.m, t.seen[i])) THEN "trial_point"
         ELSE IF ~\E i \in 1..Len(t.seen) : UpdateOK(e.m, d, t.seen[i]) THEN "trial_point"
         ELSE "ok" : d \in {SubVec(t.dx, keep)} })
FinalUpdate(e, keep) ==
  LET t == e.trials[Len(e.trials)]  d == SubVec(t.dx, keep) IN
  IF UpdateOK(e.m, d, e.after) THEN "ok"
  ELSE IF e.opt = "LM" /\ Unchanged(e.m, e.after) THEN "ok"        \* a rejected last trial (accept/reject logic: C08)
  ELSE "final_point"

RECURSIVE LMFrom(_, _, _, _, _, _)
LMFrom(e, keep, drop, b, Aprev, k) ==
  IF k > Len(e.trials) THEN "ok"
  ELSE Only({ LET c == LMSys(e, e.trials[k], A, b, keep, drop)
                  u == IF c # "ok" THEN c ELSE TrialUpdate(e, e.trials[k], keep, drop) IN
              IF u # "ok" THEN Tag(u, k) ELSE LMFrom(e, keep, drop, b, A, k + 1) :
              A \in {Damp(Aprev, e.trials[k].lam)} })

\* what the corrector of block b received: the raw residual (any shape, row-major) and raw Jacobian rows
CorInput(e, L, keep, drop) ==
  IF Len(e.cin) = 0 THEN "ok"
  ELSE IF Len(e.cin) # Len(e.m.blocks) THEN "corrector_calls"
  ELSE IF \E b \in 1..Len(e.cin) :
            LET br == BlockRows(e.m, b) IN
            \/ e.cin[b].R # Slice(L.R0, br[1], br[2])
            \/ Len(e.cin[b].J) # br[2]
            \/ ~DecoupledRect(e.cin[b].J, drop)
            \/ SubCols(e.cin[b].J, keep) # Slice(L.J0, br[1], br[2])
       THEN "corrector_input"
  ELSE "ok"

Judge(e, L, keep, drop) ==
  IF Len(e.trials) = 0 THEN "no_solver_call"
  ELSE IF CorInput(e, L, keep, drop) # "ok" THEN CorInput(e, L, keep, drop)
  ELSE IF e.opt = "GN" THEN
    (IF Len(e.trials) # 1 THEN "gn_solver_calls"
     ELSE LET c == GNSys(e, e.trials[1], L, keep, drop) IN
          IF c # "ok" THEN Tag(c, 1)
          ELSE LET u == TrialUpdate(e, e.trials[1], keep, drop) IN
               IF u # "ok" THEN Tag(u, 1) ELSE FinalUpdate(e, keep))
  ELSE Only({ LET c == LMFrom(e, keep, drop, h.b, h.A, 1) IN IF c # "ok" THEN c ELSE FinalUpdate(e, keep) :
              h \in {LMInit(L, e.mn, e.mx)} })

Pre(e) == IF ~WeightOK(e.m) THEN "machinery_weight"
          ELSE IF ~ModelDefined(e.m) THEN "machinery_fragment"
          ELSE IF ~KernelDataOK(e.m) THEN "machinery_corrector"
          ELSE IF Len(Keep(e.m, e.layout)) # NCols(e.m) THEN "machinery_layout"
          ELSE IF e.out = "raise" THEN "raised"
          ELSE "ok"

StepClause(e) ==
  LET p == Pre(e) IN
  IF p # "ok" THEN p
  ELSE Only({ Judge(e, L, keep, drop) :
              L \in {Linearise(e.m)}, keep \in {Keep(e.m, e.layout)}, drop \in {Dropped(e.m, e.layout)} })

\* ---------------------------------------------------------------- first-order retraction
FirstClause(e) ==
  LET p == Pre(e) IN
  IF p # "ok" THEN p
  ELSE Only({ IF Len(e.a) # Width(e.m, e.layout) THEN "system_shape"
              ELSE IF \E c \in Dropped(e.m, e.layout) : e.a[c] # DZero THEN "machinery_delta_padding"
              ELSE IF ~FirstOrderOK(e.m, SubVec(e.a, keep), e.chg) THEN "first_order_update"
              ELSE "ok" : keep \in {Keep(e.m, e.layout)} })

\* ---------------------------------------------------------------- default solvers, end to end
E2EJudge(e, L, keep, drop) ==
  IF e.opt = "GN" THEN
    LET c == GNSys(e, e.sys, L, keep, drop) IN
    IF c # "ok" THEN c
    ELSE Only({ IF \E i \in 1..Len(e.nulls) : MatVec(nf.N, e.nulls[i]) # VZero(Len(nf.N)) THEN "machinery_null_vector"
                ELSE IF e.ne_ulps > TolUlps THEN "gn_default_not_least_squares"
                ELSE IF e.null_ulps > TolUlps THEN "gn_default_not_min_norm"
                ELSE "ok" : nf \in {Only({NormalForm(s.A, s.b) : s \in {GNSystem(L)}})} })
  ELSE Only({ Only({ LET c == LMSys(e, e.sys, A, h.b, keep, drop) IN
                     \* the default solver (Cholesky) is held to TolUlps; the rank-revealing solvers (PINV, LSTSQ) and the
                     \* upper-triangular Cholesky are backward stable only norm-wise on the ill-conditioned damped matrix
                     \* (diagonal entries clamped up from 0): 4096 times more (a wrong solve is off by ~1/eps ulps)
                     IF c # "ok" THEN c
                     ELSE IF e.res_ulps > TolUlps * (IF e.solver = "default" THEN 1 ELSE 4096) THEN "lm_default_not_solution"
                     ELSE "ok" :
                     A \in {Damp(h.A, e.sys.lam)} }) :
              h \in {LMInit(L, e.mn, e.mx)} })
E2EClause(e) ==
  LET p == Pre(e) IN
  IF p # "ok" THEN p
  ELSE IF e.out2 = "raise" THEN "default_solver_raised"
  ELSE Only({ E2EJudge(e, L, keep, drop) :
              L \in {Linearise(e.m)}, keep \in {Keep(e.m, e.layout)}, drop \in {Dropped(e.m, e.layout)} })

\* the default GN solver on an ill-scaled, full-rank, consistent linear system: norm-wise forward error (eps units) of the
\* parameter change against the exact least-squares solution; a backward-stable least-squares solve is within a small multiple
\* of cond(A) eps, a solve through the normal equations (cond^2, rank truncation) is off by O(1) = 1/eps units
ScaledClause(e) ==
  IF e.out = "raise" THEN "default_solver_raised"
  ELSE IF ~e.finite THEN "nonfinite"
  ELSE IF e.err > 64 * e.cond THEN "gn_default_not_least_squares"
  ELSE "ok"

Clause(e) == CASE e.act = "step"  -> StepClause(e)
               [] e.act = "e2e_scaled" -> ScaledClause(e)
               [] e.act = "first" -> FirstClause(e)
               [] e.act = "e2e"   -> E2EClause(e)
               [] OTHER -> "unknown_event"

RECURSIVE FirstFail(_, _)
FirstFail(T, i) == IF i > Len(T.ev) THEN "ok"
                   ELSE LET c == Clause(T.ev[i]) IN
                        IF c # "ok" THEN c \o "@" \o ToString(i) ELSE FirstFail(T, i + 1)
ASSUME \A t \in 1..Len(Traces) : PrintT(<<"VERDICT", t, FirstFail(Traces[t], 1)>>)

Init == tid = 0 /\ l = 0 /\ verdict = "ok"
Next == UNCHANGED <<tid, l, verdict>>
Spec == Init /\ [][Next]_<<tid, l, verdict>>
================================================================================
