SPECIFICATION Spec
CONSTANTS
  Mode = "shape"
  MaxP = 1
  MaxB = 1
  Ty = "SE3"
  NumBig = FALSE
  Mut = "none"
INVARIANT TilingOnEveryBroadcastableShape
CHECK_DEADLOCK FALSE
