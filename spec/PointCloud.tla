------------------------------ MODULE PointCloud ------------------------------
(* Point-cloud filters of pypose.function.geometry over integer clouds:              *)
(*   knn, nbr_filter, knn_filter, voxel_filter, random_filter.                         *)
(*                                                                                    *)
(* A cloud is a sequence of rows; a row is a sequence of integers whose first pd       *)
(* entries are coordinates and whose remaining entries are feature channels.          *)
(* Distances: ord = 1 (L1), ord = 0 (L-infinity) are integers; for ord = 2 the         *)
(* SQUARED Euclidean distance is used everywhere (order-equivalent, integer).          *)
(* A radius is given doubled (rh = 2*radius, an integer), so halves are expressible:   *)
(* "within the radius" is  2 d <= rh  resp.  4 d^2 <= rh^2  (closed ball).             *)
(* Rational results (means, centroids) are reduced fractions <<num, den>>, den > 0.    *)
(*                                                                                    *)
(* Two layers:                                                                        *)
(*  (D) set-theoretic brute-force DEFINITIONS (order statistics by counting, nearest   *)
(*      sets as subsets, voxels as equivalence classes) -- what the property states;   *)
(*  (F) implementation-shaped / linear-time formulations (distance rows + top-k by     *)
(*      repeated arg-min, mask, gather, voxel keys + accumulate) -- structured like    *)
(*      the code, and cheap enough to judge recorded clouds of 300 points.             *)
(* The state machine enumerates every cloud of <= MaxN points on a grid, reaches every *)
(* ordering of it by adjacent swaps (so outliers sit at every array position), makes   *)
(* every public call with every parameter, and the invariants state (F) = (D),         *)
(* the consistency laws, and permutation equivariance w.r.t. the base ordering.        *)
(* PointCloudTrace / PointCloudGen reuse the operators for recorded / tabulated runs.  *)
EXTENDS Naturals, Integers, Sequences, FiniteSets, TLC

CONSTANTS Grid,      \* set of integer coordinate values
          PD,        \* number of coordinate channels (rows carry one more: a feature tag)
          MaxN,      \* clouds of 1..MaxN points
          Ords,      \* subset of {1, 2, 0}; 0 encodes the infinity norm
          Radii,     \* set of doubled radii
          VoxSizes,  \* set of DOUBLED voxel edge lengths (vh = 2*size, positive integers)
          Gather     \* "all": documented knn_filter;  "kept": gather from the radius-filtered
                     \* array with unfiltered indices (the defect found on the tree)

VARIABLES base,   \* the cloud in its canonical (sorted) order, with tags
          pts,    \* the current ordering handed to the functions
          sigma,  \* pts[i] = base[sigma[i]]
          call,   \* the last public call (record with field fn), or NoCall
          res     \* what it returned

vars == <<base, pts, sigma, call, res>>

\* ------------------------------------------------------------------ arithmetic
Abs(x) == IF x < 0 THEN -x ELSE x
Max2(a, b) == IF a > b THEN a ELSE b
Min2(a, b) == IF a < b THEN a ELSE b
Force(s) == <<>> \o s          \* materialise a lazily evaluated sequence (TLC evaluates [i \in .. |-> e] per access)

\* sums / extrema of f[lo..hi] by halving (recursion depth log n: clouds of 300 points are judged)
RECURSIVE SumRange(_, _, _)
SumRange(f, lo, hi) == IF lo > hi THEN 0 ELSE IF lo = hi THEN f[lo]
                       ELSE LET mid == (lo + hi) \div 2 IN SumRange(f, lo, mid) + SumRange(f, mid + 1, hi)
RECURSIVE MaxRange(_, _, _)
MaxRange(f, lo, hi) == IF lo = hi THEN f[lo]
                       ELSE LET mid == (lo + hi) \div 2 IN Max2(MaxRange(f, lo, mid), MaxRange(f, mid + 1, hi))
RECURSIVE MinRange(_, _, _)
MinRange(f, lo, hi) == IF lo = hi THEN f[lo]
                       ELSE LET mid == (lo + hi) \div 2 IN Min2(MinRange(f, lo, mid), MinRange(f, mid + 1, hi))
SumSeq(f, n) == SumRange(f, 1, n)
MaxSeq(f, n) == MaxRange(f, 1, n)       \* n >= 1
MinSeq(f, n) == MinRange(f, 1, n)       \* n >= 1
SetMin(S) == CHOOSE x \in S : \A y \in S : x <= y

RECURSIVE GCD(_, _)
GCD(a, b) == IF b = 0 THEN a ELSE GCD(b, a % b)
Frac(n, d) == LET g == GCD(Abs(n), d) IN <<n \div g, d \div g>>      \* d > 0
IntRow(row) == [c \in DOMAIN row |-> <<row[c], 1>>]                   \* integer row as fractions

Range(s) == {s[i] : i \in DOMAIN s}
Idx(P) == 1..Len(P)
Injective(s) == \A i, j \in DOMAIN s : i # j => s[i] # s[j]

\* ------------------------------------------------------------------ metric
Dist(ord, p, q, pd) ==
  CASE ord = 1 -> SumSeq([c \in 1..pd |-> Abs(p[c] - q[c])], pd)
    [] ord = 2 -> SumSeq([c \in 1..pd |-> (p[c] - q[c]) * (p[c] - q[c])], pd)
    [] ord = 0 -> MaxSeq([c \in 1..pd |-> Abs(p[c] - q[c])], pd)

Within(ord, d, rh) == IF ord = 2 THEN 4 * d <= rh * rh ELSE 2 * d <= rh

\* distances from row r to every row of Q, materialised once; `largest` flips the order
DistRow(ord, pd, r, Q) == Force([b \in Idx(Q) |-> Dist(ord, r, Q[b], pd)])
KeyOf(largest, d) == IF largest THEN -d ELSE d
KeyRow(dr, largest) == IF largest THEN Force([b \in DOMAIN dr |-> -dr[b]]) ELSE dr

\* ================================================================== (D) definitions
\* j-th order statistic of a key row, by counting
OrderStat(kr, j) ==
  CHOOSE d \in Range(kr) :
    /\ Cardinality({b \in DOMAIN kr : kr[b] < d}) < j
    /\ Cardinality({b \in DOMAIN kr : kr[b] <= d}) >= j

\* the index attaining the j-th order statistic is determined iff it is attained once
UniqueAt(kr, j) == Cardinality({b \in DOMAIN kr : kr[b] = OrderStat(kr, j)}) = 1
ArgAt(kr, j) == CHOOSE b \in DOMAIN kr : kr[b] = OrderStat(kr, j)

\* sets of m nearest rows (w.r.t. a key row), as subsets
NearestSets(kr, m) ==
  {S \in SUBSET (DOMAIN kr) : /\ Cardinality(S) = m
                              /\ \A a \in S, b \in (DOMAIN kr) \ S : kr[a] <= kr[b]}

\* nbr_filter: at least n OTHER points within the radius
NbrCountDef(ord, pd, P, i, rh) ==
  Cardinality({j \in Idx(P) \ {i} : Within(ord, Dist(ord, P[i], P[j], pd), rh)})
NbrMaskDef(ord, pd, P, n, rh) == [i \in Idx(P) |-> NbrCountDef(ord, pd, P, i, rh) >= n]

RECURSIVE SumSet(_, _, _)
SumSet(S, P, c) == IF S = {} THEN 0
                   ELSE LET x == CHOOSE x \in S : TRUE IN P[x][c] + SumSet(S \ {x}, P, c)
MeanOfSet(P, S) == [c \in 1..Len(P[1]) |-> Frac(SumSet(S, P, c), Cardinality(S))]

\* knn_filter, row i: the mean of the point and its k nearest neighbours.  Judged when the set
\* of the k+1 nearest rows (the point itself is at distance 0) is determined, i.e. no tie at
\* the boundary; then that set is {i} united with the k nearest other points (checked below).
KnnfSetsDef(ord, pd, P, i, k) == NearestSets(DistRow(ord, pd, P[i], P), k + 1)
KnnfJudgedDef(ord, pd, P, i, k) == Cardinality(KnnfSetsDef(ord, pd, P, i, k)) = 1
KnnfRowDef(ord, pd, P, i, k) ==
  MeanOfSet(P, CHOOSE S \in KnnfSetsDef(ord, pd, P, i, k) : TRUE)
KnnfOthersDef(ord, pd, P, i, k) ==      \* the statement's wording, literally
  {({i} \cup T) : T \in {T \in SUBSET (Idx(P) \ {i}) :
      /\ Cardinality(T) = k
      /\ \A a \in T, b \in (Idx(P) \ {i}) \ T :
            Dist(ord, P[i], P[a], pd) <= Dist(ord, P[i], P[b], pd)}}

\* voxels: floor((x - min) / size) per coordinate, size = vh/2 (vs = sequence of doubled sizes)
MinCorner(P, vd) == Force([c \in 1..vd |-> MinSeq([i \in Idx(P) |-> P[i][c]], Len(P))])
VoxKeyOf(row, mc, vs) == Force([c \in 1..Len(vs) |-> (2 * (row[c] - mc[c])) \div vs[c]])
SameVoxel(P, vs, i, j) ==
  LET mc == MinCorner(P, Len(vs)) IN VoxKeyOf(P[i], mc, vs) = VoxKeyOf(P[j], mc, vs)
VoxelClassesDef(P, vs) == {{j \in Idx(P) : SameVoxel(P, vs, i, j)} : i \in Idx(P)}
VoxelCentroidsDef(P, vs) == {MeanOfSet(P, S) : S \in VoxelClassesDef(P, vs)}

\* random_filter: num rows taken at pairwise distinct positions
IsDistinctSample(P, num, out) ==
  /\ Len(out) = num
  /\ \E f \in [1..num -> Idx(P)] : Injective(f) /\ \A j \in 1..num : out[j] = P[f[j]]

\* ================================================================== (F) implementation-shaped
\* arg-min of a key row outside `taken`
ArgMin(kr, taken) ==
  LET C == (DOMAIN kr) \ taken
      m == SetMin({kr[b] : b \in C})
  IN CHOOSE b \in C : kr[b] = m

\* dist.topk(k, largest=False, sorted=True): indices in ascending key order
RECURSIVE TopK(_, _, _)
TopK(kr, k, acc) ==
  IF Len(acc) >= k \/ Len(acc) >= Len(kr) THEN acc
  ELSE TopK(kr, k, Append(acc, ArgMin(kr, Range(acc))))

\* pp.knn(ref, nbr, k, ord, largest): values (distances) and indices per reference row
KnnImpl(ord, pd, R, Q, k, largest) ==
  LET rows == Force([i \in Idx(R) |->
                LET dr == DistRow(ord, pd, R[i], Q)
                    top == TopK(KeyRow(dr, largest), k, <<>>)
                IN [idx |-> top, vals |-> Force([j \in 1..k |-> dr[top[j]]])]])
  IN [vals |-> Force([i \in Idx(R) |-> rows[i].vals]), idx |-> Force([i \in Idx(R) |-> rows[i].idx])]

\* certificate: (vals, idx) is a correct answer of knn for reference row r.  Linear in Len(Q);
\* equivalent to the order-statistic definition (invariant KnnCertSound).
\* Returns the name of the first failing clause.
KnnRowClause(dr, k, largest, sorted, vals, idx) ==
  LET kr == KeyRow(dr, largest)
      n  == Len(dr)
      worst == IF k = 0 THEN 0 ELSE MaxSeq([j \in 1..k |-> KeyOf(largest, vals[j])], k)
      sel == Range(idx)
  IN CASE Len(vals) # k \/ Len(idx) # k                         -> "knn_shape"
       [] \E j \in 1..k : idx[j] \notin 1..n                    -> "knn_index_range"
       [] ~Injective(idx)                                       -> "knn_index_repeated"
       [] \E j \in 1..k : vals[j] # dr[idx[j]]                  -> "knn_value_not_attained"
       [] sorted /\ \E j \in 1..(k - 1) : KeyOf(largest, vals[j]) > KeyOf(largest, vals[j + 1])
                                                                -> "knn_not_sorted"
       [] k > 0 /\ \E b \in 1..n : b \notin sel /\ kr[b] < worst -> "knn_not_nearest"
       [] OTHER -> "ok"

\* nbr_filter: count = sum(dist <= radius) - 1 (the row includes the point itself)
NbrCounts(ord, pd, P, rh) ==
  Force([i \in Idx(P) |->
     LET dr == DistRow(ord, pd, P[i], P) IN
       Cardinality({j \in Idx(P) : Within(ord, dr[j], rh)}) - 1])
NbrMask(ord, pd, P, n, rh) ==
  LET cnt == NbrCounts(ord, pd, P, rh) IN Force([i \in Idx(P) |-> cnt[i] >= n])

RECURSIVE SelRange(_, _, _)   \* positions lo..hi where the mask holds, ascending (points[mask])
SelRange(mask, lo, hi) ==
  IF lo > hi THEN <<>>
  ELSE IF lo = hi THEN (IF mask[lo] THEN <<lo>> ELSE <<>>)
  ELSE LET mid == (lo + hi) \div 2 IN SelRange(mask, lo, mid) \o SelRange(mask, mid + 1, hi)
SelIdx(mask, i) == SelRange(mask, i, Len(mask))
SelRows(P, mask) == LET ix == SelIdx(mask, 1) IN Force([r \in DOMAIN ix |-> P[ix[r]]])

MeanOfSeq(rows) ==     \* mean of a non-empty sequence of integer rows
  Force([c \in 1..Len(rows[1]) |-> Frac(SumSeq([j \in DOMAIN rows |-> rows[j][c]], Len(rows)), Len(rows))])

\* knn_filter(points, k, pdim, radius, ord).  rh < 0 stands for radius=None.
\* Steps of the code: distance rows; radius mask over rows; topk(k+1) per kept row (indices
\* refer to ALL columns, i.e. to the unfiltered cloud); gather; mean.
\* Result: [raised, rows] with rows a sequence of records [i, judged, row].
KnnfImpl(ord, pd, P, k, rh, gather) ==
  LET n    == Len(P)
      mask == IF rh < 0 THEN [i \in 1..n |-> TRUE] ELSE NbrMask(ord, pd, P, k, rh)
      kept == SelIdx(mask, 1)
      src  == IF gather = "all" THEN P ELSE Force([r \in DOMAIN kept |-> P[kept[r]]])
      tops == Force([r \in DOMAIN kept |-> TopK(DistRow(ord, pd, P[kept[r]], P), k + 2, <<>>)])
      Raised == [raised |-> TRUE, rows |-> <<>>]
  IN IF k + 1 > n THEN Raised                     \* topk(k+1) over n columns
     ELSE IF \E r \in DOMAIN kept : \E j \in 1..(k + 1) : tops[r][j] > Len(src) THEN Raised
     ELSE [raised |-> FALSE, rows |-> Force([r \in DOMAIN kept |->
            LET dr == DistRow(ord, pd, P[kept[r]], P)
                t  == tops[r]
            IN [i |-> kept[r],
                judged |-> (k + 1 = n) \/ dr[t[k + 1]] < dr[t[k + 2]],
                row |-> MeanOfSeq([j \in 1..(k + 1) |-> src[t[j]]])]])]

\* voxel_filter(points, voxel): keys, classes, accumulate and divide; one row per key
VoxKeys(P, vs) == LET mc == MinCorner(P, Len(vs)) IN Force([i \in Idx(P) |-> VoxKeyOf(P[i], mc, vs)])
VoxelImpl(P, vs) ==
  LET keys == VoxKeys(P, vs)
      occ  == Range(keys)
  IN [key \in occ |->
        LET mem == SelIdx([i \in Idx(P) |-> keys[i] = key], 1) IN
          MeanOfSeq([j \in DOMAIN mem |-> P[mem[j]]])]
VoxelCentroids(P, vs) == LET v == VoxelImpl(P, vs) IN {v[key] : key \in DOMAIN v}
VoxelCount(P, vs) == Cardinality(Range(VoxKeys(P, vs)))

\* judgement of a returned voxel_filter result `out` (sequence of fraction rows)
VoxelClause(P, vs, random, out) ==
  LET keys == VoxKeys(P, vs)
      occ  == Range(keys)
      mc   == MinCorner(P, Len(vs))
      rowsF == {IntRow(P[i]) : i \in Idx(P)}
  IN CASE Len(out) # Cardinality(occ) -> "vox_count"
       [] ~random /\ Range(out) # VoxelCentroids(P, vs) -> "vox_centroid"
       [] random /\ \E j \in DOMAIN out : out[j] \notin rowsF -> "vox_not_a_member"
       [] random /\ {VoxKeyOf([c \in DOMAIN out[j] |-> out[j][c][1]], mc, vs) : j \in DOMAIN out} # occ
                                                       -> "vox_not_one_per_voxel"
       [] OTHER -> "ok"

\* judgement of a returned random_filter result (rows of P are pairwise distinct)
RandomClause(P, num, out) ==
  CASE Len(out) # num -> "rand_count"
    [] \E j \in DOMAIN out : out[j] \notin Range(P) -> "rand_not_a_member"
    [] ~Injective(out) -> "rand_repeated"
    [] OTHER -> "ok"

\* ================================================================== state machine
NoCall == [fn |-> "none"]
Points == [1..PD -> Grid]
LexLess(p, q) == \E c \in 1..PD : p[c] < q[c] /\ \A e \in 1..(c - 1) : p[e] = q[e]
SortedClouds(n) == {s \in [1..n -> Points] : \A i \in 1..(n - 1) : LexLess(s[i], s[i + 1])}
WithTag(s) == [i \in DOMAIN s |-> s[i] \o <<7 * i + 1>>]
SwapAt(s, i) == [j \in DOMAIN s |-> IF j = i THEN s[i + 1] ELSE IF j = i + 1 THEN s[i] ELSE s[j]]

Init ==
  /\ \E n \in 1..MaxN : \E s \in SortedClouds(n) :
        /\ base = WithTag(s) /\ pts = WithTag(s) /\ sigma = [i \in 1..n |-> i]
  /\ call = NoCall /\ res = <<>>

Swap == \E i \in 1..(Len(pts) - 1) :
  /\ call.fn = "none"
  /\ pts' = SwapAt(pts, i) /\ sigma' = SwapAt(sigma, i)
  /\ UNCHANGED <<base, call, res>>

CallKnn == \E ord \in Ords, k \in 1..Len(pts), lg \in BOOLEAN :
  /\ call.fn = "none"
  /\ call' = [fn |-> "knn", ord |-> ord, k |-> k, largest |-> lg]
  /\ res' = KnnImpl(ord, PD, pts, pts, k, lg)
  /\ UNCHANGED <<base, pts, sigma>>

CallNbr == \E ord \in Ords, n \in 0..Len(pts), rh \in Radii :
  /\ call.fn = "none"
  /\ call' = [fn |-> "nbr", ord |-> ord, n |-> n, rh |-> rh]
  /\ res' = LET m == NbrMask(ord, PD, pts, n, rh) IN [mask |-> m, kept |-> SelRows(pts, m)]
  /\ UNCHANGED <<base, pts, sigma>>

CallKnnFilter == \E ord \in Ords, k \in 0..(Len(pts) - 1), rh \in Radii \cup {-1} :
  /\ call.fn = "none"
  /\ call' = [fn |-> "knnf", ord |-> ord, k |-> k, rh |-> rh]
  /\ res' = KnnfImpl(ord, PD, pts, k, rh, Gather)
  /\ UNCHANGED <<base, pts, sigma>>

CallVoxel == \E vs \in [1..PD -> VoxSizes] :
  /\ call.fn = "none"
  /\ \/ /\ call' = [fn |-> "vox", vs |-> vs, random |-> FALSE]
        /\ res' = LET v == VoxelImpl(pts, vs) IN {v[key] : key \in DOMAIN v}
     \/ \E pick \in [Range(VoxKeys(pts, vs)) -> Idx(pts)] :       \* random=True: any member
          /\ \A key \in DOMAIN pick : VoxKeys(pts, vs)[pick[key]] = key
          /\ call' = [fn |-> "vox", vs |-> vs, random |-> TRUE]
          /\ res' = {IntRow(pts[pick[key]]) : key \in DOMAIN pick}
  /\ UNCHANGED <<base, pts, sigma>>

CallRandom == \E num \in 0..Len(pts) : \E f \in [1..num -> Idx(pts)] :
  /\ call.fn = "none" /\ Injective(f)
  /\ call' = [fn |-> "rand", num |-> num]
  /\ res' = [j \in 1..num |-> pts[f[j]]]
  /\ UNCHANGED <<base, pts, sigma>>

Return == call.fn # "none" /\ call' = NoCall /\ res' = <<>> /\ UNCHANGED <<base, pts, sigma>>

Next == Swap \/ CallKnn \/ CallNbr \/ CallKnnFilter \/ CallVoxel \/ CallRandom \/ Return
Spec == Init /\ [][Next]_vars

\* ================================================================== properties
N == Len(pts)

PermInv == /\ Len(sigma) = Len(base) /\ Len(pts) = Len(base) /\ Injective(sigma)
           /\ \A i \in 1..N : pts[i] = base[sigma[i]]

\* ---- knn: (F) = (D), and the certificate used on recorded runs is sound and complete
KnnMatchesDef ==
  call.fn = "knn" =>
    \A i \in 1..N :
      LET dr == DistRow(call.ord, PD, pts[i], pts)
          kr == KeyRow(dr, call.largest)
      IN /\ \A j \in 1..call.k : KeyOf(call.largest, res.vals[i][j]) = OrderStat(kr, j)
         /\ \A j \in 1..call.k : dr[res.idx[i][j]] = res.vals[i][j]
         /\ Injective(res.idx[i])
         /\ \A j \in 1..call.k : UniqueAt(kr, j) => res.idx[i][j] = ArgAt(kr, j)
         /\ KnnRowClause(dr, call.k, call.largest, TRUE, res.vals[i], res.idx[i]) = "ok"

KnnCertSound ==                     \* (candidate index rows are enumerated: k <= 3 keeps it cheap)
  (call.fn = "knn" /\ call.k <= 3) =>
    \A i \in 1..N :
      LET dr == DistRow(call.ord, PD, pts[i], pts)
          kr == KeyRow(dr, call.largest)
      IN \A cand \in [1..call.k -> 1..N] :
           LET cv == [j \in 1..call.k |-> dr[cand[j]]] IN
             (KnnRowClause(dr, call.k, call.largest, TRUE, cv, cand) = "ok")
               <=> (/\ Injective(cand)
                    /\ \A j \in 1..call.k : KeyOf(call.largest, cv[j]) = OrderStat(kr, j))

KnnEquivariant ==
  call.fn = "knn" =>
    LET b == KnnImpl(call.ord, PD, base, base, call.k, call.largest) IN
      \A i \in 1..N :
        /\ res.vals[i] = b.vals[sigma[i]]
        /\ \A j \in 1..call.k :
             UniqueAt(KeyRow(DistRow(call.ord, PD, pts[i], pts), call.largest), j)
               => sigma[res.idx[i][j]] = b.idx[sigma[i]][j]

\* ---- nbr_filter
NbrMatchesDef ==
  call.fn = "nbr" =>
    /\ res.mask = NbrMaskDef(call.ord, PD, pts, call.n, call.rh)
    /\ Range(res.kept) = {pts[i] : i \in {i \in 1..N : res.mask[i]}}
    /\ Len(res.kept) = Cardinality({i \in 1..N : res.mask[i]})
    /\ \A a, b \in DOMAIN res.kept : a < b =>          \* input order kept
         \E i, j \in 1..N : i < j /\ pts[i] = res.kept[a] /\ pts[j] = res.kept[b]

NbrEquivariant ==
  call.fn = "nbr" =>
    LET mb == NbrMask(call.ord, PD, base, call.n, call.rh) IN
      /\ \A i \in 1..N : res.mask[i] = mb[sigma[i]]
      /\ Range(res.kept) = Range(SelRows(base, mb))

\* ---- knn_filter
KnnfRetained(ord, P, k, rh) ==
  IF rh < 0 THEN Idx(P) ELSE {i \in Idx(P) : NbrMaskDef(ord, PD, P, k, rh)[i]}

KnnfMatchesDef ==
  call.fn = "knnf" =>
    /\ ~res.raised
    /\ {res.rows[r].i : r \in DOMAIN res.rows} = KnnfRetained(call.ord, pts, call.k, call.rh)
    /\ \A r, s \in DOMAIN res.rows : r < s => res.rows[r].i < res.rows[s].i
    /\ \A r \in DOMAIN res.rows :
         /\ res.rows[r].judged = KnnfJudgedDef(call.ord, PD, pts, res.rows[r].i, call.k)
         /\ res.rows[r].judged => res.rows[r].row = KnnfRowDef(call.ord, PD, pts, res.rows[r].i, call.k)

\* when judged, "k+1 nearest including itself" is "itself and its k nearest others"
KnnfSelfAndOthers ==
  call.fn = "knnf" =>
    \A i \in 1..N : KnnfJudgedDef(call.ord, PD, pts, i, call.k)
      => KnnfOthersDef(call.ord, PD, pts, i, call.k) = KnnfSetsDef(call.ord, PD, pts, i, call.k)

\* consistency law: with a radius, exactly nbr_filter's points (n = k) are retained and each
\* retained row equals the row the radius-free call computes for that point
KnnfRadiusConsistent ==
  (call.fn = "knnf" /\ call.rh >= 0 /\ ~res.raised) =>
    LET free == KnnfImpl(call.ord, PD, pts, call.k, -1, "all").rows
        mask == NbrMask(call.ord, PD, pts, call.k, call.rh)
    IN /\ [r \in DOMAIN res.rows |-> res.rows[r].i] = SelIdx(mask, 1)
       /\ \A r \in DOMAIN res.rows : res.rows[r].judged => res.rows[r].row = free[res.rows[r].i].row

KnnfEquivariant ==
  (call.fn = "knnf" /\ ~res.raised) =>
    LET b == KnnfImpl(call.ord, PD, base, call.k, call.rh, "all").rows IN
      /\ Len(res.rows) = Len(b)
      /\ \A r \in DOMAIN res.rows : \E s \in DOMAIN b :
           /\ b[s].i = sigma[res.rows[r].i] /\ b[s].judged = res.rows[r].judged
           /\ res.rows[r].judged => b[s].row = res.rows[r].row

\* ---- voxel_filter
FloorFrac(f, mn, vh) == (2 * (f[1] - mn * f[2])) \div (f[2] * vh)   \* floor((f - mn)/(vh/2))
VoxelMatchesDef ==
  call.fn = "vox" =>
    LET cls == VoxelClassesDef(pts, call.vs)
        mc == MinCorner(pts, PD)
    IN /\ \A S, T \in cls : S # T => S \cap T = {}                 \* voxels partition the cloud
       /\ UNION cls = 1..N
       /\ Cardinality(res) = Cardinality(cls)                      \* one row per occupied voxel
       /\ VoxelCount(pts, call.vs) = Cardinality(cls)
       /\ IF call.random
          THEN /\ \A row \in res : \E i \in 1..N : row = IntRow(pts[i])          \* a member ...
               /\ \A S \in cls : \E i \in S : IntRow(pts[i]) \in res               \* ... of every voxel
               /\ VoxelClause(pts, call.vs, TRUE, CHOOSE s \in [1..Cardinality(res) -> res] : Range(s) = res) = "ok"
          ELSE /\ res = VoxelCentroidsDef(pts, call.vs)
               /\ \A S \in cls : \A i \in S : \A c \in 1..PD :                   \* centroid lies in its voxel
                    FloorFrac(MeanOfSet(pts, S)[c], mc[c], call.vs[c]) = VoxKeyOf(pts[i], mc, call.vs)[c]

VoxelEquivariant ==
  (call.fn = "vox" /\ ~call.random) => res = VoxelCentroids(base, call.vs)

\* ---- random_filter
RandomMatchesDef ==
  call.fn = "rand" =>
    /\ IsDistinctSample(pts, call.num, res)
    /\ RandomClause(pts, call.num, res) = "ok"
    /\ IsDistinctSample(base, call.num, res)          \* a sample of the permuted cloud is one of the cloud
    /\ call.num <= 3 =>                                \* the cheap judgement is the definition (distinct rows)
         \A out \in [1..call.num -> Range(pts)] :
           (RandomClause(pts, call.num, out) = "ok") <=> IsDistinctSample(pts, call.num, out)
================================================================================
