SPECIFICATION Spec
CONSTANTS
  Ty = "SE3"
  Deep = FALSE
INVARIANT RingAgreesWithExact
INVARIANT MulJac
INVARIANT InvJac
INVARIANT ActJac
INVARIANT ActPointJac
INVARIANT AdjJac
INVARIANT ExpLogFirstOrder
CHECK_DEADLOCK FALSE
