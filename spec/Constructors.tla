------------------------------ MODULE Constructors ------------------------------
(* Typing of the LieTensor constructors (growth beyond the listed properties):           *)
(* randn_<type>, identity_<type>, randn_like, identity_like for the four group and four   *)
(* algebra types.  A constructor called with a batch size lsize returns a LieTensor of     *)
(* that ltype with shape lsize \o <<Dim(ty)>>, the requested dtype and requires_grad;      *)
(* identity constructors return the exact identity element / zero vector; random group     *)
(* elements are valid (unit quaternion, positive scale); sigma = 0 gives the identity.     *)
(* The dimension table is tied to LieExact (GroupDim / AlgDim).                            *)
EXTENDS Naturals, Integers, Sequences, TLC, Json, IOUtils

E == INSTANCE LieExact

Groups   == {"SO3", "SE3", "RxSO3", "Sim3"}
Algebras == {"so3", "se3", "rxso3", "sim3"}
Types8   == Groups \cup Algebras
GroupOf(ty) == CASE ty = "so3" -> "SO3" [] ty = "se3" -> "SE3" [] ty = "rxso3" -> "RxSO3" [] ty = "sim3" -> "Sim3" [] OTHER -> ty
Dim(ty)  == IF ty \in Groups THEN E!GroupDim(ty) ELSE E!AlgDim(GroupOf(ty))
ShapeOf(ty, lsize) == lsize \o <<Dim(ty)>>

\* position of the quaternion / scale in the group layouts (for the identity value)
IdentityRow(ty) ==
  CASE ty = "SO3"   -> <<0, 0, 0, 1>>
    [] ty = "SE3"   -> <<0, 0, 0, 0, 0, 0, 1>>
    [] ty = "RxSO3" -> <<0, 0, 0, 1, 1>>
    [] ty = "Sim3"  -> <<0, 0, 0, 0, 0, 0, 1, 1>>
    [] OTHER        -> [i \in 1..Dim(ty) |-> 0]

\* design-level consistency, checked by TLC over all types and a few batch sizes
LSizes == {<<>>, <<0>>, <<1>>, <<3>>, <<2, 3>>, <<2, 0>>, <<1, 2, 2>>}
ASSUME \A ty \in Types8 : \A ls \in LSizes :
         /\ Len(ShapeOf(ty, ls)) = Len(ls) + 1
         /\ ShapeOf(ty, ls)[Len(ls) + 1] = Dim(ty)
         /\ Len(IdentityRow(ty)) = Dim(ty)
ASSUME \A g \in Groups : Dim(g) = E!AlgDim(g) + 1            \* one redundant coordinate per group element
ASSUME \A g \in Groups : E!Valid(g, E!Decode(g, [i \in 1..Dim(g) |-> <<IdentityRow(g)[i], 0>>]))
                         /\ E!SameElem(E!Decode(g, [i \in 1..Dim(g) |-> <<IdentityRow(g)[i], 0>>]), E!Id)

\* ---------------------------------------------------------------- validation of recorded constructor calls
Traces == JsonDeserialize(IOEnv.TRACE_FILE)

Clause(e) ==
  CASE e.raised                                   -> "raised"
    [] e.shape # ShapeOf(e.ty, e.lsize)           -> "shape"
    [] e.ltype # e.ty                             -> "ltype"
    [] e.dtype # e.want_dtype                     -> "dtype"
    [] e.req # e.want_req                         -> "requires_grad"
    [] ~e.finite                                  -> "nonfinite"
    [] e.fn \in {"identity", "identity_like"} /\ ~e.is_identity -> "identity_value"
    [] e.sigma_zero /\ ~e.is_identity             -> "sigma_zero_not_identity"
    [] e.ty \in Groups /\ e.unit_err > 8          -> "unit_quaternion"
    [] e.ty \in Groups /\ ~e.spos                 -> "positive_scale"
    [] OTHER -> "ok"

RECURSIVE FirstFail(_, _)
FirstFail(T, i) == IF i > Len(T.ev) THEN "ok"
                   ELSE LET c == Clause(T.ev[i]) IN
                        IF c # "ok" THEN c \o "@" \o ToString(i) ELSE FirstFail(T, i + 1)
ASSUME \A t \in 1..Len(Traces) : PrintT(<<"VERDICT", t, FirstFail(Traces[t], 1)>>)

VARIABLE x
Init == x = 0
Next == UNCHANGED x
Spec == Init /\ [][Next]_x
================================================================================
