\* vacuity witness: TLC must report the invariant VIOLATED (the state it denies is reachable)
SPECIFICATION Spec
CONSTANTS
  Variant = "doc"
  Dims = {22}
  NKs = {3}
  NA = 1
  DL = {1}
  NL = 1
  DL2 = {3}
  NL2 = 1
  NC = 1
  NRs = {2}
  MeanFam = TRUE
  NonLin = TRUE
  MaxSteps = 2
  NKm = {3}
  ThinM = 27
  Thin2 = 1
  Thin = 27
INVARIANT NoSecondStepPosterior
CHECK_DEADLOCK FALSE
