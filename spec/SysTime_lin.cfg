\* the two demo programs (n=2,m=1 and n=1,m=1 with two observations): exact Taylor remainder from the second
\* and third symbolic derivatives at every reference point reachable within two calls
SPECIFICATION Spec
CONSTANTS
  Classes = {"NLS"}
  TimeVals = {0, 1, 3}
  MaxLen = 2
  KeepHist = FALSE
  Rich = TRUE
  ProgIds = {1, 2}
  AliasRefTime = FALSE
CONSTRAINT Bound
INVARIANT LinAtRef
INVARIANT SecondOrder
INVARIANT ExactRemainder
INVARIANT GrammarClosed
CHECK_DEADLOCK FALSE
