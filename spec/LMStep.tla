-------------------------------- MODULE LMStep --------------------------------
(* LevenbergMarquardt.step / GaussNewton.step of pypose.optim.optimizer and the three   *)
(* damping strategies of pypose.optim.strategy (Constant, Adaptive, TrustRegion), over    *)
(* SEVERAL step() calls on the same data (optimizer state carries over).                  *)
(*                                                                                        *)
(* One action per critical section of the code:                                           *)
(*   Begin            R, J, A = J^T W J (clamped); last = loss = cached or fresh;          *)
(*                    reject_count = 0                                                     *)
(*   Damp             loop test `last <= loss`; A.diagonal += A.diagonal * damping         *)
(*   SolveOk/Raise    D = solver(A, b)   (except: print, break)                            *)
(*   Update           update_parameter(+D)                                                 *)
(*   Eval(o)          self.loss = model.loss(...)   environment: Better | Equal | Worse    *)
(*   Strategy(q)      strategy.update(pg, last, loss, J, D, R)  environment: quality class *)
(*   Reject           `last < loss and reject_count < reject`: update_parameter(-D),       *)
(*                    loss = last, reject_count += 1                                       *)
(*   AcceptOrExhaust  else: break                                                          *)
(*   Return           return self.loss                                                     *)
(*   GNBegin, GNSolveOk/Raise, GNRecord, GNUpdate, GNEval  the same for GaussNewton.step   *)
(*                                                                                        *)
(* Abstraction.  A parameter point is a symbolic id [b, k]: base point number b (number    *)
(* of accepted moves so far) and k = 0 for the base itself or k > 0 for the pending k-th   *)
(* trial base (+) D_k.  Loss values are integer "levels"; the ghost g.truthB / g.truthT    *)
(* hold the TRUE loss of the two live points (base, pending trial), chosen by the          *)
(* environment.  Strategy state is kept as integer exponents: damping = 2^d,               *)
(* radius = 2^r, down-factor = 2^-w, up = 2^u, down_init = 2^-w0, factor = 2^-f,           *)
(* min = 2^minE, max = 2^maxE, so every documented multiplication is an addition.          *)
(*                                                                                        *)
(* The transition FUNCTIONS (BeginF ... ReturnF, StratF, QualityClass) are shared with     *)
(* LMStepTrace (validation of executions recorded from the real optimizers) and            *)
(* LMStepGen (tabulated call scripts replayed on the real optimizers).                     *)
EXTENDS Naturals, Integers, Sequences, FiniteSets, TLC

CONSTANTS Algos,        \* subset of {"LM", "GN"}
          Strategies,   \* subset of {"Constant", "Adaptive", "TrustRegion"}
          RejectSet,    \* reject budgets explored
          HyperSet,     \* hyper-parameter records [u, w0, f, minE, maxE, d0]
          MaxCalls,     \* number of step() calls in a behaviour
          Variant       \* "code" = the implementation; others = seeded design mutants

VARIABLES c,        \* configuration [algo, strat, reject, h], chosen once
          s,        \* implementation-shaped state (record, see InitS)
          g,        \* ghost state: truth of the live points and what the properties refer to
          lastAct   \* the action that produced this state (for action properties / replay)

vars == <<c, s, g, lastAct>>

Max2(a, b) == IF a > b THEN a ELSE b
Min2(a, b) == IF a < b THEN a ELSE b

\* hyper-parameter sets (cfg files cannot hold records or negative literals)
HyperQuick == { [u |-> 1, w0 |-> 1, f |-> 1, minE |-> 0 - 3, maxE |-> 2, d0 |-> 0 - 1] }
HyperThorough ==
  { [u |-> 1, w0 |-> 1, f |-> 1, minE |-> 0 - 3, maxE |-> 2, d0 |-> 0 - 1],
    [u |-> 2, w0 |-> 1, f |-> 2, minE |-> 0 - 4, maxE |-> 3, d0 |-> 0 - 6],   \* starts outside [min,max]
    [u |-> 1, w0 |-> 2, f |-> 1, minE |-> 0 - 2, maxE |-> 5, d0 |-> 4] }

Outcomes  == {"Better", "Equal", "Worse"}
Qualities == {"Very", "Successful", "Unsuccessful"}

\* ------------------------------------------------------------------ implementation state
P0 == [b |-> 0, k |-> 0]
InitS(cf) ==
  [phase  |-> "idle",
   theta  |-> P0,        \* the model parameters
   cached |-> FALSE,     \* hasattr(self, 'loss')
   last   |-> 0,         \* self.last
   loss   |-> 0,         \* self.loss
   rej    |-> 0,         \* self.reject_count
   trials |-> 0,         \* solves made in this call (ghost counter of the loop)
   d      |-> cf.h.d0,                                   \* pg['damping'] = 2^d
   r      |-> 0 - cf.h.d0,                               \* pg['radius']  = 2^r  (TrustRegion)
   w      |-> cf.h.w0,                                   \* pg['down']    = 2^-w
   ret    |-> 0]         \* value returned by the last completed call

\* ------------------------------------------------------------------ strategies
\* code: max(self.min, min(x, self.max));   documentation: min(max(x, eps_s), eps_l)
ClampCode(x, lo, hi) == IF Variant = "swapped_clamp" THEN Max2(hi, Min2(x, lo))
                        ELSE Max2(lo, Min2(x, hi))
ClampDoc(x, lo, hi)  == Min2(Max2(x, lo), hi)

\* strategy.update(pg, last, loss, J, D, R) with quality class q (exponent arithmetic)
StratF(cf, x, q) ==
  LET h == cf.h IN
  CASE cf.strat = "Constant" -> x                                   \* pg['damping'] = pg['damping']
    [] cf.strat = "Adaptive" ->
         LET d1 == CASE q = "Very"       -> x.d - h.w0              \* damping * down
                     [] q = "Successful" -> x.d
                     [] OTHER            -> x.d + h.u               \* damping * up
         IN  [x EXCEPT !.d = ClampCode(d1, h.minE, h.maxE)]
    [] cf.strat = "TrustRegion" ->
         LET r0 == 0 - x.d                                          \* radius = 1 / damping
             r1 == CASE q = "Very"       -> r0 + h.u                \* up * radius
                     [] q = "Successful" -> r0
                     [] OTHER            -> r0 - x.w                \* radius * down
             w1 == CASE q \in {"Very", "Successful"} ->
                          (IF Variant = "down_not_reset" THEN x.w ELSE h.w0)   \* down = self.down
                     [] OTHER            -> x.w + h.f               \* down * factor
             w2 == 0 - ClampCode(0 - w1, h.minE, h.maxE)            \* down clamped to [min, max]
             r2 == ClampCode(r1, h.minE, h.maxE)
         IN  [x EXCEPT !.r = r2, !.w = w2, !.d = 0 - r2]            \* damping = 1 / radius

\* the DOCUMENTED rule (class docstrings of strategy.py) as a relation between the strategy
\* state before (x) and after (y) a trial of quality class q
DocMove(cf, x, y, q) ==
  LET h == cf.h IN
  CASE cf.strat = "Constant" -> y.d = x.d
    [] cf.strat = "Adaptive" ->
         y.d = ClampDoc(x.d + (CASE q = "Very" -> 0 - h.w0 [] q = "Successful" -> 0 [] OTHER -> h.u),
                        h.minE, h.maxE)
    [] cf.strat = "TrustRegion" ->
         LET R  == 0 - x.d      \* the radius is the reciprocal of the damping the trial used
         IN  /\ y.r = ClampDoc(CASE q = "Very" -> R + h.u [] q = "Successful" -> R [] OTHER -> R - x.w,
                               h.minE, h.maxE)
             /\ 0 - y.w = ClampDoc(CASE q \in {"Very", "Successful"} -> 0 - h.w0 [] OTHER -> 0 - (x.w + h.f),
                                   h.minE, h.maxE)
             /\ y.d = 0 - y.r

StratWithinBounds(cf, x) ==
  CASE cf.strat = "Constant"    -> x.d = cf.h.d0
    [] cf.strat = "Adaptive"    -> cf.h.minE <= x.d /\ x.d <= cf.h.maxE
    [] cf.strat = "TrustRegion" -> /\ cf.h.minE <= x.r /\ x.r <= cf.h.maxE
                                   /\ cf.h.minE <= 0 - x.w /\ 0 - x.w <= cf.h.maxE
                                   /\ x.d = 0 - x.r

\* Quality class of rho = num / den (actual / predicted decrease) against the thresholds
\* high = hi[1] / 2^hi[2] and low = lo[1] / 2^lo[2], evaluated as IEEE does: den = 0 gives
\* +-inf or NaN, and every comparison with NaN is false ("unsuccessful").
Pow2(k) == IF k = 0 THEN 1 ELSE 2 ^ k
RatioGt(num, den, th) ==      \* num / den > th[1] / 2^th[2]
  IF den > 0 THEN num * Pow2(th[2]) > th[1] * den
  ELSE IF den < 0 THEN num * Pow2(th[2]) < th[1] * den
  ELSE num > 0
QualityClass(num, den, hi, lo) ==
  IF RatioGt(num, den, hi) THEN "Very"
  ELSE IF RatioGt(num, den, lo) THEN "Successful" ELSE "Unsuccessful"

\* ------------------------------------------------------------------ transition functions (LM)
BeginF(x, fresh) ==
  LET v == IF x.cached THEN x.loss ELSE fresh IN
  [x EXCEPT !.phase = "loop", !.last = v, !.loss = v, !.cached = TRUE,
            !.rej = (IF Variant = "no_reset_rej" THEN x.rej ELSE 0), !.trials = 0]
LoopTest(x)    == IF Variant = "loop_lt" THEN x.last < x.loss ELSE x.last <= x.loss
LoopExitF(x)   == [x EXCEPT !.phase = "exit"]
DampF(x)       == [x EXCEPT !.phase = "damped", !.trials = @ + 1]
SolveOkF(x)    == [x EXCEPT !.phase = "solved"]
SolveRaiseF(x) == [x EXCEPT !.phase = "exit"]
UpdateF(x, pt) == [x EXCEPT !.phase = "updated", !.theta = pt]
EvalF(x, v)    == [x EXCEPT !.phase = "evaluated", !.loss = v]
StrategyF(cf, x, q) == [StratF(cf, x, q) EXCEPT !.phase = "judged"]
RejectTest(cf, x) == /\ (IF Variant = "reject_le" THEN x.last <= x.loss ELSE x.last < x.loss)
                     /\ x.rej < cf.reject
RejectF(x, pt) == [x EXCEPT !.phase = "loop",
                            !.theta = (IF Variant = "no_minusD" THEN x.theta ELSE pt),
                            !.loss  = (IF Variant = "keep_trial_loss" THEN x.loss ELSE x.last),
                            !.rej   = @ + 1]
AcceptF(x)     == [x EXCEPT !.phase = "exit"]
ReturnF(x)     == [x EXCEPT !.phase = "idle", !.ret = x.loss]

\* ------------------------------------------------------------------ transition functions (GN)
GNBeginF(x)     == [x EXCEPT !.phase = "gn_lin"]
GNSolveOkF(x)   == [x EXCEPT !.phase = "gn_solved"]
GNRecordF(x, fresh) == [x EXCEPT !.phase = "gn_recorded", !.last = IF x.cached THEN x.loss ELSE fresh]
GNUpdateF(x, pt) == [x EXCEPT !.phase = "gn_updated", !.theta = pt]
GNEvalF(x, v)   == [x EXCEPT !.phase = "exit", !.loss = v, !.cached = TRUE]

\* ------------------------------------------------------------------ ghost
Truth(gg, th) == IF th.k = 0 THEN gg.truthB ELSE gg.truthT
BasePt(th)    == [b |-> th.b, k |-> 0]
Delta(o) == CASE o = "Better" -> 0 - 1 [] o = "Equal" -> 0 [] OTHER -> 1
\* rho = (last - loss) / predicted: a zero actual decrease gives rho = 0 (or NaN), never > low
Feasible(x, q) == (x.last = x.loss) => q = "Unsuccessful"

L0 == MaxCalls + 1

Cfgs == [algo : Algos, strat : Strategies, reject : RejectSet, h : HyperSet]

Init ==
  /\ c \in {cf \in Cfgs : cf.algo = "GN" => (cf.strat = "Constant" /\ cf.reject = 0)}
  /\ s = InitS(c)
  /\ g = [calls |-> 0, truthB |-> L0, truthT |-> L0,
          givenTheta |-> P0, givenLoss |-> L0,     \* parameters / true loss at entry of the call
          pre |-> P0, preLoss |-> L0,              \* parameters / self.loss before the current trial
          rejCall |-> 0,                           \* rejections made in this call
          raised |-> FALSE,                        \* this call ended because the solver raised
          propagated |-> FALSE,                    \* GN: the solver's exception left step()
          moved |-> FALSE]                         \* strategy.update was called at least once
  /\ lastAct = [name |-> "Init"]

Act(n) == lastAct' = [name |-> n]

\* ---------------------------------------------------------------- LM actions
Begin ==
  /\ c.algo = "LM" /\ s.phase = "idle" /\ g.calls < MaxCalls
  /\ s' = BeginF(s, Truth(g, s.theta))
  /\ g' = [g EXCEPT !.calls = @ + 1, !.givenTheta = s.theta, !.givenLoss = Truth(g, s.theta),
                    !.pre = s.theta, !.preLoss = s'.loss, !.rejCall = 0, !.raised = FALSE]
  /\ Act("Begin") /\ UNCHANGED c

LoopExit ==      \* `while self.last <= self.loss` is false
  /\ s.phase = "loop" /\ ~LoopTest(s)
  /\ s' = LoopExitF(s) /\ Act("LoopExit") /\ UNCHANGED <<c, g>>

Damp ==
  /\ s.phase = "loop" /\ LoopTest(s)
  /\ s' = DampF(s)
  /\ g' = [g EXCEPT !.pre = s.theta, !.preLoss = s.loss]
  /\ Act("Damp") /\ UNCHANGED c

SolveOk ==
  /\ s.phase = "damped" /\ s' = SolveOkF(s) /\ Act("SolveOk") /\ UNCHANGED <<c, g>>

SolveRaise ==
  /\ s.phase = "damped" /\ s' = SolveRaiseF(s)
  /\ g' = [g EXCEPT !.raised = TRUE]
  /\ Act("SolveRaise") /\ UNCHANGED c

Update ==
  /\ s.phase = "solved"
  /\ s' = UpdateF(s, [b |-> s.theta.b, k |-> s.trials])
  /\ Act("Update") /\ UNCHANGED <<c, g>>

Eval(o) ==
  /\ s.phase = "updated"
  /\ LET v == g.truthB + Delta(o) IN
       /\ g' = [g EXCEPT !.truthT = v]
       /\ s' = EvalF(s, IF s.theta.k = 0 THEN g.truthB ELSE v)     \* the loss AT theta
  /\ lastAct' = [name |-> "Eval", o |-> o] /\ UNCHANGED c

Strategy(q) ==
  /\ s.phase = "evaluated" /\ Feasible(s, q)
  /\ s' = StrategyF(c, s, q)
  /\ g' = [g EXCEPT !.moved = TRUE]
  /\ lastAct' = [name |-> "Strategy", q |-> q] /\ UNCHANGED c

Reject ==
  /\ s.phase = "judged" /\ RejectTest(c, s)
  /\ s' = RejectF(s, BasePt(s.theta))
  /\ g' = [g EXCEPT !.rejCall = @ + 1]
  /\ Act("Reject") /\ UNCHANGED c

AcceptOrExhaust ==
  /\ s.phase = "judged" /\ ~RejectTest(c, s)
  /\ s' = AcceptF(s) /\ Act("AcceptOrExhaust") /\ UNCHANGED <<c, g>>

\* return self.loss; (ghost) an accepted trial point becomes the next base point
Return ==
  /\ s.phase = "exit"
  /\ LET moved == s.theta.k # 0 IN
       /\ s' = [ReturnF(s) EXCEPT !.theta = IF moved THEN [b |-> s.theta.b + 1, k |-> 0] ELSE s.theta]
       /\ g' = [g EXCEPT !.truthB = IF moved THEN g.truthT ELSE @]
  /\ Act("Return") /\ UNCHANGED c

\* ---------------------------------------------------------------- GN actions
GNBegin ==
  /\ c.algo = "GN" /\ s.phase = "idle" /\ g.calls < MaxCalls
  /\ s' = GNBeginF(s)
  /\ g' = [g EXCEPT !.calls = @ + 1, !.givenTheta = s.theta, !.givenLoss = Truth(g, s.theta),
                    !.pre = s.theta, !.preLoss = s.loss, !.raised = FALSE, !.propagated = FALSE]
  /\ Act("GNBegin") /\ UNCHANGED c

GNSolveOk == s.phase = "gn_lin" /\ s' = GNSolveOkF(s) /\ Act("GNSolveOk") /\ UNCHANGED <<c, g>>

GNSolveRaise ==     \* no try/except in GaussNewton.step: the exception leaves step(), nothing was changed
  /\ s.phase = "gn_lin" /\ s' = [s EXCEPT !.phase = "idle"]
  /\ g' = [g EXCEPT !.propagated = TRUE]
  /\ Act("GNSolveRaise") /\ UNCHANGED c

GNRecord ==
  /\ s.phase = "gn_solved" /\ s' = GNRecordF(s, Truth(g, s.theta))
  /\ Act("GNRecord") /\ UNCHANGED <<c, g>>

GNUpdate ==
  /\ s.phase = "gn_recorded" /\ s' = GNUpdateF(s, [b |-> s.theta.b, k |-> 1])
  /\ Act("GNUpdate") /\ UNCHANGED <<c, g>>

GNEval(o) ==
  /\ s.phase = "gn_updated"
  /\ LET v == g.truthB + Delta(o) IN
       /\ g' = [g EXCEPT !.truthT = v]
       /\ s' = GNEvalF(s, v)
  /\ lastAct' = [name |-> "GNEval", o |-> o] /\ UNCHANGED c

Next ==
  \/ Begin \/ LoopExit \/ Damp \/ SolveOk \/ SolveRaise \/ Update
  \/ (\E o \in Outcomes : Eval(o)) \/ (\E q \in Qualities : Strategy(q))
  \/ Reject \/ AcceptOrExhaust \/ Return
  \/ GNBegin \/ GNSolveOk \/ GNSolveRaise \/ GNRecord \/ GNUpdate \/ (\E o \in Outcomes : GNEval(o))

Spec == Init /\ [][Next]_vars /\ WF_vars(Next)

\* ------------------------------------------------------------------ properties
Phases == {"idle", "loop", "damped", "solved", "updated", "evaluated", "judged", "exit",
           "gn_lin", "gn_solved", "gn_recorded", "gn_updated"}
TypeOK ==
  /\ s.phase \in Phases /\ s.rej \in Nat /\ s.trials \in Nat
  /\ s.last \in Nat /\ s.loss \in Nat /\ s.ret \in Nat /\ s.cached \in BOOLEAN
  /\ s.d \in Int /\ s.r \in Int /\ s.w \in Int

Completed == s.phase = "idle" /\ g.calls > 0 /\ ~g.propagated

\* The value step returns, and optimizer.loss, are the loss AT the parameters left behind.
ReturnedLossIsTrueLoss ==
  Completed => (s.ret = Truth(g, s.theta) /\ s.loss = Truth(g, s.theta))

\* ... so the cached value with which the next call starts is right (same data).
CacheCoherent == (s.phase = "idle" /\ s.cached) => s.loss = Truth(g, s.theta)

\* LM: not larger than the loss at the parameters it was given, unless the configured
\* number of rejections was exhausted in that call.
NotWorseUnlessExhausted ==
  (Completed /\ c.algo = "LM") => (s.ret <= g.givenLoss \/ g.rejCall = c.reject)

\* LM: optimizer.last is the loss at the parameters the call was given.
LastIsGivenLoss == Completed => s.last = g.givenLoss

\* Every rejected trial leaves the parameters equal to those before the trial ...
RejectedTrialRestores ==
  [][lastAct'.name = "Reject" => (s'.theta = g.pre /\ s'.loss = g.preLoss)]_vars
\* ... so every trial of a call starts from the parameters the call was given.
TrialsStartFromGiven == (s.phase \in {"loop", "damped", "solved"}) => s.theta = g.givenTheta

\* A solver that raises ends the call with parameters and loss as before that trial.
SolverRaiseRestores ==
  (Completed /\ g.raised) => (s.theta = g.pre /\ s.loss = g.preLoss /\ s.ret = g.preLoss)

\* A call makes at most reject+1 trials (and, documented loop: at least one).
TrialsBounded == s.trials <= c.reject + 1
FirstIterationAlways == (Completed /\ c.algo = "LM") => s.trials >= 1
RejectCountIsRejections == (c.algo = "LM") => (s.rej = g.rejCall /\ s.rej <= c.reject)

\* After each trial the damping moves as the strategy documents; nothing else moves it.
DampingMoves ==
  [][IF lastAct'.name = "Strategy" THEN DocMove(c, s, s', lastAct'.q)
     ELSE (s'.d = s.d /\ s'.r = s.r /\ s'.w = s.w)]_vars
DampingWithinBounds == g.moved => StratWithinBounds(c, s)

\* GN: returns the loss at the new parameters and records the previous one.
GNReturnsNewRecordsPrevious ==
  (Completed /\ c.algo = "GN") =>
     (s.ret = Truth(g, s.theta) /\ s.loss = s.ret /\ s.last = g.givenLoss /\ s.theta.b = g.givenTheta.b + 1)

\* every call ends (liveness, under weak fairness of Next; calls are bounded by MaxCalls)
CallTerminates == (s.phase # "idle") ~> (s.phase = "idle")
================================================================================
