\* thorough: stamps in 0..11, lists of <= 3 / <= 5 stamps (the design bound of DESIGN.md), thresholds 1..4
SPECIFICATION Spec
CONSTANTS
  TMax = 11
  N1Max = 3
  N2Max = 5
  DSet = {1,2,3,4}
  PairN = {1,2,3,4,5,6,7,8,9,10,11,12,13,14}
  PairD = {1,2,3,4,5}
  StepSet = {1,2,3}
  DistNMax = 7
  EMax = 4
  ENMax = 6
INVARIANT MatchSound
INVARIANT MatchComplete
INVARIANT MatchMonotone
INVARIANT MatchInjective
INVARIANT MatchNoTies
INVARIANT MatchSymmetric
INVARIANT FramePairsAll
INVARIANT FramePairsStride
INVARIANT FramePairsInRange
INVARIANT DistStride
INVARIANT DistAll
INVARIANT StatsOrdering
INVARIANT StatsZero
INVARIANT GeoTable
INVARIANT GeoCount
CHECK_DEADLOCK FALSE
