----------------------------- MODULE PurityTrace -----------------------------
(* Validates recorded public pypose calls against Purity.  Event:                       *)
(*   call [fn, underscore, raised, pre, post]                                           *)
(* pre / post = one fingerprint [digest, shape, dtype] per tensor argument (every tensor *)
(* reachable in the positional / keyword arguments), taken immediately before and after *)
(* the call on the very objects handed to the function.  The comparison is the spec's.  *)
EXTENDS Naturals, Sequences, FiniteSets, TLC, Json, IOUtils

Traces == JsonDeserialize(IOEnv.TRACE_FILE)

VARIABLES tid, l, st, verdict

Pu == INSTANCE Purity WITH NArgs <- 0, Vals <- {}, args <- <<>>, lastAct <- <<>>

Clause(e) ==
  CASE e.act # "call" -> "unknown_event"
    [] e.underscore -> "ok"                                   \* in-place API: not constrained by the property
    [] Len(e.post) # Len(e.pre) -> "argument_count"
    [] ~Pu!PureOK(e.pre, e.post) ->
         "argument_changed_" \o ToString(CHOOSE i \in Pu!Changed(e.pre, e.post) :
                                           \A j \in Pu!Changed(e.pre, e.post) : i <= j)
    [] OTHER -> "ok"

Init == tid \in 1..Len(Traces) /\ l = 1 /\ st = 0 /\ verdict = "ok"

Next ==
  LET T == Traces[tid] IN
  /\ l <= Len(T.ev)
  /\ LET e  == T.ev[l]
         cl == Clause(e) IN
       /\ verdict' = IF verdict = "ok" /\ cl # "ok" THEN cl \o "@" \o ToString(l) ELSE verdict
       /\ st' = st
       /\ (l = Len(T.ev)) => PrintT(<<"VERDICT", tid, verdict'>>)
  /\ l' = l + 1 /\ UNCHANGED tid

Spec == Init /\ [][Next]_<<tid, l, st, verdict>>
================================================================================
