------------------------------- MODULE NormalEqGen -------------------------------
(* spec -> code: tabulates, for every small integer system (J in -1..1, SPD W or none,     *)
(* integer R) and a few (clamp, damping sequence) pairs, the documented LM matrices         *)
(* A_1 .. A_k, the right-hand side b = -J'WR and the normal form (N, g) of the GN system     *)
(* (W J, -W R).  The harness realises each row as a linear model  r(theta) = J theta + R     *)
(* at theta = 0, runs the real LevenbergMarquardt / GaussNewton with a recording solver and  *)
(* compares every recorded system with the row exactly.                                      *)
EXTENDS NormalEq, Json, IOUtils

CONSTANTS Big

Ints(lo, hi) == {D(k) : k \in lo..hi}
Mats(mm, nn) == [1..mm -> [1..nn -> Ints(-1, 1)]]
W2 == { <<>>, << <<D(1), D(0)>>, <<D(0), D(1)>> >>, << <<D(2), D(1)>>, <<D(1), D(2)>> >>, << <<<<1, 1>>, D(0)>>, <<D(0), D(4)>> >> }
W3 == { <<>>,
        << <<D(1), D(0), D(0)>>, <<D(0), D(2), D(-1)>>, <<D(0), D(-1), D(1)>> >>,
        << <<D(2), D(1), D(0)>>, <<D(1), D(2), D(1)>>, <<D(0), D(1), D(2)>> >> }
\* <<min, max, damping sequence>>
Plans == { <<<<1, 4>>, D(64), <<D(1)>>>>, <<D(2), D(64), <<DHalf, D(2)>>>>,
           <<<<1, 2>>, D(2), <<<<1, 2>>, <<1, 2>>, D(1)>>>>, <<D(1), D(1), <<D(3), <<1, 3>>>>>> }
R2 == IF Big THEN {<<D(-1), D(2)>>, <<D(2), D(0)>>, <<D(3), D(1)>>} ELSE {<<D(-1), D(2)>>}
R3 == {<<D(-1), D(2), D(1)>>, <<D(0), D(-2), D(3)>>}

Row(J, W, Rv, pl) ==
  LET L == [R |-> Rv, J |-> J, W |-> IF W = <<>> THEN Ident(Len(J)) ELSE W, hasW |-> W # <<>>]
      h == LMInit(L, pl[1], pl[2])
      s == GNSystem(L)
      nf == NormalForm(s.A, s.b) IN
  [J |-> J, W |-> W, R |-> Rv, mn |-> pl[1], mx |-> pl[2], lams |-> pl[3],
   A |-> [k \in 1..Len(pl[3]) |-> LMTrial(h.A, pl[3], k)], b |-> h.b, N |-> nf.N, g |-> nf.g]

Rows == { Row(J, W, Rv, pl) : J \in Mats(2, 2), W \in W2, Rv \in R2, pl \in Plans }
        \cup (IF Big THEN { Row(J, W, Rv, pl) : J \in Mats(3, 2), W \in W3, Rv \in R3, pl \in Plans } ELSE {})
        \cup { Row(J, W, Rv, pl) : J \in Mats(2, 1), W \in W2, Rv \in R2, pl \in Plans }

ASSUME JsonSerialize(IOEnv.OUT_FILE, [rows |-> Rows])
ASSUME PrintT(<<"ROWS", Cardinality(Rows)>>)

VARIABLE x
Init == x = 0
Next == UNCHANGED x
Spec == Init /\ [][Next]_x
================================================================================
