\* quick: 48 quaternions / 24 cube rotations; translations {-3,3}^3 and 0; scales 2^-3, 1/2, 1, 2, 8;
\* perturbations 10^-1 .. 10^-12 x 16 patterns x rtol = atol in {1e-2, 1e-5, 1e-8}; Euler quarter turns -4..4
SPECIFICATION Spec
CONSTANTS
  TCoords = {3}
  ScaleExps = {0, 1, 3}
  PertKs = {1, 2, 3, 4, 5, 6, 7, 8, 9, 10, 11, 12}
  TolEs = {2, 5, 8}
  EulerKMax = 4
INVARIANT TypeOK
INVARIANT BranchTotalExclusive
INVARIANT BranchWellConditioned
INVARIANT RoundTripTetra
INVARIANT RoundTripCube
INVARIANT ValidAccepted
INVARIANT SameMatrixOut
INVARIANT ScaleIsCubeRoot
INVARIANT InvalidRaises
INVARIANT InvalidClassAgrees
INVARIANT PertModelExact
INVARIANT CheckClassesSound
INVARIANT ShearKeepsDet
INVARIANT EulerComposition
INVARIANT EulerInverse
INVARIANT EulerRoundTrip
INVARIANT EulerOfEuler2
CHECK_DEADLOCK FALSE
