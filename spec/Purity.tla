-------------------------------- MODULE Purity --------------------------------
(* Non-mutation of arguments.  A caller holds a tuple of tensor arguments; every value  *)
(* is abstracted to a fingerprint (content digest, shape, dtype).  A public function     *)
(* without a trailing underscore is a PureCall: the fingerprints of all arguments after  *)
(* the call equal those before it, whether the call returns or raises.  A function with  *)
(* a trailing underscore is an InPlaceCall and may rewrite arguments.  Results may alias *)
(* arguments (views are allowed); aliasing is not mutation.                              *)
EXTENDS Naturals, Sequences, FiniteSets, TLC

CONSTANTS NArgs, Vals          \* small model: NArgs arguments over the value set Vals

VARIABLES args, lastAct
vars == <<args, lastAct>>

\* the two contracts, shared with PurityTrace
PureOK(pre, post) == post = pre
Changed(pre, post) == { i \in 1..Len(pre) : i > Len(post) \/ post[i] # pre[i] }

Init == args \in [1..NArgs -> Vals] /\ lastAct = [kind |-> "init", pre |-> <<>>]

PureCall(raises) ==
  /\ args' = args
  /\ lastAct' = [kind |-> "pure", pre |-> args]
InPlaceCall ==
  \E i \in 1..NArgs, v \in Vals :
    /\ args' = [args EXCEPT ![i] = v]
    /\ lastAct' = [kind |-> "inplace", pre |-> args]
\* the caller itself may write into its tensors between calls
CallerWrite ==
  \E i \in 1..NArgs, v \in Vals :
    /\ args' = [args EXCEPT ![i] = v]
    /\ lastAct' = [kind |-> "caller", pre |-> args]

Next == (\E r \in BOOLEAN : PureCall(r)) \/ InPlaceCall \/ CallerWrite
Spec == Init /\ [][Next]_vars

\* a value the caller holds changes only through an in-place call or the caller's own write
PureKeepsArgs == lastAct.kind = "pure" => PureOK(lastAct.pre, args) /\ Changed(lastAct.pre, args) = {}
OnlyWritersWrite == [][args' # args => lastAct'.kind \in {"inplace", "caller"}]_vars
================================================================================
