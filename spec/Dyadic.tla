-------------------------------- MODULE Dyadic --------------------------------
(* Exact arithmetic on dyadic rationals  <<m, e>>  =  m * 2^(-e),  e >= 0, normal form: *)
(* m = 0 => e = 0, and e > 0 => m odd.  IEEE binary arithmetic is exact on the small      *)
(* lattices used by the Lie-group specifications, so recorded float results can be        *)
(* compared with these values by equality.  Also vectors / matrices over them.            *)
EXTENDS Naturals, Integers, Sequences, TLC

RECURSIVE Pow2(_)
Pow2(k) == IF k = 0 THEN 1 ELSE 2 * Pow2(k - 1)

RECURSIVE DNorm(_)
DNorm(d) == IF d[1] = 0 THEN <<0, 0>>
            ELSE IF d[2] > 0 /\ d[1] % 2 = 0 THEN DNorm(<<d[1] \div 2, d[2] - 1>>)
            ELSE d

D(n)       == <<n, 0>>                      \* integer n
DZero      == <<0, 0>>
DOne       == <<1, 0>>
DHalf      == <<1, 1>>
MaxN(a, b) == IF a > b THEN a ELSE b

DAdd(a, b) == IF a[2] = 0 /\ b[2] = 0 THEN <<a[1] + b[1], 0>>          \* fast path: integers
              ELSE IF a[1] = 0 THEN b ELSE IF b[1] = 0 THEN a
              ELSE LET e == MaxN(a[2], b[2]) IN
                   DNorm(<<a[1] * Pow2(e - a[2]) + b[1] * Pow2(e - b[2]), e>>)
DNeg(a)    == <<-a[1], a[2]>>
DSub(a, b) == DAdd(a, DNeg(b))
DMul(a, b) == IF a[1] = 0 \/ b[1] = 0 THEN <<0, 0>>
              ELSE IF a[2] = 0 /\ b[2] = 0 THEN <<a[1] * b[1], 0>>          \* fast path: integers
              ELSE DNorm(<<a[1] * b[1], a[2] + b[2]>>)
DDouble(a) == DMul(a, D(2))
DLess(a, b) == LET e == MaxN(a[2], b[2]) IN a[1] * Pow2(e - a[2]) < b[1] * Pow2(e - b[2])
DIsPos(a)  == a[1] > 0

\* exact inverse of +-2^k (the only invertible dyadics)
RECURSIVE Log2(_)
Log2(n) == IF n <= 1 THEN 0 ELSE 1 + Log2(n \div 2)
IsPow2D(a) == \/ (a[1] \in {1, -1})
              \/ (a[2] = 0 /\ a[1] # 0 /\ Pow2(Log2(IF a[1] < 0 THEN -a[1] ELSE a[1])) = (IF a[1] < 0 THEN -a[1] ELSE a[1]))
DInvPow2(a) == LET sg == IF a[1] < 0 THEN -1 ELSE 1
                   ab == sg * a[1] IN
               IF a[2] > 0 THEN <<sg * Pow2(a[2]), 0>>       \* a = +-1 * 2^-e
               ELSE DNorm(<<sg, Log2(ab)>>)                  \* a = +-2^k

\* ------------------------------------------------------------------ vectors and matrices
\* (function constructors are forced with TLCEval: TLC would otherwise keep them as lazy closures
\*  re-evaluated at every application, which makes nested vector code exponential)
VAdd(u, v)   == TLCEval([i \in DOMAIN u |-> DAdd(u[i], v[i])])
VSub(u, v)   == TLCEval([i \in DOMAIN u |-> DSub(u[i], v[i])])
VNeg(u)      == TLCEval([i \in DOMAIN u |-> DNeg(u[i])])
VScale(c, u) == TLCEval([i \in DOMAIN u |-> DMul(c, u[i])])
VZero(n)     == TLCEval([i \in 1..n |-> DZero])
RECURSIVE DSum(_, _)
DSum(f, n) == IF n = 0 THEN DZero ELSE DAdd(DSum(f, n - 1), f[n])
Dot(u, v)  == DSum(TLCEval([i \in DOMAIN u |-> DMul(u[i], v[i])]), Len(u))

Cross(u, v) == << DSub(DMul(u[2], v[3]), DMul(u[3], v[2])),
                  DSub(DMul(u[3], v[1]), DMul(u[1], v[3])),
                  DSub(DMul(u[1], v[2]), DMul(u[2], v[1])) >>

\* matrices are sequences of rows
MatVec(M, v)  == TLCEval([i \in DOMAIN M |-> Dot(M[i], v)])
Col(M, j)     == TLCEval([i \in DOMAIN M |-> M[i][j]])
MatMul(A, B)  == TLCEval([i \in DOMAIN A |-> [j \in DOMAIN B[1] |-> Dot(A[i], Col(B, j))]])
Transpose(A)  == TLCEval([j \in DOMAIN A[1] |-> [i \in DOMAIN A |-> A[i][j]]])
MatScale(c, A) == TLCEval([i \in DOMAIN A |-> VScale(c, A[i])])
MatAdd(A, B)  == TLCEval([i \in DOMAIN A |-> VAdd(A[i], B[i])])
Ident(n)      == TLCEval([i \in 1..n |-> [j \in 1..n |-> IF i = j THEN DOne ELSE DZero]])
Skew(v)       == << <<DZero, DNeg(v[3]), v[2]>>,
                    <<v[3], DZero, DNeg(v[1])>>,
                    <<DNeg(v[2]), v[1], DZero>> >>
Outer(u, v)   == TLCEval([i \in DOMAIN u |-> [j \in DOMAIN v |-> DMul(u[i], v[j])]])
================================================================================
